//! Implementation-side runner of the correspondence check.
//! Reads cases (one per line, tab separated; string fields hex encoded), runs svgdx
//! (library API and the verif hooks) and prints one result line per case.
use std::io::{BufRead, Write};
use std::panic;
use std::sync::mpsc;
use std::time::Duration;

use svgdx::verif;
use svgdx::TransformConfig;

fn unhex(s: &str) -> Vec<u8> {
    (0..s.len() / 2)
        .map(|i| u8::from_str_radix(&s[2 * i..2 * i + 2], 16).unwrap())
        .collect()
}
fn unhex_s(s: &str) -> String {
    String::from_utf8_lossy(&unhex(s)).into_owned()
}
fn hex(b: &[u8]) -> String {
    let mut s = String::with_capacity(b.len() * 2);
    for x in b {
        s.push_str(&format!("{:02x}", x));
    }
    s
}
fn parse_attrs(f: &str) -> Vec<(String, String)> {
    if f.is_empty() {
        return vec![];
    }
    f.split(',')
        .map(|kv| {
            let (k, v) = kv.split_once(':').unwrap();
            (unhex_s(k), unhex_s(v))
        })
        .collect()
}
fn show_attrs(a: &[(String, String)]) -> String {
    a.iter()
        .map(|(k, v)| format!("{}:{}", hex(k.as_bytes()), hex(v.as_bytes())))
        .collect::<Vec<_>>()
        .join(",")
}
fn parse_els(f: &str) -> Vec<(String, Vec<(String, String)>)> {
    if f.is_empty() {
        return vec![];
    }
    f.split(';')
        .map(|e| {
            let (n, a) = e.split_once('|').unwrap();
            (unhex_s(n), parse_attrs(a))
        })
        .collect()
}
fn parse_cfg(f: &str) -> TransformConfig {
    let mut c = TransformConfig::default();
    let s = unhex_s(f);
    for kv in s.split(';').filter(|x| !x.is_empty()) {
        let (k, v) = kv.split_once('=').unwrap();
        let v = unhex_s(v);
        match k {
            "debug" => c.debug = v == "true",
            "scale" => c.scale = v.parse().unwrap(),
            "border" => c.border = v.parse().unwrap(),
            "add_auto_styles" => c.add_auto_styles = v == "true",
            "background" => c.background = v,
            "seed" => c.seed = v.parse().unwrap(),
            "loop_limit" => c.loop_limit = v.parse().unwrap(),
            "var_limit" => c.var_limit = v.parse().unwrap(),
            "depth_limit" => c.depth_limit = v.parse().unwrap(),
            "add_metadata" => c.add_metadata = v == "true",
            "font_size" => c.font_size = v.parse().unwrap(),
            "font_family" => c.font_family = v,
            "theme" => c.theme = v.parse().unwrap(),
            "use_local_styles" => c.use_local_styles = v == "true",
            "svg_style" => c.svg_style = Some(v),
            _ => panic!("unknown config key {k}"),
        }
    }
    c
}
fn bb(b: (f32, f32, f32, f32)) -> String {
    format!(
        "{},{},{},{}",
        b.0.to_bits(),
        b.1.to_bits(),
        b.2.to_bits(),
        b.3.to_bits()
    )
}
fn canon_bits(x: f32) -> u32 {
    if x.is_nan() {
        0x7fc00000
    } else {
        x.to_bits()
    }
}
fn bbc(b: (f32, f32, f32, f32)) -> String {
    format!(
        "{},{},{},{}",
        canon_bits(b.0),
        canon_bits(b.1),
        canon_bits(b.2),
        canon_bits(b.3)
    )
}
fn strs(l: &[String]) -> String {
    l.iter()
        .map(|s| hex(s.as_bytes()))
        .collect::<Vec<_>>()
        .join(",")
}


// ---- C07 front-ends: the library entry points with everything a caller can observe
fn fe_err<E: std::fmt::Display + std::fmt::Debug>(e: &E) -> String {
    format!(
        "{}\t{}",
        hex(format!("{}", e).as_bytes()),
        hex(format!("{:?}", e).as_bytes())
    )
}
fn fe_stream(cfg: &TransformConfig, input: &[u8]) -> String {
    // transform_stream into a caller-provided writer: on failure the writer keeps what was written
    let mut rd = std::io::Cursor::new(input.to_vec());
    let mut out: Vec<u8> = vec![];
    match svgdx::transform_stream(&mut rd, &mut out, cfg) {
        Ok(()) => format!("OK\t{}", hex(&out)),
        Err(e) => format!("ERR\t{}\t{}", hex(&out), fe_err(&e)),
    }
}
fn fe_str(cfg: &TransformConfig, input: &[u8]) -> String {
    match svgdx::transform_str(String::from_utf8_lossy(input).into_owned(), cfg) {
        Ok(s) => format!("OK\t{}", hex(s.as_bytes())),
        Err(e) => format!("ERR\t\t{}", fe_err(&e)),
    }
}
/// transform_file between two files of this request's own (input written first, output read back afterwards)
fn fe_file(cfg: &TransformConfig, input: &[u8], idx: usize) -> String {
    let dir = std::env::temp_dir();
    let base = format!("svgdx-verif-{}-{}", std::process::id(), idx);
    let (pin, pout) = (dir.join(format!("{base}.in")), dir.join(format!("{base}.out")));
    let _ = std::fs::write(&pin, input);
    let _ = std::fs::remove_file(&pout);
    let r = svgdx::transform_file(pin.to_str().unwrap(), pout.to_str().unwrap(), cfg);
    let out = std::fs::read(&pout).ok();
    let _ = std::fs::remove_file(&pin);
    let _ = std::fs::remove_file(&pout);
    match (r, out) {
        (Ok(()), Some(o)) => format!("OK\t{}", hex(&o[..])),
        (Ok(()), None) => "ERR\t\tOK-without-output-file".to_owned(),
        (Err(e), _) => format!("ERR\t\t{}", fe_err(&e)),
    }
}
/// requests `kind:cfg:input` (kind s = transform_str, m = transform_stream, f = transform_file) run from `n` threads at once
fn fe_conc(n: usize, reqs: &str) -> String {
    let reqs: Vec<(char, TransformConfig, Vec<u8>)> = reqs
        .split(',')
        .filter(|x| !x.is_empty())
        .map(|r| {
            let p: Vec<&str> = r.split(':').collect();
            (p[0].chars().next().unwrap_or('s'), parse_cfg(p[1]), unhex(p[2]))
        })
        .collect();
    let reqs = std::sync::Arc::new(reqs);
    let next = std::sync::Arc::new(std::sync::atomic::AtomicUsize::new(0));
    let barrier = std::sync::Arc::new(std::sync::Barrier::new(n));
    let mut hs = vec![];
    for _ in 0..n {
        let (reqs, next, barrier) = (reqs.clone(), next.clone(), barrier.clone());
        hs.push(
            std::thread::Builder::new()
                .stack_size(16 * 1024 * 1024)
                .spawn(move || {
                    let mut got = vec![];
                    barrier.wait();
                    loop {
                        let i = next.fetch_add(1, std::sync::atomic::Ordering::SeqCst);
                        if i >= reqs.len() {
                            break;
                        }
                        let (kind, cfg, input) = &reqs[i];
                        let r = panic::catch_unwind(|| match *kind {
                            's' => fe_str(cfg, input),
                            'f' => fe_file(cfg, input, i),
                            _ => fe_stream(cfg, input),
                        })
                        .unwrap_or_else(|_| "PANIC".to_owned());
                        got.push((i, r));
                    }
                    got
                })
                .unwrap(),
        );
    }
    let mut all: Vec<(usize, String)> = hs.into_iter().flat_map(|h| h.join().unwrap()).collect();
    all.sort();
    format!(
        "OK\t{}",
        all.into_iter()
            .map(|(_, r)| r.replace('\t', ":"))
            .collect::<Vec<_>>()
            .join(";")
    )
}

fn handle(kind: &str, f: &[String]) -> String {
    match (kind, f.len()) {
        ("fstr", 1) => {
            let x = f32::from_bits(f[0].parse::<u32>().unwrap());
            format!("OK\t{}", hex(verif::fstr(x).as_bytes()))
        }
        ("fdisplay", 1) => {
            let x = f32::from_bits(f[0].parse::<u32>().unwrap());
            format!("OK\t{}", hex(format!("{}", x).as_bytes()))
        }
        ("strp", 1) => match verif::strp(&unhex_s(&f[0])) {
            Some(x) => format!("OK\t{}", canon_bits(x)),
            None => "NONE".to_owned(),
        },
        ("attrsplit", 1) => format!("OK\t{}", strs(&verif::attr_split(&unhex_s(&f[0])))),
        ("textstr", 1) => format!("OK\t{}", hex(verif::text_string(&unhex_s(&f[0])).as_bytes())),
        ("posbbox", 2) => match verif::position_bbox(&unhex_s(&f[0]), &parse_attrs(&f[1])) {
            Some(b) => format!("OK\t{}", bbc(b)),
            None => "NONE".to_owned(),
        },
        ("elbbox", 2) => match verif::element_bbox(&unhex_s(&f[0]), &parse_attrs(&f[1])) {
            Ok(Some(b)) => format!("OK\t{}", bbc(b)),
            Ok(None) => "OK\tnone".to_owned(),
            Err(k) => format!("ERR\t{k}"),
        },
        ("xfrm", 2) => {
            let v: Vec<u32> = f[1].split(',').map(|x| x.parse().unwrap()).collect();
            let b = (
                f32::from_bits(v[0]),
                f32::from_bits(v[1]),
                f32::from_bits(v[2]),
                f32::from_bits(v[3]),
            );
            match verif::transform_apply(&unhex_s(&f[0]), b) {
                Ok(b) => format!("OK\t{}", bbc(b)),
                Err(k) => format!("ERR\t{k}"),
            }
        }
        ("pathbearing", 1) => match verif::path_bearing(&unhex_s(&f[0])) {
            Ok(s) => format!("OK\t{}", hex(s.as_bytes())),
            Err(k) => format!("ERR\t{k}"),
        },
        ("resolve", 3) => {
            match verif::resolve_element(&unhex_s(&f[0]), &parse_attrs(&f[1]), &parse_els(&f[2])) {
                Ok(a) => format!("OK\t{}", show_attrs(&a)),
                Err(k) => format!("ERR\t{k}"),
            }
        }
        ("textattr", 2) => match verif::text_attr(&unhex_s(&f[0]), &parse_attrs(&f[1])) {
            Ok((orig, texts)) => format!(
                "OK\t{}\t{}",
                show_attrs(&orig),
                texts
                    .iter()
                    .map(|(n, a, c)| format!("{}|{}|{}", hex(n.as_bytes()), show_attrs(a), hex(c.as_bytes())))
                    .collect::<Vec<_>>()
                    .join(";")
            ),
            Err(k) => format!("ERR\t{k}"),
        },
        ("connect", 3) => {
            match verif::connect_element(&unhex_s(&f[0]), &parse_attrs(&f[1]), &parse_els(&f[2])) {
                Ok((n, a)) => format!("OK\t{}\t{}", hex(n.as_bytes()), show_attrs(&a)),
                Err(k) => format!("ERR\t{k}"),
            }
        }
        ("evalattr", 3) | ("rngattr", 3) => {
            let (r, w) = verif::eval_attr(
                &unhex_s(&f[0]),
                &parse_attrs(&f[1]),
                f[2].parse::<u64>().unwrap(),
            );
            match r {
                Ok(s) => format!("OK\t{}\t{}", hex(s.as_bytes()), w),
                Err(k) => format!("ERR\t{k}\t{w}"),
            }
        }
        ("evalcond", 2) => match verif::eval_condition(&unhex_s(&f[0]), &parse_attrs(&f[1])) {
            Ok(b) => format!("OK\t{}", b),
            Err(k) => format!("ERR\t{k}"),
        },
        ("evallist", 2) => match verif::eval_list(&unhex_s(&f[0]), &parse_attrs(&f[1])) {
            Ok(l) => format!("OK\t{}", strs(&l)),
            Err(k) => format!("ERR\t{k}"),
        },
        ("theme", 7) => {
            let classes: Vec<String> = f[0].split(',').filter(|x| !x.is_empty()).map(unhex_s).collect();
            let elements: Vec<String> = f[1].split(',').filter(|x| !x.is_empty()).map(unhex_s).collect();
            let lid = unhex_s(&f[6]);
            match verif::theme_build(
                &classes,
                &elements,
                &unhex_s(&f[2]),
                &unhex_s(&f[3]),
                unhex_s(&f[4]).parse::<f32>().unwrap(),
                &unhex_s(&f[5]),
                if lid.is_empty() { None } else { Some(lid.as_str()) },
            ) {
                Ok((defs, styles)) => format!("OK\t{}\t{}", strs(&defs), strs(&styles)),
                Err(k) => format!("ERR\t{k}"),
            }
        }
        ("doc", 2) => {
            let cfg = parse_cfg(&f[0]);
            match svgdx::transform_str(unhex_s(&f[1]), &cfg) {
                Ok(s) => format!("OK\t{}", hex(s.as_bytes())),
                Err(e) => format!("ERR\t{}", verif::errkinds(&e).join(",")),
            }
        }
        ("docfull", 2) => {
            // like "doc", but failures carry the error's Display and Debug text (C06: error text is part of the result)
            let cfg = parse_cfg(&f[0]);
            match svgdx::transform_str(unhex_s(&f[1]), &cfg) {
                Ok(s) => format!("OK\t{}", hex(s.as_bytes())),
                Err(e) => format!(
                    "ERR\t{}\t{}",
                    hex(format!("{}", e).as_bytes()),
                    hex(format!("{:?}", e).as_bytes())
                ),
            }
        }
        ("rootattrs", 6) => {
            // attrs, bbox ("none" or four bit patterns), border, scale bits, local id, svg style ("-" = none)
            let bbx = if f[1] == "none" {
                None
            } else {
                let v: Vec<u32> = f[1].split(',').map(|x| x.parse().unwrap()).collect();
                Some((
                    f32::from_bits(v[0]),
                    f32::from_bits(v[1]),
                    f32::from_bits(v[2]),
                    f32::from_bits(v[3]),
                ))
            };
            let lid = if f[4] == "-" { None } else { Some(unhex_s(&f[4])) };
            let sty = if f[5] == "-" { None } else { Some(unhex_s(&f[5])) };
            match verif::root_attrs(
                &parse_attrs(&f[0]),
                bbx,
                f[2].parse::<u16>().unwrap(),
                f32::from_bits(f[3].parse::<u32>().unwrap()),
                lid.as_deref(),
                sty.as_deref(),
            ) {
                Ok(s) => format!("OK\t{}", hex(s.as_bytes())),
                Err(k) => format!("ERR\t{k}"),
            }
        }
        ("docextent", 2) => {
            let cfg = parse_cfg(&f[0]);
            match verif::doc_extent(&unhex_s(&f[1]), &cfg) {
                Ok(Some(b)) => format!("OK\t{}", bbc(b)),
                Ok(None) => "OK\tnone".to_owned(),
                Err(k) => format!("ERR\t{}", k.join(",")),
            }
        }
        ("docbytes", 2) => {
            // raw bytes through transform_stream (may be non-UTF-8)
            let cfg = parse_cfg(&f[0]);
            let mut input = std::io::Cursor::new(unhex(&f[1]));
            let mut out: Vec<u8> = vec![];
            match svgdx::transform_stream(&mut input, &mut out, &cfg) {
                Ok(()) => format!("OK\t{}", hex(&out)),
                Err(e) => format!("ERR\t{}", verif::errkinds(&e).join(",")),
            }
        }
        ("probe", 2) => {
            let cfg = parse_cfg(&f[0]);
            let (r, p) = verif::transform_probe(&unhex_s(&f[1]), &cfg);
            let ps = format!("{},{},{},{}", p.0, p.1, p.2, p.3);
            match r {
                Ok(s) => format!("OK\t{}\t{}", hex(s.as_bytes()), ps),
                Err(k) => format!("ERR\t{}\t{}", k.join(","), ps),
            }
        }
        ("fe_str", 2) => fe_str(&parse_cfg(&f[0]), &unhex(&f[1])),
        ("fe_stream", 2) => fe_stream(&parse_cfg(&f[0]), &unhex(&f[1])),
        ("fe_conc", 2) => fe_conc(f[0].parse::<usize>().unwrap(), &f[1]),
        _ => "SKIP".to_owned(),
    }
}

fn main() {
    let args: Vec<String> = std::env::args().collect();
    let timeout_ms: u64 = args.get(1).map(|s| s.parse().unwrap()).unwrap_or(10000);
    panic::set_hook(Box::new(|_| {}));
    let stdin = std::io::stdin();
    let stdout = std::io::stdout();
    let _ = bb;
    for line in stdin.lock().lines() {
        let line = line.unwrap();
        let mut parts = line.split('\t');
        let id = parts.next().unwrap_or("").to_owned();
        let kind = parts.next().unwrap_or("").to_owned();
        let fields: Vec<String> = parts.map(|s| s.to_owned()).collect();
        let (tx, rx) = mpsc::channel();
        let builder = std::thread::Builder::new().stack_size(64 * 1024 * 1024);
        let _ = builder.spawn(move || {
            let r = panic::catch_unwind(|| handle(&kind, &fields));
            let _ = tx.send(match r {
                Ok(s) => s,
                Err(_) => "PANIC".to_owned(),
            });
        });
        let out = match rx.recv_timeout(Duration::from_millis(timeout_ms)) {
            Ok(s) => s,
            Err(_) => "TIMEOUT".to_owned(),
        };
        let mut o = stdout.lock();
        writeln!(o, "{}\t{}", id, out).unwrap();
    }
    std::process::exit(0);
}
