"""Random shapes and relative-position specs shared by the geometry properties (C08-C13)."""
from fractions import Fraction as F


def fmt(v):
    v = float(v)
    s = ('%.4f' % v).rstrip('0').rstrip('.')
    return '0' if s in ('-0', '') else s


def dy(rng, lo, hi, den=8):
    """dyadic number in [lo, hi]"""
    return F(rng.range(lo * den, hi * den), den)


def rand_shape(rng, sid, kinds=('rect', 'circle', 'ellipse', 'line', 'box')):
    """returns (name, attrs, bbox) with native attributes and exactly representable numbers"""
    k = rng.choice(list(kinds))
    x1 = dy(rng, -20, 40); y1 = dy(rng, -20, 40); w = dy(rng, 1, 30, 4); h = dy(rng, 1, 30, 4)
    a = [('id', sid)] if sid else []
    if k in ('rect', 'box'):
        a += [('x', fmt(x1)), ('y', fmt(y1)), ('width', fmt(w)), ('height', fmt(h))]
        bb = (x1, y1, x1 + w, y1 + h)
    elif k == 'circle':
        r = w / 2
        a += [('cx', fmt(x1 + r)), ('cy', fmt(y1 + r)), ('r', fmt(r))]
        bb = (x1, y1, x1 + w, y1 + w)
    elif k == 'ellipse':
        a += [('cx', fmt(x1 + w / 2)), ('cy', fmt(y1 + h / 2)), ('rx', fmt(w / 2)), ('ry', fmt(h / 2))]
        bb = (x1, y1, x1 + w, y1 + h)
    elif k == 'line':
        if rng.chance(0.5):
            a += [('x1', fmt(x1)), ('y1', fmt(y1)), ('x2', fmt(x1 + w)), ('y2', fmt(y1 + h))]
        else:
            a += [('x1', fmt(x1 + w)), ('y1', fmt(y1)), ('x2', fmt(x1)), ('y2', fmt(y1 + h))]
        bb = (x1, y1, x1 + w, y1 + h)
    elif k == 'point':
        a += [('x', fmt(x1)), ('y', fmt(y1))]
        bb = (x1, y1, x1, y1)
    return k, a, bb


LOCS = {'tl': (0, 0), 't': (F(1, 2), 0), 'tr': (1, 0), 'r': (1, F(1, 2)), 'br': (1, 1), 'b': (F(1, 2), 1),
        'bl': (0, 1), 'l': (0, F(1, 2)), 'c': (F(1, 2), F(1, 2))}


def calc_offset(kind, val, s, e):
    """Length::calc_offset spec: positive from start, negative from end, ratio linear"""
    if kind == 'pct':
        return s + (e - s) * val / 100
    if val < 0:
        return e + val
    return s + val


def loc_point(bb, loc):
    """independent statement of a location on a box: named locations or edge:offset"""
    x1, y1, x2, y2 = bb
    if loc in LOCS:
        fx, fy = LOCS[loc]
        return (x1 + (x2 - x1) * fx, y1 + (y2 - y1) * fy)
    edge, _, off = loc.partition(':')
    if off.endswith('%'):
        kind, val = 'pct', F(off[:-1])
    else:
        kind, val = 'abs', F(off)
    if edge == 't':
        return (calc_offset(kind, val, x1, x2), y1)
    if edge == 'b':
        return (calc_offset(kind, val, x1, x2), y2)
    if edge == 'l':
        return (x1, calc_offset(kind, val, y1, y2))
    if edge == 'r':
        return (x2, calc_offset(kind, val, y1, y2))


def rand_loc(rng):
    if rng.chance(0.6):
        return rng.choice(list(LOCS))
    e = rng.choice('trbl')
    if rng.chance(0.5):
        return '%s:%s%%' % (e, rng.choice(['0', '25', '50', '100', '150', '-10', '12.5']))
    return '%s:%s' % (e, fmt(dy(rng, -6, 6, 2)))


def bbox_of(name, attrs):
    """bounding box from native output attributes (floats)"""
    d = dict(attrs)
    try:
        if name in ('rect', 'box', 'image'):
            x = float(d.get('x', 0)); y = float(d.get('y', 0))
            return (x, y, x + float(d['width']), y + float(d['height']))
        if name == 'circle':
            cx = float(d.get('cx', 0)); cy = float(d.get('cy', 0)); r = float(d['r'])
            return (cx - r, cy - r, cx + r, cy + r)
        if name == 'ellipse':
            cx = float(d.get('cx', 0)); cy = float(d.get('cy', 0)); rx = float(d['rx']); ry = float(d['ry'])
            return (cx - rx, cy - ry, cx + rx, cy + ry)
        if name == 'line':
            xa = float(d.get('x1', 0)); ya = float(d.get('y1', 0)); xb = float(d.get('x2', 0)); yb = float(d.get('y2', 0))
            return (min(xa, xb), min(ya, yb), max(xa, xb), max(ya, yb))
        if name in ('text', 'point'):
            x = float(d.get('x', 0)); y = float(d.get('y', 0))
            return (x, y, x, y)
        if name in ('polyline', 'polygon'):
            v = [float(t) for t in d['points'].replace(',', ' ').split()]
            return (min(v[0::2]), min(v[1::2]), max(v[0::2]), max(v[1::2]))
    except (KeyError, ValueError):
        return None
    return None


def close(a, b, tol=0.0011):
    return a is not None and b is not None and all(abs(float(x) - float(y)) <= tol for x, y in zip(a, b))
