#!/usr/bin/env python3
"""Regenerate the one-step unfolding equations <fn>_S of the mutual block of Model/Pipeline.v inside
Proofs/PipelineP.v. cbn on a mutual fixpoint exposes the raw fix, so the proofs rewrite with equations whose
right-hand side is the body text itself; each is closed by reflexivity, i.e. checked by the kernel."""
import re, os, sys
COQ = os.path.join(os.path.dirname(os.path.abspath(__file__)), '..', 'coq')
BEGIN = '(* ---- one-step unfolding equations of the mutual block (text generated from Model/Pipeline.v) ---- *)\n'
END = 'Definition scopes_rel'


def strip_comments(s):
    out = []; depth = 0; i = 0
    while i < len(s):
        if s.startswith('(*', i): depth += 1; i += 2; continue
        if s.startswith('*)', i) and depth: depth -= 1; i += 2; continue
        if not depth: out.append(s[i])
        i += 1
    return ''.join(out)


def equations():
    src = open(os.path.join(COQ, 'Model', 'Pipeline.v'), encoding='utf-8').read()
    a = src.index('Fixpoint gen (fuel : nat)'); b = src.index('End Pipeline.')
    block = strip_comments(src[a:b]).rstrip()
    assert block.endswith('end.'), block[-40:]
    block = block[:-1]
    parts = re.split(r'\n(?=with \w+ \(fuel : nat\))', block)
    out = []
    for p in parts:
        m = re.match(r'(?:Fixpoint|with) (\w+) \(fuel : nat\) (.*?)\s*\{struct fuel\} : (.*?) :=\n\s*match fuel with O => .*? \| S f =>\n(.*)\bend\s*$', p, re.S)
        assert m, p[:200]
        name, params, _ty, body = m.groups()
        params = ' '.join(params.split())
        args = ' '.join(x for grp in re.findall(r'\(([^:()]+):', params) for x in grp.split())
        body = body.rstrip()
        out.append('Lemma %s_S f %s :\n  %s (S f) %s =\n  (%s).\nProof. reflexivity. Qed.\n' % (name, params, name, args, body.lstrip(' ')))
    return '\n'.join(out) + '\n'


def main():
    p = os.path.join(COQ, 'Proofs', 'PipelineP.v')
    s = open(p, encoding='utf-8').read()
    a = s.index(BEGIN) + len(BEGIN); b = s.index(END)
    new = s[:a] + equations() + s[b:]
    if new != s:
        open(p, 'w', encoding='utf-8').write(new); print('PipelineP.v: equations regenerated')
    else:
        print('PipelineP.v: equations up to date')


if __name__ == '__main__':
    main()
