#!/usr/bin/env python3
"""Development tool: for every confirmed seeded change (scratch directories given on the command line, each holding patch.diff,
demo_*.rs, meta.json and confirm.json written by seedcheck.py confirm) run the property's quick check against it (patch applied to
/repo, undone straight afterwards) and store the change with what was observed under /verif/seeded/<id>_<mN>/."""
import sys, os, json, glob, shutil, subprocess
VERIF = os.path.dirname(os.path.dirname(os.path.abspath(__file__)))


def main(dirs, tier='quick'):
    for d in dirs:
        d = d.rstrip('/')
        if not os.path.exists(os.path.join(d, 'patch.diff')):
            continue
        meta = json.load(open(os.path.join(d, 'meta.json')))
        pid = meta['property']; mn = os.path.basename(d)
        out = os.path.join(VERIF, 'seeded', '%s_%s' % (pid, mn))
        cj = os.path.join(d, 'confirm.json')
        conf = json.load(open(cj)) if os.path.exists(cj) else {'confirmed': False}
        if not conf.get('confirmed'):
            print(pid, mn, 'not confirmed: skipped'); continue
        p = subprocess.run([sys.executable, os.path.join(VERIF, 'tools', 'seedcheck.py'), 'run', d, tier, pid], stdout=subprocess.PIPE, stderr=subprocess.STDOUT)
        txt = p.stdout.decode('utf-8', 'replace')
        i = txt.find('{\n')
        try:
            res = json.loads(txt[i:])
        except Exception:
            res = {'applied': False, 'raw': txt[-500:]}
        run = (res.get('runs') or [{}])[0]
        vio = run.get('violation') or []
        if not res.get('applied'):
            kind = 'patch-does-not-apply'
        elif not vio:
            kind = 'missed'
        elif vio[0].rstrip().endswith('no-failing-input-found'):
            kind = 'reported: tie broken, no-failing-input-found'
        else:
            kind = 'reported with a failing input'
        first = [l for l in run.get('tail', []) if l.startswith(pid + ':')]
        os.makedirs(out, exist_ok=True)
        shutil.copy(os.path.join(d, 'patch.diff'), out)
        for f in glob.glob(os.path.join(d, 'demo*.rs')):
            shutil.copy(f, out)
        meta2 = dict(meta)
        meta2['breaks'] = pid
        meta2['confirmed'] = {'on_commit': subprocess.check_output(['git', '-C', '/repo', 'rev-parse', '--short', 'HEAD']).decode().strip(),
                              'suite_passes_with_change': conf.get('suite_passes_with_change'), 'demos': conf.get('demos'),
                              'how': 'tools/seedcheck.py confirm (scratch worktree: patch applies, cargo test --workspace passes with it, the demo fails with it and passes without it)'}
        meta2['detection'] = {'command': 'python3 check.py %s --tier %s  (patch applied to /repo with git apply, undone with git checkout -- .)' % (pid, tier),
                              'exit': run.get('exit'), 'violation_line': vio[0] if vio else None, 'verdict': kind,
                              'first_message': (first[0][:600] if first else None), 'wall_s': run.get('wall_s')}
        json.dump(meta2, open(os.path.join(out, 'meta.json'), 'w'), indent=1)
        print(pid, mn, kind, run.get('wall_s'))


if __name__ == '__main__':
    main(sys.argv[1:])
