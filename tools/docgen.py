"""Generator of svgdx-mode documents exercising every output-producing feature with a rich alphabet
(shared by C02, C05, C19). Documents are mostly valid so that the transform succeeds."""
import xmlgen
from xmlcanon import esc_attr, esc_text

RICH = ['&', '<', '>', '"', "'", ']]>', '--', '---', '-', 'é', '中', '\U0001F600', ' ', ';', '&amp;', '&lt;', '%', '/', '=',
        '?>', '<!--', '-->', '#', '(', ')', '{', '}', '*', '+', ',', '.', ':', '@', '!', '~', '|', '_', '[', ']']
WORDS = ['hello', 'world', 'a', 'b', 'x1', 'Text', '42', '3.5', 'multi word', 'AT&T', 'a<b', 'q"q', "it's", 'a[i[0]]>0', ']]>', 'a -> b', 'x <- y', 'a ->- b', '-<-', '->->-']
COLOURS = ['red', 'blue', 'green', 'none', '#fff', 'rgb(1,2,3)']
CLASSES = ['d-red', 'd-fill-blue', 'd-text-bigger', 'd-thick', 'd-dash', 'd-arrow', 'd-softshadow', 'd-text-bold', 'd-grid-5', 'd-stripe-10',
           'mine', 'x-y', 'd-text-italic', 'd-surround', 'd-flow', 'd-text-pre', 'R&D', 'a<b', 'q"q']
CFG_KEYS = [('debug', [True, False]), ('add_metadata', [True, False]), ('theme', ['default', 'bold', 'fine', 'glass', 'light', 'dark']),
            ('border', [0, 5, 12]), ('scale', [0.5, 1.0, 2.5]), ('add_auto_styles', [True, False]),
            ('background', ['default', 'red', '#fff', 'a"b<c', "x'y&z"]),
            ('font_size', [3.0, 5.5]), ('font_family', ['sans-serif', 'a"b', 'A & B', "it's <x>", 'var(--doc-font), serif']), ('use_local_styles', [True, False]),
            ('seed', [0, 7]), ('svg_style', ['background: #eee', 'a:"b"', 'x<y&z', '--accent: #f80', 'x: -->'])]


def rand_cfg(rng, p=0.3, local_styles=True):
    cfg = {}
    for k, vals in CFG_KEYS:
        if k == 'use_local_styles' and not local_styles:
            continue
        if rng.chance(p):
            cfg[k] = rng.choice(vals)
    return cfg


def rich_text(rng, n=None, safe_for_expr=True):
    """plain author text (before XML escaping); avoids '$' and '{{' so that it is inert for the evaluator"""
    n = rng.range(1, 4) if n is None else n
    parts = []
    for _ in range(n):
        parts.append(rng.choice(RICH) if rng.chance(0.4) else rng.choice(WORDS))
    t = rng.choice(['', ' ']).join(parts)
    return t


def shape(rng, i, ids):
    k = rng.choice(['rect', 'rect', 'circle', 'ellipse', 'line'])
    a = []
    if rng.chance(0.6):
        a.append(('id', 'e%d' % i)); ids.append('e%d' % i)
    if k == 'rect':
        a += [('xy', '%d %d' % (rng.range(-20, 60), rng.range(-20, 60))), ('wh', '%d %d' % (rng.range(2, 30), rng.range(2, 30)))]
    elif k == 'circle':
        a += [('cxy', '%d %d' % (rng.range(-20, 60), rng.range(-20, 60))), ('r', str(rng.range(1, 15)))]
    elif k == 'ellipse':
        a += [('cxy', '%d %d' % (rng.range(-20, 60), rng.range(-20, 60))), ('rxy', '%d %d' % (rng.range(1, 15), rng.range(1, 15)))]
    else:
        a += [('xy1', '%d %d' % (rng.range(-20, 60), rng.range(-20, 60))), ('xy2', '%d %d' % (rng.range(-20, 60), rng.range(-20, 60)))]
    if rng.chance(0.4):
        a.append(('class', ' '.join(rng.sample(CLASSES, rng.range(1, 3)))))
    if rng.chance(0.3):
        a.append((rng.choice(['fill', 'stroke']), rng.choice(COLOURS)))
    if rng.chance(0.3):
        a.append((rng.choice(['data-x', 'aria-label', 'title', 'style']), rich_text(rng)))
    if rng.chance(0.2):
        a.append(('_', rich_text(rng)))
    if rng.chance(0.1):
        a.append(('__', rich_text(rng)))
    return k, a


def gen_doc(rng, root_attrs=None, text_heavy=False):
    """returns the document source"""
    ids = []
    parts = []
    n = rng.range(1, 6)
    for i in range(n):
        r = rng.below(12)
        if r < 5 or text_heavy:
            k, a = shape(rng, i, ids)
            content = None
            tform = rng.below(4)
            if tform == 0 or (text_heavy and tform < 2):
                t = rich_text(rng)
                if rng.chance(0.3):
                    t += rng.choice(['\\n', '\n']) + rich_text(rng)
                a.append(('text', t))
            elif tform == 1:
                t = rich_text(rng)
                content = esc_text(t) if rng.chance(0.8) else '<![CDATA[' + t.replace(']]>', ']] >') + ']]>'
            if rng.chance(0.2) and any(x[0] == 'text' for x in a):
                a.append(('text-loc', rng.choice(['t', 'tl', 'br', 'r', 'c', 'b:25%', 'l:3'])))
            rng.shuffle(a)
            parts.append(xmlgen_el(k, a, content))
        elif r < 6:
            t = rich_text(rng)
            parts.append('<text xy="%d %d"%s>%s</text>' % (rng.range(0, 50), rng.range(0, 50), rng.choice(['', ' class="d-text-bold"']), esc_text(t)))
        elif r < 7:
            v = rich_text(rng)
            parts.append('<var v%d="%s"/>' % (i, esc_attr(v)))
            parts.append('<rect xy="%d 0" wh="9 4" text="[$v%d]" data-v="${v%d}"/>' % (i * 11, i, i))
        elif r < 8:
            inner = ''.join(xmlgen_el(*shape(rng, 100 + i * 10 + j, ids)) for j in range(rng.range(1, 3)))
            if rng.chance(0.3):      # a class given through a variable, possibly one the element already carries
                cl = rng.sample(CLASSES[:12], 2)
                parts.append('<var hl%d="%s"/>' % (i, rng.choice([cl[0], cl[1], 'other'])))
                nm = rng.choice(['g', 'g', 'defs', 'a'])
                parts.append('<%s class="%s $hl%d %s">%s</%s>' % (nm, cl[0], i, cl[1], inner, nm))
            else:
                parts.append('<g%s>%s</g>' % (rng.choice(['', ' class="grp"', ' transform="translate(5 6)"', ' id="g%d"' % i]), inner))
        elif r < 9 and rng.chance(0.5):
            # escaped character data next to child elements (mixed content), inside text and inside a group
            parts.append(rng.choice(['<text xy="%d 5">Tom &amp; <tspan>Jerry</tspan> &lt;3</text>' % rng.range(0, 30),
                                     '<g>lead &amp; in<rect wh="2"/>tail &lt; end</g>', '<a>x &gt; y<circle r="1"/>&amp;amp;</a>']))
        elif r < 9:
            parts.append('<!--' + rich_text(rng).replace('--', '- -').rstrip('-') + '-->')
        elif r < 10:
            parts.append(rng.choice(['<style>.mine { fill: red; } a > b { x: "y" }</style>', '<style><![CDATA[ .x > .y { fill: "a&b" } ]]></style>',
                                     '<defs><linearGradient id="lg"><stop offset="0" stop-color="red"/></linearGradient></defs>',
                                     '<title>%s</title>' % esc_text(rich_text(rng)), '<desc>%s</desc>' % esc_text(rich_text(rng))]))
        elif r < 11 and ids:
            parts.append('<line start="#%s" end="#%s"%s/>' % (rng.choice(ids), rng.choice(ids), rng.choice(['', ' class="d-arrow"', ' text="%s"' % esc_attr(rich_text(rng))])))
        else:
            parts.append('<rect xy="{{%d + %d}} 3" wh="{{2 * %d}}" text="{{%d * 2}} %s"/>' % (rng.range(0, 9), rng.range(0, 9), rng.range(1, 9), rng.range(0, 50), esc_attr(rich_text(rng))))
    sep = rng.choice(['', '\n', '\n  '])
    ra = root_attrs if root_attrs is not None else rng.choice(['', '', ' width="200"', ' viewBox="0 0 100 100"', ' class="root"', ' id="top" data-x="%s"' % esc_attr(rich_text(rng)),
                                                                ' xmlns:xlink="http://www.w3.org/1999/xlink"', ' version="1.1"', ' height="5cm"'])
    return '<svg%s>%s%s%s</svg>' % (ra, sep, sep.join(parts), sep[:1])


def esc_attr_min(v):
    """the least escaping XML asks for inside double quotes: '>' and the apostrophe stay as they are"""
    return v.replace('&', '&amp;').replace('<', '&lt;').replace('"', '&quot;')


def xmlgen_el(name, attrs, content=None):
    # both spellings of an attribute value occur (chosen by the value itself, so that documents stay a function of the seed)
    a = ''.join(' %s="%s"' % (k, esc_attr_min(v) if len(v) % 3 == 0 else esc_attr(v)) for k, v in attrs)
    if content is None:
        return '<%s%s/>' % (name, a)
    return '<%s%s>%s</%s>' % (name, a, content, name)
