#!/usr/bin/env python3
"""Development tool (not a registered check): confirm a seeded change and run the checks against it.
  seedcheck.py confirm <dir>     dir holds patch.diff, demo_*.rs, meta.json. In a scratch worktree (outside /repo and
                                 /verif): the patch applies, the whole suite passes with it, the demo fails with it
                                 and passes without it.
  seedcheck.py run <dir> [tier]  apply the patch to /repo, run the property's check, undo it straight afterwards.
"""
import sys, os, json, subprocess, glob, shutil, time
WT = '/tmp/seedwt'
ENV = dict(os.environ, CARGO_NET_OFFLINE='true', CARGO_TARGET_DIR=WT + '_target')


def sh(cmd, cwd=None, timeout=3600):
    p = subprocess.run(cmd, cwd=cwd, env=ENV, stdout=subprocess.PIPE, stderr=subprocess.STDOUT, timeout=timeout)
    return p.returncode, p.stdout.decode('utf-8', 'replace')


def confirm(d):
    meta = json.load(open(os.path.join(d, 'meta.json')))
    if not os.path.exists(WT):
        sh(['git', '-C', '/repo', 'worktree', 'add', '--detach', WT, 'HEAD'])
    sh(['git', 'checkout', '--', '.'], cwd=WT); sh(['git', 'clean', '-fdq', 'tests', 'src'], cwd=WT)
    sh(['git', 'checkout', '--detach', subprocess.check_output(['git', '-C', '/repo', 'rev-parse', 'HEAD']).decode().strip()], cwd=WT)
    demos = glob.glob(os.path.join(d, 'demo*.rs'))
    out = {'dir': d}
    rc, o = sh(['git', 'apply', os.path.join(d, 'patch.diff')], cwd=WT)
    out['applies'] = rc == 0
    if rc != 0:
        print(o); return out
    rc, o = sh(['cargo', 'test', '--workspace', '--no-fail-fast', '--offline', '-j8'], cwd=WT)
    out['suite_passes_with_change'] = rc == 0
    if rc != 0:
        print(o[-3000:])
    for dm in demos:
        shutil.copy(dm, os.path.join(WT, 'tests'))
    names = [os.path.basename(x)[:-3] for x in demos]
    res = {}
    for n in names:
        rc, o = sh(['cargo', 'test', '--offline', '-j8', '--test', n], cwd=WT)
        res[n] = {'fails_with_change': rc != 0}
    sh(['git', 'apply', '-R', os.path.join(d, 'patch.diff')], cwd=WT)
    for n in names:
        rc, o = sh(['cargo', 'test', '--offline', '-j8', '--test', n], cwd=WT)
        res[n]['passes_without_change'] = rc == 0
        if rc != 0:
            print(o[-2000:])
    out['demos'] = res
    for dm in demos:
        os.remove(os.path.join(WT, 'tests', os.path.basename(dm)))
    out['confirmed'] = bool(out['applies'] and out['suite_passes_with_change'] and res and
                            all(v['fails_with_change'] and v.get('passes_without_change') for v in res.values()))
    return out


def run(d, tier='quick', pid=None, seeds=(0,)):
    meta = json.load(open(os.path.join(d, 'meta.json')))
    pid = pid or meta['property']
    rc, o = sh(['git', '-C', '/repo', 'status', '--porcelain', '--untracked-files=no'])
    if o.strip():
        print('refusing: /repo has local changes:\n' + o); sys.exit(2)
    rc, o = sh(['git', '-C', '/repo', 'apply', os.path.join(d, 'patch.diff')])
    if rc != 0:
        print('patch does not apply to /repo:', o); return {'applied': False}
    res = []
    try:
        for s in seeds:
            t0 = time.time()
            env = dict(os.environ, VERIF_SEED=str(s))
            p = subprocess.run([sys.executable, 'check.py', pid, '--tier', tier], cwd='/verif', env=env,
                               stdout=subprocess.PIPE, stderr=subprocess.STDOUT)
            txt = p.stdout.decode('utf-8', 'replace')
            vio = [l for l in txt.split('\n') if l.startswith('VIOLATION')]
            res.append({'seed': s, 'exit': p.returncode, 'violation': vio, 'tail': txt.strip().split('\n')[-6:], 'wall_s': round(time.time() - t0, 1)})
    finally:
        sh(['git', '-C', '/repo', 'checkout', '--', '.'])
    return {'applied': True, 'property': pid, 'tier': tier, 'runs': res}


if __name__ == '__main__':
    cmd, d = sys.argv[1], sys.argv[2].rstrip('/')
    if cmd == 'confirm':
        print(json.dumps(confirm(d), indent=1))
    elif cmd == 'run':
        tier = sys.argv[3] if len(sys.argv) > 3 else 'quick'
        pid = sys.argv[4] if len(sys.argv) > 4 else None
        print(json.dumps(run(d, tier, pid), indent=1))
