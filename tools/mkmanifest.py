#!/usr/bin/env python3
"""Regenerates MANIFEST.json from the table below (claimed checks) - everything else is not_applicable."""
import json, os
V = os.path.dirname(os.path.dirname(os.path.abspath(__file__)))
LEVEL_TEXT = ('Coq theorems over an executable Gallina model of the code (all inputs), model tied to /repo on every run by a '
              'regenerated table translator and a correspondence check of the extracted model against the implementation; '
              'a direct oracle searches for failing inputs')
NOTE = ('trusted: Coq kernel, gen_tables.py, extraction (ExtrOcamlBasic/String), OCaml driver, Rust harness + verif hooks; '
        'model is a hand transcription validated by correspondence')
# id -> (technique, extra level note, partial text or None)
CLAIMED = {}
NA = {}
exec(open(os.path.join(V, 'tools', 'claims.py')).read())
ids = ['C%02d' % i for i in range(1, 21)]
checks = []
for i in ids:
    if i in CLAIMED:
        tech, note, text = CLAIMED[i]
        checks.append({
            'property_id': i, 'quick_cmd': 'python3 check.py %s --tier quick' % i,
            'thorough_cmd': 'python3 check.py %s --tier thorough' % i,
            'evidence_file': 'evidence/%s.json' % i, 'replay_cmd_template': 'python3 check.py %s --replay {path}' % i,
            'engine': 'coq-model+correspondence',
            'level_claimed': {'category': 'proof', 'text': text or LEVEL_TEXT, 'design_ref': 'DESIGN.md section 7 ' + i + ' (plan) and section 12.3 (as built)'},
            'level_note': NOTE + ('; ' + note if note else ''), 'technique': tech})
m = {
    'version': 1, 'setup_cmd': 'python3 check.py --setup',
    'hooks': {'guard': 'cargo feature verif-hooks',
              'enable': '--features verif-hooks (harness/Cargo.toml depends on /repo with this feature and with the cli feature of the crate)',
              'baseline_off_cmd': 'cd /repo && cargo test --workspace --no-fail-fast --offline',
              'source_commits': HOOK_COMMITS, 'add_only': True},
    'engines': [{'name': 'coq-model+correspondence', 'path': 'check.py', 'serves_properties': sorted(CLAIMED),
                 'kind_free_text': 'Coq 8.16 proofs over a Gallina model; translator + extraction-based differential correspondence; Python oracles'}],
    'checks': checks,
    'not_applicable': [{'property_id': i, 'reason': NA.get(i, 'check under construction (not yet registered); planned at proof level, see DESIGN.md section 7')}
                       for i in ids if i not in CLAIMED],
    'notes': 'fix commits in /repo: see known_findings.txt (fixed: entries)'}
json.dump(m, open(os.path.join(V, 'MANIFEST.json'), 'w'), indent=1)
print('claimed', sorted(CLAIMED))
