"""Grammar-based generator of svgdx documents for the whole-document correspondence (tools/doccorr.py): every feature of the
composed model (Model/Svgdx.v), combined freely, with boundary values. Nothing here knows what the right output is - the Coq model
of the unchanged semantics is the reference - so the generator is free to produce documents that fail."""

LOCS = ['tl', 't', 'tr', 'r', 'br', 'b', 'bl', 'l', 'c', 't:0', 't:25%', 'b:0', 'b:3', 'l:0%', 'r:100%', 'r:-2', 'l:1.5', 't:-25%']
SCALARS = ['x', 'y', 'x1', 'y1', 'x2', 'y2', 'cx', 'cy', 'w', 'h', 'rx', 'ry', 'width', 'height', 't', 'b', 'l', 'r']
TEXTCLS = ['d-text-bold', 'd-text-vertical', 'd-text-outside', 'd-text-inside', 'd-text-pre', 'd-text-bigger', 'd-text-italic']
WORDS = ['hi', 'label', 'A b', 'x<y', 'a&b', 'two\\nlines', 'q"q', "it's", ' lead', 'trail ', '', '3', 'a,b', ']]>', '-- x', 'é']


class Gen:
    def __init__(self, rng, emphasis=()):
        self.r = rng; self.ids = []; self.later = []; self.vars = []; self.tpls = []; self.n = 0; self.emph = set(emphasis)
        self.depth = 0

    def nid(self, p='e'):
        self.n += 1
        if p == 'e' and self.r.chance(0.06):
            return '%s%d' % (self.r.choice(['gr\u00f6\u00dfe', 'b\u00e9', '\u03b1']), self.n)      # ids in other scripts
        return '%s%d' % (p, self.n)

    def num(self, lo=-20, hi=60):
        r = self.r
        k = r.below(10)
        if k < 6: return str(r.range(lo, hi))
        if k < 8: return '%g' % (r.range(lo * 4, hi * 4) / 4.0)
        if k < 9 and self.vars: return '$' + r.choice(self.vars)
        return '{{%s}}' % self.expr(2)

    def pos_num(self, lo=1, hi=30):
        r = self.r
        k = r.below(10)
        if k < 7: return str(r.range(lo, hi))
        if k < 9: return '%g' % (r.range(lo * 4, hi * 4) / 4.0)
        return '{{%d + %d}}' % (r.range(0, 5), r.range(lo, hi))

    def expr(self, d):
        r = self.r
        if d <= 0 or r.chance(0.35):
            k = r.below(10)
            if k < 5: return str(r.range(0, 20))
            if k < 6: return '%g' % (r.range(0, 80) / 8.0)
            if k < 8 and self.vars: return r.choice(['$%s', '${%s}']) % r.choice(self.vars)
            if k < 9 and (self.ids or self.later): return '#%s~%s' % (r.choice(self.ids + self.later), r.choice(SCALARS))
            return r.choice(['random()', 'randint(1, 6)', 'randint(3, 3)', '-0', '0', '1'])
        k = r.below(12)
        a = self.expr(d - 1); b = self.expr(d - 1)
        if k < 4: return '%s %s %s' % (a, r.choice(['+', '-', '*']), b)
        if k < 5: return '%s %s %d' % (a, r.choice(['/', '%']), r.range(1, 9))      # never by zero: non-finite geometry is outside the model
        if k < 7: return '%s %s %s' % (a, r.choice(['eq', 'ne', 'lt', 'le', 'gt', 'ge', 'and', 'or', 'xor']), b)
        if k < 8: return '(%s)' % a
        if k < 9: return '-%s' % a
        f = r.choice(['abs', 'ceil', 'floor', 'round', 'min', 'max', 'sum', 'if', 'not', 'clamp', 'mix', 'sign', 'count', 'eq', 'lt', 'gt', 'swap', 'head', 'select'])
        if f in ('abs', 'ceil', 'floor', 'round', 'not', 'sign'): return '%s(%s)' % (f, a)
        if f in ('if', 'clamp', 'mix', 'select'): return '%s(%s, %s, %s)' % (f, a, b, self.expr(d - 1))
        return '%s(%s, %s)' % (f, a, b)

    def ref(self, fwd=0.2):
        """an element reference: previous, an earlier id, sometimes a later or unknown id"""
        r = self.r
        k = r.below(10)
        if k < 3 or not (self.ids or self.later): return '^'
        if self.later and r.chance(fwd): return '#' + r.choice(self.later)
        if r.chance(0.03): return '#nope'
        return '#' + r.choice(self.ids or self.later)

    def position(self, kind):
        r = self.r
        k = r.below(12)
        if kind == 'line':
            if k < 6: return [('xy1', '%s %s' % (self.num(), self.num())), ('xy2', '%s %s' % (self.num(), self.num()))]
            if k < 8: return [('x1', self.num()), ('y1', self.num()), ('x2', self.num()), ('y2', self.num())]
            return [('xy1', '%s@%s' % (self.ref(), r.choice(LOCS))), ('xy2', '%s@%s' % (self.ref(), r.choice(LOCS)))]
        if k < 3: return [('xy', '%s %s' % (self.num(), self.num()))]
        if k < 4: return [('x', self.num()), ('y', self.num())]
        if k < 5: return [('cxy', '%s %s' % (self.num(), self.num()))]
        if k < 6: return [(r.choice(['xy2', 'xy1']), '%s %s' % (self.num(), self.num()))]
        if k < 9: return [('xy', '%s|%s%s' % (self.ref(), r.choice('hHvV'), r.choice(['', ' 2', ' -1', ' 1.5', ' 0', ' 25%'])))]
        if k < 11: return [(r.choice(['xy', 'cxy', 'xy2']), '%s@%s%s' % (self.ref(), r.choice(LOCS), r.choice(['', ' 1', ' 1 -2', ' 0 3'])))]
        return [('x', '%s~%s' % (self.ref(), r.choice(SCALARS))), ('y', '%s~%s' % (self.ref(), r.choice(SCALARS)))]

    def size(self, kind):
        r = self.r
        k = r.below(12)
        out = []
        if kind == 'circle':
            out = [('r', self.pos_num(1, 12))] if k < 7 else [('wh', self.pos_num())]
        elif kind == 'ellipse':
            out = [('rxy', '%s %s' % (self.pos_num(1, 12), self.pos_num(1, 12)))] if k < 5 else [('wh', '%s %s' % (self.pos_num(), self.pos_num()))] if k < 8 else \
                  [('rx', self.pos_num(1, 12)), (r.choice(['ry', 'height']), self.pos_num(1, 12))]
        elif kind in ('rect', 'image', 'box'):
            if k < 5: out = [('wh', '%s %s' % (self.pos_num(), self.pos_num()))]
            elif k < 6: out = [('wh', self.pos_num())]
            elif k < 8: out = [('width', self.pos_num()), ('height', self.pos_num())]
            elif k < 10 and (self.ids or self.later): out = [('wh', '%s%s' % (self.ref(), r.choice(['', ' 50%', ' 2', ' 110% 3'])))]
            else: out = [('wh', '%s %s' % (self.pos_num(), self.pos_num()))]
        if out and r.chance(0.15):
            out.append(r.choice([('dwh', '4 2'), ('dw', '3'), ('dh', '-1'), ('dwh', '150%'), ('dw', '50%')]))
        return out

    def extras(self, kind):
        r = self.r
        a = []
        if r.chance(0.15): a.append(r.choice([('dxy', '1 2'), ('dx', '3'), ('dy', '-2'), ('dxy', '5')]))
        if r.chance(0.3) and kind not in ('point',):
            t = ' '.join(r.choice(WORDS) for _ in range(r.range(1, 2)))
            if r.chance(0.2) and self.vars: t += ' $' + r.choice(self.vars)
            a.append(('text', t))
            if r.chance(0.4): a.append(('text-loc', r.choice(LOCS)))
            if r.chance(0.2): a.append(('text-offset', r.choice(['0', '2', '-1', '1.5'])))
            if r.chance(0.15): a.append(r.choice([('text-dxy', '1 -1'), ('text-dx', '2'), ('text-dy', '1')]))
            if r.chance(0.1): a.append(('text-lsp', r.choice(['1', '1.5', '2'])))
            if r.chance(0.1): a.append(('text-style', 'fill: red'))
        cls = []
        if r.chance(0.3): cls += r.sample(TEXTCLS, r.range(1, 2))
        if r.chance(0.2): cls.append(r.choice(['mine', 'd-red', 'd-thick', 'x-y', 'R&D']))
        if r.chance(0.1) and self.vars: cls.append('$' + r.choice(self.vars))
        if cls: a.append(('class', ' '.join(cls)))
        if r.chance(0.1): a.append(('transform', r.choice(['translate(3 4)', 'scale(2)', 'translate(1) scale(1 2)', 'rotate(30)', 'skewX(10)', 'translate(-5,2)'])))
        if r.chance(0.08) and self.clips: a.append(('clip-path', 'url(#%s)' % r.choice(self.clips)))
        if r.chance(0.1): a.append((r.choice(['fill', 'stroke', 'opacity', 'data-x', 'style']), r.choice(['red', 'none', '0.5', 'a b', 'x<y', '{{1 + 2}}'])))
        if r.chance(0.08): a.append(('_', r.choice(['note', 'a -- b', '{{1 + 1}} done', '$x'])))
        if r.chance(0.05): a.append(('__', r.choice(['raw $x', 'c--d'])))
        return a

    clips = ()

    def shape(self, with_id=0.6):
        r = self.r
        kind = r.choice(['rect', 'rect', 'rect', 'circle', 'ellipse', 'line', 'point', 'box', 'text', 'polyline', 'path', 'use', 'image'])
        a = []
        eid = None
        if r.chance(with_id):
            if self.later and r.chance(0.5):
                eid = self.later.pop(r.below(len(self.later)))
            else:
                eid = self.nid()
            a.append(('id', eid))
        if kind == 'polyline':
            if r.chance(0.4) and len(self.ids) >= 2:
                a += [('start', '#%s%s' % (r.choice(self.ids), r.choice(['', '@r', '@b', '@t:25%']))), ('end', '#%s%s' % (r.choice(self.ids), r.choice(['', '@l', '@t', '@b:3'])))]
                if r.chance(0.3): a.append(('corner-offset', r.choice(['2', '25%'])))
            else:
                a.append(('points', ' '.join('%d,%d' % (r.range(-9, 40), r.range(-9, 40)) for _ in range(r.range(2, 4)))))
        elif kind == 'path':
            d = ['M%d %d' % (r.range(-9, 30), r.range(-9, 30))]
            for _ in range(r.range(1, 4)):
                c = r.choice('LlHhVvzmZ')
                d.append(c if c in 'zZ' else '%s%d %d' % (c, r.range(-9, 30), r.range(-9, 30)) if c in 'Llm' else '%s%d' % (c, r.range(-9, 30)))
            a.append(('d', ' '.join(d)))
        elif kind == 'use':
            if not self.ids: kind = 'rect'
            else:
                a.append(('href', '#' + r.choice(self.ids)))
                if r.chance(0.6): a += r.choice([[('x', self.num()), ('y', self.num())], [('x', self.num())], [('y', '-5')], [('xy', '%s|h 2' % self.ref())]])
        if kind == 'line' and r.chance(0.3) and len(self.ids) >= 2:
            a += [('start', '#%s%s' % (r.choice(self.ids), r.choice(['', '@r', '@b']))), ('end', '#%s%s' % (r.choice(self.ids), r.choice(['', '@l', '@t'])))]
            if r.chance(0.3): a.append(('edge-type', r.choice(['h', 'v'])))
        elif kind in ('rect', 'circle', 'ellipse', 'line', 'point', 'box', 'text', 'image'):
            if r.chance(0.1) and len(self.ids) >= 1 and kind in ('rect', 'circle', 'ellipse'):
                ts = r.sample(self.ids, r.range(1, min(3, len(self.ids))))
                a.append((r.choice(['surround', 'surround', 'inside']), ' '.join('#' + t for t in ts)))
                if r.chance(0.5): a.append(('margin', r.choice(['1', '2 3', '10%', '-1', '1 2 3 4'])))
            else:
                a += self.position(kind)
                a += self.size(kind)
        a += self.extras(kind)
        if r.chance(0.3): r.shuffle(a)
        content = None
        if kind == 'text' or (kind in ('rect', 'circle') and r.chance(0.08)):
            content = r.choice(['plain', 'a &amp; b', '<![CDATA[x < y]]>', 'two\nlines', '', ' $v ', 'x &lt;- y', '<![CDATA[a &amp; b]]>',
                                '10&nbsp;kg', '45&deg; &amp; more', 'a & b', '&#65;&#x42;'])
        if eid: self.ids.append(eid)
        return self.el(kind, a, content)

    @staticmethod
    def esc(v):
        return v.replace('&', '&amp;').replace('<', '&lt;').replace('"', '&quot;')

    @staticmethod
    def tame(v):
        """the model keeps the random stream where it was when an expression fails, the code keeps the draws made before the failure:
        random calls stay only in attribute values that cannot fail (constants and arithmetic)"""
        import re
        if 'random(' not in v and 'randint(' not in v:
            return v
        rest = re.sub(r'random\(\)|randint\(\d+, \d+\)', '1', v)
        if re.fullmatch(r'[0-9+\-*/(). {}]*', rest):
            return v
        return re.sub(r'randint\(\d+, \d+\)', '3', v.replace('random()', '0.5'))

    def el(self, name, attrs, content=None):
        seen = set(); attrs = [(k, self.tame(v)) for k, v in attrs if not (k in seen or seen.add(k))]
        s = '<%s%s' % (name, ''.join(' %s="%s"' % (k, self.esc(v)) for k, v in attrs))
        return s + '/>' if content is None else s + '>' + content + '</' + name + '>'

    def var(self):
        r = self.r
        n = r.range(1, 3)
        a = []
        for _ in range(n):
            nm = r.choice(self.vars) if self.vars and r.chance(0.4) else r.choice(['v', 'w', 'k', 'n', 'fill', 'x', 'aa']) + str(r.range(0, 3))
            k = r.below(10)
            if k < 3: v = str(r.range(0, 20))
            elif k < 5: v = '{{%s}}' % self.expr(2)
            elif k < 6 and self.vars: v = '$%s$%s' % (r.choice(self.vars), r.choice(self.vars))
            elif k < 7 and self.vars: v = '{{$%s + 1}}' % r.choice(self.vars)
            elif k < 8: v = r.choice(['red', 'a b', '', 'x' * r.range(1, 12), 'd-red'])
            elif k < 9: v = '{{random()}}'
            else: v = r.choice(['$undefined', "1, 2, 3", "'a', '', 'b'", '#e1~w'])
            a.append((nm, v))
            if nm not in self.vars: self.vars.append(nm)
        return self.el('var', a)

    def body(self, n):
        return ''.join(self.item() for _ in range(n))

    def item(self):
        r = self.r
        if self.depth > 3:
            return self.shape()
        k = r.below(100)
        self.depth += 1
        try:
            if k < 45: return self.shape()
            if k < 55: return self.var()
            if k < 63:      # group, possibly empty, attributes act as variables
                a = []
                if r.chance(0.5):
                    nm = r.choice(self.vars) if self.vars and r.chance(0.5) else r.choice(['fill', 'k0', 'w1', 'stroke'])
                    a.append((nm, r.choice(['red', '5', 'inner', '{{1 + 1}}'])))
                if r.chance(0.3):
                    gid = self.nid('g'); a.append(('id', gid))
                else: gid = None
                if r.chance(0.2): a.append(('transform', r.choice(['translate(5 6)', 'scale(2)', 'translate({{1 + 1}} 0)'])))
                if r.chance(0.2): a.append(('class', r.choice(['grp', 'd-red $k0', 'a a'])))
                if r.chance(0.25):
                    out = self.el('g', a)               # empty element form
                else:
                    out = self.el('g', a, self.body(r.range(0, 3)))
                if gid: self.ids.append(gid)
                return out
            if k < 68:
                nm = r.choice(['defs', 'a', 'symbol', 'clipPath', 'marker', 'svg', 'switch'])
                a = [('id', self.nid('c'))] if r.chance(0.6) else []
                inner = self.body(r.range(0, 2))
                if nm == 'clipPath' and a: self.clips = tuple(self.clips) + (a[0][1],)
                return self.el(nm, a, inner)
            if k < 75:      # loop
                form = r.below(4)
                inner = self.body(r.range(1, 2))
                if form == 0: a = [('count', r.choice(['0', '1', '2', '3', '4', '5', '{{1 + 1}}', '$n0', '21']))]
                elif form == 1:
                    v = 'i%d' % r.range(0, 2); 
                    if v not in self.vars: self.vars.append(v)
                    a = [('count', str(r.range(1, 4))), ('loop-var', v)] + ([('start', r.choice(['1', '-2', '0.5']))] if r.chance(0.5) else []) + ([('step', r.choice(['2', '0.5', '-1', '0.25']))] if r.chance(0.5) else [])
                elif form == 2:
                    v = 'c%d' % r.range(0, 2)
                    if v not in self.vars: self.vars.append(v)
                    return self.el('var', [(v, '0')]) + self.el('loop', [('while', '{{lt($%s, %d)}}' % (v, r.range(0, 4)))], self.el('var', [(v, '{{$%s + 1}}' % v)]) + inner)
                else:
                    v = 'u%d' % r.range(0, 2)
                    if v not in self.vars: self.vars.append(v)
                    return self.el('var', [(v, '0')]) + self.el('loop', [('until', '{{ge($%s, %d)}}' % (v, r.range(0, 4)))], self.el('var', [(v, '{{$%s + 1}}' % v)]) + inner)
                return self.el('loop', a, inner)
            if k < 80:      # for
                v = 'f%d' % r.range(0, 2)
                if v not in self.vars: self.vars.append(v)
                data = r.choice(['1, 2, 3', "'a', '', 'b'", "split(',', 'p,,q,')", '5', '{{1, 2}}', '$w0', "'x y', 'z'", '3, 1e1, -2', ' 1 , 2 '])
                a = [('var', v), ('data', data)] + ([('idx-var', 'ix')] if r.chance(0.4) else [])
                if 'ix' not in self.vars and len(a) == 3: self.vars.append('ix')
                return self.el('for', a, self.body(r.range(1, 2)))
            if k < 86:      # if
                t = r.choice(['1', '0', '{{%s}}' % self.expr(2), '{{gt(#%s~w, 5)}}' % (r.choice(self.ids + self.later) if (self.ids or self.later) else 'zz'), '$k0', '{{$n0 gt 1}}', '-0', '{{0/0}}'])
                return self.el('if', [('test', t)], self.body(r.range(1, 2)))
            if k < 94:      # template + reuse
                tid = self.nid('t')
                idtext = tid if r.chance(0.7) else r.choice(['%s_$k0' % tid, '%s_{{1 + 1}}' % tid])
                href = tid if idtext == tid else (idtext if r.chance(0.5) else tid + r.choice(['_2', '_inner']))
                tk = r.choice(['rect', 'g', 'g', 'symbol', 'circle'])
                if tk == 'rect': tpl = self.el('rect', [('id', idtext), ('wh', r.choice(['$w $h', '4 3', '$w'])), ('fill', '$fill')])
                elif tk == 'circle': tpl = self.el('circle', [('id', idtext), ('r', '$r')])
                else: tpl = self.el(tk, [('id', idtext)], self.el('rect', [('wh', r.choice(['$w $h', '6 2']))]) + (self.el('text', [('xy', '1 1'), ('text', '$label')]) if r.chance(0.4) else ''))
                where = r.below(4)
                tpl = self.el('specs', [], tpl) if where < 2 else self.el('defs', [], tpl) if where == 2 else tpl
                uses = ''
                for _ in range(r.range(1, 2)):
                    a = [('href', '#' + href)]
                    if r.chance(0.8): a += r.choice([[('x', self.num()), ('y', self.num())], [('y', '-5')], [('x', '0'), ('y', '-3')], [('x', '4')], [('xy', '%s|h 1' % self.ref())], [('cxy', '3 4')]])
                    a += [('w', str(r.range(2, 9))), ('h', str(r.range(2, 9)))] if r.chance(0.7) else []
                    if r.chance(0.5): a.append(('fill', r.choice(['red', 'blue'])))
                    if r.chance(0.3): a.append(('r', '3'))
                    if r.chance(0.3): a.append(('label', 'L'))
                    if r.chance(0.3): a.append(('id', self.nid('u')))
                    if r.chance(0.2): a.append(('class', 'inst d-thin'))
                    if r.chance(0.15): a.append(('transform', 'translate(1 2)'))
                    uses += self.el('reuse', a)
                return tpl + uses
            if k < 97:
                return r.choice(['<!-- c -->', '<!--x-->', 'text ', '\n  ', '<![CDATA[raw]]>', '<?pi x?>', '<style>.a > .b { fill: red }</style>', '<title>t &amp; u</title>'])
            # a forward reference target announced now, defined later
            fid = self.nid('z'); self.later.append(fid)
            return self.shape()
        finally:
            self.depth -= 1

    def document(self):
        r = self.r
        body = self.body(r.range(1, 7))
        # define the announced forward targets (most of them)
        tail = ''
        for fid in list(self.later):
            if r.chance(0.85):
                tail += self.el(r.choice(['rect', 'circle']), [('id', fid)] + ([('xy', '%d %d' % (r.range(0, 30), r.range(0, 30))), ('wh', '%d %d' % (r.range(2, 9), r.range(2, 9)))]))
                self.later.remove(fid)
        sep = r.choice(['', '\n', '\n  '])
        root = r.choice(['', '', ' width="200"', ' viewBox="0 0 50 50"', ' height="5cm"', ' id="top"', ' class="root"', ' xmlns:xlink="http://www.w3.org/1999/xlink"'])
        return '<svg%s>%s%s%s%s</svg>' % (root, sep, body, tail, sep[:1])


def gen(rng, emphasis=()):
    g = Gen(rng, emphasis)
    xml = g.document()
    cfg = {'loop_limit': rng.choice([1, 2, 3, 5, 10, 20, 40])}     # always small: the extracted model pays ~10 ms per pass
    if rng.chance(0.25):
        cfg[rng.choice(['var_limit', 'depth_limit'])] = rng.choice([1, 2, 3, 5, 10, 20])
    if rng.chance(0.2): cfg['seed'] = rng.choice([1, 7, 12345])
    if rng.chance(0.1): cfg['border'] = rng.choice([0, 12])
    if rng.chance(0.1): cfg['scale'] = rng.choice([0.5, 2.5])
    return xml, cfg
