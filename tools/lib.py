"""Shared machinery of the svgdx verification checks (build steps, case I/O, runners)."""
import os, sys, json, subprocess, time, fcntl, hashlib, re, shutil

VERIF = os.path.dirname(os.path.dirname(os.path.abspath(__file__)))
REPO = os.environ.get('SVGDX_REPO', '/repo')
COQ = os.path.join(VERIF, 'coq')
OCAML = os.path.join(VERIF, 'ocaml')
HARNESS = os.path.join(VERIF, 'harness')
BUILD = os.path.join(VERIF, 'build')          # scratch (ignored by git)
HARNESS_BIN = os.path.join(HARNESS, 'target', 'release', 'svgdx-verif')
DRIVER_BIN = os.path.join(OCAML, '_build', 'driver')
REPO_TARGET = os.path.join(BUILD, 'repo-target')
SVGDX_BIN = os.path.join(REPO_TARGET, 'release', 'svgdx')
SERVER_BIN = os.path.join(REPO_TARGET, 'release', 'svgdx-server')

ENV = dict(os.environ, CARGO_NET_OFFLINE='true', PIP_NO_INDEX='1', GOPROXY='off')


# ---------------------------------------------------------------- PRNG (splitmix64)
class Rng:
    M = (1 << 64) - 1

    def __init__(self, seed):
        self.s = seed & self.M

    def next(self):
        self.s = (self.s + 0x9E3779B97F4A7C15) & self.M
        z = self.s
        z = ((z ^ (z >> 30)) * 0xBF58476D1CE4E5B9) & self.M
        z = ((z ^ (z >> 27)) * 0x94D049BB133111EB) & self.M
        return z ^ (z >> 31)

    def below(self, n):
        return self.next() % n

    def range(self, a, b):
        """integer in [a, b]"""
        return a + self.below(b - a + 1)

    def chance(self, p):
        return (self.next() >> 11) / float(1 << 53) < p

    def uniform(self, a, b):
        return a + (b - a) * ((self.next() >> 11) / float(1 << 53))

    def choice(self, l):
        return l[self.below(len(l))]

    def shuffle(self, l):
        for i in range(len(l) - 1, 0, -1):
            j = self.below(i + 1)
            l[i], l[j] = l[j], l[i]

    def sample(self, l, k):
        l = list(l)
        self.shuffle(l)
        return l[:k]

    def fork(self, tag):
        h = hashlib.sha256(('%d:%s' % (self.s, tag)).encode()).digest()
        return Rng(int.from_bytes(h[:8], 'big'))


# ---------------------------------------------------------------- encoding
def hx(s):
    if isinstance(s, str):
        s = s.encode('utf-8')
    return s.hex()


def unhx(s):
    return bytes.fromhex(s).decode('utf-8', 'replace')


def enc_attrs(attrs):
    return ','.join('%s:%s' % (hx(k), hx(v)) for k, v in attrs)


def dec_attrs(f):
    if not f:
        return []
    return [tuple(unhx(x) for x in kv.split(':')) for kv in f.split(',')]


def enc_els(els):
    return ';'.join('%s|%s' % (hx(n), enc_attrs(a)) for n, a in els)


def enc_cfg(cfg):
    return hx(';'.join('%s=%s' % (k, hx(str(v).lower() if isinstance(v, bool) else str(v))) for k, v in sorted(cfg.items())))


def cfg_cli(cfg):
    """command line flags of the svgdx binary for a config dict"""
    out = []
    for k, v in sorted(cfg.items()):
        if k == 'add_auto_styles':
            if not v:
                out.append('--no-auto-styles')
        elif isinstance(v, bool):
            if v:
                out.append('--' + k.replace('_', '-'))
        else:
            out += ['--' + k.replace('_', '-'), str(v)]
    return out


class Case:
    __slots__ = ('id', 'kind', 'fields', 'meta')

    def __init__(self, id, kind, fields, meta=None):
        self.id = id; self.kind = kind; self.fields = fields; self.meta = meta or {}

    def line(self):
        return '\t'.join([self.id, self.kind] + list(self.fields))

    def to_json(self):
        return {'id': self.id, 'kind': self.kind, 'fields': list(self.fields), 'meta': self.meta}

    @staticmethod
    def from_json(j):
        return Case(j['id'], j['kind'], j['fields'], j.get('meta'))


def doc_case(id, xml, cfg=None, meta=None, kind='doc'):
    return Case(id, kind, [enc_cfg(cfg or {}), hx(xml)], meta)


# ---------------------------------------------------------------- build steps
class Lock:
    def __enter__(self):
        os.makedirs(BUILD, exist_ok=True)
        self.f = open(os.path.join(BUILD, '.lock'), 'w')
        fcntl.flock(self.f, fcntl.LOCK_EX)
        return self

    def __exit__(self, *a):
        fcntl.flock(self.f, fcntl.LOCK_UN)
        self.f.close()


def run(cmd, cwd=None, timeout=1800, env=None, input=None):
    p = subprocess.run(cmd, cwd=cwd, env=env or ENV, stdout=subprocess.PIPE, stderr=subprocess.STDOUT,
                       timeout=timeout, input=input)
    return p.returncode, p.stdout.decode('utf-8', 'replace')


def build_harness():
    """build the harness against /repo's current working tree (hooks on)"""
    lock_src = os.path.join(REPO, 'Cargo.lock')
    lock_dst = os.path.join(HARNESS, 'Cargo.lock')
    if not os.path.exists(lock_dst):
        shutil.copy(lock_src, lock_dst)
    rc, out = run(['cargo', 'build', '--release', '--offline'], cwd=HARNESS)
    if rc != 0:
        # a changed dependency set in /repo: refresh the lock file once
        shutil.copy(lock_src, lock_dst)
        rc, out = run(['cargo', 'build', '--release', '--offline'], cwd=HARNESS)
    return rc == 0, out


def build_repo_bins():
    """build svgdx and svgdx-server from /repo's working tree into a scratch target dir"""
    env = dict(ENV, CARGO_TARGET_DIR=REPO_TARGET)
    rc, out = run(['cargo', 'build', '--release', '--offline', '--bins'], cwd=REPO, env=env)
    return rc == 0, out


def gen_tables():
    rc, out = run([sys.executable, os.path.join(VERIF, 'tools', 'gen_tables.py'),
                   os.path.join(REPO, 'src'), os.path.join(COQ, 'Gen', 'Tables.v')])
    return rc == 0, out.strip()


def coq_makefile():
    mk = os.path.join(COQ, 'Makefile')
    proj = os.path.join(COQ, '_CoqProject')
    if not os.path.exists(mk) or os.path.getmtime(mk) < os.path.getmtime(proj):
        run(['coq_makefile', '-f', '_CoqProject', '-o', 'Makefile'], cwd=COQ)


def coq_make(targets, timeout=1500):
    coq_makefile()
    rc, out = run(['timeout', str(timeout), 'make', '-j16'] + targets, cwd=COQ, timeout=timeout + 60)
    return rc == 0, out


def build_driver():
    """extract the model and compile the OCaml driver (only when something changed)"""
    ok, out = coq_make(['Extract/Extract.vo'])
    if not ok:
        return False, out
    bdir = os.path.join(OCAML, '_build')
    os.makedirs(bdir, exist_ok=True)
    srcs = [os.path.join(COQ, 'model.ml'), os.path.join(COQ, 'model.mli'), os.path.join(OCAML, 'driver.ml')]
    stamp = hashlib.sha256(b''.join(open(s, 'rb').read() for s in srcs)).hexdigest()
    sf = os.path.join(bdir, 'stamp')
    if os.path.exists(DRIVER_BIN) and os.path.exists(sf) and open(sf).read() == stamp:
        return True, 'driver up to date'
    for s in srcs:
        shutil.copy(s, bdir)
    rc, o = run(['ocamlfind', 'ocamlopt', '-package', 'unix', '-linkpkg', '-O2', '-w', '-a', 'model.mli', 'model.ml', 'driver.ml', '-o', 'driver'], cwd=bdir)
    if rc == 0:
        open(sf, 'w').write(stamp)
    return rc == 0, o


FORBIDDEN = re.compile(r'\b(Admitted|admit|Axiom|Axioms|Parameter|Parameters|Conjecture|Hypothesis|Variable|Variables|Unset Guard|bypass_check|type-in-type|impredicative-set|Admit Obligations)\b')


def scan_forbidden():
    """grep the development for anything that would declare an axiom or switch off a check.
    `Variable`/`Hypothesis`/`Context` are allowed inside sections only; we use `Context` in
    sections and forbid the other spellings everywhere outside comments."""
    bad = []
    for root, _, files in os.walk(COQ):
        for fn in files:
            if not fn.endswith('.v'):
                continue
            p = os.path.join(root, fn)
            text = open(p, encoding='utf-8').read()
            text = re.sub(r'\(\*.*?\*\)', lambda m: ' ' * len(m.group(0)), text, flags=re.S)
            text = re.sub(r'"(?:[^"]|"")*"', '""', text)
            for m in FORBIDDEN.finditer(text):
                ln = text.count('\n', 0, m.start()) + 1
                bad.append('%s:%d: %s' % (os.path.relpath(p, COQ), ln, m.group(0)))
    proj = open(os.path.join(COQ, '_CoqProject')).read()
    for flag in ('-type-in-type', '-impredicative-set', '-vos', '-vok', 'bypass'):
        if flag in proj:
            bad.append('_CoqProject: ' + flag)
    return bad


ALLOWED_AXIOMS = {
    # only for theorems in Props that depend on Num/Ieee.v (Flocq): standard library axioms
    'ClassicalDedekindReals.sig_forall_dec', 'ClassicalDedekindReals.sig_not_dec',
    'FunctionalExtensionality.functional_extensionality_dep', 'Classical_Prop.classic',
}


def check_props(pid, flocq_ok=()):
    """rebuild Props/<pid>.v (always recompiled so that Print Assumptions output is fresh) and
    return (ok, obligations, discharged, details, log)"""
    vo = os.path.join(COQ, 'Props', pid + '.vo')
    for ext in ('.vo', '.glob', '.vos', '.vok'):
        try:
            os.remove(os.path.join(COQ, 'Props', pid + ext))
        except FileNotFoundError:
            pass
    ok, log = coq_make(['Props/%s.vo' % pid])
    src = open(os.path.join(COQ, 'Props', pid + '.v'), encoding='utf-8').read()
    src_nc = re.sub(r'\(\*.*?\*\)', '', src, flags=re.S)
    theorems = re.findall(r'^\s*(?:Theorem|Corollary)\s+(\w+)', src_nc, flags=re.M)
    printed = re.findall(r'Print Assumptions\s+(\w+)\.', src_nc)
    details = []
    missing = [t for t in theorems if t not in printed]
    if missing:
        details.append('theorems without Print Assumptions: %s' % missing)
    if not ok:
        m = re.search(r'File "([^"]+)", line (\d+).*?\n(Error:.*?)(?:\n\n|\Z)', log, flags=re.S)
        details.append('coq build failed: ' + (('%s:%s %s' % (m.group(1), m.group(2), ' '.join(m.group(3).split())[:300])) if m else log[-400:]))
        return False, len(theorems), 0, details, log
    # parse Print Assumptions output, in order
    blocks = re.findall(r'(Closed under the global context|Axioms:\n(?:.+\n?)+?(?=\n|\Z))', log)
    closed = 0
    for i, t in enumerate(printed):
        if i >= len(blocks):
            details.append('no assumption output for %s' % t)
            continue
        b = blocks[i]
        if b.startswith('Closed'):
            closed += 1
        else:
            names = re.findall(r'^([A-Za-z_][\w.]*)\s*:', b, flags=re.M)
            extra = [n for n in names if n not in ALLOWED_AXIOMS or t not in flocq_ok]
            if extra:
                details.append('theorem %s depends on axioms %s' % (t, extra))
            else:
                closed += 1
    ok2 = ok and not details and closed == len(printed) and len(printed) >= len(theorems)
    return ok2, len(theorems), min(closed, len(theorems)), details, log


def coqchk(pid, timeout=2400):
    """independent re-check of the compiled property file and everything it depends on (thorough tier): no axioms, no type-in-type,
    no unsafe fixpoints, no assumed positivity"""
    rc, out = run(['timeout', str(timeout), 'coqchk', '-silent', '-o', '-Q', '.', 'SvgdxModel', 'SvgdxModel.Props.%s' % pid], cwd=COQ, timeout=timeout + 60)
    want = ['* Axioms: <none>', 'relying on type-in-type: <none>', 'relying on unsafe (co)fixpoints: <none>', 'positivity is assumed: <none>']
    missing = [w for w in want if w not in out]
    return rc == 0 and not missing, ('coqchk exit %s; not reported clean: %s; %s' % (rc, missing, out[-400:]) if (rc != 0 or missing) else 'coqchk: context summary clean (no axioms)')


# ---------------------------------------------------------------- runners
def run_lines(binary, args, lines, timeout=1200):
    data = ('\n'.join(lines) + '\n').encode()
    p = subprocess.run([binary] + args, input=data, stdout=subprocess.PIPE, stderr=subprocess.PIPE, timeout=timeout)
    out = {}
    for l in p.stdout.decode('utf-8', 'replace').split('\n'):
        if not l:
            continue
        parts = l.split('\t')
        out[parts[0]] = parts[1:]
    return out, p.returncode


def _limit_mem():
    """address-space cap for implementation processes: a scanner that stops advancing may also grow its output without bound"""
    import resource
    try:
        resource.setrlimit(resource.RLIMIT_AS, (6 << 30, 6 << 30))
    except Exception:
        pass


DOC_LOG = None      # when a list: every whole-document case sent to the implementation is recorded (check.py, DOC_MODEL)


def run_impl(cases, timeout_ms=10000, shards=8):
    """run cases through the harness (sharded over processes); a shard whose process dies
    (abort, stack overflow) is re-run case by case so that the culprit is identified"""
    res = {}
    if not cases:
        return res
    if DOC_LOG is not None:
        for c in cases:
            if c.kind in ('doc', 'docfull', 'probe'):
                DOC_LOG.append((c.fields[0], c.fields[1]))
    if os.environ.get('VERIF_HARVEST'):     # development aid: collect every whole-document case
        with open(os.environ['VERIF_HARVEST'], 'a') as hf:
            for c in cases:
                if c.kind in ('doc', 'docfull', 'docbytes', 'probe'):
                    hf.write('%s\t%s\n' % (c.fields[0], c.fields[1]))
    shards = max(1, min(shards, len(cases) // 50 + 1))
    chunks = [cases[i::shards] for i in range(shards)]
    procs = []
    for ch in chunks:
        data = ('\n'.join(c.line() for c in ch) + '\n').encode()
        p = subprocess.Popen([HARNESS_BIN, str(timeout_ms)], stdin=subprocess.PIPE, stdout=subprocess.PIPE, stderr=subprocess.DEVNULL, preexec_fn=_limit_mem)
        procs.append((p, ch, data))
    import threading
    outs = [None] * len(procs)

    def feed(i):
        p, ch, data = procs[i]
        try:
            o, _ = p.communicate(data, timeout=3600)
        except subprocess.TimeoutExpired:
            p.kill(); o = b''
        outs[i] = o
    ths = [threading.Thread(target=feed, args=(i,)) for i in range(len(procs))]
    for t in ths:
        t.start()
    for t in ths:
        t.join()
    for i, (p, ch, data) in enumerate(procs):
        got = {}
        for l in outs[i].decode('utf-8', 'replace').split('\n'):
            if l:
                parts = l.split('\t'); got[parts[0]] = parts[1:]
        missing = [c for c in ch if c.id not in got]
        res.update(got)
        for c in missing:
            # re-run alone to classify
            try:
                pp = subprocess.run([HARNESS_BIN, str(timeout_ms)], input=(c.line() + '\n').encode(), stdout=subprocess.PIPE, stderr=subprocess.DEVNULL, timeout=timeout_ms / 1000 + 30, preexec_fn=_limit_mem)
                l = pp.stdout.decode('utf-8', 'replace').strip()
                if l:
                    res[c.id] = l.split('\t')[1:]
                else:
                    res[c.id] = ['ABORT', str(pp.returncode)]
            except subprocess.TimeoutExpired:
                res[c.id] = ['TIMEOUT']
    return res


def run_model(cases, shards=8):
    res = {}
    if not cases:
        return res
    shards = max(1, min(shards, len(cases) // 50 + 1))
    chunks = [cases[i::shards] for i in range(shards)]
    procs = []
    for ch in chunks:
        p = subprocess.Popen(['bash', '-c', 'ulimit -s unlimited 2>/dev/null; exec "%s"' % DRIVER_BIN], stdin=subprocess.PIPE, stdout=subprocess.PIPE, stderr=subprocess.DEVNULL)
        procs.append((p, ch))
    import threading
    outs = [None] * len(procs)

    def feed(i):
        p, ch = procs[i]
        data = ('\n'.join(c.line() for c in ch) + '\n').encode()
        try:
            o, _ = p.communicate(data, timeout=3600)
        except subprocess.TimeoutExpired:
            p.kill(); o = b''
        outs[i] = o
    ths = [threading.Thread(target=feed, args=(i,)) for i in range(len(procs))]
    for t in ths:
        t.start()
    for t in ths:
        t.join()
    for i, (p, ch) in enumerate(procs):
        for l in outs[i].decode('utf-8', 'replace').split('\n'):
            if l:
                parts = l.split('\t'); res[parts[0]] = parts[1:]
        for c in ch:
            if c.id not in res:
                res[c.id] = ['MODELDIED']
    return res


def run_svgdx(xml, cfg=None, timeout=20, binary=None):
    """one document through the svgdx binary (stdin -> stdout)"""
    if isinstance(xml, str):
        xml = xml.encode('utf-8')
    try:
        p = subprocess.run([binary or SVGDX_BIN] + cfg_cli(cfg or {}), input=xml, stdout=subprocess.PIPE, stderr=subprocess.PIPE, timeout=timeout)
        return p.returncode, p.stdout, p.stderr
    except subprocess.TimeoutExpired:
        return 'timeout', b'', b''
