"""Whole-document correspondence: /repo's transform_str against the composed Coq model (Model/Svgdx.v, extracted) on the
same bytes and configuration, auto styles switched off on both sides (Model/Themes.v covers that block on its own).
Used by the property checks on the documents they generate anyway."""
import re, struct
from lib import Case, hx, unhx, enc_cfg

LIBM = re.compile(r'\b(log|exp|pow|sin|cos|tan|asin|acos|atan|r2p|p2r|sqrt)\s*\(')   # outside the bit-exact binary32 instance
NONFINITE = re.compile(r'="[^"]*\b(inf|NaN)\b')
NUMKEYS = ('loop_limit', 'var_limit', 'depth_limit', 'seed', 'border')


def f32bits(x):
    return struct.unpack('<I', struct.pack('<f', float(x)))[0]


def dec_cfg(field):
    cfg = {}
    for kv in bytes.fromhex(field).decode().split(';'):
        if kv:
            k, v = kv.split('=', 1); cfg[k] = bytes.fromhex(v).decode()
    return cfg


def applicable(xml, cfg):
    if cfg.get('debug') in (True, 'true') or cfg.get('add_metadata') in (True, 'true'):
        return False
    if isinstance(xml, bytes):
        try:
            xml = xml.decode('utf-8')
        except UnicodeDecodeError:
            return False
    return not LIBM.search(xml)


def cases(i, xml, cfg):
    c = {}
    for k, v in (cfg or {}).items():
        if k in NUMKEYS:
            c[k] = int(v)
        elif k == 'scale':
            c[k] = float(v)
    c['add_auto_styles'] = False
    ci = Case('w%d' % i, 'doc', [enc_cfg(c), hx(xml)], {'xml': xml, 'cfg': c})
    cm = Case('w%d' % i, 'mdoc', [str(c.get('loop_limit', 1000)), str(c.get('var_limit', 1024)), str(c.get('depth_limit', 100)),
                                  str(c.get('seed', 0)), str(c.get('border', 5)), str(f32bits(c.get('scale', 1.0))), hx(xml)], {})
    return ci, cm


def _differs(lib, xml, cfg):
    ci, cm = cases(0, xml, cfg)
    a = lib.run_impl([ci], timeout_ms=10000, shards=1).get(ci.id); b = lib.run_model([cm], shards=1).get(cm.id)
    if not a or not b or b[0] in ('SKIP', 'OUTOFFUEL', 'TIMEOUT', 'STACKOVERFLOW') or (b[0] == 'ERR' and b[1] == 'OtherError') or a[0] == 'TIMEOUT':
        return False
    return not (a[0] == b[0] and (a[1] == b[1] if a[0] == 'OK' else (b[1] == 'MultiError' or a[1] == b[1])))


def reduce(lib, xml, cfg, budget_s=45):
    """greedy reduction of a document on which model and implementation differ: drop empty elements, attributes, unwrap containers"""
    import time
    t0 = time.time(); changed = True
    while changed and time.time() - t0 < budget_s:
        changed = False
        for pat in (r'<[a-zA-Z]+(?: [^<>]*)?/>', r' [a-zA-Z_:-]+="[^"]*"'):
            for m in list(re.finditer(pat, xml)):
                if time.time() - t0 > budget_s:
                    return xml
                cand = xml[:m.start()] + xml[m.end():]
                if _differs(lib, cand, cfg):
                    xml = cand; changed = True; break
            if changed:
                break
        if changed:
            continue
        for m in list(re.finditer(r'<([a-zA-Z]+)(?: [^<>]*)?>', xml)):
            name = m.group(1); end = xml.find('</%s>' % name, m.end())
            if end < 0 or name == 'svg' or time.time() - t0 > budget_s:
                continue
            cand = xml[:m.start()] + xml[m.end():end] + xml[end + len(name) + 3:]
            if _differs(lib, cand, cfg):
                xml = cand; changed = True; break
    return xml


def compare(lib, items, stats=None, shards=12):
    """items: iterable of (xml, cfg). Yields correspondence violations; fills stats['doc_model_*']."""
    pairs = [cases(i, x, c) for i, (x, c) in enumerate(items) if applicable(x, c or {})]
    if not pairs:
        return
    im = lib.run_impl([p[0] for p in pairs], timeout_ms=10000, shards=shards)
    mo = lib.run_model([p[1] for p in pairs], shards=shards)
    same = skipped = 0
    first = True
    for ci, cm in sorted(pairs, key=lambda p: len(p[0].meta['xml'])):
        a, b = im.get(ci.id), mo.get(cm.id)
        if not b or b[0] in ('SKIP', 'OUTOFFUEL', 'TIMEOUT', 'STACKOVERFLOW') or (b[0] == 'ERR' and b[1] == 'OtherError') or (a and a[0] == 'TIMEOUT'):
            skipped += 1       # construct outside the composed model (bearing path, <config>, <defaults>) or its fuel
            continue
        if a and a[0] == 'OK' and NONFINITE.search(unhx(a[1]) if isinstance(unhx(a[1]), str) else ''):
            skipped += 1       # inf / NaN in the written geometry: outside the bit-exact instance
            continue
        if a and a[0] == b[0] and (a[1] == b[1] if a[0] == 'OK' else (b[1] == 'MultiError' or a[1] == b[1])):
            same += 1
            continue
        def show(r):
            if not r: return 'nothing'
            return ('OK ' + repr(unhx(r[1])[:600])) if r[0] == 'OK' else ' '.join(r[:3])
        v = {'kind': 'correspondence', 'what': 'whole-document model and implementation disagree on %r (config %s): impl %s; model %s'
             % (ci.meta['xml'][:500], ci.meta['cfg'], show(a), show(b)),
             'case': {'xml': ci.meta['xml'], 'cfg': ci.meta['cfg']}, 'observed': show(a), 'expected': show(b)}
        if first and isinstance(ci.meta['xml'], str):
            first = False
            try:
                small = reduce(lib, ci.meta['xml'], ci.meta['cfg'])
                if small != ci.meta['xml']:
                    v['case']['reduced'] = small
                    v['what'] += '; reduced to %r' % small[:400]
            except Exception:
                pass
        yield v
    if stats is not None:
        stats['traces_validated_against_impl'] += same
        d = stats['distribution']
        d['doc_model_same'] = d.get('doc_model_same', 0) + same
        d['doc_model_skipped'] = d.get('doc_model_skipped', 0) + skipped
