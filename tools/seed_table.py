#!/usr/bin/env python3
"""write the table of seeded changes (seeded/*/meta.json) into DESIGN.md between its markers"""
import json, glob, os, re
V = os.path.dirname(os.path.dirname(os.path.abspath(__file__)))
rows = []
for d in sorted(glob.glob(os.path.join(V, 'seeded', '*'))):
    m = json.load(open(os.path.join(d, 'meta.json')))
    det = m.get('detection', {})
    summ = ' '.join(m.get('summary', '').split())
    summ = summ[:230] + ('...' if len(summ) > 230 else '')
    rows.append('| `%s` | %s | %s |' % (os.path.basename(d), summ.replace('|', '\\|'), det.get('verdict', '?')))
tab = '| change | what it does | `check.py <id> --tier quick` |\n|---|---|---|\n' + '\n'.join(rows) + '\n'
n = len(rows); withinput = sum(1 for r in rows if 'failing input' in r); tie = sum(1 for r in rows if 'no-failing-input-found' in r); missed = sum(1 for r in rows if '| missed |' in r)
tab = ('%d changes kept: %d reported with a failing input, %d reported as a broken tie (`no-failing-input-found`), %d missed.\n\n' % (n, withinput, tie, missed)) + tab
p = os.path.join(V, 'DESIGN.md'); s = open(p).read()
a = s.index('<!-- SEEDED-TABLE-BEGIN -->') + len('<!-- SEEDED-TABLE-BEGIN -->'); b = s.index('<!-- SEEDED-TABLE-END -->')
open(p, 'w').write(s[:a] + '\n' + tab + s[b:])
print(n, withinput, tie, missed)
