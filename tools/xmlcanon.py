"""Independent (expat based) reading of svgdx output."""
import xml.parsers.expat as _expat


class Node:
    def __init__(self, name, attrs, parent=None):
        self.name = name; self.attrs = attrs; self.children = []; self.text = ''; self.parent = parent
        self.items = []   # ordered: ('el', Node) | ('text', str) | ('comment', str) | ('cdata', str) | ('pi', target, data)

    def iter(self):
        yield self
        for c in self.children:
            yield from c.iter()

    def find_all(self, name):
        return [n for n in self.iter() if n.name == name]


def parse(xml, keep_order=True):
    """returns (root Node or None, events list, error or None). Attributes as ordered list of pairs."""
    if isinstance(xml, str):
        xml = xml.encode('utf-8')
    p = xml_parser()
    root = Node('#doc', [])
    stack = [root]
    events = []
    in_cdata = [False]

    def start(name, attrs):
        pairs = [(attrs[i], attrs[i + 1]) for i in range(0, len(attrs), 2)]
        n = Node(name, pairs, stack[-1])
        stack[-1].children.append(n); stack[-1].items.append(('el', n)); stack.append(n)
        events.append(('start', name, pairs))

    def end(name):
        stack.pop(); events.append(('end', name))

    def chars(data):
        stack[-1].text += data
        kind = 'cdata' if in_cdata[0] else 'text'
        if stack[-1].items and stack[-1].items[-1][0] == kind:
            stack[-1].items[-1] = (kind, stack[-1].items[-1][1] + data)
        else:
            stack[-1].items.append((kind, data))
        if events and events[-1][0] == kind:
            events[-1] = (kind, events[-1][1] + data)
        else:
            events.append((kind, data))

    def comment(data):
        stack[-1].items.append(('comment', data)); events.append(('comment', data))

    def pi(target, data):
        stack[-1].items.append(('pi', target, data)); events.append(('pi', target, data))

    def scd():
        in_cdata[0] = True

    def ecd():
        in_cdata[0] = False
    def doctype(name, sysid, pubid, has_internal):
        events.append(('doctype', name, sysid, pubid))
    p.StartDoctypeDeclHandler = doctype
    p.StartElementHandler = start; p.EndElementHandler = end; p.CharacterDataHandler = chars
    p.CommentHandler = comment; p.ProcessingInstructionHandler = pi
    p.StartCdataSectionHandler = scd; p.EndCdataSectionHandler = ecd
    try:
        p.Parse(xml, True)
    except _expat.ExpatError as e:
        return None, events, str(e)
    return root, events, None


def xml_parser():
    p = _expat.ParserCreate(encoding='utf-8')
    p.ordered_attributes = True
    p.buffer_text = True
    return p


def esc_attr(v):
    return v.replace('&', '&amp;').replace('<', '&lt;').replace('>', '&gt;').replace('"', '&quot;').replace("'", '&apos;')


def esc_text(v):
    return v.replace('&', '&amp;').replace('<', '&lt;').replace('>', '&gt;')


def el(name, attrs, content=None):
    a = ''.join(' %s="%s"' % (k, esc_attr(v)) for k, v in attrs)
    if content is None:
        return '<%s%s/>' % (name, a)
    return '<%s%s>%s</%s>' % (name, a, content, name)
