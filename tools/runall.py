#!/usr/bin/env python3
"""Development helper: run every claimed check (quick tier), validate evidence files against the schema."""
import json, subprocess, sys, os, time
V = os.path.dirname(os.path.dirname(os.path.abspath(__file__)))
m = json.load(open(os.path.join(V, 'MANIFEST.json')))
tier = sys.argv[1] if len(sys.argv) > 1 else 'quick'
only = sys.argv[2:]
bad = 0
for c in m['checks']:
    pid = c['property_id']
    if only and pid not in only:
        continue
    t0 = time.time()
    p = subprocess.run(c['quick_cmd' if tier == 'quick' else 'thorough_cmd'], shell=True, cwd=V, stdout=subprocess.PIPE, stderr=subprocess.STDOUT)
    out = p.stdout.decode('utf-8', 'replace')
    vio = [l for l in out.split('\n') if l.startswith('VIOLATION')]
    last = out.strip().split('\n')[-1][:200]
    ok = p.returncode == 0 and not vio
    ev = 'n/a'
    try:
        r = subprocess.run(['python3-vt', '-c', 'import json,jsonschema,sys; jsonschema.validate(json.load(open(sys.argv[1])), json.load(open("/root/.vp/EVIDENCE.schema.json"))); e=json.load(open(sys.argv[1])); c=e["coverage"]; assert c["discharged"]==c["obligations"]>=1, (c["discharged"], c["obligations"]); print("ok")',
                            os.path.join(V, c['evidence_file'])], stdout=subprocess.PIPE, stderr=subprocess.STDOUT)
        ev = r.stdout.decode().strip().split('\n')[-1][:120]
    except Exception as e:
        ev = str(e)
    if not ok or ev != 'ok':
        bad += 1
    print('%s %s %5.1fs exit=%d evidence=%s | %s' % ('OK  ' if ok and ev == 'ok' else 'FAIL', pid, time.time() - t0, p.returncode, ev, last))
sys.exit(1 if bad else 0)
