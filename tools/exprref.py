"""Reference side of C14: an independent evaluator of expression TREES (not of text) with IEEE
binary32 arithmetic, the documented meaning of the built-in functions, a reference of the seeded
random stream, the svgdx number text, a random tree generator and a renderer (tree -> text with
only the necessary, or some redundant, parentheses and random spacing).

Nothing here looks at the Rust parser or at the Coq model: it is the statement of "conventional
semantics" against which the implementation's output is compared (tools/props/C14.py)."""
import math, struct
from fractions import Fraction as F

INF = float('inf')


class NoValue(Exception):
    """the tree has no conventional value (type error, wrong arity, domain error) or leaves the
    domain in which this reference is exact (non-finite intermediate results)"""


# ---------------------------------------------------------------- binary32
def f32(x):
    if x != x or x == INF or x == -INF:
        return x
    try:
        return struct.unpack('<f', struct.pack('<f', x))[0]
    except OverflowError:
        return INF if x > 0 else -INF


def f32_of_fraction(q):
    """correctly rounded (nearest, ties to even) binary32 value of a rational"""
    if q == 0:
        return 0.0
    neg = q < 0
    q = abs(q)
    e = q.numerator.bit_length() - q.denominator.bit_length() - 24
    while q / F(2) ** e >= 2 ** 24:
        e += 1
    while q / F(2) ** e < 2 ** 23:
        e -= 1
    e = max(e, -149)
    m = q / F(2) ** e
    n = m.numerator // m.denominator
    r = m - n
    if r > F(1, 2) or (r == F(1, 2) and n % 2 == 1):
        n += 1
    v = n * F(2) ** e
    if v >= F(2) ** 128:
        return -INF if neg else INF
    x = float(v)
    return -x if neg else x


def lit_value(text):
    """value of a decimal literal  digits[.digits][e[+]digits]  as the nearest binary32"""
    t = text.lower()
    mant, _, ex = t.partition('e')
    ip, _, fp = mant.partition('.')
    q = F(int((ip or '0') + fp), 10 ** len(fp))
    if ex:
        q *= F(10) ** int(ex)
    return f32_of_fraction(q)


def add(a, b): return f32(a + b)
def sub(a, b): return f32(a - b)
def mul(a, b): return f32(a * b)


def div(a, b):
    if b == 0:
        raise NoValue('division by zero')
    return f32(a / b)


def rem_euclid(a, b):
    if b == 0:
        raise NoValue('remainder by zero')
    r = math.fmod(a, b)              # exact
    return f32(r + abs(b)) if r < 0 else r


def div_euclid(a, b):
    if b == 0:
        raise NoValue('division by zero')
    q = float(math.trunc(f32(a / b)))
    if math.fmod(a, b) < 0:
        return f32(q - 1) if b > 0 else f32(q + 1)
    return q


TH = f32(0.0001)


def ref_fstr(x):
    """svgdx's number text: "0" below 0.0001, integers without a point, else at most three
    decimals (round half to even on the exact binary value), trailing zeros dropped"""
    if x != x:
        return 'NaN'
    if abs(x) < TH:
        return '0'
    if x == INF or x == -INF:
        return 'inf' if x > 0 else '-inf'
    i = max(-2 ** 31, min(2 ** 31 - 1, int(x)))
    if f32(float(i)) == x:
        return str(i)
    return ('%.3f' % x).rstrip('0').rstrip('.')


# ---------------------------------------------------------------- the random stream
class Pcg:
    """rand_pcg::Pcg32 seeded with seed_from_u64; random::<f32>() and random_range on i32"""
    M = 6364136223846793005
    MASK = 2 ** 64 - 1

    @staticmethod
    def out(state):
        xsh = (((state >> 18) ^ state) >> 27) & 0xffffffff
        rot = state >> 59
        return ((xsh >> rot) | (xsh << ((32 - rot) & 31))) & 0xffffffff

    def __init__(self, seed):
        s = seed & self.MASK
        w = []
        for _ in range(4):
            s = (s * self.M + 11634580027462260723) & self.MASK
            w.append(self.out(s))
        state = w[0] | (w[1] << 32)
        self.inc = (w[2] | (w[3] << 32)) | 1
        st = (state + self.inc) & self.MASK
        self.state = (st * self.M + self.inc) & self.MASK
        self.words = 0
        self.calls = 0

    def next_u32(self):
        o = self.out(self.state)
        self.state = (self.state * self.M + self.inc) & self.MASK
        self.words += 1
        return o

    def random(self):
        self.calls += 1
        return (self.next_u32() >> 8) / 2.0 ** 24

    def randint(self, lo, hi):
        self.calls += 1
        rng = (hi - lo + 1) & 0xffffffff
        if rng == 0:
            w = self.next_u32()
            return w if w < 2 ** 31 else w - 2 ** 32
        m = self.next_u32() * rng
        res = m >> 32
        lo_o = m & 0xffffffff
        if lo_o > ((-rng) & 0xffffffff):
            nh = (self.next_u32() * rng) >> 32
            if lo_o + nh >= 2 ** 32:
                res += 1
        return lo + res

    def peek(self):
        return self.out(self.state)


# ---------------------------------------------------------------- values
# number: float (a binary32 value);  string: ('s', str);  text: ('t', str);  list: python list (flat)
def flat(v):
    return list(v) if isinstance(v, list) else [v]


def is_num(v):
    return isinstance(v, float)


def num(v):
    """a number, or a list holding exactly one number"""
    f = flat(v)
    if len(f) == 1 and is_num(f[0]):
        return f[0]
    raise NoValue('expected a number')


def nums(args, n=None):
    if not all(is_num(a) for a in args) or (n is not None and len(args) != n):
        raise NoValue('expected %s numbers' % ('some' if n is None else n))
    return args


def strs(args, n=None):
    if not all(isinstance(a, tuple) for a in args) or (n is not None and len(args) != n):
        raise NoValue('expected strings')
    return [a[1] for a in args]


def finite(x):
    if x != x or x in (INF, -INF):
        raise NoValue('non-finite')
    return x


def b2f(b):
    return 1.0 if b else 0.0


def escape(s):
    return s.replace('\\', '\\\\').replace('\n', '\\n').replace("'", "\\'")


def display1(v):
    if is_num(v):
        return ref_fstr(v)
    return "'%s'" % escape(v[1]) if v[0] == 's' else v[1]


def display(v):
    return ', '.join(display1(x) for x in flat(v))


def raw_strings(v):
    return [ref_fstr(x) if is_num(x) else x[1] for x in flat(v)]


# ---------------------------------------------------------------- the documented functions
# name -> (arity or None, kind) ; kinds: 'n' numbers -> number, 'l' -> list, 'x' other
LIBM = {'log', 'exp', 'pow', 'sin', 'cos', 'tan', 'asin', 'acos', 'atan', 'r2p', 'p2r'}
FIXED_ARITY = {'abs': 1, 'ceil': 1, 'floor': 1, 'fract': 1, 'sign': 1, 'sqrt': 1, 'log': 1, 'exp': 1, 'sin': 1,
               'cos': 1, 'tan': 1, 'asin': 1, 'acos': 1, 'atan': 1, 'not': 1, 'splitw': 1, 'trim': 1, '_': 1,
               'divmod': 2, 'pow': 2, 'randint': 2, 'eq': 2, 'ne': 2, 'lt': 2, 'le': 2, 'gt': 2, 'ge': 2,
               'and': 2, 'or': 2, 'xor': 2, 'swap': 2, 'r2p': 2, 'p2r': 2, 'split': 2,
               'clamp': 3, 'mix': 3, 'if': 3}
ALL_FUNCTIONS = ['abs', 'ceil', 'floor', 'fract', 'sign', 'divmod', 'sqrt', 'log', 'exp', 'pow', 'sin', 'cos', 'tan',
                 'asin', 'acos', 'atan', 'random', 'randint', 'min', 'max', 'sum', 'product', 'mean', 'clamp', 'mix',
                 'eq', 'ne', 'lt', 'le', 'gt', 'ge', 'if', 'not', 'and', 'or', 'xor', 'swap', 'r2p', 'p2r', 'select',
                 'addv', 'subv', 'scalev', 'head', 'tail', 'empty', 'count', 'in', 'split', 'splitw', 'trim', 'join', '_']


class Approx(float):
    """a number computed through libm: compared with tolerance, and poisons exactness"""


def apx(x):
    return Approx(f32(finite(x)))


def call(name, args, prng, state):
    """args: flat list of scalar values. state['approx'] is set when libm was used."""
    def libm(x):
        state['approx'] = True
        return f32(finite(x))
    if name in FIXED_ARITY and len(args) != FIXED_ARITY[name]:
        raise NoValue('%s takes %d arguments' % (name, FIXED_ARITY[name]))
    if name == 'abs': return abs(nums(args)[0])
    if name == 'ceil': return float(math.ceil(nums(args)[0]))
    if name == 'floor': return float(math.floor(nums(args)[0]))
    if name == 'fract':
        x = nums(args)[0]
        return f32(x - math.trunc(x))
    if name == 'sign':
        x = nums(args)[0]
        return 0.0 if x == 0 else (1.0 if x > 0 else -1.0)
    if name == 'divmod':
        x, n = nums(args)
        return [div_euclid(x, n), rem_euclid(x, n)]
    if name == 'sqrt':
        x = nums(args)[0]
        if x < 0: raise NoValue('sqrt of a negative number')
        return f32(math.sqrt(x))
    if name == 'log':
        x = nums(args)[0]
        if x <= 0: raise NoValue('log domain')
        return libm(math.log(x))
    if name == 'exp':
        x = nums(args)[0]
        if abs(x) > 80: raise NoValue('exp range')
        return libm(math.exp(x))
    if name == 'pow':
        x, y = nums(args)
        try:
            r = math.pow(x, y)
        except (ValueError, OverflowError, ZeroDivisionError):
            raise NoValue('pow domain')
        return libm(r)
    if name in ('sin', 'cos', 'tan'):
        x = nums(args)[0]
        r = f32(x * f32(f32(math.pi) / 180.0))          # degrees -> radians in binary32, as documented
        if name == 'tan' and abs(math.cos(r)) < 1e-3: raise NoValue('tan near a pole')
        return libm(getattr(math, name)(r))
    if name in ('asin', 'acos', 'atan'):
        x = nums(args)[0]
        if name != 'atan' and abs(x) > 1: raise NoValue('domain')
        return libm(math.degrees(getattr(math, name)(x)))
    if name == 'random':
        return prng.random()
    if name == 'randint':
        a, b = nums(args)
        lo, hi = int(a), int(b)
        if abs(a) >= 2 ** 31 or abs(b) >= 2 ** 31 or lo > hi: raise NoValue('randint range')
        return f32(float(prng.randint(lo, hi)))
    if name in ('min', 'max'):
        l = nums(args)
        if not l: raise NoValue('empty')
        # -0 < +0 in the total order the code uses; the reference avoids deciding between zeros
        r = min(l) if name == 'min' else max(l)
        if r == 0 and any(math.copysign(1, x) < 0 for x in l if x == 0) and any(math.copysign(1, x) > 0 for x in l if x == 0):
            raise NoValue('zeros of both signs')
        return r
    if name == 'sum':
        acc = -0.0
        for x in nums(args): acc = f32(acc + x)
        return acc
    if name == 'product':
        acc = 1.0
        for x in nums(args): acc = f32(acc * x)
        return acc
    if name == 'mean':
        l = nums(args)
        if not l: raise NoValue('empty')
        acc = -0.0
        for x in l: acc = f32(acc + x)
        return f32(acc / float(len(l)))
    if name == 'clamp':
        x, lo, hi = nums(args)
        if lo > hi: raise NoValue('clamp bounds')
        return max(lo, min(hi, x))
    if name == 'mix':
        a, b, c = nums(args)
        return f32(f32(a * f32(1.0 - c)) + f32(b * c))
    if name in ('eq', 'ne'):
        a, b = args
        if is_num(a) != is_num(b): same = False
        elif is_num(a): same = a == b
        else: same = a == b          # kind and content
        return b2f(same if name == 'eq' else not same)
    if name in ('lt', 'le', 'gt', 'ge'):
        a, b = nums(args)
        return b2f({'lt': a < b, 'le': a <= b, 'gt': a > b, 'ge': a >= b}[name])
    if name == 'if':
        c, a, b = args
        if not is_num(c): raise NoValue('condition')
        return a if c != 0 else b
    if name == 'not': return b2f(nums(args)[0] == 0)
    if name in ('and', 'or', 'xor'):
        a, b = nums(args)
        return b2f({'and': a != 0 and b != 0, 'or': a != 0 or b != 0, 'xor': (a != 0) != (b != 0)}[name])
    if name == 'swap': return [args[1], args[0]]
    if name == 'r2p':
        x, y = nums(args)
        if x == 0 and y == 0: raise NoValue('angle of the origin')
        return [libm(math.hypot(x, y)), libm(math.degrees(math.atan2(y, x)))]
    if name == 'p2r':
        r, th = nums(args)
        t = f32(th * f32(f32(math.pi) / 180.0))
        return [libm(r * math.cos(t)), libm(r * math.sin(t))]
    if name == 'select':
        if len(args) < 2 or not is_num(args[0]): raise NoValue('select')
        n = args[0]
        if n < 0 or n != math.floor(n) or n >= len(args) - 1: raise NoValue('select index')
        return args[1 + int(n)]
    if name in ('addv', 'subv'):
        l = nums(args)
        if len(l) % 2: raise NoValue('odd')
        h = len(l) // 2
        return [add(l[i], l[i + h]) if name == 'addv' else sub(l[i], l[i + h]) for i in range(h)]
    if name == 'scalev':
        l = nums(args)
        if len(l) < 2: raise NoValue('scalev')
        return [mul(l[0], x) for x in l[1:]]
    if name == 'head': return args[0] if args else []
    if name == 'tail': return list(args[1:])
    if name == 'empty': return b2f(len(args) == 0)
    if name == 'count': return float(len(args))
    if name == 'in':
        if not args: raise NoValue('in')
        v = args[0]
        def same(a, b):
            if is_num(a) != is_num(b): return False
            return a == b
        return b2f(any(same(v, x) for x in args[1:]))
    if name == 'split':
        sep, a = strs(args, 2)
        if sep == '': raise NoValue('empty separator')
        return [('s', p) for p in a.split(sep)]
    if name == 'splitw':
        return [('s', p) for p in strs(args, 1)[0].split()]
    if name == 'trim':
        return ('s', strs(args, 1)[0].strip())
    if name == 'join':
        l = strs(args)
        if not l: raise NoValue('join')
        return ('s', l[0].join(l[1:]))
    if name == '_':
        return ('t', strs(args, 1)[0])
    raise NoValue('unknown function ' + name)


# ---------------------------------------------------------------- trees
# ('num', text) ('str', s) ('var', name) ('neg', a) ('bin', op, a, b) ('cmp', op, a, b) ('log', op, a, b)
# ('par', [items])  parenthesised comma list (one item: plain parentheses)   ('call', name, [args])
BIN = {'*': mul, '/': div, '%': rem_euclid, '+': add, '-': sub}
CMP = {'eq': lambda a, b: a == b, 'ne': lambda a, b: a != b, 'gt': lambda a, b: a > b,
       'ge': lambda a, b: a >= b, 'lt': lambda a, b: a < b, 'le': lambda a, b: a <= b}
LOG = {'and': lambda a, b: a and b, 'or': lambda a, b: a or b, 'xor': lambda a, b: a != b}


def ref_eval(t, env, prng, state):
    """env: name -> tree of the variable's definition (None: undefined)"""
    k = t[0]
    if k == 'num':
        return finite(lit_value(t[1]))
    if k == 'str':
        return ('s', t[1])
    if k == 'var':
        d = env.get(t[1])
        if d is None:
            raise NoValue('undefined variable')
        if t[1] in state['open']:
            raise NoValue('circular variable')
        state['open'].append(t[1])
        try:
            return ref_eval_top(d, env, prng, state) if d[0] == 'top' else ref_eval(d, env, prng, state)
        finally:
            state['open'].pop()
    if k == 'neg':
        return -num(ref_eval(t[1], env, prng, state))
    if k in ('bin', 'cmp', 'log'):
        a = num(ref_eval(t[2], env, prng, state))
        b = num(ref_eval(t[3], env, prng, state))
        if k == 'bin':
            return finite(BIN[t[1]](a, b))
        if k == 'cmp':
            return b2f(CMP[t[1]](a, b))
        return b2f(LOG[t[1]](a != 0, b != 0))
    if k == 'par':
        out = []
        for x in t[1]:
            out += flat(ref_eval(x, env, prng, state))
        return out
    if k == 'call':
        args = []
        for x in t[2]:
            args += flat(ref_eval(x, env, prng, state))
        r = call(t[1], args, prng, state)
        if is_num(r): finite(r)
        return r
    raise NoValue('bad tree')


def ref_eval_top(t, env, prng, state):
    """('top', [items]): an unparenthesised comma list (a whole expression or a variable text)"""
    out = []
    for x in t[1]:
        out += flat(ref_eval(x, env, prng, state))
    return out


def count_nodes(t):
    if t[0] in ('num', 'str', 'var'): return 1
    if t[0] == 'neg': return 1 + count_nodes(t[1])
    if t[0] in ('bin', 'cmp', 'log'): return 1 + count_nodes(t[2]) + count_nodes(t[3])
    if t[0] in ('par', 'top'): return 1 + sum(count_nodes(x) for x in t[1])
    if t[0] == 'call': return 1 + sum(count_nodes(x) for x in t[2])
    return 1


def depth(t):
    if t[0] in ('num', 'str', 'var'): return 1
    if t[0] == 'neg': return 1 + depth(t[1])
    if t[0] in ('bin', 'cmp', 'log'): return 1 + max(depth(t[2]), depth(t[3]))
    if t[0] in ('par', 'top'): return 1 + max([depth(x) for x in t[1]] + [0])
    if t[0] == 'call': return 1 + max([depth(x) for x in t[2]] + [0])
    return 1


def random_calls(t):
    if t[0] == 'call':
        return (1 if t[1] in ('random', 'randint') else 0) + sum(random_calls(x) for x in t[2])
    if t[0] == 'neg': return random_calls(t[1])
    if t[0] in ('bin', 'cmp', 'log'): return random_calls(t[2]) + random_calls(t[3])
    if t[0] in ('par', 'top'): return sum(random_calls(x) for x in t[1])
    return 0


def functions_used(t, acc=None):
    acc = set() if acc is None else acc
    if t[0] == 'call':
        acc.add(t[1])
        for x in t[2]: functions_used(x, acc)
    elif t[0] == 'neg': functions_used(t[1], acc)
    elif t[0] in ('bin', 'cmp', 'log'):
        acc.add(t[1]); functions_used(t[2], acc); functions_used(t[3], acc)
    elif t[0] in ('par', 'top'):
        for x in t[1]: functions_used(x, acc)
    return acc


# ---------------------------------------------------------------- rendering
LEVEL = {'log': 0, 'cmp': 1, '+': 2, '-': 2, '*': 3, '/': 3, '%': 3}


def level(t):
    if t[0] == 'log': return 0
    if t[0] == 'cmp': return 1
    if t[0] == 'bin': return LEVEL[t[1]]
    return 4


def tokens(t, lvl, rng, extra=0.1):
    """token texts of t in a position that needs binding level >= lvl"""
    k = t[0]
    if k == 'num': out = [t[1]]
    elif k == 'str': out = ["'%s'" % escape(t[1])]
    elif k == 'var': out = ['${%s}' % t[1] if rng.chance(0.25) else '$' + t[1]]
    elif k == 'neg': out = ['-'] + tokens(t[1], 4, rng, extra)
    elif k == 'log': out = tokens(t[2], 0, rng, extra) + [t[1]] + tokens(t[3], 1, rng, extra)
    elif k == 'cmp': out = tokens(t[2], 2, rng, extra) + [t[1]] + tokens(t[3], 2, rng, extra)
    elif k == 'bin':
        l = LEVEL[t[1]]
        out = tokens(t[2], l, rng, extra) + [t[1]] + tokens(t[3], l + 1, rng, extra)
    elif k == 'par':
        out = ['(']
        for i, x in enumerate(t[1]):
            if i: out.append(',')
            out += tokens(x, 0, rng, extra)
        return out + [')']
    elif k == 'top':
        out = []
        for i, x in enumerate(t[1]):
            if i: out.append(',')
            out += tokens(x, 0, rng, extra)
        return out
    elif k == 'call':
        out = [t[1], '(']
        for i, x in enumerate(t[2]):
            if i: out.append(',')
            out += tokens(x, 0, rng, extra)
        out.append(')')
    else:
        raise ValueError(t)
    if level(t) < lvl or rng.chance(extra):
        out = ['('] + out + [')']
    return out


def wordy(c):
    return c.isalnum() or c in '._$}{'


def join_tokens(toks, rng, spacing=0.3):
    s = ''
    for tk in toks:
        if s and ((wordy(s[-1]) and (wordy(tk[0]) or tk[0] in "'\"")) or rng.chance(spacing)):
            s += rng.choice([' ', ' ', '  ', '\t'])
        s += tk
    return s


def render(t, rng, extra=0.1, spacing=0.3):
    return join_tokens(tokens(t, 0, rng, extra), rng, spacing)


# ---------------------------------------------------------------- generation
EXACT = ['0', '1', '2', '3', '4', '5', '7', '8', '10', '12', '16', '100', '255', '0.5', '0.25', '1.5', '2.75', '0.125',
         '6.5', '1024', '3.0', '.5', '2.', '1e2', '2.5e1', '65536', '16777216']
NAMES_NUM = ['a', 'b', 'c', 'k', 'n1', 'w', 'val', 'x_1']
NAMES_LIST = ['l', 'pts', 'vs']
NAMES_STR = ['s', 'name']
WORDS = ['ab', 'x', 'hello world', 'a,b,c', ' pad ', 'it\'s', 'tab\there', 'q-r', '', 'A1']


def gen_literal(rng):
    r = rng.below(10)
    if r < 5:
        return rng.choice(EXACT)
    if r < 9:
        # decimals of up to 7 significant digits
        digs = rng.range(1, 7)
        v = rng.range(0, 10 ** digs - 1)
        sc = rng.range(0, digs)
        s = ('%0*d' % (sc + 1, v))
        return s[:len(s) - sc] + ('.' + s[len(s) - sc:] if sc else '')
    if rng.chance(0.3):
        # just off a tie between two binary32 neighbours: rounding the decimal to binary64 first and then to binary32 goes wrong
        return rng.choice(['16777217.000000001', '8192.00048828125000001', '16777219.0000000001', '33554434.00000001',
                           '1.00000005960464477539062501', '4194304.2500000001', '0.50000002980232238769531251'])
    return rng.choice(['1000000', '123456.7', '0.0001', '0.00009', '99999.99', '3.141593', '2147483', '0.001'])


class Gen:
    def __init__(self, rng, env_kinds, allow_random=True, allow_libm=True, allow_strings=True):
        """env_kinds: name -> 'n' | 'l' | 's' for the defined variables"""
        self.rng = rng
        self.num_vars = [k for k, v in env_kinds.items() if v == 'n']
        self.list_vars = [k for k, v in env_kinds.items() if v == 'l']
        self.str_vars = [k for k, v in env_kinds.items() if v == 's']
        self.allow_random = allow_random
        self.allow_libm = allow_libm
        self.allow_strings = allow_strings

    def num(self, d):
        rng = self.rng
        if d <= 0 or rng.chance(0.18):
            if self.num_vars and rng.chance(0.25):
                return ('var', rng.choice(self.num_vars))
            return ('num', gen_literal(rng))
        r = rng.below(100)
        if r < 8:
            return ('neg', self.num(d - 1))
        if r < 11:
            # a flat chain of + and - whose operands differ by more than the 24 bit significand: the grouping (left to right)
            # decides the rounded result
            big = rng.choice(['16777216', '33554432', '100000', '8388608', '1000000'])
            small = rng.choice(['1', '1', '0.003', '0.5', '3'])
            a, b, c = rng.choice([(big, small, small), (small, big, big), (big, big, small), (big, small, big)])
            t = ('bin', rng.choice(['+', '-']), ('num', a), ('num', b))
            t = ('bin', rng.choice(['+', '-']), t, ('num', c))
            if rng.chance(0.3):
                t = ('bin', rng.choice(['+', '-']), t, ('num', small))
            return t
        if r < 40:
            op = rng.choice(['*', '/', '%', '+', '-', '+', '-', '*'])
            return ('bin', op, self.num(d - 1), self.num(d - 1))
        if r < 50:
            return ('cmp', rng.choice(['eq', 'ne', 'gt', 'ge', 'lt', 'le']), self.num(d - 1), self.num(d - 1))
        if r < 60:
            return ('log', rng.choice(['and', 'or', 'xor']), self.num(d - 1), self.num(d - 1))
        if r < 65:
            return ('par', [self.num(d - 1)])
        return self.num_call(d)

    def num_call(self, d):
        rng = self.rng
        fns = ['abs', 'ceil', 'floor', 'fract', 'sign', 'sqrt', 'min', 'max', 'sum', 'product', 'mean', 'clamp', 'mix',
               'eq', 'ne', 'lt', 'le', 'gt', 'ge', 'if', 'not', 'and', 'or', 'xor', 'select', 'head', 'empty', 'count', 'in']
        if self.allow_libm:
            fns += ['log', 'exp', 'pow', 'sin', 'cos', 'tan', 'asin', 'acos', 'atan']
        if self.allow_random:
            fns += ['random', 'randint', 'random']
        f = rng.choice(fns)
        n = self.num
        if f in ('abs', 'ceil', 'floor', 'fract', 'sign', 'not', 'log', 'exp', 'sin', 'cos', 'tan', 'atan'):
            return ('call', f, [n(d - 1)])
        if f == 'sqrt':
            return ('call', f, [('call', 'abs', [n(d - 1)])])
        if f in ('asin', 'acos'):
            return ('call', f, [('call', 'fract', [n(d - 1)])])
        if f in ('lt', 'le', 'gt', 'ge', 'eq', 'ne', 'and', 'or', 'xor', 'pow'):
            return ('call', f, [n(d - 1), n(d - 1)])
        if f in ('min', 'max', 'sum', 'product', 'mean', 'count', 'empty'):
            return ('call', f, self.items(d - 1, 0 if f in ('sum', 'product', 'count', 'empty') else 1, 4))
        if f == 'clamp':
            lo = n(d - 1)
            return ('call', f, [n(d - 1), lo, ('bin', '+', lo, ('call', 'abs', [n(d - 1)]))])
        if f in ('mix', 'if'):
            return ('call', f, [n(d - 1), n(d - 1), n(d - 1)])
        if f == 'select':
            its = self.items(d - 1, 1, 4)
            return ('call', f, [('num', str(rng.below(len(its))))] + its) if all(i[0] != 'var' or i[1] not in self.list_vars for i in its) \
                else ('call', f, [('num', '0')] + its)
        if f == 'head':
            return ('call', f, self.items(d - 1, 1, 3))
        if f == 'in':
            return ('call', f, self.items(d - 1, 1, 4))
        if f == 'random':
            return ('call', f, [])
        if f == 'randint':
            if rng.chance(0.08):      # the ends of the i32 range (the bounds are cast with `as i32`, which saturates)
                lo, hi = rng.choice([('0', '2147483647'), ('1', '2147483520'), ('2147483520', '2147483520'), ('0', '16777216')])
                return ('call', f, [('num', lo), ('num', hi)])
            lo = rng.range(-20, 20)
            return ('call', f, [('num', str(lo)) if lo >= 0 else ('neg', ('num', str(-lo))), ('num', str(lo + rng.range(0, 50)))])
        return ('num', '1')

    def items(self, d, lo, hi):
        """argument items that flatten to numbers"""
        rng = self.rng
        out = []
        for _ in range(rng.range(lo, hi)):
            if self.list_vars and rng.chance(0.12):
                out.append(('var', rng.choice(self.list_vars)))
            elif rng.chance(0.1):
                out.append(self.lst(d))
            else:
                out.append(self.num(d))
        return out

    def lst(self, d):
        """a tree whose value is a list of numbers"""
        rng = self.rng
        r = rng.below(8)
        n = self.num
        if d <= 0 or r == 0:
            return ('par', [n(0) for _ in range(rng.range(0, 3))])
        if r == 1: return ('call', 'swap', [n(d - 1), n(d - 1)])
        if r == 2: return ('call', 'divmod', [n(d - 1), ('bin', '+', ('call', 'abs', [n(d - 1)]), ('num', '1'))])
        if r == 3:
            k = rng.range(1, 3)
            return ('call', rng.choice(['addv', 'subv']), [n(d - 1) for _ in range(2 * k)])
        if r == 4: return ('call', 'scalev', [n(d - 1)] + [n(d - 1) for _ in range(rng.range(1, 3))])
        if r == 5: return ('call', 'tail', self.items(d - 1, 0, 4))
        if r == 6 and self.allow_libm: return ('call', rng.choice(['r2p', 'p2r']), [n(d - 1), n(d - 1)])
        return ('par', self.items(d - 1, 1, 3))

    def string(self, d):
        rng = self.rng
        r = rng.below(7)
        if d <= 0 or r < 2:
            if self.str_vars and rng.chance(0.3):
                return ('var', rng.choice(self.str_vars))
            return ('str', rng.choice(WORDS))
        if r == 2: return ('call', 'trim', [self.string(d - 1)])
        if r == 3: return ('call', 'join', [('str', rng.choice(['-', ', ', '', 'ab']))] + [self.string(d - 1) for _ in range(rng.range(0, 3))])
        if r == 4: return ('call', '_', [self.string(d - 1)])
        if r == 5: return ('call', 'if', [self.num(d - 1), self.string(d - 1), self.string(d - 1)])
        return ('call', 'head', [self.string(d - 1), self.string(d - 1)])

    def strlist(self, d):
        rng = self.rng
        r = rng.below(3)
        if r == 0: return ('call', 'split', [('str', rng.choice([',', ' ', 'b', 'll'])), self.string(d - 1)])
        if r == 1: return ('call', 'splitw', [self.string(d - 1)])
        return ('par', [self.string(d - 1) for _ in range(rng.range(1, 3))])

    def any_top(self, d):
        """a whole expression: mostly one number, sometimes a comma list, a list or strings"""
        rng = self.rng
        r = rng.below(20)
        if r < 12 or not self.allow_strings and r >= 17:
            return ('top', [self.num(d)])
        if r < 15:
            return ('top', [self.num(d - 1) for _ in range(rng.range(2, 4))])
        if r < 17:
            return ('top', [self.lst(d)])
        if r == 17:
            return ('top', [self.string(d)])
        if r == 18:
            return ('top', [self.strlist(d)])
        return ('top', [('call', rng.choice(['count', 'empty']), [self.strlist(d - 1)])])
