"""C11 Uniform positioning: equivalent constraints give identical geometry."""
import itertools
from lib import Case, hx, enc_attrs, dec_attrs, doc_case, unhx
import xmlcanon

RULE = ('bounded-exhaustive: 4 shapes x 36 per-axis constraint pairs x longhand/shorthand spellings x separators x random boxes; '
        'hook cases (Position::to_bbox, resolve_position) compared bit-exactly with the extracted Coq model on binary32; '
        'document cases checked by the direct oracle (all spellings of one box give identical native attributes; lines running backwards on one or both axes in every start / end / centre pairing). '
        'non-trivial = distinct case whose constraint pair is not the native pair of the shape')
THEOREM_NOTES = 'Props/C11.v: extent_any_sufficient_pair, to_bbox_any_pair (rect/ellipse/line), to_bbox_circle, shorthand_equiv, native_only'
ASSUMPTIONS = ['identical geometry is proved in exact arithmetic (QOps); on binary32 the oracle uses dyadic coordinates so that f32 is exact',
               'strings hold bytes; value tokens contain no separators']

QS = ['s', 'e', 'm', 'l']


def fmt(v):
    s = ('%.4f' % v).rstrip('0').rstrip('.')
    return '0' if s in ('-0', '') else s


SQUARE = [False]


def axis_attrs(shape, axis, q, a, b, rng=None):
    """attribute (name, value) giving quantity q of the interval [a,b] on the axis"""
    if q == 's':
        name = {'x': 'x', 'y': 'y'}[axis]
        if shape == 'line' or (rng and rng.chance(0.3)):
            name += '1'
        return (name, fmt(a))
    if q == 'e':
        return (axis + '2', fmt(b))
    if q == 'm':
        return ('c' + axis, fmt((a + b) / 2))
    if q == 'l':
        if shape == 'circle' and (rng is None or rng.chance(0.5)):
            return ('r', fmt((b - a) / 2))
        if shape == 'ellipse' and SQUARE[0] and rng is not None and rng.chance(0.4):
            return ('r', fmt((b - a) / 2))        # one radius for both axes (only generated for square boxes)
        if shape == 'ellipse' and (rng is None or rng.chance(0.5)):
            return ('r' + axis, fmt((b - a) / 2))
        return ({'x': 'width', 'y': 'height'}[axis], fmt(b - a))


def native(shape, x1, y1, x2, y2):
    if shape == 'rect':
        return [('x', fmt(x1)), ('y', fmt(y1)), ('width', fmt(x2 - x1)), ('height', fmt(y2 - y1))]
    if shape == 'circle':
        return [('cx', fmt((x1 + x2) / 2)), ('cy', fmt((y1 + y2) / 2)), ('r', fmt((x2 - x1) / 2))]
    if shape == 'ellipse':
        return [('cx', fmt((x1 + x2) / 2)), ('cy', fmt((y1 + y2) / 2)), ('rx', fmt((x2 - x1) / 2)), ('ry', fmt((y2 - y1) / 2))]
    if shape == 'line':
        return [('x1', fmt(x1)), ('y1', fmt(y1)), ('x2', fmt(x2)), ('y2', fmt(y2))]


NATIVE_NAMES = {'rect': {'x', 'y', 'width', 'height'}, 'circle': {'cx', 'cy', 'r'},
                'ellipse': {'cx', 'cy', 'rx', 'ry'}, 'line': {'x1', 'y1', 'x2', 'y2'}}
GEOM_VOCAB = {'x', 'y', 'x1', 'y1', 'x2', 'y2', 'cx', 'cy', 'r', 'rx', 'ry', 'width', 'height', 'xy', 'cxy', 'xy1', 'xy2',
              'wh', 'rxy', 'dxy', 'dwh', 'dx', 'dy', 'dw', 'dh', 'xy-loc'}
PAIRS = [(a, b) for a in QS for b in QS if a < b]   # 6 unordered sufficient pairs per axis


def shorthand(attrs, rng):
    """merge longhand pairs into shorthands where possible"""
    d = dict(attrs)
    out = []
    used = set()
    sep = rng.choice([' ', ',', ', ', '  '])
    for sh, (a, b) in [('xy', ('x', 'y')), ('cxy', ('cx', 'cy')), ('xy1', ('x1', 'y1')), ('xy2', ('x2', 'y2')),
                        ('wh', ('width', 'height')), ('rxy', ('rx', 'ry'))]:
        if a in d and b in d and rng.chance(0.7):
            if d[a] == d[b] and rng.chance(0.5):
                out.append((sh, d[a]))
            else:
                out.append((sh, d[a] + sep + d[b]))
            used |= {a, b}
    out += [(k, v) for k, v in attrs if k not in used]
    rng.shuffle(out)
    return out


def gen_box(rng, dyadic, square=False):
    if dyadic:
        x1 = rng.range(-160, 320) / 8.0; w = rng.range(1, 240) / 4.0
        y1 = rng.range(-160, 320) / 8.0; h = rng.range(1, 240) / 4.0
    else:
        x1 = round(rng.uniform(-30, 60), rng.range(0, 3)); w = round(rng.uniform(0.5, 50), rng.range(0, 3)) or 1.0
        y1 = round(rng.uniform(-30, 60), rng.range(0, 3)); h = round(rng.uniform(0.5, 50), rng.range(0, 3)) or 1.0
    if square:
        h = w
    return x1, y1, x1 + w, y1 + h


def run(ctx):
    rng = ctx['rng']; lib = ctx['lib']; st = ctx['stats']
    quick = ctx['tier'] == 'quick'
    nbox = 6 if quick else 60
    cases = []; meta = {}
    n = 0
    dist = st['distribution']
    # ---- hook-level correspondence: posbbox and resolve over arbitrary decimals
    for shape in ['rect', 'circle', 'ellipse', 'line']:
        for px in PAIRS:
            for py in PAIRS:
                for bi in range(nbox):
                    x1, y1, x2, y2 = gen_box(rng, dyadic=False, square=(shape == 'circle'))
                    attrs = [axis_attrs(shape, 'x', q, x1, x2, rng) for q in px] + [axis_attrs(shape, 'y', q, y1, y2, rng) for q in py]
                    # duplicate names (e.g. r twice for a circle) collapse
                    seen = {}; attrs = [seen.setdefault(k, (k, v)) for k, v in attrs if k not in seen]
                    if rng.chance(0.3):
                        attrs.append(('id', 'e%d' % n))
                    if rng.chance(0.15):
                        attrs.append(rng.choice([('dxy', '%s %s' % (fmt(rng.range(-9, 9) / 2), fmt(rng.range(-9, 9) / 2))), ('dx', fmt(rng.range(-20, 20) / 4)), ('dy', '1.5')]))
                    if rng.chance(0.1):
                        attrs.append(rng.choice([('dwh', '2 -1'), ('dw', '50%'), ('dh', '3'), ('dwh', '25%')]))
                    rng.shuffle(attrs)
                    c1 = Case('p%d' % n, 'posbbox', [hx(shape), enc_attrs(attrs)], {'shape': shape, 'px': px, 'py': py})
                    sattrs = shorthand(attrs, rng) if rng.chance(0.6) else attrs
                    c2 = Case('r%d' % n, 'resolve', [hx(shape), enc_attrs(sattrs), ''], {'shape': shape, 'px': px, 'py': py, 'attrs': sattrs})
                    cases += [c1, c2]; n += 1
                    dist[shape] = dist.get(shape, 0) + 1
    # insufficient / over-constrained / malformed stream
    for i in range(60 if quick else 600):
        shape = rng.choice(['rect', 'circle', 'ellipse', 'line', 'use', 'image', 'g', 'polyline', 'text', 'point', 'box'])
        keys = rng.sample(sorted(GEOM_VOCAB - {'xy-loc'}), rng.range(0, 5))
        attrs = []
        for k in keys:
            v = rng.choice([fmt(rng.range(-40, 80) / 4), fmt(rng.uniform(-9, 30)), '%s %s' % (rng.range(0, 9), rng.range(1, 9)), '10%', '3mm', '', 'abc', '1e1', '+.5', '-', '1 2 3', ' 7 ', 'inf', 'NaN'])
            attrs.append((k, v))
        if rng.chance(0.2):
            attrs.append(('xy-loc', rng.choice(['t', 'tr', 'r', 'br', 'b', 'bl', 'l', 'c', 'tl', 'zz'])))
        cases.append(Case('m%d' % i, 'resolve', [hx(shape), enc_attrs(attrs), ''], {'shape': shape, 'malformed': True, 'attrs': attrs}))
        cases.append(Case('n%d' % i, 'posbbox', [hx(shape), enc_attrs(attrs)], {'shape': shape, 'malformed': True}))
        dist['malformed'] = dist.get('malformed', 0) + 1
    impl = lib.run_impl(cases)
    model = lib.run_model(cases) if ctx['model_ok'] else {}
    seen = set()
    for c in cases:
        st['evaluations'] += 1
        key = (c.kind, tuple(c.fields))
        if key not in seen:
            seen.add(key)
            if c.meta.get('malformed') or (c.meta.get('px'), c.meta.get('py')) != (('l', 's'), ('l', 's')):
                st['distinct_nontrivial'] += 1
        i = impl.get(c.id); m = model.get(c.id)
        if m is not None:
            st['traces_validated_against_impl'] += 1
            if i != m:
                yield {'kind': 'correspondence', 'what': 'model and implementation disagree on %s %s' % (c.kind, c.meta.get('attrs', '')),
                       'case': c.to_json(), 'observed': i, 'expected': m}
        if len(st['samples']) < 3 and c.kind == 'resolve' and i and i[0] == 'OK':
            st['samples'].append({'kind': c.kind, 'shape': c.meta['shape'], 'attrs': c.meta.get('attrs'), 'impl': dec_attrs(i[1]) if len(i) > 1 else []})
    # ---- document level oracle: all spellings of one (dyadic) box give identical native attributes
    docs = []
    ndoc = 40 if quick else 600
    for di in range(ndoc):
        shape = rng.choice(['rect', 'circle', 'ellipse', 'line'])
        SQUARE[0] = shape == 'circle' or (shape == 'ellipse' and rng.chance(0.3))
        x1, y1, x2, y2 = gen_box(rng, dyadic=True, square=SQUARE[0])
        els = []; spell = []
        # the same translation on every spelling, written as dxy shorthand or dx / dy longhand (dx != dy mostly)
        ddx = ddy = 0.0
        if rng.chance(0.6):
            ddx = rng.range(-40, 40) / 4.0; ddy = rng.range(-40, 40) / 4.0
            if rng.chance(0.2): ddx = 0.0
            elif rng.chance(0.2): ddy = 0.0
        combos = [(px, py) for px in PAIRS for py in PAIRS]
        if shape == 'circle':
            # one diameter serves both axes: a full pair on one axis and a single start / end / centre on the other is sufficient too
            for single in ('s', 'e', 'm'):
                for full in PAIRS:
                    combos += [((single,), full), (full, (single,))]
        for px, py in combos:
                if not quick or rng.chance(0.5):
                    attrs = [axis_attrs(shape, 'x', q, x1, x2, rng) for q in px] + [axis_attrs(shape, 'y', q, y1, y2, rng) for q in py]
                    sn = {}; attrs = [sn.setdefault(k, (k, v)) for k, v in attrs if k not in sn]
                    if ddx or ddy:
                        if ddx and ddy and rng.chance(0.5):
                            attrs.append(('dxy', fmt(ddx) + rng.choice([' ', ',', ', ']) + fmt(ddy)))
                        elif ddx == ddy and rng.chance(0.5):
                            attrs.append(('dxy', fmt(ddx)))
                        else:
                            if ddx or rng.chance(0.5): attrs.append(('dx', fmt(ddx)))
                            if ddy or rng.chance(0.5): attrs.append(('dy', fmt(ddy)))
                    if rng.chance(0.5):
                        attrs = shorthand(attrs, rng)
                    else:
                        rng.shuffle(attrs)
                    els.append(xmlcanon.el(shape, attrs)); spell.append(attrs)
        xml = '<svg>' + ''.join(els) + '</svg>'
        docs.append((doc_case('d%d' % di, xml, {'add_auto_styles': False}), shape, (x1 + ddx, y1 + ddy, x2 + ddx, y2 + ddy), spell))
        dist['doc_with_dxy'] = dist.get('doc_with_dxy', 0) + (1 if ddx or ddy else 0)
    SQUARE[0] = False
    # size deltas: the shorthand dwh and the longhand dw / dh on every spelling of position and size of one rect
    for di in range(ndoc // 2):
        x1, y1, x2, y2 = gen_box(rng, dyadic=True)
        dw = rng.range(-8, 40) / 4.0; dh = rng.range(-8, 40) / 4.0
        if x2 - x1 + dw <= 0: dw = 1.0
        if y2 - y1 + dh <= 0: dh = 1.0
        els = []; spell = []
        for posn in ([('x', fmt(x1)), ('y', fmt(y1))], [('xy', '%s %s' % (fmt(x1), fmt(y1)))]):
            for size in ([('width', fmt(x2 - x1)), ('height', fmt(y2 - y1))], [('wh', '%s %s' % (fmt(x2 - x1), fmt(y2 - y1)))]):
                for delta in ([('dwh', '%s %s' % (fmt(dw), fmt(dh)))], [('dw', fmt(dw)), ('dh', fmt(dh))]):
                    attrs = posn + size + delta
                    if rng.chance(0.5): rng.shuffle(attrs)
                    els.append(xmlcanon.el('rect', attrs)); spell.append(attrs)
        xml = '<svg>' + ''.join(els) + '</svg>'
        docs.append((doc_case('w%d' % di, xml, {'add_auto_styles': False}), 'rect', (x1, y1, x2 + dw, y2 + dh), spell))
        dist['doc_with_dwh'] = dist.get('doc_with_dwh', 0) + 1
    # lines that run backwards on one or both axes (start beyond the end): only start / end / centre can say so
    for di in range(ndoc // 2):
        x1, y1, x2, y2 = gen_box(rng, dyadic=True)
        flip = rng.choice(['x', 'y', 'xy'])
        if 'x' in flip: x1, x2 = x2, x1
        if 'y' in flip: y1, y2 = y2, y1
        els = []; spell = []
        sem = [p_ for p_ in PAIRS if 'l' not in p_]
        for px in sem:
            for py in sem:
                attrs = [axis_attrs('line', 'x', q, x1, x2, rng) for q in px] + [axis_attrs('line', 'y', q, y1, y2, rng) for q in py]
                if rng.chance(0.5):
                    attrs = shorthand(attrs, rng)
                else:
                    rng.shuffle(attrs)
                els.append(xmlcanon.el('line', attrs)); spell.append(attrs)
        xml = '<svg>' + ''.join(els) + '</svg>'
        docs.append((doc_case('b%d' % di, xml, {'add_auto_styles': False}), 'line', (x1, y1, x2, y2), spell))
        dist['doc_backward_line'] = dist.get('doc_backward_line', 0) + 1
    dres = lib.run_impl([d[0] for d in docs])
    for c, shape, box, spell in docs:
        st['evaluations'] += 1; st['distinct_nontrivial'] += 1
        r = dres.get(c.id)
        if not r or r[0] != 'OK':
            yield {'kind': 'oracle', 'what': 'document of sufficient constraint spellings of one %s box was rejected: %s' % (shape, r),
                   'case': c.to_json(), 'observed': r, 'expected': 'OK'}
            continue
        root, _, err = xmlcanon.parse(bytes.fromhex(r[1]))
        if err:
            yield {'kind': 'oracle', 'what': 'output not parseable: ' + err, 'case': c.to_json(), 'observed': unhx(r[1]), 'expected': 'well-formed'}
            continue
        outs = [n for n in root.iter() if n.name == shape]
        exp = sorted(native(shape, *box))
        if len(outs) != len(spell):
            yield {'kind': 'oracle', 'what': 'element count changed', 'case': c.to_json(), 'observed': len(outs), 'expected': len(spell)}
            continue
        for o, sp in zip(outs, spell):
            got = sorted(o.attrs)
            if got != exp:
                yield {'kind': 'oracle', 'what': 'spelling %s of %s box %s gives %s, expected native geometry %s' % (sp, shape, box, got, exp),
                       'case': c.to_json(), 'observed': got, 'expected': exp, 'spelling': sp}
                break
        if len(st['samples']) < 5:
            st['samples'].append({'kind': 'doc', 'input': xml[:300], 'output': unhx(r[1])[:300]})
