"""C01 Totality: every input gives a result or an error, never a crash or a hang."""
import os, subprocess, time, resource
from lib import Case, hx, doc_case, unhx, enc_attrs, enc_els
import xmlcanon, xmlgen, docgen

NEEDS_BINS = True
RULE = ('inputs: generated svgdx and SVG documents, their mutations (token / byte deletion, duplication, insertion), byte noise, '
        'non-UTF-8 bytes at every syntactic position (names, attribute values, text, comments, CDATA, PIs), path / bearing / points / '
        'transform / expression strings from grammar + mutation, and sweeps of shape parameters no literal reaches (nesting of ( ) , unary '
        'minus, $-variable chains, XML elements, <g>, reuse chains, flat siblings, loop counts) at 10..10^4 (10^5 thorough) under limits at '
        'and below the defaults; every input goes through transform_stream in the harness (panic and time-out observed per case, aborts per '
        'process), a sample through the svgdx binary (exit status, signal) and through POST /api/transform of one long-lived server (status '
        '200 / 400, server alive afterwards); a case must end in Ok or Err within a CPU budget proportional to its size. '
        'non-trivial = distinct input that is not plain well-formed svgdx (mutated, noisy, non-UTF-8, or a sweep member)')
THEOREM_NOTES = 'Props/C01.v: see file'
ASSUMPTIONS = ['quick-xml, clap, axum / tokio, the allocator and the real stack size are outside the model: the oracle observes aborts and hangs of the real process',
               'known findings K1 (variable lookup without memoisation) and K2 (nested retries) are exponential-cost families excluded by class']
BUDGET_S = 8.0       # wall budget of a single case (documents here are < 1 MB and ask for < 10^5 element evaluations)


def mutate(rng, s):
    b = bytearray(s.encode('utf-8') if isinstance(s, str) else s)
    for _ in range(rng.range(1, 3)):
        if not b:
            break
        k = rng.below(7); p = rng.below(len(b))
        if k == 0: del b[p:p + rng.range(1, 4)]
        elif k == 1: b[p:p] = b[p:p + rng.range(1, 6)]
        elif k == 2: b[p:p] = rng.choice([b'<', b'>', b'&', b'"', b'{{', b'}}', b'$', b'#', b'(', b')', b'-', b'\\', b'\xff', b'\xc3', b'\x00', b'z', b'e', b',,', b'^', b'@', b'|', b'~'])
        elif k == 3: b[p] = rng.below(256)
        elif k == 4:
            q = rng.below(len(b)); b[p], b[q] = b[q], b[p]
        elif k == 5: b[p:p] = bytes([b[p]]) * rng.range(2, 40)
        else: b = b[:p]
    return bytes(b)


def expr_strings(rng):
    ops = ['+', '-', '*', '/', '%', ',', ' ', '(', ')', 'eq', 'lt', 'and', 'or', 'not', '$a', '$b', '${c}', '1', '2.5', '-3', '0', 'sin(', 'min(', 'clamp(', 'random()', 'randint(', '$\u00e9a', '${\u4e2d}', '$\u03b11 + 1', '#\u00e9~w', 'f\u00e9(1)', 'randint(1, 2147483647)', 'randint(0, 3000000000)', 'randint(-3000000000, 0)', 'randint(2147483647, 2147483647)', '2147483648', '-2147483649', '1e39', '0/0', 'if(', 'head(', '#r~w', '#r@tl']
    return ' '.join(rng.choice(ops) for _ in range(rng.range(1, 12)))


def sweep_docs(n):
    """shape-parameter sweeps at size n"""
    out = []
    out.append(('paren', '<svg><rect wh="{{%s1%s}}"/></svg>' % ('(' * n, ')' * n)))
    out.append(('minus', '<svg><rect wh="{{%s1}}"/></svg>' % ('-' * n)))
    out.append(('not', '<svg><rect wh="{{%s1}}"/></svg>' % ('not(' * min(n, 20000)) ))
    chain = ''.join('<var v%d="$v%d"/>' % (i, i + 1) for i in range(min(n, 3000)))
    out.append(('varchain', '<svg><var v%d="1"/>%s<rect wh="{{$v0}}"/></svg>' % (min(n, 3000), chain)))
    out.append(('varchain-rev', '<svg>%s<var v%d="1"/><rect wh="$v0"/></svg>' % (''.join('<var v%d="{{$v%d}}"/>' % (i, i + 1) for i in range(min(n, 600))), min(n, 600))))   # n passes over n elements: W*(P+1) budget
    m = min(n, 3000)
    for wrap in (0, 30, 95):
        out.append(('varlit-paren%d' % wrap, '<svg>%s<var v%d="1"/><rect wh="{{$v0}}"/></svg>' % (''.join('<var v%d="%s$v%d%s"/>' % (i, '(' * wrap, i + 1, ')' * wrap) for i in range(m)), m)))
    out.append(('varlit-minus', '<svg>%s<var v%d="1"/><rect wh="{{$v0}}"/></svg>' % (''.join('<var v%d="%s$v%d"/>' % (i, '-' * 60, i + 1) for i in range(m)), m)))
    out.append(('varcycle', '<svg>%s<var v%d="$v0"/><rect wh="{{$v0}}"/></svg>' % (''.join('<var v%d="$v%d"/>' % (i, i + 1) for i in range(m)), m)))
    out.append(('usecycle', '<svg>%s<use id="u%d" href="#u0"/><rect xy="#u0|h" wh="1"/></svg>' % (''.join('<use id="u%d" href="#u%d"/>' % (i, i + 1) for i in range(min(n, 500))), min(n, 500))))
    out.append(('usechain', '<svg>%s<rect id="u%d" wh="3"/><rect xy="#u0|h" wh="1"/></svg>' % (''.join('<use id="u%d" href="#u%d"/>' % (i, i + 1) for i in range(min(n, 500))), min(n, 500))))
    out.append(('clipchain', '<svg>%s<clipPath id="c%d"><rect wh="3"/></clipPath><rect id="a" wh="9" clip-path="url(#c0)"/><rect xy="#a|h" wh="1"/></svg>' % (''.join('<clipPath id="c%d" clip-path="url(#c%d)"><rect wh="%d"/></clipPath>' % (i, i + 1, i + 5) for i in range(min(n, 1000))), min(n, 1000))))
    out.append(('clipcycle', '<svg>%s<clipPath id="c%d" clip-path="url(#c0)"><rect wh="3"/></clipPath><rect id="a" wh="9" clip-path="url(#c0)"/><rect xy="#a|h" wh="1"/></svg>' % (''.join('<clipPath id="c%d" clip-path="url(#c%d)"><rect wh="%d"/></clipPath>' % (i, i + 1, i + 5) for i in range(min(n, 1000))), min(n, 1000))))
    out.append(('reusecycle', '<svg><specs>%s<g id="t%d"><reuse href="#t0"/></g></specs><reuse href="#t0"/></svg>' % (''.join('<g id="t%d"><reuse href="#t%d"/></g>' % (i, i + 1) for i in range(min(n, 1000))), min(n, 1000))))
    out.append(('poscycle', '<svg>%s<rect id="p%d" xy="#p0|h" wh="2"/></svg>' % (''.join('<rect id="p%d" xy="#p%d|h" wh="2"/>' % (i, i + 1) for i in range(min(n, 100))), min(n, 100))))
    out.append(('bearing-z', '<svg><path d="M0 0 %s"/></svg>' % ('b90 h10 z m1 1 ' * min(n, 10000))))
    out.append(('funcnest', '<svg><rect wh="{{%s1%s}}"/></svg>' % ('abs(' * min(n, 20000), ')' * min(n, 20000))))
    out.append(('listlong', '<svg><rect wh="{{sum(%s)}}"/></svg>' % ', '.join('1' for _ in range(min(n, 20000)))))
    out.append(('forlist', '<svg><for var="i" data="%s"><rect wh="$i"/></for></svg>' % ', '.join(str(i) for i in range(n))))
    dd = min(n, 60)
    out.append(('varlimit-nested', '<svg>%s<var v="%s"/>%s</svg>' % ('<g><rect wh="1"/>' * dd, 'x' * 2000, '</g>' * dd)))
    out.append(('looplimit-nested', '<svg>%s<loop count="2000"><rect wh="1"/></loop>%s</svg>' % ('<g><rect wh="1"/>' * dd, '</g>' * dd)))
    out.append(('use-prev-cycle', '<svg><rect wh="10"/>%s</svg>' % ('<use href="^"/>' * min(n, 50))))
    out.append(('reuse-prev-cycle', '<svg><rect wh="10"/>%s</svg>' % ('<reuse href="^"/>' * min(n, 50))))
    out.append(('xmlnest', '<svg>%s<rect wh="1"/>%s</svg>' % ('<a>' * n, '</a>' * n)))
    out.append(('gnest', '<svg>%s<rect wh="1"/>%s</svg>' % ('<g>' * n, '</g>' * n)))
    out.append(('flat', '<svg>%s</svg>' % ('<rect xy="^|h 1" wh="2"/>' * min(n, 20000))))
    out.append(('flat-text', '<svg>%s</svg>' % ('<text xy="1 2">t</text>' * min(n, 20000))))
    out.append(('fwd-flat', '<svg>%s<rect id="z" wh="3"/></svg>' % ('<rect xy="#z|h" wh="2"/>' * min(n, 3000))))
    out.append(('reusechain', '<svg><specs>%s<rect id="t%d" wh="1"/></specs><reuse href="#t0"/></svg>' % (''.join('<g id="t%d"><reuse href="#t%d"/></g>' % (i, i + 1) for i in range(min(n, 2000))), min(n, 2000))))
    out.append(('loopcount', '<svg><loop count="%d"><rect wh="1"/></loop></svg>' % n))
    out.append(('loopnest', '<svg><loop count="%d"><loop count="%d"><rect wh="1"/></loop></loop></svg>' % (min(n, 300), min(n, 300))))
    out.append(('longattr', '<svg><rect wh="1" text="%s"/></svg>' % ('x' * n)))
    out.append(('pathlong', '<svg><path d="M0 0 %s"/></svg>' % ('L1 2 ' * min(n, 50000))))
    out.append(('pathz', '<svg><path d="M0 0 %s"/></svg>' % ('z ' * min(n, 50000))))
    out.append(('bearing', '<svg><path d="M0 0 %s"/></svg>' % ('b90 h10 ' * min(n, 20000))))
    out.append(('points', '<svg><polyline points="%s"/></svg>' % ('1,2 ' * min(n, 50000))))
    out.append(('refchain', '<svg><rect id="e0" wh="2"/>%s</svg>' % ''.join('<rect id="e%d" xy="#e%d|h 1" wh="2"/>' % (i + 1, i) for i in range(min(n, 3000)))))
    out.append(('refchain-rev', '<svg>%s<rect id="e0" wh="2"/></svg>' % ''.join('<rect id="e%d" xy="#e%d|h 1" wh="2"/>' % (i + 1, i) for i in reversed(range(min(n, 150))))))
    out.append(('surround-many', '<svg>%s<rect surround="%s"/></svg>' % (''.join('<rect id="s%d" xy="%d 0" wh="1"/>' % (i, i * 2) for i in range(min(n, 2000))), ' '.join('#s%d' % i for i in range(min(n, 2000))))))
    out.append(('classes', '<svg><rect wh="1" class="%s"/></svg>' % ' '.join('d-grid-%d' % (i % 100) for i in range(min(n, 3000)))))
    out.append(('comments', '<svg>%s</svg>' % ('<!-- c -->' * min(n, 20000))))
    out.append(('entities', '<svg><text xy="0">%s</text></svg>' % ('&amp;&#65;' * min(n, 20000))))
    return out


NONUTF = [b'<svg><rect wh="1" text="a\xffb"/></svg>', b'<svg><!-- \xff --><rect wh="1"/></svg>', b'<svg><![CDATA[\xfe]]></svg>', b'<svg><re\xffct wh="1"/></svg>',
          b'<svg xmlns="http://www.w3.org/2000/svg"><!-- \xff --></svg>', b'<?pi \xff?><svg/>', b'<svg><rect \xff="1"/></svg>', b'<svg>\xc3</svg>', b'\xff\xfe<svg/>',
          b'<svg xmlns="http://www.w3.org/2000/svg"><t>\xed\xa0\x80</t></svg>', b'<svg><text>\xf8\x88\x80\x80\x80</text></svg>', b'<svg><rect wh="1" class="\xff"/></svg>',
          b'<svg><var v="\xff"/><rect wh="1" text="$v"/></svg>', b'<svg><rect wh="{{\xff}}"/></svg>', b'<svg><path d="M0 0 \xff"/></svg>', b'<!DOCTYPE \xff><svg/>']
K2_WITNESS = None


def run_cli(lib, data, cfg_args, timeout):
    t0 = time.time()
    try:
        p = subprocess.run([lib.SVGDX_BIN] + cfg_args, input=data, stdout=subprocess.PIPE, stderr=subprocess.PIPE, timeout=timeout, preexec_fn=lib._limit_mem)
        return p.returncode, time.time() - t0
    except subprocess.TimeoutExpired:
        return 'timeout', time.time() - t0


def run(ctx):
    rng = ctx['rng']; lib = ctx['lib']; st = ctx['stats']; dist = st['distribution']
    quick = ctx['tier'] == 'quick'
    inputs = []     # (tag, bytes, cfg)
    # corpus first
    cdir = os.path.join(lib.VERIF, 'corpus', 'C01')
    for fn in sorted(os.listdir(cdir)) if os.path.isdir(cdir) else []:
        if not fn.startswith('K'):
            inputs.append(('corpus:' + fn, open(os.path.join(cdir, fn), 'rb').read(), {}))
    n = 1500 if quick else 30000
    for i in range(n):
        r = rng.below(20)
        if r < 5:
            d = docgen.gen_doc(rng, text_heavy=rng.chance(0.2)); tag = 'svgdx'
        elif r < 7:
            d = xmlgen.gen_real_svg(rng, flags={}); tag = 'realsvg'
        elif r < 9:
            d = '<svg><rect wh="{{%s}}" text="{{%s}}"/><var a="{{%s}}" b="$a" c="${b}"/><rect id="r" wh="3"/></svg>' % (expr_strings(rng), expr_strings(rng), expr_strings(rng)); tag = 'expr'
        elif r < 10:
            toks = ['M0 0', 'b90', 'B45', 'b-30', 'h10', 'v5', 'l3 4', 'L1 2', 'z', 'Z', 'z 5', 'z,7', 'z#', 'm1 1', 'H3', 'c1 2 3 4 5 6', 'a1 1 0 0 1 5 5', 'q1 1 2 2', 't3 3', 's1 1 2 2', ',', '5', '-', '.', 'e', 'b', 'bz', 'zz', 'zb']
            d = '<svg><path d="%s"/></svg>' % ' '.join(rng.choice(toks) for _ in range(rng.range(1, 10))); tag = 'bearing'
        elif r < 11:
            import props.C04 as c04
            d = '<svg><path d="%s"/><polyline points="%s"/><g transform="%s"><rect wh="1"/></g></svg>' % (c04.path_data(rng)[0] + rng.choice(['', ' b30 h5', ' B90 l3 4 z']), c04.points(rng), c04.transform(rng)); tag = 'scanners'
        else:
            base = docgen.gen_doc(rng) if rng.chance(0.7) else xmlgen.gen_real_svg(rng, flags={})
            if r < 17:
                d = mutate(rng, base); tag = 'mutated'
            else:
                d = bytes(rng.below(256) if rng.chance(0.3) else rng.choice(b'<>/="\' svgrectwh{}$#-()0123456789&;!?[]') for _ in range(rng.range(1, 200))); tag = 'noise'
        cfg = {}
        if rng.chance(0.3):
            cfg = {rng.choice(['loop_limit', 'var_limit', 'depth_limit']): rng.choice([0, 1, 2, 5, 50])}
        inputs.append((tag, d.encode('utf-8') if isinstance(d, str) else d, cfg))
    # recursion that only the depth limit stops (an element reusing itself), under the default limit and under explicit ones:
    # every front-end must answer with the depth error, whatever its own stack size
    for rec in (b'<svg><g id="a"><rect xy="0" wh="1"/><reuse href="#a"/></g></svg>',
                b'<svg><specs><g id="a"><reuse href="#b"/></g><g id="b"><rect wh="1"/><reuse href="#a"/></g></specs><reuse href="#a"/></svg>',
                b'<svg><g id="a"><g><g><reuse href="#a"/></g></g></g></svg>'):
        for cfg in ({}, {'depth_limit': 50}, {'depth_limit': 100, 'loop_limit': 1000, 'var_limit': 1024}, {'depth_limit': 5, 'loop_limit': 3}):
            inputs.append(('sweep:selfreuse:%d' % cfg.get('depth_limit', 100), rec, cfg))
    import docfuzz
    frng = rng.fork('total-fuzz')
    for _ in range(400 if quick else 10000):
        x, c = docfuzz.gen(frng)
        inputs.append(('fuzz', x.encode('utf-8'), {k: v for k, v in c.items() if k in ('loop_limit', 'var_limit', 'depth_limit')}))
        if frng.chance(0.3):
            inputs.append(('fuzz-mutated', mutate(frng, x), {}))
    for b in NONUTF:
        inputs.append(('nonutf8', b, {}))
        for _ in range(2 if quick else 10):
            inputs.append(('nonutf8-mut', mutate(rng, b), {}))
    sizes = [10, 100, 1000, 10000] + ([100000] if not quick else [])
    for sz in sizes:
        for tag, d in sweep_docs(sz):
            inputs.append(('sweep:%s:%d' % (tag, sz), d.encode('utf-8'), {}))
            if sz <= 1000:
                inputs.append(('sweep:%s:%d:lim' % (tag, sz), d.encode('utf-8'), {'depth_limit': 20, 'loop_limit': 50, 'var_limit': 64}))
    # ---- library (transform_stream) through the harness: per-case panic / time-out, per-process abort
    cases = [Case('i%d' % i, 'docbytes', [lib.enc_cfg(cfg), data.hex()], {'tag': tag}) for i, (tag, data, cfg) in enumerate(inputs)]
    t0 = time.time()
    impl = lib.run_impl(cases, timeout_ms=int(BUDGET_S * 1000), shards=12)
    seen = set()
    for c, (tag, data, cfg) in zip(cases, inputs):
        st['evaluations'] += 1
        fam = tag.split(':')[0] if not tag.startswith('sweep') else 'sweep:' + tag.split(':')[1]
        dist[fam] = dist.get(fam, 0) + 1
        if data not in seen:
            seen.add(data)
            if fam not in ('svgdx', 'realsvg'):
                st['distinct_nontrivial'] += 1
        r = impl.get(c.id)
        verdict = r[0] if r else 'MISSING'
        dist['verdict:' + verdict] = dist.get('verdict:' + verdict, 0) + 1
        if verdict not in ('OK', 'ERR'):
            yield {'kind': 'oracle', 'what': 'transform_stream did not end with a result or an error: %s on input %s (%d bytes, config %s): %r' % (r, tag, len(data), cfg, data[:300]),
                   'case': {'id': c.id, 'tag': tag, 'cfg': cfg, 'input_hex': data.hex()[:200000]}, 'observed': r, 'expected': 'Ok or Err', 'tag': tag}
    # ---- the svgdx binary and the server on a sample (all sweeps, all non-UTF-8, a share of the rest)
    from props.C07 import Server
    srv = Server(lib)
    try:
        sample = [(i, t) for i, t in enumerate(inputs) if t[0].startswith(('sweep', 'nonutf8', 'corpus')) or rng.chance(0.12 if quick else 0.3)]
        for i, (tag, data, cfg) in sample:
            st['evaluations'] += 2
            rc, dt = run_cli(lib, data, lib.cfg_cli(cfg), BUDGET_S * 2)
            if rc == 'timeout' or (isinstance(rc, int) and (rc < 0 or rc > 2)):
                yield {'kind': 'oracle', 'what': 'svgdx command: %s on input %s (%d bytes, config %s): %r' % ('no exit within %.0f s' % (BUDGET_S * 2) if rc == 'timeout' else 'killed by signal / abnormal exit %s' % rc, tag, len(data), cfg, data[:300]),
                       'case': {'tag': tag, 'cfg': cfg, 'input_hex': data.hex()[:200000]}, 'observed': rc, 'expected': 'exit 0 or 1', 'tag': tag}
            if not cfg and len(data) < 2000000:
                h = srv.post(data, False)
                if h[1] not in (200, 400) or not srv.alive():
                    yield {'kind': 'oracle', 'what': 'server: POST /api/transform answered %s (alive: %s) on input %s (%d bytes): %r' % (h[1:3], srv.alive(), tag, len(data), data[:300]),
                           'case': {'tag': tag, 'input_hex': data.hex()[:200000]}, 'observed': str(h[1]), 'expected': '200 or 400, server alive', 'tag': tag}
                    if not srv.alive():
                        srv = Server(lib)
            st['traces_validated_against_impl'] += 1
        dist['cli_and_server_cases'] = len(sample)
        # ---- the debug profile of the command (larger stack frames, overflow checks on): recursion-bound inputs only
        env = dict(lib.ENV, CARGO_TARGET_DIR=lib.REPO_TARGET)
        rc, out = lib.run(['cargo', 'build', '--offline', '--bin', 'svgdx'], cwd=lib.REPO, env=env, timeout=1200)
        dbg = os.path.join(lib.REPO_TARGET, 'debug', 'svgdx')
        if rc == 0 and os.path.exists(dbg):
            deep = [t for t in inputs if t[0].startswith(('sweep:selfreuse', 'sweep:gnest', 'sweep:xmlnest', 'sweep:reusecycle', 'sweep:reusechain', 'sweep:paren', 'sweep:minus', 'sweep:varlit', 'sweep:funcnest')) and len(t[1]) < 200000]
            for tag, data, cfg in deep:
                st['evaluations'] += 1
                try:
                    p = subprocess.run([dbg] + lib.cfg_cli(cfg), input=data, stdout=subprocess.PIPE, stderr=subprocess.PIPE, timeout=BUDGET_S * 4, preexec_fn=lib._limit_mem)
                    rcd = p.returncode
                except subprocess.TimeoutExpired:
                    rcd = 'timeout'
                if rcd == 'timeout' or rcd < 0 or rcd > 2:
                    yield {'kind': 'oracle', 'what': 'svgdx command (debug profile): %s on input %s (%d bytes, config %s): %r' % ('no exit' if rcd == 'timeout' else 'killed by signal / abnormal exit %s' % rcd, tag, len(data), cfg, data[:300]),
                           'case': {'tag': tag, 'cfg': cfg, 'input_hex': data.hex()[:200000], 'profile': 'debug'}, 'observed': rcd, 'expected': 'exit 0 or 1', 'tag': tag}
            dist['cli_debug_profile_cases'] = len(deep)
        else:
            ctx['stats'].setdefault('notes', []).append('debug profile of svgdx did not build: ' + out[-200:])
    finally:
        srv.stop()
    # ---- correspondence: the modelled scanners and reference walks against the hooks, outcome for outcome
    import props.C04 as c04
    cc = []
    nc = 1500 if quick else 20000
    PT = ['M0 0', 'M 1,2', 'm3 4', 'L1 2', 'l-1 -2', 'h10', 'H-3', 'v5', 'V.5', 'z', 'Z', 'z 5', 'z,7', 'c1 2 3 4 5 6', 'C1 2 3 4 5 6', 's1 1 2 2', 'S1 1 2 2',
          'q1 1 2 2', 'Q1,1,2,2', 't3 3', 'T3 3', 'a1 1 0 0 1 5 5', 'A1 1 0 0 1 5 5', ',', '5', '-', '.', '1e3', '--1', '1.2.3', 'x', 'M', 'L', ' ', '\t', '\n', '1-2', '.5.5']
    for i in range(nc):
        r = rng.below(10)
        if r < 5:
            d = ' '.join(rng.choice(PT) for _ in range(rng.range(0, 9))) if rng.chance(0.7) else c04.path_data(rng)[0]
            if rng.chance(0.3):
                d = mutate(rng, d).decode('utf-8', 'replace').replace('\x00', '0')
            cc.append(Case('p%d' % i, 'elbbox', [hx('path'), enc_attrs([('d', d)])], {'what': 'path d=%r' % d}))
        elif r < 6:
            d = c04.points(rng)
            if rng.chance(0.5):
                d = mutate(rng, d).decode('utf-8', 'replace').replace('\x00', '0')
            cc.append(Case('p%d' % i, 'elbbox', [hx(rng.choice(['polyline', 'polygon'])), enc_attrs([('points', d)])], {'what': 'points=%r' % d}))
        elif r < 7:
            t = c04.transform(rng)
            if rng.chance(0.5):
                t = mutate(rng, t).decode('utf-8', 'replace').replace('\x00', '0')
            cc.append(Case('p%d' % i, 'elbbox', [hx('rect'), enc_attrs([('width', '3'), ('height', '4'), ('transform', t)])], {'what': 'transform=%r' % t}))
        else:
            # reference walks: use / reuse chains and clip-path chains over a small map, cyclic and not
            k = rng.range(1, 5); ids = ['e%d' % j for j in range(k)]
            others = []
            for j, idv in enumerate(ids):
                nm = rng.choice(['rect', 'rect', 'use', 'clipPath', 'circle', 'g'])
                a = [('id', idv)]
                if nm == 'use':
                    a.append(('href', '#' + rng.choice(ids + ['nope'])))
                elif nm == 'circle':
                    a += [('r', str(rng.range(1, 5)))]
                else:
                    a += [('width', str(rng.range(1, 9))), ('height', str(rng.range(1, 9)))]
                if rng.chance(0.5):
                    a.append(('clip-path', rng.choice(['url(#%s)' % rng.choice(ids + ['nope']), 'url(#%s)' % rng.choice(ids), 'none', 'url(x)'])))
                others.append((nm, a))
            nm = rng.choice(['rect', 'use'])
            a = [('href', '#' + rng.choice(ids))] if nm == 'use' else [('width', '9'), ('height', '9')]
            if rng.chance(0.8):
                a.append(('clip-path', 'url(#%s)' % rng.choice(ids)))
            cc.append(Case('p%d' % i, 'resolve', [hx(nm), enc_attrs(a), enc_els(others)], {'what': 'walk %s %s over %s' % (nm, a, others)}))
    im = lib.run_impl(cc, timeout_ms=5000, shards=8); mo = lib.run_model(cc, shards=8)
    for c in cc:
        st['evaluations'] += 1; st['traces_validated_against_impl'] += 1
        a, b = im.get(c.id), mo.get(c.id)
        if c.kind == 'elbbox' and a and b and a[0] == 'OK' and b[0] == 'OK':
            # the sign of a zero coming out of f32::min / f32::max is unspecified: -0 and +0 are one box
            z = lambda r: [r[0]] + [','.join('0' if w == '2147483648' else w for w in x.split(',')) for x in r[1:]]
            a, b = z(a), z(b)
            # infinities and NaN in a coordinate are outside the scanner model (its min / max fold starts from the first value, the
            # code's from f32::MAX / f32::MIN: they agree on finite values only, as stated in Model/Scan.v)
            words = [int(w) for r in (a, b) for x in r[1:] for w in x.split(',') if w.lstrip('-').isdigit()]
            if any((w & 0x7fffffff) >= 0x7f7fffff for w in words):
                dist['corr-skipped:non-finite'] = dist.get('corr-skipped:non-finite', 0) + 1
                continue
        fam = 'corr:' + c.kind; dist[fam] = dist.get(fam, 0) + 1
        if a and a[0] not in ('OK', 'ERR'):
            yield {'kind': 'oracle', 'what': 'hook did not end with a result or an error: %s on %s' % (a, c.meta['what']), 'case': {'line': c.line()}, 'observed': a, 'expected': 'Ok or Err'}
        elif a != b:
            yield {'kind': 'correspondence', 'what': 'model and implementation disagree on %s: impl %s model %s' % (c.meta['what'], a, b), 'case': {'line': c.line()}, 'observed': a, 'expected': b}
        else:
            dist['corr-verdict:' + (a[0] if a else 'none')] = dist.get('corr-verdict:' + (a[0] if a else 'none'), 0) + 1
    st['samples'] = [{'tag': t, 'input': d[:200].decode('utf-8', 'replace'), 'cfg': c} for t, d, c in inputs[:2] + inputs[-3:]]


def classify(v, known):
    return None


def replay_known(kf, ctx):
    """K1 / K2: the witness family member still costs more than its budget at the recorded size"""
    lib = ctx['lib']
    d = open(os.path.join(lib.VERIF, kf['witness']), 'rb').read()
    t0 = time.time()
    rc, dt = run_cli(lib, d, [], 6)
    return rc == 'timeout' or dt > 3.0
