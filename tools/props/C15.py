"""C15 Variable scoping is lexical and unaffected by evaluation order."""
import os, re
from lib import Case, hx, doc_case, unhx
import xmlcanon

DOC_MODEL = True     # every generated document also runs through the composed Coq model of the whole transform
RULE = ('generated nestings of g / reuse / loop / for / if with <var> assignments (literal, copy, parallel swap), attribute locals on g and '
        'reuse, and probe elements <text text="[$a|${b}|$c]"> reading defined and undefined variables; a forward reference to an element at the '
        'end of the document is injected at a random place so that the enclosing top-level element is re-evaluated by the retry loop; the '
        'probe texts of the output are compared with a reference lexical-scope interpreter (innermost binding, element-local assignments '
        'discarded at the closing tag, parallel assignment, undefined left verbatim); each program is also run without the forward reference '
        '(the probes must not change) and the context probe hook must report restored stacks. non-trivial = distinct program with >= 1 '
        'scoping element and >= 2 probes')
THEOREM_NOTES = 'Props/C15.v: scope_restored, level_scope_restored, group_scope_exact, var_changes_only_top_scope, lexical_lookup(_outer)'
ASSUMPTIONS = ['variable values are plain words; expression values and list variables are the subject of C14',
               'theorems are about the pipeline skeleton for every evaluator; the skeleton is tied to the code by the probe texts here']
NAMES = ['a', 'b', 'c', 'k']
WORDS = ['red', 'x1', 'Q', 'seven', 'v0', 'up', 'lo']


class Gen:
    def __init__(self, rng):
        self.rng = rng; self.n = 0; self.probes = 0; self.fwd_slot = None; self.slots = 0

    def word(self):
        self.n += 1
        return '%s%d' % (self.rng.choice(WORDS), self.n)

    def probe(self):
        self.probes += 1
        names = self.rng.sample(NAMES + ['zz'], self.rng.range(1, 3))
        parts = [('${%s}' % n) if self.rng.chance(0.3) else ('$' + n) for n in names]
        return ('probe', '|'.join(parts))

    def body(self, depth, in_reusable=False):
        rng = self.rng; out = []
        for _ in range(rng.range(1, 4)):
            k = rng.below(15)
            if k < 4 or depth <= 0:
                out.append(self.probe())
            elif k < 7:
                names = rng.sample(NAMES, rng.range(1, 2))
                asg = []
                for nme in names:
                    r = rng.below(4)
                    if r == 0 and len(names) == 2:
                        other = [x for x in names if x != nme][0]
                        asg.append((nme, ('copy', other)))
                    elif r == 1:
                        asg.append((nme, ('copy', rng.choice(NAMES))))
                    else:
                        asg.append((nme, ('lit', self.word())))
                out.append(('var', asg))
            elif k < 9:
                loc = [(n_, self.word()) for n_ in rng.sample(NAMES, rng.range(0, 2))]
                out.append(('g', loc, self.body(depth - 1)))
            elif k < 10:
                loc = [(n_, self.word()) for n_ in rng.sample(NAMES, rng.range(0, 2))]
                out.append(('reuse', loc, rng.chance(0.4)))     # the reuse element itself may be placed by a forward reference
            elif k < 11:
                out.append(('loop', rng.range(0, 2), self.body(depth - 1)))
            elif k < 12:
                out.append(('if', rng.choice([0, 1, 1]), self.body(depth - 1)))
            elif k < 13:
                out.append(('for', [str(rng.range(1, 99)) for _ in range(rng.range(1, 2))], rng.choice(NAMES), self.body(depth - 1)))
            elif k < 14:
                out.append(('slot', self.slots)); self.slots += 1
            else:       # an element without content still opens and closes its scope: <g k="v"/>
                out.append(('gempty', [(n_, self.word()) for n_ in rng.sample(NAMES, rng.range(1, 2))]))
        return out


def render(ast, fwd_slot, y=[0]):
    out = []
    for n in ast:
        t = n[0]
        if t == 'probe':
            y[0] += 3
            out.append('<text xy="0 %d" text="[%s]"/>' % (y[0], n[1]))
        elif t == 'var':
            out.append('<var %s/>' % ' '.join('%s="%s"' % (k, v[1] if v[0] == 'lit' else '$' + v[1]) for k, v in n[1]))
        elif t == 'g':
            out.append('<g%s>%s</g>' % (''.join(' %s="%s"' % kv for kv in n[1]), render(n[2], fwd_slot, y)))
        elif t == 'gempty':
            out.append('<g%s/>' % ''.join(' %s="%s"' % kv for kv in n[1]))
        elif t == 'reuse':
            y[0] += 3
            posn = 'xy="#late|h %d"' % y[0] if (n[2] and fwd_slot is not None) else 'y="%d"' % y[0]
            out.append('<reuse href="#tpl" %s%s/>' % (posn, ''.join(' %s="%s"' % kv for kv in n[1])))
        elif t == 'loop':
            out.append('<loop count="%d">%s</loop>' % (n[1], render(n[2], fwd_slot, y)))
        elif t == 'if':
            out.append('<if test="%d">%s</if>' % (n[1], render(n[2], fwd_slot, y)))
        elif t == 'for':
            out.append('<for data="%s" var="%s">%s</for>' % (', '.join(n[1]), n[2], render(n[3], fwd_slot, y)))
        elif t == 'slot':
            if n[1] == fwd_slot:
                out.append('<rect xy="#late|h 1" wh="1"/>')
    return ''.join(out)


def lookup(stack, name):
    for sc in reversed(stack):
        if name in sc:
            return sc[name]
    return None


def subst(text, stack):
    def rep(m):
        name = m.group(1) or m.group(2)
        v = lookup(stack, name)
        return v if v is not None else m.group(0)
    return re.sub(r'\$\{(\w+)\}|\$(\w+)', rep, text)


def interp(ast, stack, out):
    """reference lexical-scope interpreter: appends probe texts to out"""
    for n in ast:
        t = n[0]
        if t == 'probe':
            out.append('[' + subst(n[1], stack) + ']')
        elif t == 'var':
            new = []
            for k, v in n[1]:
                if v[0] == 'lit':
                    new.append((k, v[1]))
                else:
                    cur = lookup(stack, v[1])
                    if cur is None:
                        out.append('#UNDEFINED-COPY')      # a variable holding the text of an undefined reference is expanded again
                        cur = '$' + v[1]                 # when it is used; such programs are outside this generator's language
                    new.append((k, cur))
            if not stack:
                stack.append({})
            for k, v in new:
                stack[-1][k] = v
        elif t == 'g':
            stack.append(dict(n[1]))
            interp(n[2], stack, out)
            stack.pop()
        elif t == 'reuse':
            stack.append(dict(n[1]))
            out.append('[' + subst('$a|$b', stack) + ']')
            stack.pop()
        elif t == 'loop':
            for _ in range(n[1]):
                interp(n[2], stack, out)
        elif t == 'if':
            if n[1]:
                interp(n[2], stack, out)
        elif t == 'for':
            for item in n[1]:
                if not stack:
                    stack.append({})
                stack[-1][n[2]] = item
                interp(n[3], stack, out)


def escapes(ast, fwd_slot):
    """K12 class: a top-level loop / for / if (no scope of its own) whose body assigns variables and contains the forward
    reference: the retry re-runs the assignments from the already advanced variables"""
    def has_slot(a):
        return any((x[0] == 'slot' and x[1] == fwd_slot) or (x[0] == 'reuse' and x[2]) or (x[0] in ('g', 'loop', 'if') and has_slot(x[2])) or (x[0] == 'for' and has_slot(x[3])) for x in a)
    def has_var(a):
        return any(x[0] in ('var', 'for') or (x[0] in ('loop', 'if') and has_var(x[2])) or (x[0] == 'for' and has_var(x[3])) for x in a)
    for n in ast:
        if n[0] in ('loop', 'if') and has_slot(n[2]) and (has_var(n[2])):
            return True
        if n[0] == 'for' and has_slot(n[3]):
            return True
    return False


def later_global_assign(ast, fwd_slot):
    """K12 (b): the top-level element holding the forward reference is followed, at top level, by an element that assigns a
    variable in the global scope (var, for, or a loop / if containing one): the retried element is evaluated after it"""
    def has_slot(x):
        if x[0] == 'slot':
            return x[1] == fwd_slot
        if x[0] == 'reuse':
            return x[2]
        if x[0] in ('g', 'loop', 'if'):
            return any(has_slot(y) for y in x[2])
        if x[0] == 'for':
            return any(has_slot(y) for y in x[3])
        return False
    def assigns(x):
        if x[0] in ('var', 'for'):
            return True
        if x[0] in ('loop', 'if'):
            return any(assigns(y) for y in x[2])
        return False
    for i, n in enumerate(ast):
        if n[0] != 'slot' and has_slot(n):
            return any(assigns(m) for m in ast[i + 1:])
    return False


def probes_of(out):
    root, _, err = xmlcanon.parse(out)
    if err:
        return None
    return [n.text for n in root.find_all('text') if n.text.startswith('[')]


def run(ctx):
    rng = ctx['rng']; lib = ctx['lib']; st = ctx['stats']; dist = st['distribution']
    quick = ctx['tier'] == 'quick'
    n = 1200 if quick else 25000
    cases = []; progs = []
    for i in range(n):
        g = Gen(rng.fork('q%d' % i))
        ast = g.body(rng.range(1, 3))
        fwd = rng.below(g.slots) if g.slots and rng.chance(0.8) else (-1 if rng.chance(0.5) else None)   # -1: only reuse elements refer forward
        head = '<specs><rect id="tpl" wh="2" text="[$a|$b]"/></specs>'
        tail = '<rect id="late" xy="90 0" wh="2"/>'
        p_fwd = '<svg>%s%s%s</svg>' % (head, render(ast, fwd, [0]), tail)
        p_plain = '<svg>%s%s%s</svg>' % (head, render(ast, None, [0]), tail)
        exp = []; interp(ast, [], exp)
        if '#UNDEFINED-COPY' in exp:
            dist['skipped_undefined_copy'] = dist.get('skipped_undefined_copy', 0) + 1
            continue
        cases.append(Case('f%d' % i, 'probe', [lib.enc_cfg({'add_auto_styles': False}), hx(p_fwd)], {'doc': p_fwd}))
        cases.append(Case('n%d' % i, 'probe', [lib.enc_cfg({'add_auto_styles': False}), hx(p_plain)], {'doc': p_plain}))
        progs.append((i, ast, fwd, exp, p_fwd, p_plain, g.probes))
    impl = lib.run_impl(cases, timeout_ms=20000)
    seen = set()
    byid = {c.id: c for c in cases}
    for i, ast, fwd, exp, p_fwd, p_plain, nprobes in progs:
        st['evaluations'] += 2
        if p_fwd not in seen:
            seen.add(p_fwd)
            if len(exp) >= 2 and any(x[0] in ('g', 'reuse', 'loop', 'for', 'if') for x in ast):
                st['distinct_nontrivial'] += 1
        for key, doc in (('f%d' % i, p_fwd), ('n%d' % i, p_plain)):
            r = impl.get(key)
            c = byid[key]
            withf = key[0] == 'f' and fwd is not None
            dist['with_forward_ref' if withf else 'plain'] = dist.get('with_forward_ref' if withf else 'plain', 0) + 1
            if not r or r[0] != 'OK':
                yield {'kind': 'oracle', 'what': 'scoping program rejected (%s): %s' % (r[:2] if r else r, doc[:900]), 'case': c.to_json(), 'observed': r, 'expected': exp}
                continue
            got = probes_of(bytes.fromhex(r[1]))
            probe = r[2] if len(r) > 2 else ''
            st['traces_validated_against_impl'] += 1
            try:
                sh, eh, dp, sp = probe.split(',')
                okp = int(eh) == 0 and int(sh) <= 1 and int(dp) == 0 and sp == 'false'
            except ValueError:
                okp = False
            if not okp:
                yield {'kind': 'correspondence', 'what': 'context not restored at the end of the transform: (scopes, elements, depth, in-specs) = %s' % probe, 'case': c.to_json(), 'observed': probe, 'expected': '<=1,0,0,false'}
            if got != exp:
                k = next((j for j in range(min(len(got or []), len(exp))) if got[j] != exp[j]), min(len(got or []), len(exp)))
                yield {'kind': 'oracle', 'what': 'probe %d reads %r, lexical scoping gives %r (%s forward reference); program %s' % (k, got[k] if got and k < len(got) else None, exp[k] if k < len(exp) else None, 'with' if withf else 'without', doc[:1200]),
                       'case': c.to_json(), 'observed': got, 'expected': exp, 'k12': withf and (escapes(ast, fwd) or later_global_assign(ast, fwd))}
        if len(st['samples']) < 3 and len(exp) >= 3:
            st['samples'].append({'program': p_fwd[:600], 'expected_probes': exp[:8]})


def classify(v, known):
    if v.get('kind') == 'oracle' and v.get('k12'):
        return 'K12'
    return None


def replay_known(kf, ctx):
    lib = ctx['lib']
    d = open(os.path.join(lib.VERIF, kf['witness']), encoding='utf-8').read()
    exp = open(os.path.join(lib.VERIF, kf['witness'] + '.expected'), encoding='utf-8').read().split('\n')
    r = lib.run_impl([doc_case('k', d, {'add_auto_styles': False})]).get('k')
    if not r or r[0] != 'OK':
        return False
    return probes_of(bytes.fromhex(r[1])) != [x for x in exp if x]
