"""C20 Auto-styles: rule iff class used, url closure, author styles kept, nothing injected when disabled."""
import os, re
from lib import Case, hx, unhx, doc_case, REPO
import lib, xmlcanon, gen_tables

RULE = ('theme hook (classes, elements, theme, background, font size, font family, local id) -> (defs, styles) compared exactly '
        'with the extracted Coq model: every single class of the reserved vocabulary (colours x 4 prefixes, text, stroke, arrow, '
        'dash/flow, shadow, 6 pattern families x spacing 0..100 and non-canonical suffixes), pairs from different families, random '
        'subsets with junk classes, 6 themes x settings; whole documents (root svg / fragments / nested svg, auto-styles on/off, '
        'author <style>/<defs>, classes on the root) through transform_str: injected <style>/<defs> re-parsed and checked by the '
        'direct oracle (rule iff class used, url closure both ways, author content intact, nothing injected when disabled) and '
        'compared with the model of write_auto_styles on the output\'s events. non-trivial = distinct case with >= 1 reserved class')
THEOREM_NOTES = ('Props/C20.v: rule_iff_class, rule_iff_class_used, url_closure (exactly once + every def referenced), url_closure_used, '
                 'no_injection_when_disabled, theme_order_independent, text_vocabulary_disjoint, rules_mention_their_class, vocabulary_distinct')
ASSUMPTIONS = ['scope: documents svgdx processes itself (root <svg> without the SVG namespace declaration); real SVG passes through untouched (C03)',
               'url_closure assumes the user-supplied background / font-family / local id contain no "(#" or id="..." text themselves (settings_cleanb)',
               'text classes get a rule only if a text element exists (code\'s condition): known finding K50',
               'class names are compared as bytes; Rust str::parse::<u32> is modelled for ASCII digits with optional "+"']

_T = None
_P = None


def pinned():
    """the vocabulary snapshot of the tree the framework was written against (specification side of 'reserved')"""
    global _P
    if _P is None:
        import json
        _P = json.load(open(os.path.join(lib.VERIF, 'corpus', 'C20', 'theme_tables.json')))
    return _P


def tables():
    """tables of the current tree; if themes.rs can no longer be read by the translator, the pinned snapshot"""
    global _T
    if _T is None:
        try:
            _T = gen_tables.theme_tables(os.path.join(REPO, 'src'))
        except Exception:
            _T = pinned()
    return _T


def render(segs, env):
    return ''.join(v if k == 'L' else env.get(v, '') for k, v in segs)


class Vocab:
    """reserved vocabulary = the pinned snapshot united with what the current tables define"""

    def __init__(self, T, P=None):
        P = P if P is not None else pinned()
        cur = _Vocab1(T); pin = _Vocab1(P)
        def union(a, b):
            return list(dict.fromkeys(list(a) + list(b)))
        self.colour = union(pin.colour, cur.colour); self.text = union(pin.text, cur.text); self.plain = union(pin.plain, cur.plain)
        self.bases = union(pin.bases, cur.bases); self.maxsp = max(pin.maxsp, cur.maxsp)
        self.families = dict((k, union(pin.families[k], cur.families[k])) for k in pin.families)
        self.plain_set = set(self.plain); self.text_set = set(self.text)

    def spacing(self, c):
        """(base, n) if c is a spaced pattern class the code accepts"""
        for b in self.bases:
            if c.startswith(b + '-'):
                suf = c[len(b) + 1:]
                if re.fullmatch(r'\+?[0-9]+', suf) and int(suf) <= self.maxsp:
                    return b, int(suf)
        return None

    def reserved(self, c):
        return c in self.plain_set or c in self.text_set or c in self.bases or self.spacing(c) is not None

    def needs_text(self, c):
        return c in self.text_set


class _Vocab1:
    def __init__(self, T):
        self.T = T
        self.colour = []
        for b in T['colour_blocks']:
            self.colour += [render(b['class'], {'colour': c}) for c in T['colour_list']]
        self.text = [a for a, _ in T['text_rules']] + T['text_sizes'] + T['text_ol_widths']
        self.plain = ([a for a, _ in T['early_rules']] + self.colour + T['stroke_widths'] + [a for a, _ in T['arrows']]
                      + T['flow_styles'] + T['dash_styles'] + [a for a, _, _ in T['shadows']])
        self.bases = [a for a, _, _ in T['pattern_table']]
        self.maxsp = T['pattern_max_spacing']
        self.families = {'early': [a for a, _ in T['early_rules']], 'colour': self.colour, 'stroke': T['stroke_widths'],
                         'arrow': [a for a, _ in T['arrows']], 'flow': T['flow_styles'], 'dash': T['dash_styles'],
                         'shadow': [a for a, _, _ in T['shadows']], 'text': self.text, 'pattern': self.bases}
        self.plain_set = set(self.plain); self.text_set = set(self.text)


JUNK = ['foo', 'mine', 'd-', 'd-x', 'd-grid-', 'd-grid-101', 'd-grid-1000', 'd-hatch-4294967296', 'd-grid-5x', 'd-grid--5', 'd-grid-5-5',
        'd-redd', 'D-RED', 'd-Red', 'd-text-', 'd-fill', 'd-fill-', 'd-text-ol-', 'd-arrows', 'd-flow-revs', 'd-stipple-', 'd-softshadows',
        'd-grid-h-', 'd-grid-h-x', 'd-surrounds', 'a-d-red', 'grid-5', 'd-text-ol-thickest', 'd-thickest']
NONCANON = ['d-grid-+5', 'd-grid-007', 'd-grid-h-+10', 'd-hatch-00', 'd-stipple-+0', 'd-crosshatch-0100', 'd-grid-v-+100', 'd-grid-00000000000000000005']
ELEMENTS = ['rect', 'text', 'line', 'g', 'tspan', 'path', 'circle', 'polyline']
BACKGROUNDS = ['default', 'none', 'white', '#abc', 'rgba(1, 2, 3, 0.5)', 'Default', 'linen']
FONT_SIZES = ['3', '2.5', '12', '0.1', '7.25', '100', '0.00001', '4.0', '1e2', '0.3333']
FONT_FAMILIES = ['sans-serif', 'Arial', 'DejaVu Sans, sans-serif', 'monospace', '"Times New Roman"']

SEL_CLASS = re.compile(r'\.([A-Za-z_][A-Za-z0-9_+-]*)')
URL_REF = re.compile(r'url\(#([^)]*)\)')
ID_DEF = re.compile(r'\sid="([^"]*)"')


def selector_classes(rule):
    """class names in the selector part of a CSS rule (text before the first '{')"""
    if rule.startswith('@') or '{' not in rule:
        return []
    return SEL_CLASS.findall(rule.split('{', 1)[0])


def check_output(V, used_classes, has_text, defs, styles):
    """the property on one (defs, styles) result. Returns list of (tag, message)"""
    out = []
    emitted = set()
    for r in styles:
        emitted.update(selector_classes(r))
    expected = set(c for c in used_classes if V.reserved(c))
    missing = expected - emitted; extra = emitted - expected
    if extra:
        out.append(('extra', 'rules emitted for classes no element uses: %s' % sorted(extra)))
    if missing:
        if all(V.needs_text(c) for c in missing) and not has_text:
            out.append(('text-gate', 'no rule for text classes %s (no <text> element in the output)' % sorted(missing)))
        else:
            out.append(('missing', 'no rule emitted for used reserved classes %s' % sorted(missing)))
    refs = []
    for t in list(styles) + list(defs):
        refs += URL_REF.findall(t)
    ids = []
    for d in defs:
        ids += ID_DEF.findall(d)
    for r in sorted(set(refs)):
        if ids.count(r) != 1:
            out.append(('closure', 'url(#%s) is defined %d times among the emitted definitions' % (r, ids.count(r))))
    for i in sorted(set(ids)):
        if i not in refs:
            out.append(('unreferenced', 'definition id="%s" is emitted but no emitted rule references it' % i))
    return out


def theme_case(cid, classes, elements, theme, bg, fs, ff, lid, meta=None):
    m = {'classes': classes, 'elements': elements, 'theme': theme, 'bg': bg, 'fs': fs, 'ff': ff, 'lid': lid}
    m.update(meta or {})
    return Case(cid, 'theme', [','.join(hx(c) for c in classes), ','.join(hx(e) for e in elements), hx(theme), hx(bg), hx(fs),
                               hx(ff), hx(lid)], m)


def dec_list(f):
    return [unhx(x) for x in f.split(',')] if f else []


def rand_settings(rng, T):
    theme = rng.choice(T['theme_names']) if not rng.chance(0.01) else rng.choice(['nonesuch', 'Dark', ''])
    return (theme, rng.choice(BACKGROUNDS) if rng.chance(0.5) else 'default', rng.choice(FONT_SIZES) if rng.chance(0.5) else '3',
            rng.choice(FONT_FAMILIES) if rng.chance(0.4) else 'sans-serif', ('svgdx-%08x' % rng.below(1 << 32)) if rng.chance(0.15) else '')


def rand_class(rng, V):
    k = rng.below(100)
    if k < 30: return rng.choice(V.colour)
    if k < 45: return rng.choice(V.text)
    if k < 60:
        b = rng.choice(V.bases)
        return b if rng.chance(0.25) else '%s-%d' % (b, rng.range(0, V.maxsp))
    if k < 72: return rng.choice(V.families[rng.choice(['stroke', 'arrow', 'flow', 'dash', 'shadow', 'early'])])
    if k < 80: return rng.choice(NONCANON)
    if k < 85: return '%s-%d' % (rng.choice(V.bases), rng.range(V.maxsp + 1, V.maxsp + 30))
    return rng.choice(JUNK)


# ---------------------------------------------------------------- documents
AUTHOR_DEFS = [
    '<linearGradient id="au-g%d" x1="0" x2="1"><stop offset="0" stop-color="red"/><stop offset="1" stop-color="blue"/></linearGradient>',
    '<marker id="au-m%d" markerWidth="4" markerHeight="4" orient="auto"><path d="M0 0 L4 2 L0 4 z"/></marker>',
    '<clipPath id="au-c%d"><circle cx="5" cy="5" r="4"/></clipPath>',
    '<pattern id="au-p%d" width="4" height="4" patternUnits="userSpaceOnUse"><rect width="2" height="2" class="d-fill-blue"/></pattern>',
    '<filter id="au-f%d"><feGaussianBlur stdDeviation="2"/></filter>',
]
AUTHOR_STYLES = ['/*author*/ .mine { fill: url(#au-g0); }', '/*author*/ rect.x > text { stroke: red; } .d-red { stroke: green; }',
                 '/*author*/\n  .a, .b { opacity: 0.5; }\n', '/*author*/ @media print { .mine { display: none; } }']


def rand_doc(rng, V, T, idx):
    """returns (xml, cfg, meta)"""
    shape = rng.below(100)
    kind = 'root' if shape < 80 else ('fragment' if shape < 92 else ('nested' if shape < 96 else 'config-off'))
    parts = []; author_styles = []; author_defs = []
    n = rng.range(1, 6)
    for j in range(n):
        cls = [rand_class(rng, V) for _ in range(rng.range(0, 4))]
        if rng.chance(0.3): cls.append(rng.choice(['mine', 'a', 'x']))
        ca = (' class="%s"' % ' '.join(cls)) if cls else ''
        k = rng.below(100)
        pos = 'xy="%d %d"' % (rng.range(0, 40), rng.range(0, 40))
        if k < 35:
            t = (' text="%s"' % rng.choice(['hi', 'a b', 'x'])) if rng.chance(0.35) else ''
            parts.append('<rect %s wh="%d %d"%s%s/>' % (pos, rng.range(2, 20), rng.range(2, 20), t, ca))
        elif k < 50:
            parts.append('<circle c%s r="%d"%s/>' % (pos, rng.range(1, 9), ca))
        elif k < 65:
            parts.append('<line xy1="%d %d" xy2="%d %d"%s/>' % (rng.range(0, 30), rng.range(0, 30), rng.range(0, 30), rng.range(0, 30), ca))
        elif k < 75:
            parts.append('<text %s%s>%s</text>' % (pos, ca, rng.choice(['label', 'two words'])))
        elif k < 85:
            parts.append('<g%s><rect wh="4"/><ellipse cxy="9 9" rxy="3 2"%s/></g>' % (ca, ca if rng.chance(0.5) else ''))
        elif k < 92:
            parts.append('<polyline points="0 0 5 5 10 0"%s/>' % ca)
        else:
            parts.append('<path d="M0 0 L 9 9"%s/>' % ca)
    if rng.chance(0.35):
        s = rng.choice(AUTHOR_STYLES); author_styles.append(s)
        parts.insert(rng.below(len(parts) + 1), '<style>%s</style>' % s)
    if rng.chance(0.35):
        items = [d % i for i, d in enumerate(rng.sample(AUTHOR_DEFS, rng.range(1, 3)))]
        d = '<defs id="au-defs">%s</defs>' % ''.join(items); author_defs.append(d)
        parts.insert(rng.below(len(parts) + 1), d)
    if kind == 'root' and rng.chance(0.12):
        # a nested <svg> (processed, or passed through because it carries the namespace) among the content: what follows it is
        # output like everything else and needs its rules
        # (never as the first child: a list that starts with a namespaced <svg> is passed through as a whole - real-SVG detection
        # is applied to every level - which is the subject of C03, not of this property)
        parts.insert(1 + rng.below(max(1, len(parts) // 2)),
                     rng.choice(['<svg><rect wh="2"/></svg>', '<svg xmlns="http://www.w3.org/2000/svg"><rect width="2" height="2"/></svg>',
                                 '<g><svg><circle r="1"/></svg></g>']))
    if kind == 'root' and rng.chance(0.1):
        # the in-document switch for local styles, set to what it already is: must not touch the auto-style switch
        parts.insert(rng.below(len(parts) + 1), '<config use-local-styles="false"/>')
    cfg = {}
    if rng.chance(0.12) and kind == 'root':
        cfg['add_auto_styles'] = False
    theme, bg, fs, ff, lid = rand_settings(rng, T)
    if theme in T['theme_names'] and theme != 'default': cfg['theme'] = theme
    if bg != 'default': cfg['background'] = bg
    if fs != '3': cfg['font_size'] = fs
    if ff != 'sans-serif': cfg['font_family'] = ff
    if lid: cfg['use_local_styles'] = True
    body = '\n  '.join(parts)
    rootcls = []
    if kind in ('root', 'config-off') and rng.chance(0.2):
        rootcls = [rand_class(rng, V) for _ in range(rng.range(1, 2))]
    ra = (' class="%s"' % ' '.join(rootcls)) if rootcls else ''
    if kind == 'root':
        xml = '<svg%s>\n  %s\n</svg>' % (ra, body)
    elif kind == 'config-off':
        xml = '<svg%s>\n  <config add-auto-styles="false"/>\n  %s\n</svg>' % (ra, body)
    elif kind == 'fragment':
        xml = ('<g>\n  %s\n</g>' % body) if rng.chance(0.5) else body
    else:
        xml = '<g>\n<svg>\n  %s\n</svg>\n</g>' % body
    return xml, cfg, {'kind': kind, 'author_styles': author_styles, 'author_defs': author_defs, 'xml': xml, 'cfg': cfg}


def tree_sig(n):
    """canonical form of a subtree: name, sorted attributes, stripped text, children"""
    return (n.name, tuple(sorted(n.attrs)), tuple((it[1].strip() if it[0] != 'el' else tree_sig(it[1])) for it in n.items
                                                  if it[0] == 'el' or it[1].strip()))


def is_injected(n):
    if n.attrs:
        return False
    if n.name == 'style':
        return '/*author' not in n.text
    return n.name == 'defs'


def analyse_doc(V, out_xml, meta, cfg):
    """returns (problems, model_case_fields or None). problems: list of (tag, message)"""
    probs = []
    try:
        root_doc, _, err = xmlcanon.parse('<wrap>' + out_xml + '</wrap>')    # fragments may have several top-level elements
    except Exception as e:
        root_doc, err = None, str(e)
    if root_doc is None:
        return [('illformed', 'output is not well-formed: %s' % err)], None
    enabled = cfg.get('add_auto_styles', True) and meta['kind'] in ('root', 'nested')
    # the element that carries the injection, if any
    svg = None
    for nd in root_doc.iter():
        if nd.name == 'svg':
            svg = nd; break        # the first <svg> in document order
    injected = [c for c in (svg.children if svg is not None else []) if is_injected(c)]
    wrap = root_doc.children[0]
    everything = [nd for nd in wrap.iter() if nd is not wrap]
    # author content intact
    got_styles = [nd.text for nd in everything if nd.name == 'style' and not is_injected(nd)]
    if got_styles != meta['author_styles']:
        probs.append(('author', 'author <style> content changed: %r -> %r' % (meta['author_styles'], got_styles)))
    got_defs = [tree_sig(nd) for nd in everything if nd.name == 'defs' and not is_injected(nd)]
    want_defs = []
    for d in meta['author_defs']:
        r, _, _ = xmlcanon.parse(d); want_defs.append(tree_sig(r.children[0]))
    if got_defs != want_defs:
        probs.append(('author', 'author <defs> content changed: %r -> %r' % (want_defs, got_defs)))
    must_be_empty = meta['kind'] in ('fragment', 'config-off') or not cfg.get('add_auto_styles', True)
    if meta['kind'] == 'nested' and injected:
        probs.append(('nested-root', 'styles injected into a nested <svg> of a document whose root is <g>'))
    if must_be_empty and injected:
        probs.append(('injected-when-disabled', 'auto-styles %s but <%s> was injected' % (
            'disabled' if meta['kind'] != 'fragment' else 'not applicable (fragment without root svg)', injected[0].name)))
    if must_be_empty or svg is None:
        return probs, None
    inj_ids = set(id(n) for n in injected)
    for n in injected:
        for sub in n.iter():
            inj_ids.add(id(sub))
    evs = []
    started = False
    for nd in everything:
        if nd is svg:
            started = True; continue
        if not started or id(nd) in inj_ids:
            continue
        evs.append((nd.name, dict(nd.attrs).get('class', '').split()))
    used = set(dict(svg.attrs).get('class', '').split())    # classes the output root itself carries (svgdx drops them today)
    for _, cl in evs:
        used.update(cl)
    has_text = any(nm == 'text' for nm, _ in evs)
    styles = []; defs_raw = []
    for n in injected:
        if n.name == 'style':
            styles += [l.strip() for l in n.text.split('\n') if l.strip()]
        else:
            defs_raw.append(n)
    # textual form of the injected defs for the closure scan
    m = re.search(r'<defs>(.*?)</defs>', out_xml, re.S)
    defs_txt = [m.group(1)] if (m and defs_raw) else []
    if meta['kind'] == 'root':
        for tag, msg in check_output(V, used, has_text, defs_txt, styles):
            probs.append((tag, msg))
    lid = dict(svg.attrs).get('id', '') if cfg.get('use_local_styles') else ''
    fields = ['1', '1', ';'.join('%s|%s' % (hx(nm), ','.join(hx(c) for c in cl)) for nm, cl in evs),
              hx(cfg.get('theme', 'default')), hx(cfg.get('background', 'default')), hx(str(cfg.get('font_size', '3'))),
              hx(cfg.get('font_family', 'sans-serif')), hx(lid)]
    return probs, (fields, styles, [tree_sig(c) for n in defs_raw for c in n.children])


def run(ctx):
    rng = ctx['rng']; st = ctx['stats']; dist = st['distribution']
    quick = ctx['tier'] == 'quick'
    T = tables(); V = Vocab(T)
    themes = T['theme_names']
    cases = []

    def add(classes, elements, sett, tag):
        theme, bg, fs, ff, lid = sett
        cases.append(theme_case('t%d' % len(cases), classes, elements, theme, bg, fs, ff, lid, {'tag': tag}))
        dist[tag] = dist.get(tag, 0) + 1
    # ---- every single vocabulary class (quick: rotating theme; thorough: all themes)
    singles = V.plain + V.text + V.bases + ['%s-%d' % (b, n) for b in V.bases for n in range(V.maxsp + 2)] + NONCANON + JUNK
    for i, c in enumerate(singles):
        for th in ([themes[(i + ctx['seed']) % len(themes)]] if quick else themes):
            add([c], ['text', 'rect'] if (i % 5) else ['rect'], (th, 'default', '3', 'sans-serif', ''), 'single')
    # ---- pairs from different families
    fams = sorted(V.families)
    for i in range(1500 if quick else 30000):
        f1, f2 = rng.sample(fams, 2)
        def pick(f):
            c = rng.choice(V.families[f])
            if f == 'pattern' and rng.chance(0.7):
                c = '%s-%d' % (c, rng.range(0, V.maxsp))
            return c
        add([pick(f1), pick(f2)], rng.sample(ELEMENTS, rng.range(0, 3)), rand_settings(rng, T), 'pair')
    # ---- several classes of one iterated family (the order-sensitive place) and random subsets
    for i in range(800 if quick else 20000):
        b = rng.choice(V.bases)
        cl = list(set(['%s-%d' % (b, rng.range(0, V.maxsp)) for _ in range(rng.range(2, 8))] + ([b] if rng.chance(0.3) else [])))
        rng.shuffle(cl)
        add(cl, rng.sample(ELEMENTS, rng.range(0, 3)), rand_settings(rng, T), 'family')
    for i in range(5000 if quick else 200000):
        cl = list(dict.fromkeys(rand_class(rng, V) for _ in range(rng.range(0, 12))))
        add(cl, rng.sample(ELEMENTS, rng.range(0, 4)), rand_settings(rng, T), 'subset')
    impl = lib.run_impl(cases)
    model = lib.run_model(cases) if ctx['model_ok'] else {}
    seen = set()
    for c in cases:
        st['evaluations'] += 1
        m = c.meta
        if any(V.reserved(x) for x in m['classes']):
            key = (tuple(sorted(m['classes'])), tuple(sorted(m['elements'])), m['theme'], m['bg'], m['fs'], m['ff'], m['lid'])
            if key not in seen:
                seen.add(key); st['distinct_nontrivial'] += 1
        i = impl.get(c.id); mo = model.get(c.id)
        if mo is not None:
            st['traces_validated_against_impl'] += 1
            if i != mo:
                yield {'kind': 'correspondence', 'what': 'theme builder: model and implementation disagree on classes %s elements %s theme %s'
                       % (m['classes'], m['elements'], m['theme']), 'case': c.to_json(),
                       'observed': [i[0]] + [dec_list(x) for x in i[1:]] if i and i[0] == 'OK' else i,
                       'expected': [mo[0]] + [dec_list(x) for x in mo[1:]] if mo and mo[0] == 'OK' else mo}
        if m['theme'] not in themes or not i or i[0] != 'OK' or len(i) < 3:
            continue        # nothing emitted: nothing for the property to say (the correspondence above compares the outcome)
        defs = dec_list(i[1]); styles = dec_list(i[2])
        for tag, msg in check_output(V, set(m['classes']), 'text' in m['elements'], defs, styles):
            yield {'kind': 'oracle', 'what': 'theme %s, classes %s, elements %s: %s' % (m['theme'], m['classes'], m['elements'], msg),
                   'case': c.to_json(), 'observed': {'defs': defs, 'styles': styles}, 'expected': msg, 'tag': tag}
        if len(st['samples']) < 3 and len(m['classes']) > 2:
            st['samples'].append({'classes': m['classes'], 'theme': m['theme'], 'styles': styles[-4:], 'defs': [d[:60] for d in defs]})
    # ---- whole documents
    docs = []
    for di in range(1200 if quick else 40000):
        xml, cfg, meta = rand_doc(rng, V, T, di)
        docs.append((doc_case('d%d' % di, xml, cfg), meta))
        dist['doc:' + meta['kind']] = dist.get('doc:' + meta['kind'], 0) + 1
    dres = lib.run_impl([d[0] for d in docs])
    mcases = []; mexpect = {}
    for c, meta in docs:
        st['evaluations'] += 1
        r = dres.get(c.id)
        if not r or r[0] != 'OK':
            dist['doc:not-transformed'] = dist.get('doc:not-transformed', 0) + 1     # acceptance is not this property's business
            continue
        out = bytes.fromhex(r[1]).decode('utf-8', 'replace')
        st['distinct_nontrivial'] += 1
        probs, mc = analyse_doc(V, out, meta, meta['cfg'])
        for tag, msg in probs:
            yield {'kind': 'oracle', 'what': 'document (%s, config %s): %s\n%s' % (meta['kind'], meta['cfg'], msg, meta['xml'][:600]),
                   'case': dict(c.to_json(), meta={'kind': meta['kind']}), 'observed': out[:3000], 'expected': msg, 'tag': tag, 'doc_kind': meta['kind']}
        if mc and meta['kind'] == 'root':
            fields, styles, defsig = mc
            mcases.append(Case('m' + c.id, 'autostyles', fields, {'doc': c.id}))
            mexpect['m' + c.id] = (styles, defsig, meta)
    if ctx['model_ok'] and mcases:
        mres = lib.run_model(mcases)
        for mcse in mcases:
            r = mres.get(mcse.id); styles, defsig, meta = mexpect[mcse.id]
            st['traces_validated_against_impl'] += 1
            ok = False
            if r and r[0] == 'OK':
                mdefs = dec_list(r[1]); mstyles = dec_list(r[2]) if len(r) > 2 else []
                msig = []
                for d in mdefs:
                    rt, _, _ = xmlcanon.parse(d)
                    msig.append(tree_sig(rt.children[0]) if rt else None)
                ok = (mstyles == styles and msig == defsig)
            if not ok:
                yield {'kind': 'correspondence', 'what': 'write_auto_styles: model and implementation disagree on the injected styles of\n%s' % meta['xml'][:500],
                       'case': mcse.to_json(), 'observed': {'styles': styles}, 'expected': r if not (r and r[0] == 'OK') else {'styles': dec_list(r[2]) if len(r) > 2 else []}}


def classify(v, known):
    """K50: the only rules missing are for text classes and the output has no <text> element.
    K52: the document's root is not <svg> but it contains a nested <svg>, which receives the injection."""
    ids = set(k.get('id') for k in known)
    if v.get('kind') == 'oracle' and v.get('tag') == 'text-gate' and 'K50' in ids:
        return 'K50'
    if v.get('kind') == 'oracle' and v.get('doc_kind') == 'nested' and v.get('tag') in ('nested-root',) and 'K52' in ids:
        return 'K52'
    return None


def replay_known(kf, ctx):
    T = tables(); V = Vocab(T)
    xml = open(os.path.join(lib.VERIF, kf['witness'])).read()
    r = lib.run_impl([doc_case('k', xml, {})]).get('k')
    if not r or r[0] != 'OK':
        return False
    out = bytes.fromhex(r[1]).decode('utf-8', 'replace')
    kind = 'nested' if kf.get('id') == 'K52' else 'root'
    probs, _ = analyse_doc(V, out, {'kind': kind, 'author_styles': [], 'author_defs': [], 'xml': xml, 'cfg': {}}, {})
    want = 'text-gate' if kf.get('id') == 'K50' else 'nested-root'
    return any(t == want for t, _ in probs)
