"""C02 Successful output is always well-formed XML with a proper SVG root."""
import os
from lib import Case, hx, doc_case, unhx
import xmlcanon, xmlgen, docgen

DOC_MODEL = True     # every generated document also runs through the composed Coq model of the whole transform
RULE = ('generated svgdx documents whose attribute values, text attributes, element content, CDATA, comments (_ / __), '
        'variables, expressions and configuration strings (background, font family, svg style) draw from an alphabet rich in '
        '& < > " \' ]]> -- and multi-byte characters, each under 2 random configurations (debug, metadata, themes, local styles); '
        'every Ok output must be accepted by expat (independent of quick-xml), carry no duplicate attribute and, for a root <svg> '
        'input, be single-rooted with root <svg> declaring the SVG namespace and a version; a smaller stream of real-SVG documents '
        'is compared byte for byte with the extracted Coq writer model. non-trivial = distinct document containing a character '
        'that needs escaping or a comment / CDATA')
THEOREM_NOTES = ('Props/C02.v: unescape_escape, escaped_is_clean, start_tag_reads_back, empty_tag_reads_back (all attribute values), '
                 'write_wf (whole event lists), attrmap_keys_nodup, element_attrs_unique')
ASSUMPTIONS = ['well-formedness is proved at the lexical level of the model reader (tokens read back as written); tag balance and name '
               'syntax are checked by the expat oracle', 'quick-xml\'s reader and writer are represented by the model (tied by byte-level correspondence)']
SVG_NS = 'http://www.w3.org/2000/svg'


def check_output(doc_has_svg_root, out):
    """returns None or a description"""
    try:
        out.decode('utf-8')
    except UnicodeDecodeError as e:
        return 'output is not UTF-8: %s' % e
    # a fragment (no root <svg> in the input) is checked as well-formed content of a wrapper element
    root, evs, err = xmlcanon.parse(out if doc_has_svg_root else b'<w>' + out + b'</w>')
    if err:
        return 'output rejected by expat: ' + err
    if doc_has_svg_root:
        tops = [c for c in root.children]
        if len(tops) != 1:
            return 'output has %d top-level elements' % len(tops)
        r = tops[0]
        if r.name != 'svg':
            return 'output root is <%s>' % r.name
        d = dict(r.attrs)
        if d.get('xmlns') != SVG_NS:
            return 'output root <svg> does not declare the SVG namespace (xmlns=%r)' % d.get('xmlns')
        if 'version' not in d:
            return 'output root <svg> has no version'
    return None


def run(ctx):
    rng = ctx['rng']; lib = ctx['lib']; st = ctx['stats']; dist = st['distribution']
    quick = ctx['tier'] == 'quick'
    n = 1500 if quick else 30000
    docs = []
    cdir = os.path.join(lib.VERIF, 'corpus', 'C02')
    for fn in sorted(os.listdir(cdir)) if os.path.isdir(cdir) else []:
        if fn.endswith('.xml') and not fn.startswith('K'):
            docs.append((open(os.path.join(cdir, fn), encoding='utf-8').read(), 'corpus'))
    for i in range(n):
        r = rng.below(20)
        if r < 15:
            docs.append((docgen.gen_doc(rng), 'svgdx'))
        elif r < 17:
            docs.append((docgen.gen_doc(rng, text_heavy=True), 'text-heavy'))
        elif r < 18:
            # root with a foreign default namespace (K14 class)
            docs.append((docgen.gen_doc(rng, root_attrs=' xmlns="http://example.org/%d"' % rng.range(0, 9)), 'foreign-xmlns'))
        elif r < 19:
            # fragment without root svg
            d = docgen.gen_doc(rng)
            docs.append((d[d.index('>') + 1:d.rindex('</svg>')], 'fragment'))
        else:
            # input that is itself not well-formed but may be tolerated by the reader (K17 class)
            d = docgen.gen_doc(rng)
            bad = rng.choice(['<desc>x & y</desc>', '<title>a &b c</title>', '<1a/>', '<rect wh="2" text="a"/><b@d/>', '<text>AT&T</text>'])
            docs.append((d.replace('</svg>', bad + '</svg>'), 'malformed-input'))
            # a comment that is not well-formed inside content that is copied through (a real SVG document, a nested namespaced svg)
            cm = rng.choice(['<!-- a -- b -->', '<!-- x --->', '<!----->'])
            docs.append((rng.choice(['<svg xmlns="http://www.w3.org/2000/svg">%s<rect width="1" height="1"/></svg>' % cm,
                                     '<svg><rect wh="2"/><svg xmlns="http://www.w3.org/2000/svg">%s<g/></svg></svg>' % cm]), 'malformed-input'))
    # documents combining every feature (loops, reuse, connectors, containment, text placement ...): the output of each must be
    # well-formed too
    import docfuzz
    frng = rng.fork('wf-fuzz')
    for i in range(400 if quick else 8000):
        docs.append((docfuzz.gen(frng)[0], 'fuzz'))
    # ---- byte streams: input whose events end inside a multi-byte sequence (or hold other invalid bytes). Whenever the
    #      transform of a byte stream succeeds, the bytes written are UTF-8 and well-formed
    bcases = []
    tails = [b'\xc3', b'\xe2\x82', b'\xf0\x9f\x98', b'\xff', b'\xc3\xa9']
    for i in range(60 if quick else 1200):
        t = rng.choice(tails)
        ns = rng.choice([b' xmlns="http://www.w3.org/2000/svg"', b''])
        form = rng.below(8)
        if form == 0: b = b'<?editor caf' + t + b'?><svg' + ns + b'><rect width="1" height="1"/></svg>'
        elif form == 1: b = b'<svg' + ns + b'><?pi x' + t + b'?><rect width="1" height="1"/></svg>'
        elif form == 2: b = b'<!DOCTYPE svg' + t + b'><svg' + ns + b'/>'
        elif form == 3: b = b'<?xml version="1.0" encoding="UTF-8"' + t + b'?><svg' + ns + b'><g/></svg>'
        elif form == 4: b = b'<svg' + ns + b'><!-- c' + t + b'--><g/></svg>'
        elif form == 5: b = b'<svg' + ns + b'><desc>t' + t + b'</desc></svg>'
        elif form == 6: b = b'<svg' + ns + b'><![CDATA[x' + t + b']]></svg>'
        else: b = b'<svg' + ns + b'><g title="a' + t + b'"/></svg>'
        bcases.append(Case('b%d' % i, 'docbytes', [lib.enc_cfg({}), b.hex()], {'input': repr(b)}))
    bres = lib.run_impl(bcases)
    for c in bcases:
        st['evaluations'] += 1
        r = bres.get(c.id)
        if not r or r[0] not in ('OK', 'ERR'):
            yield {'kind': 'oracle', 'what': 'transform_stream did not return on %s: %s' % (c.meta['input'], r), 'case': c.to_json(), 'observed': r, 'expected': 'Ok or Err'}
        elif r[0] == 'OK':
            out = bytes.fromhex(r[1])
            try:
                out.decode('utf-8')
                bad = None
            except UnicodeDecodeError as e:
                bad = str(e)
            if bad:
                yield {'kind': 'oracle', 'what': 'transform_stream succeeded on %s and wrote bytes that are not UTF-8 (%s): %r' % (c.meta['input'], bad, out[:300]),
                       'case': c.to_json(), 'observed': out.hex()[:600], 'expected': 'an error, or well-formed UTF-8 XML', 'doc_kind': 'bytes', 'msg': 'not utf-8'}
    dist['byte_stream_inputs'] = len(bcases)
    cases = []
    for i, (d, kind) in enumerate(docs):
        for j in range(2):
            cfg = docgen.rand_cfg(rng)
            cases.append(doc_case('d%d_%d' % (i, j), d, cfg, {'doc': d, 'cfg': cfg, 'kind': kind}))
    impl = lib.run_impl(cases)
    seen = set()
    nok = 0
    for c in cases:
        st['evaluations'] += 1
        d = c.meta['doc']; kind = c.meta['kind']
        dist[kind] = dist.get(kind, 0) + 1
        r = impl.get(c.id)
        if not r or r[0] in ('PANIC', 'TIMEOUT', 'ABORT'):
            yield {'kind': 'oracle', 'what': 'transform did not return: %s' % (r,), 'case': c.to_json(), 'observed': r, 'expected': 'Ok or Err'}
            continue
        if r[0] != 'OK':
            dist['err:' + r[1]] = dist.get('err:' + r[1], 0) + 1
            continue
        nok += 1
        if d not in seen:
            seen.add(d)
            if any(x in d for x in ('&', '<!--', 'CDATA', '_="', "'")):
                st['distinct_nontrivial'] += 1
        out = bytes.fromhex(r[1])
        has_root = d.lstrip().startswith('<svg')
        msg = check_output(has_root, out)
        if msg:
            _, _, in_err = xmlcanon.parse(d)
            yield {'kind': 'oracle', 'what': '%s (configuration %s)' % (msg, c.meta['cfg']), 'case': c.to_json(),
                   'observed': out.decode('utf-8', 'replace')[:3000], 'expected': 'well-formed XML with a proper root',
                   'input_wellformed': in_err is None, 'doc_kind': kind, 'msg': msg}
        if len(st['samples']) < 3 and kind == 'svgdx':
            st['samples'].append({'input': d[:500], 'cfg': c.meta['cfg'], 'output': out.decode('utf-8', 'replace')[:500]})
    dist['ok_outputs'] = nok
    # ---- writer model vs implementation on real-SVG documents (bytes)
    m = 300 if quick else 4000
    rdocs = [xmlgen.gen_real_svg(rng, flags={}) for _ in range(m)]
    icases = [doc_case('r%d' % i, d, {}) for i, d in enumerate(rdocs)]
    mcases = [Case('r%d' % i, 'xmlpass', [hx(d)]) for i, d in enumerate(rdocs)]
    ri = lib.run_impl(icases); rm = lib.run_model(mcases) if ctx['model_ok'] else {}
    for i, d in enumerate(rdocs):
        st['evaluations'] += 1
        a = ri.get('r%d' % i); b = rm.get('r%d' % i)
        if b is None or b[0] != 'OK' or not a:
            continue
        st['traces_validated_against_impl'] += 1
        if a[0] != 'OK' or a[1] != b[1]:
            yield {'kind': 'correspondence', 'what': 'writer model and implementation differ on a real SVG document',
                   'case': icases[i].to_json(), 'observed': unhx(a[1])[:2000] if a[0] == 'OK' else a, 'expected': unhx(b[1])[:2000]}


def classify(v, known):
    if v.get('kind') != 'oracle':
        return None
    if v.get('doc_kind') == 'foreign-xmlns' and 'does not declare the SVG namespace' in v.get('msg', ''):
        return 'K14'
    if v.get('input_wellformed') is False and 'rejected by expat' in v.get('msg', ''):
        return 'K17'
    return None


def replay_known(kf, ctx):
    lib = ctx['lib']
    d = open(os.path.join(lib.VERIF, kf['witness']), encoding='utf-8').read()
    r = lib.run_impl([doc_case('k', d, {})]).get('k')
    if not r or r[0] != 'OK':
        return False
    return check_output(True, bytes.fromhex(r[1])) is not None
