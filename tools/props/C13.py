"""C13 Connectors start and end on the referenced elements."""
import math, os, json
from fractions import Fraction as F
from lib import Case, hx, enc_attrs, enc_els, dec_attrs, doc_case, unhx
import xmlcanon, scene
from scene import fmt, dy

DOC_MODEL = True     # every generated document also runs through the composed Coq model of the whole transform
RULE = ('two referenced boxes (rect/circle/ellipse/box/line/point) in generated arrangements: the 9 sectors, overlapping, '
        'contained, touching at an edge or corner, identical, equal-size aligned and square-diagonal placements (distance ties on '
        'purpose) x endpoint specifications (#id, #id@loc with the 9 names and edge:offset abs/negative/percent, ^, literal '
        'points) x connector kinds (line straight, line h/horizontal, line v/vertical, polyline corner with corner-offset '
        'none/abs/negative/percent, edge-type on a polyline, unknown edge-type); hook resolve_position;transmute;resolve_position '
        '(kinds connect and resolve) compared bit-exactly with the extracted Coq model; the property itself is evaluated on the '
        'implementation output by an independent rule (candidate locations, minimal distance with any minimal pair accepted, '
        'axis-parallel h/v through the overlap middle, rectilinear polylines leaving/entering perpendicular, attributes absent; '
        'tolerance 0.002) and on whole documents (forward references, <use>, relatively positioned boxes) against the geometry '
        'of the referenced OUTPUT elements. non-trivial = distinct accepted connector with at least one element endpoint')
THEOREM_NOTES = ('Props/C13.v: candidates_edge_midpoints_plus_corners endpoint_on_named_loc literal_point_verbatim literal_point_parsed '
                 'endpoint_minimal(_start,_end) endpoint_first_minimum endpoint_pair_first_minimum direction_of_* from_element_uses_link straight_joins_endpoints '
                 'hv_axis_parallel_mid_overlap_h/_v corner_segments_axis_parallel corner_leaves_perpendicular '
                 'corner_without_direction_is_straight corner_rejected_only_for_u_with_percent corner_default_offsets connector_attrs_removed')
ASSUMPTIONS = ['theorems are on exact rationals; the minimum-search theorems assume some candidate distance is below the initial '
               'value f32::MAX (no overflow); binary32 rounding is covered by the bit-exact correspondence, not by a proved bound',
               'h/v edge types: the overlap-middle clause is checked when the two ranges overlap; with disjoint ranges the line '
               'runs through the middle of the gap and only axis-parallelism and the along-axis coordinates are checked',
               'corner routing needs an edge direction at both ends; with a literal point, a corner location or the centre the '
               'code draws the straight segment, for which only the endpoint clauses are checked']
TOL = 0.002
PROPERTY_ATTRS = ('start', 'end', 'edge-type', 'corner-offset')

# candidate locations per connection type, as the property states them
CAND = {'straight': ['t', 'b', 'l', 'r', 'tl', 'bl', 'tr', 'br'], 'corner': ['t', 'r', 'b', 'l'],
        'h': ['l', 'r'], 'v': ['t', 'b']}
DIR = {'t': 'U', 'r': 'R', 'b': 'D', 'l': 'L'}


def conn_type(name, edge_type):
    if edge_type in ('h', 'horizontal'):
        return 'h'
    if edge_type in ('v', 'vertical'):
        return 'v'
    if edge_type is not None:
        return 'straight'
    return 'corner' if name == 'polyline' else 'straight'


def loc_dir(loc):
    """direction of a location: edge mid-points and edge:offset have one, corners and centre none"""
    return DIR.get(loc.partition(':')[0]) if (loc in DIR or ':' in loc) else None


def dist(a, b):
    return math.hypot(float(a[0]) - float(b[0]), float(a[1]) - float(b[1]))


def near(a, b, tol):
    return abs(float(a[0]) - float(b[0])) <= tol and abs(float(a[1]) - float(b[1])) <= tol


def out_points(name, attrs):
    d = dict(attrs)
    try:
        if name == 'line':
            return [(float(d.get('x1', 0)), float(d.get('y1', 0))), (float(d.get('x2', 0)), float(d.get('y2', 0)))]
        if name == 'polyline':
            pts = []
            for p in d['points'].split(','):
                xy = p.split()
                pts.append((float(xy[0]), float(xy[1])))
            return pts
    except (KeyError, ValueError, IndexError):
        return None
    return None


def side_info(spec, boxes, ctype):
    """spec = ['pt', x, y] | ['auto', id] | ['loc', id, loc]; returns dict"""
    if spec[0] == 'pt':
        return {'kind': 'literal', 'fixed': (F(spec[1]), F(spec[2])), 'dirs': None, 'box': None}
    bb = boxes[spec[1]]
    if spec[0] == 'loc':
        return {'kind': 'named', 'fixed': scene.loc_point(bb, spec[2]), 'dirs': loc_dir(spec[2]), 'box': bb}
    return {'kind': 'auto', 'fixed': None, 'box': bb, 'cands': [(l, scene.loc_point(bb, l)) for l in CAND[ctype]]}


def minimal_dirs(si, other, dtol):
    """directions an endpoint may take: of the named location, or of every candidate of (near) minimal distance"""
    if si['kind'] == 'literal':
        return [None]
    if si['kind'] == 'named':
        return [si['dirs']]
    if other['kind'] == 'auto':
        best = min(dist(a, b) for _, a in si['cands'] for _, b in other['cands'])
        return sorted(set(DIR.get(l) for l, a in si['cands'] if min(dist(a, b) for _, b in other['cands']) <= best + dtol), key=str)
    best = min(dist(a, other['fixed']) for _, a in si['cands'])
    return sorted(set(DIR.get(l) for l, a in si['cands'] if dist(a, other['fixed']) <= best + dtol), key=str)


def rejection_allowed(ctype, offset, S, E, dtol):
    """a corner route is rejected only for a U shape (equal directions) with a percentage offset"""
    if ctype != 'corner' or not offset or not offset.endswith('%'):
        return False
    if S['kind'] == 'auto' and E['kind'] == 'auto':
        best = min(dist(a, b) for _, a in S['cands'] for _, b in E['cands'])
        return any(l1 == l2 for l1, a in S['cands'] for l2, b in E['cands'] if dist(a, b) <= best + dtol)
    return any(d is not None and d in minimal_dirs(E, S, dtol) for d in minimal_dirs(S, E, dtol))


def check_connector(ctype, sspec, espec, boxes, out_name, out_attrs, tol=TOL, dtol=0.006):
    """the property, evaluated on one output connector. Returns [(tag, message)]"""
    probs = []
    d = dict(out_attrs)
    for k in PROPERTY_ATTRS:
        if k in d:
            probs.append(('attr-left', 'attribute %s="%s" left on the output element' % (k, d[k])))
    pts = out_points(out_name, out_attrs)
    if not pts or len(pts) < 2:
        return probs + [('no-geometry', 'output %s %s has no end points' % (out_name, out_attrs))]
    S = side_info(sspec, boxes, ctype); E = side_info(espec, boxes, ctype)
    P = {'start': pts[0], 'end': pts[-1]}
    sides = (('start', S, E), ('end', E, S))
    if ctype in ('straight', 'corner'):
        for nm, si, other in sides:
            if si['fixed'] is not None:
                if not near(P[nm], si['fixed'], tol):
                    probs.append((si['kind'], '%s point %s is not the %s point %s' % (nm, P[nm], si['kind'], [float(v) for v in si['fixed']])))
            else:
                m = [l for l, p in si['cands'] if near(P[nm], p, tol)]
                si['match'] = m
                if not m:
                    probs.append(('not-candidate', '%s point %s is none of the candidate locations %s of box %s' % (
                        nm, P[nm], [(l, [float(v) for v in p]) for l, p in si['cands']], [float(v) for v in si['box']])))
        if S['kind'] == 'auto' and E['kind'] == 'auto':
            best = min(dist(a, b) for _, a in S['cands'] for _, b in E['cands'])
            if dist(P['start'], P['end']) > best + dtol:
                probs.append(('not-minimal', 'distance %.4f between %s and %s exceeds the minimum %.4f over the candidate pairs' % (dist(P['start'], P['end']), P['start'], P['end'], best)))
        else:
            for nm, si, other in sides:
                if si['kind'] == 'auto':
                    best = min(dist(a, other['fixed']) for _, a in si['cands'])
                    if dist(P[nm], other['fixed']) > best + dtol:
                        probs.append(('not-minimal', '%s point %s is at distance %.4f from the other end %s, the closest candidate is at %.4f' % (
                            nm, P[nm], dist(P[nm], other['fixed']), [float(v) for v in other['fixed']], best)))
        if ctype == 'corner':
            sd = [S['dirs']] if S['kind'] != 'auto' else [DIR.get(l) for l in S.get('match', [])]
            ed = [E['dirs']] if E['kind'] != 'auto' else [DIR.get(l) for l in E.get('match', [])]
            sd = [x for x in sd if x]; ed = [x for x in ed if x]
            if sd and ed:
                for a, b in zip(pts, pts[1:]):
                    if a[0] != b[0] and a[1] != b[1]:
                        probs.append(('not-rectilinear', 'segment %s - %s of %s is not axis-parallel' % (a, b, pts)))
                        break
                def along(dd, a, b):
                    return a[0] == b[0] if dd in ('U', 'D') else a[1] == b[1]
                if not any(along(x, pts[0], pts[1]) for x in sd):
                    probs.append(('not-perpendicular', 'first segment %s - %s does not leave the %s edge perpendicularly (%s)' % (pts[0], pts[1], sd, pts)))
                if not any(along(x, pts[-2], pts[-1]) for x in ed):
                    probs.append(('not-perpendicular', 'last segment %s - %s does not enter the %s edge perpendicularly (%s)' % (pts[-2], pts[-1], ed, pts)))
        return probs
    # ---- h / v
    al, cr = (0, 1) if ctype == 'h' else (1, 0)      # along-axis / cross-axis coordinate index
    if len(pts) != 2 or pts[0][cr] != pts[1][cr]:
        probs.append(('not-axis-parallel', '%s connector %s is not a %s line' % (ctype, pts, 'horizontal' if ctype == 'h' else 'vertical')))
        return probs
    for nm, si, other in sides:
        if si['fixed'] is not None:
            if abs(P[nm][al] - float(si['fixed'][al])) > tol:
                probs.append((si['kind'], '%s point %s: along-axis coordinate is not that of the %s point %s' % (nm, P[nm], si['kind'], [float(v) for v in si['fixed']])))
        else:
            edges = (si['box'][al], si['box'][al + 2])
            if not any(abs(P[nm][al] - float(v)) <= tol for v in edges):
                probs.append(('not-candidate', '%s point %s is on neither facing edge %s of box %s' % (nm, P[nm], [float(v) for v in edges], [float(v) for v in si['box']])))
    if S['kind'] == 'auto' and E['kind'] == 'auto':
        best = min(abs(float(a - b)) for a in (S['box'][al], S['box'][al + 2]) for b in (E['box'][al], E['box'][al + 2]))
        if abs(P['start'][al] - P['end'][al]) > best + dtol:
            probs.append(('not-minimal', 'length %.4f of %s exceeds the minimum %.4f over the facing edges' % (abs(P['start'][al] - P['end'][al]), pts, best)))
    else:
        for nm, si, other in sides:
            if si['kind'] == 'auto':
                q = float(other['fixed'][al])
                best = min(abs(float(a) - q) for a in (si['box'][al], si['box'][al + 2]))
                if abs(P[nm][al] - q) > best + dtol:
                    probs.append(('not-minimal', '%s point %s is not on the edge closest to the other end %s' % (nm, P[nm], q)))
    c = pts[0][cr]
    if S['box'] is not None and E['box'] is not None:
        lo = max(S['box'][cr], E['box'][cr]); hi = min(S['box'][cr + 2], E['box'][cr + 2])
        if lo <= hi and abs(c - float(lo + hi) / 2) > tol:
            probs.append(('not-overlap-middle', '%s line at %s, the middle of the overlap [%s, %s] is %s' % (ctype, c, float(lo), float(hi), float(lo + hi) / 2)))
    elif S['kind'] == 'literal' and abs(c - float(S['fixed'][cr])) > tol:
        probs.append(('literal', 'start point %s is not the literal point %s' % (pts[0], [float(v) for v in S['fixed']])))
    # the cross-axis coordinate of a named location / of a literal end point (known finding K30)
    for nm, si, other in sides:
        if si['fixed'] is not None and not (nm == 'start' and si['kind'] == 'literal'):
            if abs(c - float(si['fixed'][cr])) > tol:
                probs.append(('hv-cross-axis', '%s edge type: %s point %s is not at the %s point %s (cross-axis coordinate replaced)' % (
                    ctype, nm, P[nm], si['kind'], [float(v) for v in si['fixed']])))
    return probs


# ---------------------------------------------------------------- generation
def shape_from_bbox(rng, kind, sid, bb):
    x1, y1, x2, y2 = bb
    w = x2 - x1; h = y2 - y1
    a = [('id', sid)]
    if kind in ('rect', 'box'):
        a += [('x', fmt(x1)), ('y', fmt(y1)), ('width', fmt(w)), ('height', fmt(h))]
    elif kind == 'circle':
        a += [('cx', fmt(x1 + w / 2)), ('cy', fmt(y1 + h / 2)), ('r', fmt(w / 2))]
    elif kind == 'ellipse':
        a += [('cx', fmt(x1 + w / 2)), ('cy', fmt(y1 + h / 2)), ('rx', fmt(w / 2)), ('ry', fmt(h / 2))]
    elif kind == 'line':
        if rng.chance(0.5):
            a += [('x1', fmt(x1)), ('y1', fmt(y1)), ('x2', fmt(x2)), ('y2', fmt(y2))]
        else:
            a += [('x1', fmt(x2)), ('y1', fmt(y1)), ('x2', fmt(x1)), ('y2', fmt(y2))]
    elif kind == 'point':
        a += [('x', fmt(x1)), ('y', fmt(y1))]
    return kind, a


RELATIONS = ['sector', 'sector', 'sector', 'overlap', 'contained', 'touch-edge', 'touch-corner', 'identical', 'aligned-equal', 'diagonal-square', 'random']


def arrangement(rng):
    """two boxes A, B (exact dyadic numbers) in a chosen relation; returns (relation, A, B)"""
    rel = rng.choice(RELATIONS)
    ax = dy(rng, -10, 30, 4); ay = dy(rng, -10, 30, 4); aw = dy(rng, 2, 24, 2); ah = dy(rng, 2, 24, 2)
    bw = dy(rng, 2, 24, 2); bh = dy(rng, 2, 24, 2)
    if rel == 'sector':
        sx = rng.range(-1, 1); sy = rng.range(-1, 1)
        g = dy(rng, 0, 20, 2)       # gap 0 = touching
        g2 = dy(rng, 0, 20, 2)
        bx = ax + aw + g if sx > 0 else (ax - g - bw if sx < 0 else ax + dy(rng, -4, 4, 2))
        by = ay + ah + g2 if sy > 0 else (ay - g2 - bh if sy < 0 else ay + dy(rng, -4, 4, 2))
        rel = 'sector%+d%+d' % (sx, sy)
    elif rel == 'overlap':
        bx = ax + dy(rng, -3, 3, 2) + aw / 2; by = ay + dy(rng, -3, 3, 2) + ah / 2
    elif rel == 'contained':
        bw = aw / 2; bh = ah / 4; bx = ax + aw / 4; by = ay + ah / 4
    elif rel == 'touch-edge':
        if rng.chance(0.5):
            bx = ax + aw; by = ay + dy(rng, -4, 4, 2)
        else:
            by = ay + ah; bx = ax + dy(rng, -4, 4, 2)
    elif rel == 'touch-corner':
        bx = ax + aw if rng.chance(0.5) else ax - bw
        by = ay + ah if rng.chance(0.5) else ay - bh
    elif rel == 'identical':
        bx, by, bw, bh = ax, ay, aw, ah
    elif rel == 'aligned-equal':
        bw, bh = aw, ah
        if rng.chance(0.5):
            bx = ax + aw + dy(rng, 0, 16, 2) * rng.choice([1, -1]) - (0 if rng.chance(0.5) else 2 * aw); by = ay
        else:
            by = ay + ah + dy(rng, 0, 16, 2); bx = ax
    elif rel == 'diagonal-square':
        ah = aw; bw = bh = aw
        k = aw + dy(rng, 0, 12, 2)
        bx = ax + k * rng.choice([1, -1]); by = ay + k * rng.choice([1, -1])
    else:
        bx = dy(rng, -10, 30, 4); by = dy(rng, -10, 30, 4)
    return rel, (ax, ay, ax + aw, ay + ah), (bx, by, bx + bw, by + bh)


def squarify(bb):
    s = min(bb[2] - bb[0], bb[3] - bb[1])
    return (bb[0], bb[1], bb[0] + s, bb[1] + s)


def rand_spec(rng, sid, allow_prev=False):
    r = rng.below(100)
    ref = '^' if allow_prev and rng.chance(0.15) else sid
    if r < 45:
        return ['auto', ref]
    if r < 80:
        return ['loc', ref, scene.rand_loc(rng)]
    return ['pt', str(dy(rng, -15, 45, 4)), str(dy(rng, -15, 45, 4))]


def spec_text(rng, spec):
    if spec[0] == 'pt':
        return rng.choice(['%s %s', '%s,%s', '%s, %s']) % (fmt(F(spec[1])), fmt(F(spec[2])))
    ref = '^' if spec[1] == '^' else '#' + spec[1]
    return ref if spec[0] == 'auto' else '%s@%s' % (ref, spec[2])


KINDS = [('line', None), ('line', None), ('line', 'h'), ('line', 'horizontal'), ('line', 'v'), ('line', 'vertical'),
         ('polyline', None), ('polyline', None), ('polyline', None), ('polyline', 'h'), ('polyline', 'v'), ('line', 'zz')]


def rand_connector(rng, sa, sb, allow_prev=False, pct=True):
    name, et = rng.choice(KINDS)
    ss = rand_spec(rng, sa); es = rand_spec(rng, sb, allow_prev)
    if rng.chance(0.1):
        ss, es = es, ss
    attrs = [('start', spec_text(rng, ss)), ('end', spec_text(rng, es))]
    if et:
        attrs.append(('edge-type', et))
    off = None
    if name == 'polyline' and rng.chance(0.6) or rng.chance(0.05):
        off = rng.choice(['0%', '25%', '50%', '100%', '150%', '-20%', '12.5%']) if (pct and rng.chance(0.4)) else fmt(dy(rng, -6, 10, 2))
        attrs.append(('corner-offset', off))
    for k, v in (('stroke', 'red'), ('class', 'd-arrow'), ('marker-end', 'url(#m)'), ('stroke-width', '0.5')):
        if rng.chance(0.15):
            attrs.append((k, v))
    rng.shuffle(attrs)
    return name, attrs, ss, es, conn_type(name, et), off


def evaluate(c, impl_res, tol=TOL, dtol=0.006):
    """oracle on one hook case; yields (tag, msg)"""
    m = c.meta
    boxes = {k: tuple(F(v) for v in bb) for k, bb in m['boxes'].items()}
    S = side_info(m['ss'], boxes, m['ctype']); E = side_info(m['es'], boxes, m['ctype'])
    if not impl_res or impl_res[0] != 'OK':
        if impl_res and impl_res[0] == 'ERR' and rejection_allowed(m['ctype'], m['offset'], S, E, dtol):
            return [('rejected-u-percent', None)]
        return [('rejected', 'valid connector rejected: %s %s -> %s' % (m['name'], m['attrs'], impl_res))]
    if c.kind == 'connect':
        name = unhx(impl_res[1]); attrs = dec_attrs(impl_res[2])
    else:
        attrs = dec_attrs(impl_res[1]); name = 'polyline' if 'points' in dict(attrs) else 'line'
    return check_connector(m['ctype'], m['ss'], m['es'], boxes, name, attrs, tol, dtol)


def gen_hook_case(rng, i):
    rel, A, B = arrangement(rng)
    ka = rng.choice(['rect', 'rect', 'rect', 'circle', 'ellipse', 'box', 'line', 'point'])
    kb = rng.choice(['rect', 'rect', 'rect', 'circle', 'ellipse', 'box', 'line', 'point'])
    if ka == 'circle': A = squarify(A)
    if kb == 'circle': B = squarify(B)
    if ka == 'point': A = (A[0], A[1], A[0], A[1])
    if kb == 'point': B = (B[0], B[1], B[0], B[1])
    others = [shape_from_bbox(rng, ka, 'a', A)]
    if rng.chance(0.3):
        k3, a3, _ = scene.rand_shape(rng, 'n', kinds=('rect', 'circle'))
        others.append((k3, a3))
    others.append(shape_from_bbox(rng, kb, 'b', B))      # b is last: '^' refers to it
    name, attrs, ss, es, ctype, off = rand_connector(rng, 'a', 'b', allow_prev=True)
    boxes = {'a': A, 'b': B, '^': B}
    malformed = None
    if rng.chance(0.05):
        j = rng.below(len(attrs)); k, v = attrs[j]
        malformed = rng.choice(['missing-id', 'bad-loc', 'bad-offset', 'space', 'bad-number', 'empty', 'no-bbox', 'corner-offset'])
        if malformed == 'corner-offset':
            attrs = [kv for kv in attrs if kv[0] != 'corner-offset'] + [('corner-offset', rng.choice(['abc', '', '5px', '%']))]
        elif malformed == 'no-bbox':
            others.insert(0, ('g', [('id', 'g0')]))
            attrs = [(kk, '#g0' if kk == 'end' else vv) for kk, vv in attrs]
        elif k in ('start', 'end'):
            attrs[j] = (k, {'missing-id': '#zz', 'bad-loc': v + '@q' if '@' not in v else v + 'q', 'bad-offset': '#a@t:x',
                            'space': v.replace('@', ' @') if '@' in v else v + ' ', 'bad-number': '1 x', 'empty': ''}.get(malformed, v))
        else:
            malformed = None
    kind = 'resolve' if rng.chance(0.1) else 'connect'
    meta = {'name': name, 'attrs': attrs, 'others': others, 'ss': ss, 'es': es, 'ctype': ctype, 'offset': off, 'rel': rel,
            'boxes': {k: [str(v) for v in bb] for k, bb in boxes.items()}, 'malformed': malformed, 'shapes': [ka, kb]}
    return Case('h%d' % i, kind, [hx(name), enc_attrs(attrs), enc_els(others)], meta)


# ---------------------------------------------------------------- documents
def gen_doc(rng, di):
    shapes = []; ids = []
    n = rng.range(2, 4)
    rel, A, B = arrangement(rng)
    base = [A, B]
    with_use = rng.chance(0.35)
    for j in range(n):
        sid = 's%d' % j
        # (<use> of a circle / ellipse gets its x / y rewritten by svgdx, which is not a connector matter)
        k = 'rect' if (with_use and j == 0) else rng.choice(['rect', 'rect', 'circle', 'ellipse'])
        if j < 2:
            bb = base[j]
        else:
            _, _, bb = scene.rand_shape(rng, sid, kinds=('rect',))
        if k == 'circle':
            bb = squarify(bb)
        if j >= 1 and rng.chance(0.25):
            # positioned relative to the previous shape; the oracle reads its geometry from the output
            d = rng.choice('hHvV')
            shapes.append(xmlcanon.el('rect', [('id', sid), ('xy', '#s%d|%s %s' % (j - 1, d, fmt(dy(rng, 0, 12, 2)))),
                                                ('wh', '%s %s' % (fmt(bb[2] - bb[0]), fmt(bb[3] - bb[1])))]))
        else:
            kk, a = shape_from_bbox(rng, k, sid, bb)
            shapes.append(xmlcanon.el(kk, a))
        ids.append(sid)
    if with_use:
        shapes.append(xmlcanon.el('use', [('id', 'u0'), ('href', '#s0'), ('x', fmt(dy(rng, -30, 30, 2))), ('y', fmt(dy(rng, -30, 30, 2)))]))
        ids.append('u0')
    conns = []; cmeta = {}
    for j in range(rng.range(1, 3)):
        a, b = rng.sample(ids, 2) if rng.chance(0.9) else (ids[0], ids[0])
        name, attrs, ss, es, ctype, off = rand_connector(rng, a, b, pct=False)
        attrs.append(('id', 'k%d' % j))
        conns.append(xmlcanon.el(name, attrs))
        cmeta['k%d' % j] = {'name': name, 'attrs': attrs, 'ss': ss, 'es': es, 'ctype': ctype, 'offset': off}
    parts = shapes + conns
    fwd = rng.chance(0.4)
    if fwd:
        rng.shuffle(parts)
        # a relatively positioned shape needs no particular order either (forward references are retried)
    xml = '<svg>' + ''.join(parts) + '</svg>'
    return doc_case('d%d' % di, xml, {'add_auto_styles': False}, {'conns': cmeta, 'xml': xml, 'forward': fwd, 'rel': rel})


def out_boxes(root):
    """bounding boxes of the output elements by id (3-decimal output numbers as exact fractions)"""
    byid = {}
    for n_ in root.iter():
        i = dict(n_.attrs).get('id')
        if i:
            byid[i] = n_

    def fbox(n_):
        d = dict(n_.attrs)
        try:
            if n_.name == 'use':
                t = byid.get(d.get('href', '')[1:])
                b = fbox(t) if t is not None else None
                if b is None:
                    return None
                dx = F(d.get('x', '0')); dy_ = F(d.get('y', '0'))
                return (b[0] + dx, b[1] + dy_, b[2] + dx, b[3] + dy_)
            if n_.name == 'rect':
                x = F(d.get('x', '0')); y = F(d.get('y', '0'))
                return (x, y, x + F(d['width']), y + F(d['height']))
            if n_.name == 'circle':
                cx = F(d.get('cx', '0')); cy = F(d.get('cy', '0')); r = F(d['r'])
                return (cx - r, cy - r, cx + r, cy + r)
            if n_.name == 'ellipse':
                cx = F(d.get('cx', '0')); cy = F(d.get('cy', '0')); rx = F(d['rx']); ry = F(d['ry'])
                return (cx - rx, cy - ry, cx + rx, cy + ry)
        except (KeyError, ValueError, ZeroDivisionError):
            return None
        return None
    return byid, {i: fbox(n_) for i, n_ in byid.items()}


def evaluate_doc(c, r):
    """oracle on one document; returns [(tag, msg)]"""
    m = c.meta
    if not r or r[0] != 'OK':
        return [('rejected', 'document with valid connectors rejected: %s; doc %s' % (r, m['xml'][:600]))]
    root, _, err = xmlcanon.parse(bytes.fromhex(r[1]))
    if root is None:
        return [('no-geometry', 'output does not parse: %s' % err)]
    byid, boxes = out_boxes(root)
    probs = []
    for kid, cm in m['conns'].items():
        n_ = byid.get(kid)
        if n_ is None:
            probs.append(('no-geometry', 'connector %s missing from the output; doc %s' % (kid, m['xml'][:600])))
            continue
        need = [s[1] for s in (cm['ss'], cm['es']) if s[0] != 'pt']
        if any(boxes.get(i) is None for i in need):
            probs.append(('no-geometry', 'referenced element of %s has no geometry in the output; doc %s' % (kid, m['xml'][:600])))
            continue
        for tag, msg in check_connector(cm['ctype'], cm['ss'], cm['es'], boxes, n_.name, n_.attrs, tol=0.0035, dtol=0.012):
            probs.append((tag, '%s (%s %s): %s; doc %s' % (kid, cm['name'], cm['attrs'], msg, m['xml'][:600])))
    return probs


def hv_fixed_shape(meta_conn):
    """input shape of K30: edge type h/v with a named location on either side or a literal end point"""
    return meta_conn.get('ctype') in ('h', 'v') and (meta_conn['ss'][0] == 'loc' or meta_conn['es'][0] in ('loc', 'pt'))


def run(ctx):
    rng = ctx['rng']; lib = ctx['lib']; st = ctx['stats']; dist_ = st['distribution']
    quick = ctx['tier'] == 'quick'
    if ctx.get('replay'):
        j = json.load(open(ctx['replay']))
        cj = (j.get('violation') or {}).get('case') or (j.get('correspondence_cases') or [{}])[0].get('case')
        cases = [Case.from_json(cj)] if cj and cj['kind'] in ('connect', 'resolve') else []
        docs = [Case.from_json(cj)] if cj and cj['kind'] == 'doc' else []
    else:
        cases = [gen_hook_case(rng, i) for i in range(5000 if quick else 300000)]
        docs = [gen_doc(rng, i) for i in range(500 if quick else 20000)]
    impl = lib.run_impl(cases)
    model = lib.run_model(cases) if ctx['model_ok'] else {}
    seen = set()
    for c in cases:
        st['evaluations'] += 1
        m = c.meta
        i = impl.get(c.id); mo = model.get(c.id)
        key = (c.kind,) + tuple(c.fields)
        for t in ('type:' + m['ctype'], 'rel:' + m['rel'], 'spec:%s/%s' % (m['ss'][0], m['es'][0])):
            dist_[t] = dist_.get(t, 0) + 1
        if mo is not None:
            st['traces_validated_against_impl'] += 1
            if i != mo:
                def sh(r):
                    if r and r[0] == 'OK':
                        return ['OK'] + ([unhx(r[1]), dec_attrs(r[2])] if c.kind == 'connect' else [dec_attrs(r[1])])
                    return r
                yield {'kind': 'correspondence', 'what': 'model and implementation disagree on %s %s with %s' % (m['name'], m['attrs'], m['others']),
                       'case': c.to_json(), 'observed': sh(i), 'expected': sh(mo)}
        if m['malformed']:
            dist_['malformed'] = dist_.get('malformed', 0) + 1
            continue
        probs = evaluate(c, i)
        if probs and probs[0][0] == 'rejected-u-percent':
            dist_['u-shape-percent-rejected'] = dist_.get('u-shape-percent-rejected', 0) + 1
            continue
        if i and i[0] == 'OK' and key not in seen and (m['ss'][0] != 'pt' or m['es'][0] != 'pt'):
            seen.add(key); st['distinct_nontrivial'] += 1
        for tag, msg in probs:
            yield {'kind': 'oracle', 'what': '%s %s [%s]: %s' % (m['name'], m['attrs'], tag, msg), 'case': c.to_json(),
                   'observed': i if not i or i[0] != 'OK' else dec_attrs(i[-1]), 'expected': tag, 'tag': tag}
        if len(st['samples']) < 5 and i and i[0] == 'OK' and c.kind == 'connect' and st['evaluations'] % 7 == 0:
            st['samples'].append({'connector': [m['name'], m['attrs']], 'refs': m['others'], 'relation': m['rel'],
                                  'impl': [unhx(i[1]), dec_attrs(i[2])]})
    dres = lib.run_impl(docs)
    for c in docs:
        st['evaluations'] += 1
        r = dres.get(c.id)
        probs = evaluate_doc(c, r)
        if r and r[0] == 'OK':
            st['distinct_nontrivial'] += 1
        dist_['documents'] = dist_.get('documents', 0) + 1
        if c.meta.get('forward'):
            dist_['documents-forward-refs'] = dist_.get('documents-forward-refs', 0) + 1
        for tag, msg in probs:
            yield {'kind': 'oracle', 'what': 'document [%s]: %s' % (tag, msg), 'case': c.to_json(),
                   'observed': bytes.fromhex(r[1]).decode('utf-8', 'replace')[:1500] if r and r[0] == 'OK' else r, 'expected': tag, 'tag': tag}


def classify(v, known):
    """K30: h / v edge type with a named location (either side) or a literal end point - the line keeps the
    overlap middle / the start point's cross-axis coordinate, so the cross-axis coordinate of that
    location / literal is not honoured (TODO in Connector::render). Only that check, only that input shape."""
    if v.get('kind') != 'oracle' or v.get('tag') != 'hv-cross-axis':
        return None
    m = v.get('case', {}).get('meta', {})
    if 'conns' in m:
        kid = v['what'].split(': ', 1)[1].split(' ', 1)[0] if ': ' in v['what'] else ''
        cm = m['conns'].get(kid)
        return 'K30' if cm and hv_fixed_shape(cm) else None
    return 'K30' if hv_fixed_shape(m) else None


def replay_known(kf, ctx):
    lib = ctx['lib']
    xml = open(os.path.join(lib.VERIF, kf['witness'])).read()
    r = lib.run_impl([doc_case('k', xml, {'add_auto_styles': False})]).get('k')
    if not r or r[0] != 'OK':
        return False
    root, _, _ = xmlcanon.parse(bytes.fromhex(r[1]))
    byid, boxes = out_boxes(root)
    ln = byid.get('k')
    if ln is None:
        return False
    probs = check_connector('h', ['loc', 'a', 'tr'], ['auto', 'b'], boxes, ln.name, ln.attrs)
    return any(t == 'hv-cross-axis' for t, _ in probs)
