"""C03 Real SVG (namespaced root) passes through with an identical XML infoset."""
import os
from lib import Case, hx, doc_case, unhx
import xmlcanon, xmlgen

RULE = ('generated well-formed documents rooted at <svg xmlns=SVG> over arbitrary element / attribute names (svgdx-looking ones '
        'included), namespaced attributes, entity and character references in every spelling, Unicode, PIs, doctype, CDATA, '
        'comments, white-space variations inside tags; each under 2 random configurations. Output bytes compared with the '
        'extracted Coq model (read_xml; conv; write_to); expat event stream of input vs output compared by the oracle; nested '
        'namespaced <svg> subtrees inside svgdx documents checked by the oracle. non-trivial = distinct document with >= 1 '
        'attribute value or text needing an escape, or a class / comment / CDATA / PI')
THEOREM_NOTES = 'Props/C03.v: see file'
ASSUMPTIONS = ['the XML reader (quick-xml) is represented by the model\'s own read_xml on well-formed input; that this is what the real reader delivers is checked by the byte-level correspondence',
               'custom DTD entities are outside the model (documents with an internal subset are not generated)']

CFG_KEYS = [('debug', [True, False]), ('add_metadata', [True, False]), ('theme', ['default', 'bold', 'fine', 'glass', 'light', 'dark']),
            ('border', [0, 5, 12]), ('scale', [0.5, 1.0, 2.5]), ('add_auto_styles', [True, False]), ('background', ['default', 'red', '#fff']),
            ('font_size', [3.0, 5.5]), ('font_family', ['sans-serif', 'a"b']), ('use_local_styles', [True, False]), ('seed', [0, 7])]


def rand_cfg(rng):
    cfg = {}
    for k, vals in CFG_KEYS:
        if rng.chance(0.3):
            cfg[k] = rng.choice(vals)
    return cfg


def canon_events(evs):
    out = []
    for e in evs:
        if e[0] == 'start':
            out.append(('start', e[1], tuple(sorted(e[2]))))
        else:
            out.append(tuple(e))
    return out


def n5(evs):   # K5: class de-duplicated, empty tokens collapsed as SvgElement::new does (split on ' ', ordered set, join)
    out = []
    for e in evs:
        if e[0] == 'start':
            at = []
            for k, v in e[2]:
                if k == 'class':
                    seen = []
                    for t in v.split(' '):
                        if t not in seen:
                            seen.append(t)
                    v = ' '.join(seen)
                at.append((k, v))
            out.append(('start', e[1], tuple(sorted(at))))
        else:
            out.append(e)
    return out


def n6(evs):   # K6: white space before a line end in character data trimmed
    import re
    return [(e[0], re.sub(r'[ \t\r\f\v \u0085  -     　]+\n', '\n', e[1])) if e[0] == 'text' else e for e in evs]


def n7(evs):   # K7: literal tab / newline / CR inside an attribute value (from a character reference) normalised to a space
    out = []
    for e in evs:
        if e[0] == 'start':
            out.append(('start', e[1], tuple(sorted((k, v.replace('\t', ' ').replace('\n', ' ').replace('\r', ' ')) for k, v in e[2]))))
        else:
            out.append(e)
    return out


NORMS = [('K5', n5), ('K6', n6), ('K7', n7)]


def applicable(src, ein=()):
    """known classes whose trigger is literally present in the source document (keeps the classes narrow)"""
    import re
    out = set()
    if re.search(r'[ \t\r\f\v\u00a0\u0085\u1680\u2000-\u200a\u2028\u2029\u202f\u205f\u3000]\n', src):
        out.add('K6')
    if re.search(r'&#(0*9|0*10|0*13|[xX]0*[9aAdD]);', src):
        out.add('K7')
    for e in ein:
        if e[0] == 'start':
            for k, v in e[2]:
                toks = v.split(' ')
                if k == 'class' and len(set(toks)) != len(toks):
                    out.add('K5')
    return out


def explain(ein, eout, src=None):
    """None if equal; else the list of known classes that explain the difference, or [] if none does"""
    if ein == eout:
        return None
    import itertools
    norms = [(k, f) for k, f in NORMS if src is None or k in applicable(src, ein)]
    for r in range(1, len(norms) + 1):
        for combo in itertools.permutations(norms, r):
            a = ein; b = eout
            for _, f in combo:
                a = f(a); b = f(b)
            if a == b:
                return [k for k, _ in combo]
    return []


def nontrivial(doc):
    return any(x in doc for x in ('&', 'class', '<!--', '<![CDATA[', '<?', "='"))


def run(ctx):
    rng = ctx['rng']; lib = ctx['lib']; st = ctx['stats']; dist = st['distribution']
    quick = ctx['tier'] == 'quick'
    n = 1500 if quick else 30000
    cases = []; mcases = []
    corpus_dir = os.path.join(lib.VERIF, 'corpus', 'C03')
    docs = []
    for fn in sorted(os.listdir(corpus_dir)) if os.path.isdir(corpus_dir) else []:
        if fn.endswith('.svg'):
            docs.append(open(os.path.join(corpus_dir, fn), encoding='utf-8').read())
    ncorpus = len(docs)
    for i in range(n):
        docs.append(xmlgen.gen_real_svg(rng, flags={}))
    for i, d in enumerate(docs):
        c1 = rand_cfg(rng); c2 = rand_cfg(rng)
        cases.append(doc_case('a%d' % i, d, c1, {'doc': d, 'cfg': c1}))
        cases.append(doc_case('b%d' % i, d, c2, {'doc': d, 'cfg': c2}))
        mcases.append(Case('a%d' % i, 'xmlpass', [hx(d)]))
    impl = lib.run_impl(cases)
    model = lib.run_model(mcases) if ctx['model_ok'] else {}
    seen = set()
    for i, d in enumerate(docs):
        st['evaluations'] += 2
        if d not in seen:
            seen.add(d)
            if nontrivial(d):
                st['distinct_nontrivial'] += 1
        ra = impl.get('a%d' % i); rb = impl.get('b%d' % i); m = model.get('a%d' % i)
        ca = cases[2 * i]
        ein_root, ein, err = xmlcanon.parse(d)
        if err:
            dist['generator_illformed'] = dist.get('generator_illformed', 0) + 1
            continue
        if not ra or ra[0] != 'OK' or not rb or rb[0] != 'OK':
            yield {'kind': 'oracle', 'what': 'well-formed real SVG document rejected: %s / %s' % (ra, rb), 'case': ca.to_json(), 'observed': [ra, rb], 'expected': 'OK'}
            continue
        if ra[1] != rb[1]:
            yield {'kind': 'oracle', 'what': 'output of a real SVG document depends on the configuration: %s vs %s' % (ca.meta['cfg'], cases[2 * i + 1].meta['cfg']),
                   'case': ca.to_json(), 'observed': unhx(rb[1])[:2000], 'expected': unhx(ra[1])[:2000]}
            continue
        if m is not None:
            if m[0] == 'OK':
                st['traces_validated_against_impl'] += 1
                if m[1] != ra[1]:
                    yield {'kind': 'correspondence', 'what': 'model and implementation write different bytes for a real SVG document',
                           'case': ca.to_json(), 'observed': unhx(ra[1])[:3000], 'expected': unhx(m[1])[:3000]}
            elif m[0] != 'NOTREAL':
                yield {'kind': 'correspondence', 'what': 'the model cannot read a document the implementation accepts (%s)' % m[0],
                       'case': ca.to_json(), 'observed': unhx(ra[1])[:2000], 'expected': m}
            else:
                dist['model_not_real'] = dist.get('model_not_real', 0) + 1
        out = bytes.fromhex(ra[1])
        _, eout, err2 = xmlcanon.parse(out)
        if err2:
            yield {'kind': 'oracle', 'what': 'output of a real SVG document is not well-formed: ' + err2, 'case': ca.to_json(), 'observed': out.decode('utf-8', 'replace')[:3000], 'expected': 'same infoset as the input'}
            continue
        ex = explain(canon_events(ein), canon_events(eout), d)
        if ex is not None:
            yield {'kind': 'oracle', 'what': 'infoset of a real SVG document changed' + (' (explained by %s)' % ex if ex else ''),
                   'case': ca.to_json(), 'observed': out.decode('utf-8', 'replace')[:3000], 'expected': d[:3000], 'explained_by': ex}
        if len(st['samples']) < 3:
            st['samples'].append({'input': d[:400], 'output': out.decode('utf-8', 'replace')[:400], 'cfg': ca.meta['cfg']})
    dist['documents'] = len(docs); dist['corpus'] = ncorpus
    # ---- namespaced <svg> subtree nested in an svgdx document: copied with the same infoset
    nest = []
    for i in range(150 if quick else 3000):
        inner = xmlgen.gen_real_svg(rng, flags={})
        k = inner.find('<svg')
        inner = inner[k:].rstrip('\n')
        if '<!DOCTYPE' in inner:
            continue
        pre = rng.choice(['<rect wh="3"/>', '<rect xy="1 2" wh="3 4" text="hi"/>', '', '<g><circle r="2"/></g>'])
        post = rng.choice(['', '<rect wh="2"/>', '<text>t</text>'])
        wrap = rng.choice(['svg', 'svg', 'g-in-svg'])
        xml = '<svg>%s%s%s</svg>' % (pre, inner, post) if wrap == 'svg' else '<svg>%s<g>%s</g>%s</svg>' % (pre, inner, post)
        nest.append((doc_case('n%d' % i, xml, rand_cfg(rng), {'doc': xml}), inner))
    nres = lib.run_impl([c for c, _ in nest])
    for c, inner in nest:
        st['evaluations'] += 1; st['distinct_nontrivial'] += 1
        r = nres.get(c.id)
        _, ein, err = xmlcanon.parse(inner)
        if err:
            continue
        if not r or r[0] != 'OK':
            yield {'kind': 'oracle', 'what': 'svgdx document with a nested real <svg> rejected: %s' % (r,), 'case': c.to_json(), 'observed': r, 'expected': 'OK'}
            continue
        root, eout, err2 = xmlcanon.parse(bytes.fromhex(r[1]))
        if err2:
            yield {'kind': 'oracle', 'what': 'output with nested real <svg> not well-formed: ' + err2, 'case': c.to_json(), 'observed': unhx(r[1])[:2000], 'expected': 'well-formed'}
            continue
        # locate the nested subtree: the first start event of an svg carrying xmlns after the root
        eo = canon_events(eout); ei = canon_events(ein)
        starts = [j for j, e in enumerate(eo) if j > 0 and e[0] == 'start' and e[1] == 'svg' and any(k == 'xmlns' for k, _ in e[2])]
        ok = False; best = None
        for j in starts:
            sub = eo[j:j + len(ei)]
            ex = explain(ei, sub, inner)
            if ex is None:
                ok = True; break
            if best is None or (ex and not best):
                best = ex
        if not ok:
            yield {'kind': 'oracle', 'what': 'nested namespaced <svg> subtree not copied with the same infoset' + (' (explained by %s)' % best if best else ''),
                   'case': c.to_json(), 'observed': unhx(r[1])[:3000], 'expected': inner[:3000], 'explained_by': best or []}
    dist['nested'] = len(nest)


def classify(v, known):
    ex = v.get('explained_by')
    if v.get('kind') == 'oracle' and ex:
        return ex[0]
    return None


def replay_known(kf, ctx):
    lib = ctx['lib']
    d = open(os.path.join(lib.VERIF, kf['witness']), encoding='utf-8').read()
    r = lib.run_impl([doc_case('k', d, {})]).get('k')
    if not r or r[0] != 'OK':
        return False
    _, ein, _ = xmlcanon.parse(d); _, eout, _ = xmlcanon.parse(bytes.fromhex(r[1]))
    ex = explain(canon_events(ein), canon_events(eout))
    return bool(ex) and kf['id'] in ex
