"""C09 Relative positioning places elements exactly where the relspec says."""
from fractions import Fraction as F
from lib import Case, hx, enc_attrs, enc_els, dec_attrs, doc_case, unhx
import xmlcanon, scene
from scene import fmt, dy

DOC_MODEL = True     # every generated document also runs through the composed Coq model of the whole transform
RULE = ('reference scenes of 1-5 resolved shapes (rect/circle/ellipse/line/box/point) plus a target placed by a relspec: '
        '4 directions with gaps of either sign, 9 locations + 4 edges (abs/negative/percent) with xy-loc anchors, cxy, dx dy, '
        'per-axis references, 11 scalar kinds, relative sizes, dw/dh, ^ previous; '
        'hook resolve_position compared bit-exactly with the extracted Coq model; chains through documents checked by an '
        'independent placement rule (tolerance 0.0011). non-trivial = distinct case containing a reference to another element')
THEOREM_NOTES = 'Props/C09.v: relh relH relv relV at_loc scalar_ref rel_size calc_offset chain'
ASSUMPTIONS = ['placement theorems are on exact rationals; binary32 rounding between them and the implementation is covered by the bit-exact correspondence, not by a proved bound']

XYLOC = {'tl': ('s', 's'), 't': ('m', 's'), 'tr': ('e', 's'), 'r': ('e', 'm'), 'br': ('e', 'e'), 'b': ('m', 'e'),
         'bl': ('s', 'e'), 'l': ('s', 'm'), 'c': ('m', 'm')}
SCALARS = ['x', 'x1', 'y', 'y1', 'cx', 'cy', 'x2', 'y2', 'r', 'w', 'width', 'rx', 'h', 'height', 'ry']


def scalar_of(bb, s):
    x1, y1, x2, y2 = bb
    return {'x': x1, 'x1': x1, 'y': y1, 'y1': y1, 'x2': x2, 'y2': y2, 'cx': (x1 + x2) / 2, 'cy': (y1 + y2) / 2,
            'w': x2 - x1, 'width': x2 - x1, 'h': y2 - y1, 'height': y2 - y1, 'rx': (x2 - x1) / 2, 'ry': (y2 - y1) / 2,
            'r': max(x2 - x1, y2 - y1) / 2}[s]


def place(anchor, p, w, h):
    """box of size (w,h) whose anchor ('s'|'m'|'e' per axis) is at p"""
    def ax(a, v, l):
        return v if a == 's' else (v - l / 2 if a == 'm' else v - l)
    x = ax(anchor[0], p[0], w); y = ax(anchor[1], p[1], h)
    return (x, y, x + w, y + h)


def gen_target(rng, refs, prev_bb):
    """returns (name, attrs, expected bbox or None, tags)"""
    name = rng.choice(['rect', 'rect', 'circle', 'ellipse', 'line'])
    rid, rbb = rng.choice(refs)
    use_prev = prev_bb is not None and rng.chance(0.2)
    ref = '^' if use_prev else '#' + rid
    R = prev_bb if use_prev else rbb
    w = dy(rng, 1, 20, 4); h = w if name == 'circle' else dy(rng, 1, 20, 4)
    form = rng.choice(['dir', 'dir', 'loc', 'loc', 'loc', 'axis', 'scalar', 'size'])
    size_attrs = [('wh', fmt(w) if w == h and rng.chance(0.5) else '%s %s' % (fmt(w), fmt(h)))] if rng.chance(0.6) else [('width', fmt(w)), ('height', fmt(h))]
    if name == 'circle' and rng.chance(0.5):
        size_attrs = [('r', fmt(w / 2))]
    if name == 'ellipse' and rng.chance(0.5):
        size_attrs = [('rxy', '%s %s' % (fmt(w / 2), fmt(h / 2)))]
    exp = None; attrs = []
    # size deltas (dw / dh / dwh, absolute or percent) are applied to the element's own size BEFORE it is placed;
    # round shapes are excluded (known finding K23: deltas ignored there)
    if form in ('dir', 'loc', 'axis', 'scalar') and name in ('rect', 'line') and rng.chance(0.3) and size_attrs[0][0] != 'r':
        kind = rng.choice(['dw', 'dh', 'dwh', 'dwh2'])
        def delta(v):
            if rng.chance(0.4):
                pc = rng.choice([50, 150, 200, 25]); return '%d%%' % pc, v * pc / 100
            d = dy(rng, 0, 6, 2); return fmt(d), v + d
        if kind == 'dw': t, w = delta(w); size_attrs = size_attrs + [('dw', t)]
        elif kind == 'dh': t, h = delta(h); size_attrs = size_attrs + [('dh', t)]
        elif kind == 'dwh':
            d = dy(rng, 0, 6, 2); w, h = w + d, h + d; size_attrs = size_attrs + [('dwh', fmt(d))]
        else:
            t1, w = delta(w); t2, h = delta(h); size_attrs = size_attrs + [('dwh', '%s %s' % (t1, t2))]
    if form == 'dir':
        d = rng.choice('hHvV'); g = dy(rng, -5, 8, 2) if rng.chance(0.7) else None
        attrs = [('xy', '%s|%s%s' % (ref, d, '' if g is None else ' ' + fmt(g)))] + size_attrs
        g = g or 0
        cx = (R[0] + R[2]) / 2; cy = (R[1] + R[3]) / 2
        if d == 'h': exp = (R[2] + g, cy - h / 2, R[2] + g + w, cy + h / 2)
        if d == 'H': exp = (R[0] - g - w, cy - h / 2, R[0] - g, cy + h / 2)
        if d == 'v': exp = (cx - w / 2, R[3] + g, cx + w / 2, R[3] + g + h)
        if d == 'V': exp = (cx - w / 2, R[1] - g - h, cx + w / 2, R[1] - g)
    elif form == 'loc':
        loc = scene.rand_loc(rng)
        dxy = rng.choice([None, (dy(rng, -4, 4, 2),) * 2, (dy(rng, -4, 4, 2), dy(rng, -4, 4, 2))])
        sfx = '' if dxy is None else (' ' + fmt(dxy[0]) if dxy[0] == dxy[1] and rng.chance(0.5) else ' %s %s' % (fmt(dxy[0]), fmt(dxy[1])))
        p = scene.loc_point(R, loc)
        p = (p[0] + (dxy[0] if dxy else 0), p[1] + (dxy[1] if dxy else 0))
        if rng.chance(0.3):
            attrs = [('cxy', '%s@%s%s' % (ref, loc, sfx))] + size_attrs; anchor = ('m', 'm')
        else:
            xl = rng.choice(list(XYLOC) + [None, None])
            attrs = [('xy', '%s@%s%s' % (ref, loc, sfx))] + ([('xy-loc', xl)] if xl else []) + size_attrs
            anchor = XYLOC[xl or 'tl']
        exp = place(anchor, p, w, h)
    elif form == 'axis':
        lx = scene.rand_loc(rng); ly = scene.rand_loc(rng)
        ax = rng.choice(['x', 'cx', 'x2']); ay = rng.choice(['y', 'cy', 'y2'])
        attrs = [(ax, '%s@%s' % (ref, lx)), (ay, '%s@%s' % (ref, ly))] + size_attrs
        p = (scene.loc_point(R, lx)[0], scene.loc_point(R, ly)[1])
        exp = place(({'x': 's', 'cx': 'm', 'x2': 'e'}[ax], {'y': 's', 'cy': 'm', 'y2': 'e'}[ay]), p, w, h)
    elif form == 'scalar':
        sx = rng.choice(SCALARS); sy = rng.choice(SCALARS)
        ddx = dy(rng, -3, 3, 2) if rng.chance(0.4) else None
        attrs = [('x', '%s~%s%s' % (ref, sx, '' if ddx is None else ' ' + fmt(ddx))), ('y', '%s~%s' % (ref, sy))] + size_attrs
        px = scalar_of(R, sx) + (ddx or 0); py = scalar_of(R, sy)
        exp = (px, py, px + w, py + h)
    elif form == 'size':
        x = dy(rng, -10, 30); y = dy(rng, -10, 30)
        kind = rng.choice(['same', 'pct', 'abs', 'two', 'dwh'])
        rw = R[2] - R[0]; rh = R[3] - R[1]
        name = rng.choice(['rect', 'ellipse'])
        if kind == 'same': v = ref; ew, eh = rw, rh
        elif kind == 'pct': pc = rng.choice([50, 25, 200, 150]); v = '%s %d%%' % (ref, pc); ew, eh = rw * pc / 100, rh * pc / 100
        elif kind == 'abs': d = dy(rng, -1, 6, 2); v = '%s %s' % (ref, fmt(d)); ew, eh = rw + d, rh + d
        elif kind == 'two': d1 = dy(rng, 0, 6, 2); pc = rng.choice([50, 300]); v = '%s %s %d%%' % (ref, fmt(d1), pc); ew, eh = rw + d1, rh * pc / 100
        else: d1 = dy(rng, 0, 6, 2); pc = rng.choice([50, 300]); v = ref; ew, eh = rw + d1, rh * pc / 100
        attrs = [('xy', '%s %s' % (fmt(x), fmt(y))), ('wh', v)]
        if kind == 'dwh':
            attrs.append(('dwh', '%s %d%%' % (fmt(d1), pc)))
        exp = (x, y, x + ew, y + eh)
    # a final translation dx / dy / dxy (dx != dy mostly) moves the placed element
    if exp is not None and form != 'size' and rng.chance(0.3):
        tx = dy(rng, -6, 6, 2); ty = dy(rng, -6, 6, 2)
        if rng.chance(0.5): attrs.append(('dxy', '%s %s' % (fmt(tx), fmt(ty))))
        else:
            which = rng.choice(['both', 'x', 'y'])
            if which != 'y': attrs.append(('dx', fmt(tx)))
            else: tx = 0
            if which != 'x': attrs.append(('dy', fmt(ty)))
            else: ty = 0
        exp = (exp[0] + tx, exp[1] + ty, exp[2] + tx, exp[3] + ty)
    rng.shuffle(attrs)
    return name, attrs, exp, form


def run(ctx):
    rng = ctx['rng']; lib = ctx['lib']; st = ctx['stats']; dist = st['distribution']
    quick = ctx['tier'] == 'quick'
    n = 1500 if quick else 40000
    cases = []
    for i in range(n):
        nref = rng.range(1, 4)
        others = []; refs = []; prev_bb = None
        for j in range(nref):
            k, a, bb = scene.rand_shape(rng, 'r%d' % j, kinds=('rect', 'circle', 'ellipse', 'line', 'box', 'point'))
            others.append((k, a)); refs.append(('r%d' % j, bb)); prev_bb = bb
        name, attrs, exp, form = gen_target(rng, refs, prev_bb)
        if rng.chance(0.04):   # malformed stream: damage the spec
            k, v = attrs[0]
            attrs[0] = (k, rng.choice([v + ' x', v.replace('@', '@@'), v.replace('#', '#q'), v.replace('|', '|z'), v + ' 1 2 3', v.replace('~', '~~'), v[:-1] + ':']))
            form = 'malformed'; exp = None
        dist[form] = dist.get(form, 0) + 1
        cases.append(Case('h%d' % i, 'resolve', [hx(name), enc_attrs(attrs), enc_els(others)],
                          {'name': name, 'attrs': attrs, 'others': others, 'exp': [float(x) for x in exp] if exp else None, 'form': form}))
    impl = lib.run_impl(cases)
    model = lib.run_model(cases) if ctx['model_ok'] else {}
    seen = set()
    for c in cases:
        st['evaluations'] += 1
        key = tuple(c.fields)
        if key not in seen:
            seen.add(key); st['distinct_nontrivial'] += 1
        i = impl.get(c.id); m = model.get(c.id)
        if m is not None:
            st['traces_validated_against_impl'] += 1
            if i != m:
                yield {'kind': 'correspondence', 'what': 'model and implementation disagree on resolve %s %s' % (c.meta['name'], c.meta['attrs']),
                       'case': c.to_json(), 'observed': [i[0], dec_attrs(i[1])] if i and i[0] == 'OK' else i,
                       'expected': [m[0], dec_attrs(m[1])] if m and m[0] == 'OK' else m}
        # direct oracle: independent placement rule
        if c.meta['exp'] is not None:
            if not i or i[0] != 'OK':
                yield {'kind': 'oracle', 'what': 'valid relspec rejected: %s %s -> %s' % (c.meta['name'], c.meta['attrs'], i), 'case': c.to_json(), 'observed': i, 'expected': c.meta['exp']}
            else:
                got = scene.bbox_of(c.meta['name'], dec_attrs(i[1]))
                if not scene.close(got, c.meta['exp']):
                    yield {'kind': 'oracle', 'what': '%s %s relative to %s placed at %s, the relspec says %s' % (c.meta['name'], c.meta['attrs'], c.meta['others'], got, c.meta['exp']),
                           'case': c.to_json(), 'observed': got, 'expected': c.meta['exp']}
        if len(st['samples']) < 4 and i and i[0] == 'OK':
            st['samples'].append({'target': [c.meta['name'], c.meta['attrs']], 'refs': c.meta['others'], 'impl': dec_attrs(i[1])})
    # ---- chains through whole documents (document order), independent rule
    docs = []
    for di in range(60 if quick else 1200):
        k, a, bb = scene.rand_shape(rng, 'e0', kinds=('rect', 'circle', 'ellipse'))
        els = [xmlcanon.el(k, a)]; exps = [(k, bb)]
        L = rng.range(2, 12)
        for j in range(1, L):
            R = exps[-1][1]
            d = rng.choice('hHvV'); g = dy(rng, 0, 6, 2); w = dy(rng, 1, 10, 4); h = dy(rng, 1, 10, 4)
            kind = rng.choice(['rect', 'rect', 'rect', 'rect', 'point', 'circle'])    # a point is not drawn but is a previous element like any other
            if kind == 'point': w = h = 0
            if kind == 'circle': h = w
            ref = '^' if rng.chance(0.5) else '#e%d' % (j - 1)
            cx = (R[0] + R[2]) / 2; cy = (R[1] + R[3]) / 2
            e = {'h': (R[2] + g, cy - h / 2, R[2] + g + w, cy + h / 2), 'H': (R[0] - g - w, cy - h / 2, R[0] - g, cy + h / 2),
                 'v': (cx - w / 2, R[3] + g, cx + w / 2, R[3] + g + h), 'V': (cx - w / 2, R[1] - g - h, cx + w / 2, R[1] - g)}[d]
            size = [] if kind == 'point' else [('wh', fmt(w))] if kind == 'circle' else [('wh', '%s %s' % (fmt(w), fmt(h)))]
            els.append(xmlcanon.el(kind, [('id', 'e%d' % j), ('xy', '%s|%s %s' % (ref, d, fmt(g)))] + size))
            exps.append((kind, e))
        xml = '<svg>' + ''.join(els) + '</svg>'
        if rng.chance(0.2):      # ids are XML names: letters of any script (and an ASCII prefix of one of them as another id)
            alt = rng.choice(['gr\u00f6\u00dfe', 'b\u00e9', '\u03b1', '\u00fcber'])
            xml = xml.replace('"e1"', '"%s"' % alt).replace('#e1|', '#%s|' % alt).replace('#e1@', '#%s@' % alt)
        docs.append((doc_case('d%d' % di, xml, {'add_auto_styles': False}), exps, xml))
    dres = lib.run_impl([d[0] for d in docs])
    for c, exps, xml in docs:
        st['evaluations'] += 1; st['distinct_nontrivial'] += 1
        r = dres.get(c.id)
        if not r or r[0] != 'OK':
            yield {'kind': 'oracle', 'what': 'chain document rejected: %s' % (r,), 'case': c.to_json(), 'observed': r, 'expected': 'OK'}
            continue
        root, _, err = xmlcanon.parse(bytes.fromhex(r[1]))
        outs = [n for n in root.iter() if n.name in ('rect', 'circle', 'ellipse')] if root else []
        exps = [x for x in exps if x[0] != 'point']
        if len(outs) != len(exps):
            yield {'kind': 'oracle', 'what': 'chain document: element count', 'case': c.to_json(), 'observed': len(outs), 'expected': len(exps)}
            continue
        for o, (k, e) in zip(outs, exps):
            got = scene.bbox_of(o.name, o.attrs)
            if not scene.close(got, e):
                yield {'kind': 'oracle', 'what': 'chain of length %d: element %s at %s, expected %s; doc %s' % (len(exps), o.attrs, got, [float(x) for x in e], xml[:400]),
                       'case': c.to_json(), 'observed': got, 'expected': [float(x) for x in e]}
                break
    dist['chain_docs'] = len(docs)


def classify(v, known):
    """known finding K23: size deltas on round shapes are ignored"""
    c = v.get('case', {}).get('meta', {})
    if v.get('kind') == 'oracle' and c.get('name') in ('circle', 'ellipse') and any(k in ('dw', 'dh', 'dwh') for k, _ in c.get('attrs', [])):
        return 'K23'
    return None


def replay_known(kf, ctx):
    import os
    lib = ctx['lib']
    xml = open(os.path.join(lib.VERIF, kf['witness'])).read()
    r = lib.run_impl([doc_case('k', xml, {'add_auto_styles': False})]).get('k')
    if not r or r[0] != 'OK':
        return False
    root, _, _ = xmlcanon.parse(bytes.fromhex(r[1]))
    e = [n for n in root.iter() if n.name == 'ellipse']
    return bool(e) and dict(e[0].attrs).get('rx') == '5'      # 7 if the delta were applied
