"""C10 Forward references: geometry is independent of document order."""
import os, itertools
from fractions import Fraction as F
from lib import Case, hx, doc_case, unhx
import xmlcanon, scene
from scene import fmt, dy

DOC_MODEL = True     # every generated document also runs through the composed Coq model of the whole transform
RULE = ('generated reference DAGs over 2-7 id-carrying sibling elements (rect / circle / ellipse / line / group containers), every '
        'relspec form (|h |H |v |V gaps, @loc with offsets, ~scalar, relative sizes wh="#id", surround / inside lists), the referenced '
        'element\'s geometry spelled both ways (wh vs width/height, r vs wh, relative vs absolute position); one DAG in seven built around sizes '
        '(wh / width / height / r) read from longhand targets that carry a size delta and are themselves placed by x / y references; one DAG in twenty a chain of 15-18 longhand rects (over a hundred failed attempts when written backwards); every sibling order for n <= 5 '
        'and 40 random orders above; all orders must give identical geometry keyed by id (or all fail); documents with an unknown id, a '
        'reference cycle or a target without bounding box must fail in every order. non-trivial = distinct DAG with >= 1 reference')
THEOREM_NOTES = ('Props/C10.v: retry_least, retry_order_independent (abstract loop over a monotone step), pass_only_shrinks (concrete pipeline model), '
                 'order_independence_needs_monotone_refuted (the hypothesis cannot be dropped: two-element witness of the K3 shape). '
                 'The concrete step is NOT monotone on the pinned tree (early registration of unresolved elements): known finding K3, excluded by class')
ASSUMPTIONS = ['side-effect-free documents (no variables, no ^ previous-element references): prev_element is order dependent by design and excluded by the property']

GEOM = ('x', 'y', 'width', 'height', 'cx', 'cy', 'r', 'rx', 'ry', 'x1', 'y1', 'x2', 'y2', 'points', 'transform')


def gen_dag(rng):
    """returns (elements [(id, name, attrs, deps)], kind) in dependency order"""
    n = rng.range(2, 7)
    els = []
    unsat = None
    # one DAG in seven is about sizes read from a target that cannot have a box before it is placed: targets spelled in
    # longhand (x / y references, width / height plus a delta), referrers that take their size from such a target
    sizey = rng.chance(0.15)
    if rng.chance(0.05):
        # a long chain in longhand (a target without numeric x / y has no box, so every early attempt fails and is retried):
        # written backwards it needs one pass per element and more than a hundred failed attempts in all
        n = rng.range(15, 18)
        els = [('e0', 'rect', [('id', 'e0'), ('xy', '%s %s' % (fmt(dy(rng, -20, 40)), fmt(dy(rng, -20, 40)))), ('wh', '3 2')], [])]
        for i in range(1, n):
            t = 'e%d' % (i - 1)
            els.append(('e%d' % i, 'rect', [('id', 'e%d' % i), ('x', '#%s%s' % (t, rng.choice(['~x2', '@tr', '@r 1']))), ('y', '#%s%s' % (t, rng.choice(['~y', '@b', '~cy']))),
                                            ('width', fmt(dy(rng, 1, 9, 4))), ('height', fmt(dy(rng, 1, 9, 4)))], [t]))
        return els, None
    for i in range(n):
        if sizey and i >= 1:
            eid = 'e%d' % i
            w = dy(rng, 1, 20, 4); h = dy(rng, 1, 20, 4)
            longs = [e for e in els[1:] if e[1] == 'rect' and any(a == 'width' for a, _ in e[2])]
            if longs and rng.chance(0.6):
                t2 = rng.choice(longs)[0]
                if rng.chance(0.3):
                    els.append((eid, 'circle', [('id', eid), ('cxy', '%s %s' % (fmt(dy(rng, -20, 40)), fmt(dy(rng, -20, 40)))),
                                                ('r', '#%s~%s' % (t2, rng.choice('wh')))], [t2]))
                else:
                    size = rng.choice([[('wh', '#%s%s' % (t2, rng.choice(['', ' 50%', ' 2'])))],
                                       [('width', '#%s%s' % (t2, rng.choice(['', ' 50%', ' 1']))), ('height', '#%s~%s %d' % (t2, rng.choice('wh'), rng.range(0, 3)))]])
                    els.append((eid, 'rect', [('id', eid), ('xy', '%s %s' % (fmt(dy(rng, -20, 40)), fmt(dy(rng, -20, 40))))] + size, [t2]))
            else:
                t = rng.choice(els)[0]; t2 = rng.choice(els)[0]
                pos = [('x', '#%s%s' % (t, rng.choice(['~x2', '~cx', '@tr', '@l 1']))), ('y', '#%s%s' % (t2, rng.choice(['~y2', '~cy', '@b', '@t -1'])))]
                size = [('width', fmt(w)), ('height', fmt(h))] + ([rng.choice([('dwh', '5 -2'), ('dw', '3'), ('dh', '2'), ('dwh', '150%')])] if rng.chance(0.8) else [])
                els.append((eid, 'rect', [('id', eid)] + pos + size, [t, t2]))
            continue
        eid = 'e%d' % i
        name = rng.choice(['rect', 'rect', 'rect', 'circle', 'ellipse'])
        deps = []
        w = dy(rng, 1, 20, 4); h = dy(rng, 1, 20, 4)
        if name == 'circle': h = w
        # size spelling
        if name == 'rect':
            size = rng.choice([[('wh', '%s %s' % (fmt(w), fmt(h)))], [('width', fmt(w)), ('height', fmt(h))]])
        elif name == 'circle':
            size = rng.choice([[('r', fmt(w / 2))], [('wh', fmt(w))]])
        else:
            size = rng.choice([[('rxy', '%s %s' % (fmt(w / 2), fmt(h / 2)))], [('wh', '%s %s' % (fmt(w), fmt(h)))], [('rx', fmt(w / 2)), ('ry', fmt(h / 2))]])
        if i == 0 or rng.chance(0.25):
            pos = rng.choice([[('xy', '%s %s' % (fmt(dy(rng, -20, 40)), fmt(dy(rng, -20, 40))))], [('x', fmt(dy(rng, -20, 40))), ('y', fmt(dy(rng, -20, 40)))],
                              [('cxy', '%s %s' % (fmt(dy(rng, -20, 40)), fmt(dy(rng, -20, 40))))]])
        else:
            t = rng.choice(els)[0]; deps.append(t)
            form = rng.below(12)
            if form >= 10: form = 8         # relative sizes more often
            if form < 4:
                pos = [('xy', '#%s|%s%s' % (t, rng.choice('hHvV'), rng.choice(['', ' 2', ' 1.5', ' -1'])))]
            elif form < 7:
                pos = [(rng.choice(['xy', 'cxy']), '#%s@%s%s' % (t, scene.rand_loc(rng), rng.choice(['', ' 1', ' 1 -2'])))]
            elif form < 8:
                t2 = rng.choice(els)[0]; deps.append(t2)
                pos = [('x', '#%s~%s' % (t, rng.choice(['x2', 'cx', 'x']))), ('y', '#%s~%s' % (t2, rng.choice(['y2', 'cy', 'y'])))]
            elif form < 9 and name == 'rect':
                t2 = rng.choice([e for e in els if e[1] == 'rect'] or els)[0]; deps.append(t2)
                pos = [('xy', '%s %s' % (fmt(dy(rng, -20, 40)), fmt(dy(rng, -20, 40))))]
                size = [('wh', '#%s%s' % (t2, rng.choice(['', ' 50%', ' 2'])))]
                if rng.chance(0.5):      # a size delta on top of a size that is itself a reference
                    size.append(rng.choice([('dwh', '4 2'), ('dw', '3'), ('dh', '-1'), ('dwh', '150%')]))
            else:
                ts = rng.sample([e[0] for e in els], rng.range(1, min(3, len(els))))
                deps += ts
                pos = [('surround', ' '.join('#' + x for x in ts))] + ([('margin', rng.choice(['1', '2 3', '10%']))] if rng.chance(0.5) else [])
                size = [] if name == 'rect' else size[:0]
                name = 'rect'
        if name == 'rect' and size and not any(k.startswith('d') for k, _ in size) and rng.chance(0.3):
            size = size + [rng.choice([('dwh', '2 1'), ('dw', '1.5'), ('dh', '2')])]
        attrs = [('id', eid)] + pos + size
        if rng.chance(0.2):
            attrs.append(('class', 'c%d' % i))
        if i >= 2 and rng.chance(0.08):
            # a <use> of an earlier rect whose own x / y are references: it is a reference target like any other element
            rects = [e for e in els if e[1] == 'rect' and not any(a == 'surround' for a, _ in e[2])]
            if rects:
                t = rng.choice(rects)[0]; d = rng.choice(els)[0]
                name = 'use'; deps = [t, d]
                attrs = [('id', eid), ('href', '#' + t), ('x', '#%s@r %d' % (d, rng.range(0, 4))), ('y', '#%s@b' % d)]
        elif i >= 1 and rng.chance(0.08):
            # a group carrying the id, its content placed against another element: its box is known only when the content is
            d = rng.choice(els)[0]; deps = [d]
            name = 'gbox'
            attrs = [('id', eid), ('_child', '<rect xy="#%s|%s %d" wh="%s %s"/>' % (d, rng.choice('hv'), rng.range(0, 3), fmt(w), fmt(h)))]
        els.append((eid, name, attrs, deps))
    r = rng.below(20)
    if r == 0:
        # unknown id
        k = rng.below(len(els)); e = els[k]
        els[k] = (e[0], 'rect', [('id', e[0]), ('xy', '#nope|h'), ('wh', '3')], ['nope'])
        unsat = 'unknown'
    elif r == 1 and len(els) >= 2:
        # cycle between the last two
        a, b = els[-2], els[-1]
        els[-2] = (a[0], 'rect', [('id', a[0]), ('xy', '#%s|h' % b[0]), ('wh', '3 4')], [b[0]])
        els[-1] = (b[0], 'rect', [('id', b[0]), ('xy', '#%s|v' % a[0]), ('wh', '5 2')], [a[0]])
        unsat = 'cycle'
    elif r == 2:
        # target without a bounding box
        k = len(els) - 1; e = els[k]
        els.insert(0, ('nb', 'g', [('id', 'nb')], []))
        els[k + 1] = (e[0], 'rect', [('id', e[0]), ('xy', '#nb|h'), ('wh', '3')], ['nb'])
        unsat = 'nobbox'
    return els, unsat


def geometry(out):
    root, _, err = xmlcanon.parse(out)
    if err:
        return None
    g = {}
    for n in root.iter():
        d = dict(n.attrs)
        if 'id' in d:
            g[d['id']] = (n.name, tuple(sorted((k, v) for k, v in n.attrs if k in GEOM)))
    return g


def k3_config(els, order):
    """Known finding K3, decided on the evaluation schedule of this particular order: some element is evaluated while one of
    its reference targets is already REGISTERED (it occurs earlier in the document, or a full pass has been made) but not yet
    RESOLVED (it is waiting for a retry, or sits on a cycle). The code then reads the target's unpositioned state instead of
    failing. Orders in which every reference is evaluated against resolved or still unknown targets are not in the class."""
    byid = {e[0]: e for e in els}
    seq = [els[k] for k in order]
    resolved = set(); registered = set()
    pending = list(seq)
    for p in range(len(seq) + 1):
        if not pending:
            return False
        nxt = []
        for e in pending:
            registered.add(e[0])
            deps = [d for d in e[3] if d in byid]
            if any(d in registered and d not in resolved for d in deps if d != e[0]):
                return True
            if all(d in resolved for d in e[3]):
                resolved.add(e[0])
            else:
                nxt.append(e)
        if len(nxt) == len(pending):
            return False
        pending = nxt
    return False


def run(ctx):
    rng = ctx['rng']; lib = ctx['lib']; st = ctx['stats']; dist = st['distribution']
    quick = ctx['tier'] == 'quick'
    ndag = 150 if quick else 3000
    cases = []; groups = []
    for gi in range(ndag):
        els, unsat = gen_dag(rng)
        n = len(els)
        if n <= 4 or (n == 5 and not quick):
            orders = list(itertools.permutations(range(n)))
        else:
            orders = [tuple(range(n)), tuple(reversed(range(n)))]
            for _ in range(22 if quick else 40):
                o = list(range(n)); rng.shuffle(o); orders.append(tuple(o))
        ids = []
        # some elements sit inside a container without id (their ids stay referenceable; the container itself resolves
        # only when its content does)
        wrapped = set(k for k in range(n) if els[k][1] != 'g' and not any(a == 'surround' for a, _ in els[k][2]) and rng.chance(0.15))
        def src(k, els=els, wrapped=wrapped):
            if els[k][1] == 'g':
                return '<g id="nb"></g>'
            if els[k][1] == 'gbox':
                return '<g id="%s">%s</g>' % (els[k][0], dict(els[k][2])['_child'])
            t = xmlcanon.el(els[k][1], els[k][2])
            return '<g>%s</g>' % t if k in wrapped else t
        for oi, o in enumerate(orders):
            xml = '<svg>' + ''.join(src(k) for k in o) + '</svg>'
            cid = 'g%d_%d' % (gi, oi)
            cases.append(doc_case(cid, xml, {'add_auto_styles': False}, {'doc': xml, 'order': list(o)}))
            ids.append(cid)
        groups.append((els, unsat, ids))
        dist[unsat or 'dag%d' % n] = dist.get(unsat or 'dag%d' % n, 0) + 1
    impl = lib.run_impl(cases, timeout_ms=20000)
    byid = {c.id: c for c in cases}
    # the composed Coq model of the unchanged transform on the same documents: K3 is a property of the recorded semantics, so an
    # order dependence is explained by K3 only where the model shows exactly the same output as the implementation
    import doccorr
    model = {}
    if ctx.get('model_ok'):
        mc = [doccorr.cases(0, c.meta['doc'], {})[1] for c in cases]
        for c, m in zip(cases, mc):
            m.id = c.id
        model = lib.run_model(mc, shards=12)
    def as_model(i):
        if not model:
            return True
        a, b = impl.get(i), model.get(i)
        return bool(a and b and a[0] == b[0] and (a[0] != 'OK' or a[1] == b[1]))
    for els, unsat, ids in groups:
        st['evaluations'] += len(ids)
        if any(e[3] for e in els):
            st['distinct_nontrivial'] += 1
        res = [impl.get(i) for i in ids]
        first = byid[ids[0]]
        if unsat:
            bad = [i for i, r in zip(ids, res) if not r or r[0] != 'ERR']
            if bad:
                c = byid[bad[0]]
                yield {'kind': 'oracle', 'what': 'a reference that can never be satisfied (%s) does not fail the transform: %s' % (unsat, c.meta['doc'][:600]),
                       'case': c.to_json(), 'observed': unhx(impl[bad[0]][1])[:1500] if impl.get(bad[0]) and impl[bad[0]][0] == 'OK' else impl.get(bad[0]), 'expected': 'error', 'k3': k3_config(els, c.meta['order']), 'unsat': unsat}
            continue
        geos = []
        for i, r in zip(ids, res):
            if not r or r[0] != 'OK':
                geos.append(('ERR', r[1] if r and len(r) > 1 else str(r)))
            else:
                geos.append(('OK', geometry(bytes.fromhex(r[1]))))
        ref = geos[0]
        nk3 = sum(1 for i in ids if k3_config(els, byid[i].meta['order']))
        dist['orders_in_K3_class'] = dist.get('orders_in_K3_class', 0) + nk3
        dist['orders_outside_K3_class'] = dist.get('orders_outside_K3_class', 0) + len(ids) - nk3
        for i, g in zip(ids, geos):
            if g != ref:
                c = byid[i]
                diff = ''
                if g[0] == 'OK' and ref[0] == 'OK' and g[1] and ref[1]:
                    diff = '; '.join('%s: %s vs %s' % (k, ref[1].get(k), g[1].get(k)) for k in sorted(set(ref[1]) | set(g[1])) if ref[1].get(k) != g[1].get(k))[:600]
                yield {'kind': 'oracle', 'what': 'geometry depends on document order: order %s of %s differs from order %s (%s)' % (c.meta['order'], c.meta['doc'][:500], first.meta['order'], diff or (g[0], ref[0])),
                       'case': c.to_json(), 'observed': g[1] if g[0] == 'ERR' else diff, 'expected': 'same geometry as ' + first.meta['doc'][:500],
                       'k3': k3_config(els, c.meta['order']) and g[0] == 'OK' and as_model(i) and as_model(ids[0]),    # K3 explains a silent wrong result, never a failure
                       # K60: a <use> whose own x / y are references, used as a reference target: some orders fail, others place it
                       # differently (recorded behaviour: explained only where the model of that behaviour answers as the implementation does)
                       'k60': any(e[1] == 'use' for e in els) and bool(model) and as_model(i) and as_model(ids[0])}
                if not ((k3_config(els, c.meta['order']) and g[0] == 'OK' and as_model(i) and as_model(ids[0])) or (any(e[1] == 'use' for e in els) and bool(model) and as_model(i) and as_model(ids[0]))):
                    break
        if len(st['samples']) < 3:
            st['samples'].append({'doc': first.meta['doc'][:400], 'orders': len(ids), 'result': ref[0]})


def classify(v, known):
    if v.get('kind') == 'oracle' and v.get('k3'):
        return 'K3'
    if v.get('kind') == 'oracle' and v.get('k60') and any(k.get('id') == 'K60' for k in known):
        return 'K60'
    return None


def replay_known(kf, ctx):
    lib = ctx['lib']
    d = open(os.path.join(lib.VERIF, kf['witness']), encoding='utf-8').read()
    good = open(os.path.join(lib.VERIF, kf['witness'] + '.sorted'), encoding='utf-8').read()
    r = lib.run_impl([doc_case('k', d, {'add_auto_styles': False}), doc_case('g', good, {'add_auto_styles': False})])
    a, b = r.get('k'), r.get('g')
    if not a or not b or b[0] != 'OK':
        return False
    return a[0] != 'OK' or geometry(bytes.fromhex(a[1])) != geometry(bytes.fromhex(b[1]))
