"""C04 Standard SVG content inside svgdx documents is accepted and preserved."""
import os, re, math
from lib import Case, hx, enc_attrs, doc_case, unhx
import xmlcanon

DOC_MODEL = True     # every generated document also runs through the composed Coq model of the whole transform
RULE = ('(a) documents in svgdx mode (root <svg> without namespace, or fragments) built from the SVG 1.1 vocabulary (shapes, text / '
        'tspan, g, defs, gradients, markers, filters, clipPath, use with href / xlink:href, image, a, foreignObject, style, title / desc) '
        'with values drawn from the SVG number / length / percentage / path / points / transform grammars (signs, fractions, exponents, '
        'optional separators, implicit command repetition, arc flags); the transform must succeed and the output tree must have the same '
        'elements, attribute values (numbers compared after parsing, tolerance 0.0006), text and positions; only root attributes and '
        'injected style / defs may be added and character-only content of shapes / text becomes generated text; '
        '(b) hook element_bbox on path / polyline / polygon / transform strings compared bit-exactly with the extracted Coq scanners. '
        'non-trivial = distinct document or string using a grammar feature beyond plain integers separated by one space')
THEOREM_NOTES = ('Props/C04.v: list_syntax_accepted, points_tokenised_like_lists, points_accepted, points_bad_token_rejected, other_attributes_untouched, '
                 'removed_attributes_are_geometry. The path-data and transform-list scanners are modelled (Model/Scan.v) and tied by the bit-exact scanner correspondence; '
                 'path acceptance of the full SVG number grammar is refuted by known finding K8')
ASSUMPTIONS = ['numbers are compared after parsing (the output formats with at most 3 decimals)', 'bounding boxes of curves use end points only (documented), so path data is checked for acceptance and verbatim preservation, not for geometry']


def num(rng, simple=False):
    """an SVG number in one of the grammar's spellings, and its value"""
    r = rng.below(12)
    if simple or r < 4:
        v = rng.range(-40, 90); return str(v), float(v)
    if r < 6:
        v = rng.range(-400, 900) / 10.0; return ('%g' % v), v
    if r < 7:
        v = rng.range(1, 99) / 100.0; return ('.%02d' % int(round(v * 100))).rstrip('0') or '.5', float(('.%02d' % int(round(v * 100))).rstrip('0') or '.5')
    if r < 8:
        v = rng.range(1, 90); return '+%d' % v, float(v)
    if r < 9:
        m = rng.range(1, 9); e = rng.range(0, 2); return '%de%d' % (m, e), float(m * 10 ** e)
    if r < 10:
        m = rng.range(1, 99); return '%d.' % m, float(m)
    if r < 11:
        m = rng.range(10, 990); return '%dE-1' % m, m / 10.0
    v = rng.range(-40, 90) / 4.0; return ('%g' % v), v


def sep(rng):
    return rng.choice([' ', ' ', ',', ', ', ' ,', '  ', '\n', '\t'])


def path_data(rng):
    """SVG path data exercising the grammar; returns (text, features)"""
    feats = set()
    out = []
    x, y = num(rng)[0], num(rng)[0]
    out.append(rng.choice(['M', 'm']) + rng.choice(['', ' ']) + x + sep(rng) + y)
    for _ in range(rng.range(1, 6)):
        c = rng.choice('LlHhVvCcSsQqTtAaZz')
        nargs = {'L': 2, 'H': 1, 'V': 1, 'C': 6, 'S': 4, 'Q': 4, 'T': 2, 'A': 7, 'Z': 0}[c.upper()]
        reps = 1 if nargs == 0 else rng.choice([1, 1, 2])
        if reps > 1: feats.add('implicit-repeat')
        args = []
        for r in range(reps):
            for k in range(nargs):
                if c.upper() == 'A' and k in (3, 4):
                    args.append(rng.choice(['0', '1']))
                elif c.upper() == 'A' and k in (0, 1):
                    args.append(str(rng.range(1, 30)))
                else:
                    t, v = num(rng)
                    args.append(t)
        txt = c + rng.choice(['', ' '])
        for k, a in enumerate(args):
            if k > 0:
                s = sep(rng)
                if a.startswith('-') and rng.chance(0.3):
                    s = ''; feats.add('sign-as-separator')
                txt += s
            txt += a
        if any(ch in txt for ch in 'eE'): feats.add('exponent')
        if '+' in txt: feats.add('plus-sign')
        out.append(txt)
    return rng.choice(['', ' ']).join(out), feats


def points(rng):
    n = rng.range(2, 6)
    vals = [num(rng) for _ in range(2 * n)]
    style = rng.below(3)
    if style == 0:
        return ' '.join('%s,%s' % (vals[2 * i][0], vals[2 * i + 1][0]) for i in range(n))
    if style == 1:
        return ' '.join(v[0] for v in vals)
    return ''.join(v[0] + sep(rng) for v in vals).strip(' ,\n\t')


def transform(rng):
    out = []
    for _ in range(rng.range(1, 3)):
        k = rng.choice(['translate', 'translate', 'scale', 'rotate', 'skewX', 'skewY', 'matrix'])
        na = rng.choice({'translate': [1, 2], 'scale': [1, 2], 'rotate': [1, 3], 'skewX': [1], 'skewY': [1], 'matrix': [6]}[k])
        args = [num(rng)[0] for _ in range(na)]
        s = rng.choice([' ', ',', ', '])
        out.append('%s%s(%s%s%s)' % (k, rng.choice(['', ' ']) if False else '', rng.choice(['', ' ']), s.join(args), rng.choice(['', ' '])))
    return rng.choice([' ', ', ', '']).join(out) if len(out) > 1 else out[0]


def length(rng):
    t, v = num(rng, simple=rng.chance(0.5))
    u = rng.choice(['', '', '', 'px', 'mm', 'cm', 'em', 'pt', '%', 'in'])
    return t + u


PRES = [('fill', ['red', 'none', '#abc', 'url(#lg)', 'rgb(1,2,3)']), ('stroke', ['blue', 'currentColor']), ('stroke-width', ['2', '0.5', '1.5px']),
        ('opacity', ['.5', '1']), ('style', ['fill:red;stroke:blue']), ('stroke-dasharray', ['1 2', '3,1']), ('font-family', ['serif']),
        ('visibility', ['hidden']), ('display', ['inline']), ('pointer-events', ['none']), ('data-note', ['a b'])]


COUNTER = [0]
USES = []


def gen_el(rng, depth, ids):
    before = list(ids)
    e = gen_el0(rng, depth, ids)
    # an id that was reserved but not written on the element is withdrawn
    mine = [i for i in ids if i not in before]
    def has_id(x, i):
        return ('id', i) in x[1] or (x[2] is not None and any(k[0] == 'el' and has_id(k[1], i) for k in x[2]))
    for i in mine:
        if not has_id(e, i):
            ids.remove(i)
    return e


def gen_el0(rng, depth, ids):
    k = rng.below(24)
    a = []
    if rng.chance(0.3):
        COUNTER[0] += 1
        i = 'n%d' % COUNTER[0]; ids.append(i); a.append(('id', i))
    for p, vals in rng.sample(PRES, rng.range(0, 2)):
        a.append((p, rng.choice(vals)))
    if k < 3:
        a += [('x', length(rng)), ('y', length(rng)), ('width', length(rng).lstrip('-+') or '1'), ('height', length(rng).lstrip('-+') or '1')]
        if rng.chance(0.3): a += [('rx', length(rng).lstrip('-+') or '1')]
        return ('rect', a, None)
    if k < 5:
        if rng.chance(0.1):
            # a whole number beyond the i32 range on the one coordinate that is not combined with small ones in f32
            a += [('cx', str(rng.range(-40, 40))), ('cy', rng.choice(['3000000000', '4000000000', '2147483648', '-3000000000'])), ('r', '2')]
            return ('circle', a, None)
        a += [('cx', length(rng)), ('cy', length(rng)), ('r', length(rng).lstrip('-+') or '1')]
        return ('circle', a, None)
    if k < 6:
        a += [('cx', length(rng)), ('cy', length(rng)), ('rx', length(rng).lstrip('-+') or '1'), ('ry', length(rng).lstrip('-+') or '2')]
        if rng.chance(0.3):
            # one centre coordinate left at its SVG default (0): it must not be written by the transform
            drop = rng.choice(['cx', 'cy'])
            if rng.chance(0.6):    # unit-free numbers: the element has a computable box
                geo = {'cx': str(rng.range(-40, 40)), 'cy': str(rng.range(-40, 40)), 'rx': '%d.5' % rng.range(0, 9), 'ry': str(rng.range(1, 30))}
                a = [(k, geo.get(k, v)) for k, v in a]
            a = [kv for kv in a if kv[0] != drop]
        return ('ellipse', a, None)
    if k < 8:
        a += [('x1', length(rng)), ('y1', length(rng)), ('x2', length(rng)), ('y2', length(rng))]
        return ('line', a, None)
    if k < 11:
        d, f = path_data(rng)
        a += [('d', d)]
        if rng.chance(0.3): a.append(('transform', transform(rng)))
        return ('path', a, None)
    if k < 13:
        a += [('points', points(rng))]
        return (rng.choice(['polyline', 'polygon']), a, None)
    if k < 15:
        a += [('x', num(rng)[0]), ('y', num(rng)[0])]
        if rng.chance(0.5):
            return ('text', a, [('text', rng.choice(['hello', 'a b', 'T1']))])
        kids = [('el', ('tspan', [('dx', num(rng)[0]), ('dy', '1.2em')], [('text', 'sp')])), ('el', ('tspan', [('x', '3')], [('text', 'q')]))]
        if rng.chance(0.15):
            kids.append(('el', ('tref', [('dx', '3'), ('xlink:href', '#q')], None)))
        return ('text', a, kids)
    if k >= 17 and k not in (18, 19):
        # elements written without the common attributes: give the reserved id back before children are generated
        for kk, vv in a:
            if kk == 'id' and vv in ids:
                ids.remove(vv)
    if k < 17 and depth > 0:
        if rng.chance(0.5): a.append(('transform', transform(rng)))
        return ('g', a, [('el', gen_el(rng, depth - 1, ids)) for _ in range(rng.range(1, 3))])
    if k < 18:
        return ('defs', [], [('el', ('linearGradient', [('id', 'lg%d' % COUNTER[0]), ('x1', '0%'), ('x2', '100%'), ('gradientTransform', 'rotate(45)')],
                                       [('el', ('stop', [('offset', rng.choice(['0', '10%', '.5'])), ('stop-color', 'red')], None)), ('el', ('stop', [('offset', '1'), ('stop-color', '#00f')], None))])),
                             ('el', ('marker', [('id', 'mk%d' % COUNTER[0]), ('markerWidth', '4'), ('markerHeight', '4'), ('refX', '2'), ('refY', '2'), ('orient', 'auto')],
                                     [('el', ('path', [('d', 'M0 0L4 2L0 4z')], None))])),
                             ('el', ('filter', [('id', 'fl%d' % COUNTER[0]), ('x', '-10%'), ('width', '120%')],
                                     [('el', ('feGaussianBlur', [('stdDeviation', '2')], None)), ('el', ('feOffset', [('dx', '2'), ('dy', '3')], None))]))])
    own = dict(a).get('id')
    if k < 19 and [x for x in ids if x != own]:
        cands = [x for x in ids if x != own]
        chain = [x for x in USES if x != own and x in cands]
        tgt = rng.choice(chain) if chain and rng.chance(0.5) else rng.choice(cands)      # a use of a use is a chain, not a cycle
        if own:
            USES.append(own)
        return ('use', a + [(rng.choice(['href', 'xlink:href']), '#' + tgt)] + ([('x', num(rng)[0]), ('y', num(rng)[0])] if rng.chance(0.6) else []), None)
    if k < 20:
        return ('image', a + [('x', num(rng)[0]), ('y', num(rng)[0]), ('width', length(rng).lstrip('-+') or '3'), ('height', '20'), (rng.choice(['href', 'xlink:href']), 'pic.png')], None)
    if k < 21 and depth > 0:
        return ('a', [(rng.choice(['href', 'xlink:href']), 'http://example.org/?a=1&b=2')], [('el', gen_el(rng, depth - 1, ids))])
    if k < 22:
        return (rng.choice(['title', 'desc']), [], [('text', rng.choice(['A title', 'x < y & z']))])
    if k < 23:
        return ('style', [('type', 'text/css')], [('text', '.k { fill: red; } a > b { stroke: "x" }')])
    return ('clipPath', [('id', 'cp%d' % COUNTER[0])], [('el', ('rect', [('x', '0'), ('y', '0'), ('width', '5'), ('height', '5')], None))])


def src(e):
    name, attrs, kids = e
    a = ''.join(' %s="%s"' % (k, xmlcanon.esc_attr(v)) for k, v in attrs)
    if kids is None:
        return '<%s%s/>' % (name, a)
    return '<%s%s>%s</%s>' % (name, a, ''.join(xmlcanon.esc_text(k[1]) if k[0] == 'text' else src(k[1]) for k in kids), name)


NUMRE = re.compile(r'^[+-]?(\d+\.?\d*|\.\d+)([eE][+-]?\d+)?$')


def same_value(k, a, b):
    a = re.sub(r'[\t\n\r]', ' ', a)      # attribute value normalisation of any XML parser
    if a == b:
        return True
    if NUMRE.match(a.strip()) and NUMRE.match(b.strip()):
        return abs(float(a) - float(b)) <= 0.0006 + 1e-6 * abs(float(a))
    return False


def compare(e, node, path='/'):
    """e: generated element; node: xmlcanon Node of the output; returns None or message"""
    name, attrs, kids = e
    if node.name != name:
        return '%s: element <%s> came out as <%s>' % (path, name, node.name)
    got = dict(node.attrs)
    for k, v in attrs:
        if k not in got:
            return '%s%s: attribute %s="%s" is missing in the output (%s)' % (path, name, k, v, node.attrs)
        if not same_value(k, v, got[k]):
            return '%s%s: attribute %s="%s" came out as "%s"' % (path, name, k, v, got[k])
    extra = [k for k in got if k not in dict(attrs) and not (k == 'class' and got[k].startswith('d-text'))]
    if extra:
        return '%s%s: attributes %s were added' % (path, name, extra)
    if kids is None:
        return None
    if name in ('text',) and all(k[0] == 'text' for k in kids):
        # character-only content of <text> is re-emitted as generated text
        if node.text.strip() != ''.join(k[1] for k in kids).strip():
            return '%s%s: text %r came out as %r' % (path, name, ''.join(k[1] for k in kids), node.text)
        return None
    ek = [k[1] for k in kids if k[0] == 'el']
    if len(ek) != len(node.children):
        return '%s%s: %d child elements came out as %d' % (path, name, len(ek), len(node.children))
    tx = ''.join(k[1] for k in kids if k[0] == 'text')
    own = ''.join(it[1] for it in node.items if it[0] in ('text', 'cdata'))
    if tx.strip() != own.strip():
        return '%s%s: text %r came out as %r' % (path, name, tx, own)
    for c, n in zip(ek, node.children):
        m = compare(c, n, path + name + '/')
        if m:
            return m
    return None


def run(ctx):
    rng = ctx['rng']; lib = ctx['lib']; st = ctx['stats']; dist = st['distribution']
    quick = ctx['tier'] == 'quick'
    n = 600 if quick else 10000
    cases = []; docs = []
    for i in range(n):
        ids = []; COUNTER[0] = 0; del USES[:]
        els = [gen_el(rng, 2, ids) for _ in range(rng.range(1, 6))]
        if rng.chance(0.12):
            # a chain of <use> elements (a use of a use of a shape): standard SVG, not a cycle
            h = lambda: rng.choice(['href', 'xlink:href'])
            if rng.chance(0.5):
                nid = rng.choice(['gr\u00f6\u00dfe', '\u0444\u043e\u0440\u043c\u0430', '\u56f3\u5f621', 'b\u00e9'])      # ids are XML names: letters of any script
                els += [('rect', [('id', nid), ('x', '3'), ('y', '1'), ('width', '2'), ('height', '2')], None), ('use', [(h(), '#' + nid), ('x', '4')], None)]
            els += [('rect', [('id', 'cr'), ('x', '1'), ('y', '2'), ('width', '6'), ('height', '4')], None),
                    ('use', [('id', 'cu1'), (h(), '#cr')] + ([('x', '10'), ('y', '3')] if rng.chance(0.5) else []), None),
                    ('use', [('id', 'cu2'), (h(), '#cu1')] + ([('x', '5')] if rng.chance(0.3) else []), None)]
            if rng.chance(0.4):
                els.append(('use', [(h(), '#cu2'), ('y', '7')], None))
        frag = rng.chance(0.15)
        body = ''.join(src(e) for e in els)
        xml = body if frag and len(els) == 1 else '<svg>%s</svg>' % body
        cfg = {'add_auto_styles': rng.chance(0.5)}
        cases.append(doc_case('d%d' % i, xml, cfg, {'doc': xml}))
        docs.append((els, xml, frag and len(els) == 1))
    impl = lib.run_impl(cases, timeout_ms=20000)
    seen = set()
    for c, (els, xml, frag) in zip(cases, docs):
        st['evaluations'] += 1
        if xml not in seen:
            seen.add(xml)
            if re.search(r'[eE][-+]?\d|\d-\d|[,\n\t]|\.\d|%|mm|cm', xml):
                st['distinct_nontrivial'] += 1
        for e in els:
            dist[e[0]] = dist.get(e[0], 0) + 1
        r = impl.get(c.id)
        if not r or r[0] != 'OK':
            yield {'kind': 'oracle', 'what': 'plain SVG content makes the transform fail (%s): %s' % (r[1] if r and len(r) > 1 else r, xml[:1200]), 'case': c.to_json(), 'observed': r, 'expected': 'OK', 'doc': xml}
            continue
        root, _, err = xmlcanon.parse(bytes.fromhex(r[1]))
        if err:
            yield {'kind': 'oracle', 'what': 'output not well-formed: ' + err, 'case': c.to_json(), 'observed': unhx(r[1])[:2000], 'expected': 'well-formed', 'doc': xml}
            continue
        top = root.children
        if not frag:
            if len(top) != 1 or top[0].name != 'svg':
                yield {'kind': 'oracle', 'what': 'root changed', 'case': c.to_json(), 'observed': unhx(r[1])[:1500], 'expected': xml[:1500], 'doc': xml}
                continue
            outs = [n_ for n_ in top[0].children]
            # injected blocks come first: <defs> / <style> added by auto-styles
            while outs and len(outs) > len(els) and outs[0].name in ('defs', 'style'):
                outs = outs[1:]
        else:
            outs = top
        if len(outs) != len(els):
            yield {'kind': 'oracle', 'what': '%d top-level elements came out as %d: %s' % (len(els), len(outs), xml[:800]), 'case': c.to_json(), 'observed': unhx(r[1])[:2000], 'expected': xml[:2000], 'doc': xml}
            continue
        for e, n_ in zip(els, outs):
            m = compare(e, n_)
            if m:
                yield {'kind': 'oracle', 'what': 'standard SVG content not preserved: %s; input %s' % (m, src(e)[:700]), 'case': c.to_json(), 'observed': unhx(r[1])[:2500], 'expected': xml[:2500], 'doc': xml, 'msg': m}
                break
        if len(st['samples']) < 3:
            st['samples'].append({'input': xml[:500], 'output': unhx(r[1])[:500]})
    # ---- scanners: hook element_bbox vs the extracted Coq model
    hcases = []
    m = 3000 if quick else 60000
    for i in range(m):
        k = rng.below(3)
        if k == 0:
            d, f = path_data(rng); hcases.append(Case('s%d' % i, 'elbbox', [hx('path'), enc_attrs([('d', d)])], {'s': d}))
        elif k == 1:
            hcases.append(Case('s%d' % i, 'elbbox', [hx(rng.choice(['polyline', 'polygon'])), enc_attrs([('points', points(rng))])], {}))
        else:
            hcases.append(Case('s%d' % i, 'elbbox', [hx('rect'), enc_attrs([('x', '1'), ('y', '2'), ('width', '3'), ('height', '4'), ('transform', transform(rng))])], {}))
        if rng.chance(0.1):   # mutation stream
            c0 = hcases[-1]
            name = unhx(c0.fields[0]); at = [(kk, vv) for kk, vv in [tuple(unhx(x) for x in kv.split(':')) for kv in c0.fields[1].split(',')]]
            kk, vv = at[-1]
            pos = rng.below(len(vv) + 1)
            vv = vv[:pos] + rng.choice(['', 'x', '-', '..', ' ', ',', 'e', '(', 'M', 'z', '1']) + vv[pos + rng.below(2):]
            at[-1] = (kk, vv)
            hcases[-1] = Case(c0.id, 'elbbox', [hx(name), enc_attrs(at)], {'mutated': True})
    # number formatting and parsing (types.rs fstr / strp): bit patterns incl. whole numbers around and beyond 2^31, ties of the
    # 3-decimal rounding, and strings of the SVG number grammar
    import struct
    for i in range(1500 if quick else 30000):
        r = rng.below(8)
        if r < 3: bits = rng.below(2 ** 32)
        elif r < 4: bits = struct.unpack('<I', struct.pack('<f', float(rng.choice([2 ** 31, 2 ** 31 - 128, 2 ** 31 + 256, 3e9, 4e9, -3e9, 2 ** 24, 16777217, 1e10, 123456792.0]) + rng.range(-3, 3) * 256)))[0]
        elif r < 6: bits = struct.unpack('<I', struct.pack('<f', rng.range(-100000, 100000) / 16.0 + rng.choice([0, 0.0005, 0.0625, 0.00048828125])))[0]
        else: bits = struct.unpack('<I', struct.pack('<f', rng.uniform(-1000, 1000)))[0]
        hcases.append(Case('f%d' % i, 'fstr', [str(bits)], {}))
        t, _ = num(rng)
        hcases.append(Case('n%d' % i, 'strp', [hx(rng.choice(['', ' ']) + t + rng.choice(['', ' ', 'x', 'e']))], {}))
    hi = lib.run_impl(hcases); hm = lib.run_model(hcases) if ctx['model_ok'] else {}
    for c in hcases:
        st['evaluations'] += 1
        a = hi.get(c.id); b = hm.get(c.id)
        if b is None:
            continue
        st['traces_validated_against_impl'] += 1
        if c.kind == 'elbbox' and a and b and a[0] == 'OK' and b[0] == 'OK':
            # the sign of a zero coming out of f32::min / f32::max is unspecified (minss / maxss operand order): -0 and +0 are one box
            z = lambda r: [r[0]] + [','.join('0' if w == '2147483648' else w for w in x.split(',')) for x in r[1:]]
            a, b = z(a), z(b)
        if a != b:
            yield {'kind': 'correspondence', 'what': 'scanner model and implementation disagree on %s %s' % (unhx(c.fields[0]), c.fields[1][:200]), 'case': c.to_json(), 'observed': a, 'expected': b}
    dist['scanner_strings'] = len(hcases)


def classify(v, known):
    if v.get('kind') != 'oracle':
        return None
    d = v.get('doc', '')
    w = v.get('what', '')
    fails = 'makes the transform fail' in w
    # K8: the path number scanner takes digits, '.', '-' greedily and knows no exponent / '+' sign / second '.'
    if fails and 'ParseError' in w and re.search(r'<path[^>]* d="[^"]*([\d.]-[\d.]|[\d.][eE][-+]?\d|\+[\d.]|\d\.\d*\.)', d):
        return 'K8'
    # K26: <use> of an element whose geometry carries units or percentages: the size lookup parses them as plain numbers
    if fails and 'ParseError' in w:
        for m in re.finditer(r'<use[^>]*href="#(\w+)"', d):
            t = re.search(r'<(\w+)[^>]*id="%s"[^>]*>' % m.group(1), d)
            if t and re.search(r' (x|y|cx|cy|r|rx|ry|width|height|x1|y1|x2|y2)="[^"]*(px|mm|cm|em|pt|in|%)"', t.group(0)):
                return 'K26'
    # K13: dx / dy of an empty element other than text / tspan / feOffset are dropped (transmute treats them as svgdx offsets)
    if 'tref: attribute d' in v.get('msg', '') and 'is missing' in v.get('msg', ''):
        return 'K13'
    # K27: x / y of a <use> that refers to a circle or an ellipse are rewritten (shifted by a quarter of the target's size)
    msg = v.get('msg', '')
    if msg.startswith('/') and '/use: attribute' in msg.replace('/svg', '') or re.search(r'use: attribute [xy]=', msg):
        for m in re.finditer(r'<use[^>]*href="#(\w+)"', d):
            if re.search(r'<(circle|ellipse)[^>]*id="%s"' % m.group(1), d):
                return 'K27'
    return None


def replay_known(kf, ctx):
    lib = ctx['lib']
    d = open(os.path.join(lib.VERIF, kf['witness']), encoding='utf-8').read()
    r = lib.run_impl([doc_case('k', d, {'add_auto_styles': False})]).get('k')
    if kf['id'] in ('K8', 'K26'):
        return bool(r) and r[0] == 'ERR'
    if kf['id'] == 'K27':
        return bool(r) and r[0] == 'OK' and 'x="1"' not in unhx(r[1])
    if kf['id'] == 'K13':
        return bool(r) and r[0] == 'OK' and 'dx=' not in unhx(r[1])
    return True
