"""C18 Reuse instantiates templates as if written out by hand."""
import os
from lib import Case, hx, doc_case, unhx
import xmlcanon

DOC_MODEL = True     # every generated document also runs through the composed Coq model of the whole transform
RULE = ('translation validation: documents with templates (single shapes rect / circle / ellipse and groups, parameterised by variables '
        'in geometry, text and class; placed in <specs>, in <defs> or inline; before or after their uses) and sequences of 1-5 '
        '<reuse> instantiations with different bindings, ids, classes, styles and x/y offsets, next to ordinary elements and probes; '
        'each document is transformed together with its mechanically inlined twin (the template written out with the values '
        'substituted, the reuse id and style, the template classes + reuse classes + template id as class, placed at x/y) and the two '
        'outputs must have the same element stream. non-trivial = distinct document with >= 2 instantiations of one template')
THEOREM_NOTES = 'Props/C18.v: instances_independent, template_is_first_registration, specs_not_rendered'
ASSUMPTIONS = ['templates are drawn at the origin (the property\'s stated case)', 'compound attributes of templates do not contain white space inside {{..}} (see finding K25)']


def tpl_shape(rng, tid):
    kind = rng.choice(['rect', 'rect', 'circle', 'ellipse'])
    cls = rng.choice([None, 'tc', 'tc2 big'])
    text = rng.choice([None, '$label', 'L:$label!', '{{$w + 1}}'])
    if kind == 'rect':
        size = rng.choice([[('width', '$w'), ('height', '$h')], [('wh', '$w $h')], [('width', '{{$w * 2}}'), ('height', '$h')],
                           [('width', '{{$w + #late~w}}'), ('height', '$h')]])
    elif kind == 'circle':
        size = [('r', '$w')]
    else:
        size = rng.choice([[('rx', '$w'), ('ry', '$h')], [('rxy', '$w $h')]])
    return {'id': tid, 'kind': kind, 'size': size, 'cls': cls, 'text': text, 'group': False}


def tpl_group(rng, tid):
    kids = []
    for j in range(rng.range(1, 3)):
        k = rng.choice(['rect', 'circle'])
        if k == 'rect':
            kids.append(('rect', [('xy', '%d %d' % (rng.range(0, 5), rng.range(0, 5))), ('wh', '$w %d' % rng.range(1, 6))] + ([('text', '$label')] if rng.chance(0.3) else [])))
        else:
            kids.append(('circle', [('cxy', '$w %d' % rng.range(1, 9)), ('r', str(rng.range(1, 4)))]))
    return {'id': tid, 'kids': kids, 'cls': rng.choice([None, 'gc']), 'group': True}


def subst(v, b):
    v = v.replace('#late~w', '2')
    for k in ('label', 'w', 'h'):
        v = v.replace('${%s}' % k, str(b[k])).replace('$' + k, str(b[k]))
    return v


def tpl_src(t):
    if t['group']:
        a = [('id', t.get('idsrc', t['id']))] + ([('class', t['cls'])] if t['cls'] else [])
        return '<g%s>%s</g>' % (''.join(' %s="%s"' % kv for kv in a), ''.join(xmlcanon.el(n, at) for n, at in t['kids']))
    a = [('id', t.get('idsrc', t['id']))] + t['size'] + ([('text', t['text'])] if t['text'] else []) + ([('class', t['cls'])] if t['cls'] else [])
    return xmlcanon.el(t['kind'], a)


def inst_src(t, inst):
    a = [('href', '^' if inst.get('prev') else '#' + (t['idsrc'] if inst.get('href_computed') else t['id']))]
    if inst['id']: a.append(('id', inst['id']))
    if inst['xy']:
        if inst.get('only') != 'y': a.append(('x', str(inst['xy'][0])))
        if inst.get('only') != 'x': a.append(('y', str(inst['xy'][1])))
    a += [(k, str(inst['b'][k])) for k in ('w', 'h', 'label') if k not in inst['omit']]
    if inst['cls']: a.append(('class', inst['cls']))
    if inst['style']: a.append(('style', inst['style']))
    return xmlcanon.el('reuse', a)


def twin_src(t, inst):
    b = inst['b']
    # the reuse element's own classes are evaluated where it stands (outer bindings), not under the bindings it makes for the template
    icls = (inst['cls'] or '').replace('${w}', str(inst['outer_w'])).replace('$w', str(inst['outer_w']))
    classes = ((t['cls'] or '').split() + icls.split() + [t['id']])
    cl = []
    for c in classes:
        if c not in cl: cl.append(c)
    if t['group']:
        a = []
        if inst['id']: a.append(('id', inst['id']))
        if inst['xy'] and (inst['xy'][0] or inst['xy'][1]): a.append(('transform', 'translate(%d, %d)' % inst['xy']))
        if inst['style']: a.append(('style', inst['style']))
        a.append(('class', ' '.join(cl)))
        return '<g%s>%s</g>' % (''.join(' %s="%s"' % kv for kv in a), ''.join(xmlcanon.el(n, [(k, subst(v, b)) for k, v in at]) for n, at in t['kids']))
    a = []
    if inst['id']: a.append(('id', inst['id']))
    size = [(k, subst(v, b)) for k, v in t['size']]
    if inst['xy']:
        x, y = inst['xy']
        if t['kind'] == 'rect':
            if inst.get('only') != 'y': a.append(('x', str(x)))
            if inst.get('only') != 'x': a.append(('y', str(y)))
        elif t['kind'] == 'circle':
            a += [('cx', '{{%d + %s}}' % (x, b['w'])), ('cy', '{{%d + %s}}' % (y, b['w']))]
        else:
            a += [('cx', '{{%d + %s}}' % (x, b['w'])), ('cy', '{{%d + %s}}' % (y, b['h']))]
    a += size
    if t['text']: a.append(('text', subst(t['text'], b)))
    if inst['style']: a.append(('style', inst['style']))
    a.append(('class', ' '.join(cl)))
    return xmlcanon.el(t['kind'], a)


def stream(out):
    root, evs, err = xmlcanon.parse(out)
    if err:
        return None
    res = []
    for e in evs:
        if e[0] == 'start':
            res.append(('start', e[1], tuple(sorted(e[2]))))
        elif e[0] == 'text' and e[1].strip():
            res.append(('text', e[1].strip()))
        elif e[0] == 'end':
            res.append(('end', e[1]))
    return res


def run(ctx):
    rng = ctx['rng']; lib = ctx['lib']; st = ctx['stats']; dist = st['distribution']
    quick = ctx['tier'] == 'quick'
    n = 600 if quick else 10000
    cases = []; pairs = []
    for i in range(n):
        t = tpl_group(rng, 't%d' % i) if rng.chance(0.35) else tpl_shape(rng, 't%d' % i)
        place = rng.choice(['specs', 'specs', 'defs', 'specs-after', 'specs-nested'] + (['inline', 'defs'] if t['group'] else []))
        if rng.chance(0.2):         # a template whose id is computed: it is found under the evaluated id
            t['idsrc'] = t['id'] + rng.choice(['_$kk', '_${kk}', '_{{3 + 4}}']); t['id'] = t['id'] + '_7'
        insts = []
        for j in range(rng.range(1, 5)):
            only = rng.choice([None, None, None, 'x', 'y']) if (t['group'] or t.get('kind') == 'rect') else None
            xy = (rng.range(-10, 40), rng.range(-10, 40)) if rng.chance(0.7) else None
            if xy and only == 'y': xy = (0, rng.choice([-5, -1, 3, -12]))
            if xy and only == 'x': xy = (rng.choice([-5, 4, -1]), 0)
            if xy and only is None and rng.chance(0.1): xy = (0, -rng.range(1, 9))
            insts.append({'id': ('i%d_%d' % (i, j)) if rng.chance(0.4) else None,
                          'xy': xy, 'only': only if xy else None, 'href_computed': 'idsrc' in t and rng.chance(0.4),
                          'b': {'w': rng.range(1, 12), 'h': rng.range(1, 12), 'label': rng.choice(['hi', 'A1', 'x y', 'Z'])},
                          'cls': rng.choice([None, 'rc', 'rc d-red', 'kc-$w', 'rc kc-${w}']), 'style': rng.choice([None, None, 'fill:red']),
                          'omit': set(rng.sample(['w', 'h', 'label'], rng.range(0, 2))) if rng.chance(0.4) else set()})
        outer = {'w': rng.range(1, 12), 'h': rng.range(1, 12), 'label': 'outer'}
        if place == 'inline' and rng.chance(0.5):
            insts[0]['prev'] = True        # the template is the previous element: href="^" names it (no filler in between, see below)
        for inst in insts:
            inst['outer_w'] = outer['w']
            for k in inst['omit']:
                inst['b'][k] = outer[k]
        filler = ['<rect xy="50 50" wh="3"/>', '<text xy="60 0" text="probe $w $h $label"/>', '']
        prog = []; twin = []
        for inst in insts:
            f = '' if inst.get('prev') else rng.choice(filler)
            prog.append(f + inst_src(t, inst)); twin.append(f + twin_src(t, inst))
        tsrc = tpl_src(t)
        ovar = '<var w="%d" h="%d" label="outer" kk="7"/>' % (outer['w'], outer['h'])
        late = '<rect id="late" xy="70 70" wh="2"/>'
        wrap = {'specs': '<specs>%s</specs>', 'defs': '<defs>%s</defs>', 'specs-after': '<specs>%s</specs>', 'inline': '%s',
                'specs-nested': '<specs><g id="kit' + str(i) + '"><rect wh="1"/>%s</g></specs>'}[place] % tsrc      # a template inside a group of <specs> is referencable too
        # the twin keeps the template where it was (it is not rendered in specs; in defs it is emitted by both)
        if place == 'specs-after':
            p = '<svg>%s%s%s%s</svg>' % (ovar, ''.join(prog), wrap, late); u = '<svg>%s%s%s%s</svg>' % (ovar, ''.join(twin), wrap, late)
        else:
            p = '<svg>%s%s%s%s</svg>' % (ovar, wrap, ''.join(prog), late); u = '<svg>%s%s%s%s</svg>' % (ovar, wrap, ''.join(twin), late)
        cases.append(Case('p%d' % i, 'probe', [lib.enc_cfg({'add_auto_styles': False}), hx(p)], {'doc': p}))
        cases.append(doc_case('u%d' % i, u, {'add_auto_styles': False}, {'doc': u}))
        pairs.append((i, p, u, t, insts, place))
        dist[place] = dist.get(place, 0) + 1; dist['group' if t['group'] else t['kind']] = dist.get('group' if t['group'] else t['kind'], 0) + 1
    impl = lib.run_impl(cases, timeout_ms=20000)
    byid = {c.id: c for c in cases}
    seen = set()
    for i, p, u, t, insts, place in pairs:
        st['evaluations'] += 2
        if p not in seen:
            seen.add(p)
            if len(insts) >= 2:
                st['distinct_nontrivial'] += 1
        rp = impl.get('p%d' % i); ru = impl.get('u%d' % i); c = byid['p%d' % i]
        if not ru or ru[0] != 'OK':
            dist['twin_rejected'] = dist.get('twin_rejected', 0) + 1
            continue
        if not rp or rp[0] != 'OK':
            yield {'kind': 'oracle', 'what': 'the inlined twin succeeds but the document using reuse fails (%s): %s' % (rp, p[:900]), 'case': c.to_json(), 'observed': rp, 'expected': 'OK', 'twin': u[:1500]}
            continue
        probe = rp[2] if len(rp) > 2 else ''
        st['traces_validated_against_impl'] += 1
        try:
            sh, eh, dp, spx = probe.split(',')
            okp = int(eh) == 0 and int(sh) <= 1 and int(dp) == 0 and spx == 'false'
        except ValueError:
            okp = False
        if not okp:
            yield {'kind': 'correspondence', 'what': 'context not restored at the end of the transform: (scopes, elements, depth, in-specs) = %s; document %s' % (probe, p[:600]), 'case': c.to_json(), 'observed': probe, 'expected': '<=1,0,0,false'}
        sp = stream(bytes.fromhex(rp[1])); su = stream(bytes.fromhex(ru[1]))
        if sp != su:
            k = next((j for j in range(min(len(sp or []), len(su or []))) if sp[j] != su[j]), None)
            yield {'kind': 'oracle', 'what': 'reuse and inlined twin render differently at item %s: %s vs %s; document %s' % (k, sp[k] if sp and k is not None and k < len(sp) else len(sp or []), su[k] if su and k is not None and k < len(su) else len(su or []), p[:900]),
                   'case': c.to_json(), 'observed': unhx(rp[1])[:2500], 'expected': unhx(ru[1])[:2500], 'twin': u[:1500]}
        if len(st['samples']) < 3:
            st['samples'].append({'document': p[:500], 'twin': u[:500]})


def classify(v, known):
    return None
