"""C19 Shape text reaches the output verbatim and at the requested anchor."""
import os, re
from fractions import Fraction as F
from lib import Case, hx, enc_attrs, dec_attrs, doc_case, unhx
import xmlcanon, scene, docgen
from scene import fmt, dy

DOC_MODEL = True     # every generated document also runs through the composed Coq model of the whole transform
RULE = ('(a) hook process_text_attr on stand-alone shapes (rect/circle/ellipse/line/text/box/point) x text strings over a rich '
        'alphabet (Unicode, XML specials, literal and escaped \\n, empty / leading / trailing lines) x 9 locations + 4 edge forms x '
        'inside/outside/vertical/pre flags x text-offset / text-dx / text-dy / text-dxy / text-lsp / text-style / presentation attributes: '
        'compared exactly with the extracted Coq model, and checked by an independent rule for text fidelity, anchor and classes; '
        '(b) whole documents through every carrier (text attribute, element content, CDATA content, <text> element, variables): expat '
        'character data of the generated text/tspan elements equals the author text. non-trivial = distinct case with a special '
        'character, several lines or a non-default location')
THEOREM_NOTES = 'Props/C19.v: see file'
ASSUMPTIONS = ['anchor theorems on exact rationals; execution on binary32 compared bit-exactly', 'vertical text lists its lines in reverse order and pre-formatted text replaces spaces by NBSP (documented substitutions)']

LOCS9 = ['tl', 't', 'tr', 'r', 'br', 'b', 'bl', 'l', 'c']
ZWSP = '\u200b'; NBSP = '\u00a0'
IGNORED = ['d-softshadow', 'd-hardshadow', 'd-grid', 'd-hatch', 'd-crosshatch', 'd-stipple', 'd-surround', 'd-flow', 'd-dot', 'd-dash', 'd-dot-dash']
IGNPFX = ['d-flow-', 'd-grid-', 'd-crosshatch-', 'd-hatch-', 'd-stipple-']


def text_string_spec(s):
    return re.sub(r'\\\\n|\\n', lambda m: '\\n' if len(m.group(0)) == 3 else '\n', s)


def lines_spec(t):
    if t == '':
        return []
    ls = t.split('\n')
    if ls[-1] == '':
        ls = ls[:-1]
        ls = [l[:-1] if l.endswith('\r') else l for l in ls]
    else:
        ls = [l[:-1] if l.endswith('\r') else l for l in ls[:-1]] + [ls[-1]]
    return ls


def is_side(loc, side):
    if ':' in loc:
        return loc.split(':')[0] == side[0]
    return {'top': loc in ('tl', 't', 'tr'), 'bottom': loc in ('bl', 'b', 'br'), 'left': loc in ('tl', 'l', 'bl'), 'right': loc in ('tr', 'r', 'br')}[side]


def expected_anchor(name, bb, loc, outside, off, tdx, tdy):
    px, py = scene.loc_point(bb, loc)
    if is_side(loc, 'top'): py += (-off if outside else off)
    elif is_side(loc, 'bottom'): py += (off if outside else -off)
    if is_side(loc, 'left'): px += (-off if outside else off)
    elif is_side(loc, 'right'): px += (off if outside else -off)
    return px + tdx, py + tdy


def expected_align(loc, outside, vertical):
    out = ['d-text']
    sfx = '-vertical' if vertical else ''
    flip = {'top': 'bottom', 'bottom': 'top', 'left': 'right', 'right': 'left'}
    for a, b in (('top', 'bottom'), ('left', 'right')):
        for side in (a, b):
            if is_side(loc, side):
                out.append('d-text-' + (flip[side] if outside else side) + sfx)
                break
    return out


def gen_text(rng):
    parts = []
    for _ in range(rng.range(1, 4)):
        parts.append(docgen.rich_text(rng, n=rng.range(0, 2)))
        r = rng.below(10)
        if r < 3: parts.append('\\n')
        elif r < 4: parts.append('\n')
        elif r < 5: parts.append('\\\\n')
        elif r < 6: parts.append(rng.choice(['\\', '\\\\\\n', '\\n\\n', 'n', '\\x', '\r\n', ' \\n']))
    t = ''.join(parts)
    return t


def gen_case(rng, i):
    name, a, bb = scene.rand_shape(rng, None, kinds=('rect', 'rect', 'circle', 'ellipse', 'line', 'box', 'point'))
    if rng.chance(0.1):
        name = 'text'; x = dy(rng, -20, 40); y = dy(rng, -20, 40); a = [('x', fmt(x)), ('y', fmt(y))]; bb = (x, y, x, y)
    text = gen_text(rng)
    attrs = list(a) + [('text', text)]
    loc = 'c'
    if rng.chance(0.7):
        loc = rng.choice(LOCS9) if rng.chance(0.7) else scene.rand_loc(rng)
        attrs.append(('text-loc', loc))
    off = F(1)
    if rng.chance(0.3):
        off = dy(rng, -2, 6, 2); attrs.append(('text-offset', fmt(off)))
    tdx = tdy = F(0)
    if rng.chance(0.25):
        a1 = dy(rng, -4, 4, 2); a2 = dy(rng, -4, 4, 2)
        if rng.chance(0.5): attrs.append(('text-dxy', '%s %s' % (fmt(a1), fmt(a2)))); tdx, tdy = a1, a2
        else: attrs.append(('text-dxy', fmt(a1))); tdx, tdy = a1, a1
    if rng.chance(0.15):
        tdx = dy(rng, -4, 4, 2); attrs.append(('text-dx', fmt(tdx)))
    if rng.chance(0.15):
        tdy = dy(rng, -4, 4, 2); attrs.append(('text-dy', fmt(tdy)))
    classes = []
    vertical = rng.chance(0.15); pre = rng.chance(0.15)
    if vertical: classes.append('d-text-vertical')
    if pre: classes.append('d-text-pre')
    outside = name in ('line', 'point', 'text')
    r = rng.below(10)
    if r == 0: classes.append('d-text-outside'); outside = True
    elif r == 1: classes.append('d-text-inside'); outside = False
    for _ in range(rng.range(0, 2)):
        classes.append(rng.choice(IGNORED + ['d-grid-5', 'd-flow-fast', 'd-red', 'd-text-bold', 'd-text-bigger', 'mine', 'd-thick', 'd-fill-blue', 'd-hatch-3']))
    if classes:
        rng.shuffle(classes)
        attrs.append(('class', ' '.join(classes)))
    if rng.chance(0.15): attrs.append(('text-lsp', fmt(dy(rng, 1, 3, 4))))
    if rng.chance(0.15): attrs.append(('text-style', rng.choice(['fill: red', 'font: "x"', 'a<b'])))
    if rng.chance(0.2): attrs.append((rng.choice(['font-size', 'font-family', 'text-anchor', 'font-weight', 'letter-spacing']), rng.choice(['3', 'serif', 'start', 'bold'])))
    if rng.chance(0.1): attrs.append((rng.choice(['fill', 'stroke', 'data-x']), 'red'))
    malformed = False
    if rng.chance(0.04):
        k = rng.choice(['text-loc', 'text-offset', 'text-dxy', 'text-dx', 'text-lsp'])
        attrs = [(a_, b_) for a_, b_ in attrs if a_ != k] + [(k, rng.choice(['zz', '', 'x y', '1 q', 't:', 'q:3']))]
        malformed = True
    rng.shuffle(attrs)
    meta = {'name': name, 'attrs': attrs, 'bb': [str(v) for v in bb], 'text': text, 'loc': loc, 'off': str(off), 'tdx': str(tdx), 'tdy': str(tdy),
            'vertical': vertical, 'pre': pre, 'outside': outside, 'classes': classes, 'malformed': malformed}
    return Case('t%d' % i, 'textattr', [hx(name), enc_attrs(attrs)], meta)


def parse_texts(field):
    out = []
    for part in field.split(';') if field else []:
        n, a, c = part.split('|')
        out.append((unhx(n), dec_attrs(a), unhx(c)))
    return out


def check_hook(m, orig, texts):
    """independent rule on the implementation's result; None or message"""
    name = m['name']
    tv = text_string_spec(m['text'])
    ls = lines_spec(tv)
    if not texts or texts[0][0] != 'text':
        return 'no text element generated'
    if len(ls) > 1:
        spans = texts[1:]
        if len(spans) != len(ls) or any(s[0] != 'tspan' for s in spans):
            return '%d lines but %d tspans' % (len(ls), len(spans))
        exp = [l.replace(' ', NBSP) if m['pre'] else l for l in ls]
        exp = [e if e != '' else ZWSP for e in exp]
        if m['vertical']:
            exp = exp[::-1]
        got = [s[2] for s in spans]
        if got != exp:
            return 'tspan contents %r differ from the lines of the text %r' % (got, exp)
    else:
        if len(texts) != 1:
            return 'single-line text with %d elements' % len(texts)
        if texts[0][2] != tv:
            return 'text content %r differs from the author text %r' % (texts[0][2], tv)
    # anchor
    bb = tuple(F(v) for v in m['bb'])
    ex, ey = expected_anchor(name, bb, m['loc'], m['outside'], F(m['off']), F(m['tdx']), F(m['tdy']))
    d = dict(texts[0][1])
    try:
        gx, gy = float(d['x']), float(d['y'])
    except (KeyError, ValueError):
        return 'text element without numeric x/y: %s' % (texts[0][1],)
    if abs(gx - float(ex)) > 0.0011 or abs(gy - float(ey)) > 0.0011:
        return 'text anchored at (%s, %s), expected (%s, %s) for text-loc %s on %s %s' % (d['x'], d['y'], float(ex), float(ey), m['loc'], name, [float(v) for v in bb])
    # alignment classes
    cls = d.get('class', '').split(' ')
    want = expected_align(m['loc'], m['outside'], m['vertical'])
    if cls[:len(want)] != want:
        return 'alignment classes %s, expected %s (loc %s, outside %s, vertical %s)' % (cls[:3], want, m['loc'], m['outside'], m['vertical'])
    for c in m['classes']:
        ign = c in IGNORED or any(c.startswith(p) for p in IGNPFX)
        if c in ('d-text-outside', 'd-text-inside'):
            continue
        if ign and c in cls:
            return 'ignored class %s copied to the text element' % c
        if not ign and c not in cls:
            return 'class %s not copied to the text element' % c
    # the shape keeps its own attributes, loses the text-specific ones
    od = dict(orig)
    for k in od:
        if k.startswith('text-') and k != 'text-decoration' or k == 'text':
            if not (name == 'text'):
                return 'text attribute %s left on the shape' % k
    for k, v in m['attrs']:
        if k in ('fill', 'stroke', 'data-x', 'x', 'y', 'width', 'height', 'cx', 'cy', 'r', 'rx', 'ry', 'x1', 'y1', 'x2', 'y2') and od.get(k) != v:
            return 'shape attribute %s changed from %r to %r' % (k, v, od.get(k))
    ocls = od.get('class', '').split(' ') if 'class' in od else []
    for c in m['classes']:
        if c.startswith('d-text-') and c in ocls:
            return 'text class %s left on the shape' % c
        if not c.startswith('d-text-') and c not in ocls:
            return 'class %s removed from the shape' % c
    return None


def run(ctx):
    rng = ctx['rng']; lib = ctx['lib']; st = ctx['stats']; dist = st['distribution']
    quick = ctx['tier'] == 'quick'
    n = 2500 if quick else 40000
    cases = [gen_case(rng, i) for i in range(n)]
    scases = [Case('s%d' % i, 'textstr', [hx(gen_text(rng))], {}) for i in range(500 if quick else 8000)]
    impl = lib.run_impl(cases + scases)
    model = lib.run_model(cases + scases) if ctx['model_ok'] else {}
    seen = set()
    for c in cases + scases:
        st['evaluations'] += 1
        i = impl.get(c.id); m = model.get(c.id)
        key = tuple(c.fields)
        if key not in seen:
            seen.add(key)
            if c.kind == 'textstr' or any(x in c.meta['text'] for x in '&<>"\'\\\n') or c.meta['loc'] != 'c':
                st['distinct_nontrivial'] += 1
        if m is not None:
            st['traces_validated_against_impl'] += 1
            if i != m:
                yield {'kind': 'correspondence', 'what': 'model and implementation disagree on %s %s' % (c.kind, c.meta.get('attrs', unhx(c.fields[0]))),
                       'case': c.to_json(), 'observed': i, 'expected': m}
        if c.kind == 'textstr':
            want = text_string_spec(unhx(c.fields[0]))
            if not i or i[0] != 'OK' or unhx(i[1]) != want:
                yield {'kind': 'oracle', 'what': 'text_string(%r) = %r, the documented rule gives %r' % (unhx(c.fields[0]), unhx(i[1]) if i and i[0] == 'OK' else i, want),
                       'case': c.to_json(), 'observed': i, 'expected': want}
            continue
        mm = c.meta
        dist[mm['name']] = dist.get(mm['name'], 0) + 1
        if mm['malformed']:
            dist['malformed'] = dist.get('malformed', 0) + 1
            continue
        if not i or i[0] != 'OK':
            yield {'kind': 'oracle', 'what': 'valid shape text rejected: %s %s -> %s' % (mm['name'], mm['attrs'], i), 'case': c.to_json(), 'observed': i, 'expected': 'OK'}
            continue
        msg = check_hook(mm, dec_attrs(i[1]), parse_texts(i[2] if len(i) > 2 else ''))
        if msg:
            yield {'kind': 'oracle', 'what': '%s %s: %s' % (mm['name'], mm['attrs'], msg), 'case': c.to_json(), 'observed': [dec_attrs(i[1]), parse_texts(i[2] if len(i) > 2 else '')], 'expected': msg}
        if len(st['samples']) < 4:
            st['samples'].append({'element': [mm['name'], mm['attrs']], 'impl': [dec_attrs(i[1]), parse_texts(i[2] if len(i) > 2 else '')]})
    # ---- whole documents: every carrier
    docs = []
    for di in range(400 if quick else 6000):
        t = docgen.rich_text(rng, n=rng.range(1, 3))
        if rng.chance(0.3):
            t += rng.choice(['\\n', '\n']) + docgen.rich_text(rng, n=rng.range(1, 2))
        t = t.strip(' ')      # leading / trailing blanks of element content are outside the generator
        if not t or '$' in t or '{{' in t:
            continue
        carrier = rng.choice(['attr', 'content', 'cdata', 'textel', 'var'])
        shape = rng.choice(['rect xy="1 2" wh="30 20"', 'circle cxy="5 5" r="9"', 'ellipse cxy="5 5" rxy="9 4"'])
        if carrier == 'attr':
            xml = '<svg><%s text="%s"/></svg>' % (shape, xmlcanon.esc_attr(t))
        elif carrier == 'content':
            xml = '<svg><%s>%s</%s></svg>' % (shape, xmlcanon.esc_text(t), shape.split()[0])
        elif carrier == 'cdata':
            if ']]>' in t: continue
            xml = '<svg><%s><![CDATA[%s]]></%s></svg>' % (shape, t, shape.split()[0])
        elif carrier == 'textel':
            xml = '<svg><text xy="3 4">%s</text></svg>' % xmlcanon.esc_text(t)
        else:
            xml = '<svg><var v="%s"/><%s text="$v"/></svg>' % (xmlcanon.esc_attr(t), shape)
        docs.append((doc_case('d%d' % di, xml, {'add_auto_styles': False}, {'doc': xml, 'text': t, 'carrier': carrier}), t, carrier))
    # element content holding an entity reference outside the predefined five, or a bare ampersand: nothing can be substituted,
    # so the characters as written are the author's text (they must not be dropped)
    for di in range(60 if quick else 600):
        words = [rng.choice(['10', 'kg', 'north', '45', 'a', 'Tee', 'x9']) for _ in range(rng.range(1, 3))]
        k = rng.below(len(words) + 1)
        words.insert(k, rng.choice(['&nbsp;', '&deg;', '&', '&unknown;', '&copy;']))
        t = rng.choice(['', ' ']).join(words) if rng.chance(0.5) else ' '.join(words)
        t = t.strip(' ')
        shape = rng.choice(['rect xy="1 2" wh="30 20"', 'circle cxy="5 5" r="9"', 'text xy="3 4"'])
        xml = '<svg><%s>%s</%s></svg>' % (shape, t, shape.split()[0])
        docs.append((doc_case('u%d' % di, xml, {'add_auto_styles': False}, {'doc': xml, 'text': t, 'carrier': 'content-unknown-entity'}), t.replace('\\', '\\\\'), 'content-unknown-entity'))
    dres = lib.run_impl([d[0] for d in docs])
    for c, t, carrier in docs:
        st['evaluations'] += 1; st['distinct_nontrivial'] += 1
        dist['doc:' + carrier] = dist.get('doc:' + carrier, 0) + 1
        r = dres.get(c.id)
        if not r or r[0] != 'OK':
            yield {'kind': 'oracle', 'what': 'document with shape text rejected (%s): %s' % (carrier, r), 'case': c.to_json(), 'observed': r, 'expected': 'OK', 'carrier': carrier}
            continue
        root, _, err = xmlcanon.parse(bytes.fromhex(r[1]))
        if err:
            yield {'kind': 'oracle', 'what': 'output not well-formed: ' + err, 'case': c.to_json(), 'observed': unhx(r[1])[:1500], 'expected': 'well-formed', 'carrier': carrier}
            continue
        tel = root.find_all('text')
        if len(tel) != 1:
            yield {'kind': 'oracle', 'what': '%d text elements generated' % len(tel), 'case': c.to_json(), 'observed': unhx(r[1])[:1500], 'expected': '1', 'carrier': carrier}
            continue
        spans = tel[0].find_all('tspan')
        tv = text_string_spec(t)
        ls = lines_spec(tv)
        got = [s.text for s in spans] if spans else [tel[0].text]
        exp = [l if l != '' else ZWSP for l in ls] if len(ls) > 1 else [tv]
        if got != exp:
            yield {'kind': 'oracle', 'what': 'text carried by %s: output character data %r, author text %r' % (carrier, got, exp), 'case': c.to_json(),
                   'observed': got, 'expected': exp, 'carrier': carrier, 'text': t}


def classify(v, known):
    t = v.get('text')
    if v.get('kind') == 'oracle' and t is not None:
        # K21: white space directly before a line end of the generated text is trimmed by the writer
        if re.search(r'[ \t 　]+(\n|\\n)', t):
            return 'K21'
    return None


def replay_known(kf, ctx):
    lib = ctx['lib']
    d = open(os.path.join(lib.VERIF, kf['witness']), encoding='utf-8').read()
    r = lib.run_impl([doc_case('k', d, {'add_auto_styles': False})]).get('k')
    if not r or r[0] != 'OK':
        return False
    exp = open(os.path.join(lib.VERIF, kf['witness'] + '.expected'), encoding='utf-8').read()
    root, _, err = xmlcanon.parse(bytes.fromhex(r[1]))
    tel = root.find_all('text') if root else []
    got = '\n'.join([s.text for s in tel[0].find_all('tspan')] or [tel[0].text]) if tel else None
    return got != exp
