"""C12 Containment: surround encloses, inside is enclosed."""
import math
from fractions import Fraction as F
from lib import Case, hx, enc_attrs, enc_els, dec_attrs, doc_case, unhx
import xmlcanon, scene
from scene import fmt, dy

DOC_MODEL = True     # every generated document also runs through the composed Coq model of the whole transform
RULE = ('non-empty lists of 1-4 referenced shapes (rect, circle, ellipse, line, box; groups and nested surround/inside through '
        'documents) x container kinds rect/circle/ellipse x margin forms (1-4 values, absolute, percent, negative); hook '
        'resolve_position compared bit-exactly with the extracted Coq model; enclosure inequalities evaluated on the output '
        'geometry (tolerance 0.002). non-trivial = distinct case with >= 1 referenced shape')
THEOREM_NOTES = 'Props/C12.v: surround_union_*, surround_margin_*, surround_circle/ellipse_encloses, sqrt2_constant, inside_*, containment_attrs_removed'
ASSUMPTIONS = ['circumscription is proved up to the factor k*k/2 with the code\'s f32 SQRT_2 (within 1e-7 of 2); the oracle uses tolerance 0.002']
TOL = 0.002


def margin_form(rng):
    n = rng.range(1, 4)
    vals = []
    for _ in range(n):
        if rng.chance(0.3):
            vals.append(('pct', F(rng.choice([5, 10, 25, 50, -10]))))
        else:
            vals.append(('abs', dy(rng, -2, 6, 2)))
    txt = rng.choice([' ', ', ', ',']).join((fmt(v) + '%') if k == 'pct' else fmt(v) for k, v in vals)
    if n == 1: t, r, b, l = vals[0], vals[0], vals[0], vals[0]
    elif n == 2: t, r, b, l = vals[0], vals[1], vals[0], vals[1]
    elif n == 3: t, r, b, l = vals[0], vals[1], vals[2], vals[1]
    else: t, r, b, l = vals
    return txt, (t, r, b, l)


def ev(m, base):
    return m[1] * base / 100 if m[0] == 'pct' else m[1]


def inside_shape(kind, bb, p, tol=TOL):
    x1, y1, x2, y2 = [float(v) for v in bb]
    x, y = p
    if kind in ('circle', 'ellipse'):
        cx, cy = (x1 + x2) / 2, (y1 + y2) / 2; rx, ry = (x2 - x1) / 2, (y2 - y1) / 2
        if rx <= 0 or ry <= 0:
            return abs(x - cx) <= tol and abs(y - cy) <= tol
        return ((x - cx) / rx) ** 2 + ((y - cy) / ry) ** 2 <= 1 + 4 * tol / min(rx, ry)
    return x1 - tol <= x <= x2 + tol and y1 - tol <= y <= y2 + tol


def outline_points(kind, bb):
    x1, y1, x2, y2 = [float(v) for v in bb]
    if kind in ('circle', 'ellipse'):
        cx, cy = (x1 + x2) / 2, (y1 + y2) / 2; rx, ry = (x2 - x1) / 2, (y2 - y1) / 2
        return [(cx + rx * math.cos(t * math.pi / 8), cy + ry * math.sin(t * math.pi / 8)) for t in range(16)]
    return [(x1, y1), (x2, y1), (x2, y2), (x1, y2)]


def check_case(target, mode, refs, margin, out_attrs):
    """returns None or a description of the violated inequality. refs = [(kind, bbox)]"""
    d = dict(out_attrs)
    for k in ('surround', 'inside', 'margin'):
        if k in d:
            return 'attribute %s left in the output' % k
    got = scene.bbox_of(target, out_attrs)
    if got is None and mode == 'surround':
        return 'no geometry in output %s' % (out_attrs,)
    if mode == 'surround':
        ux1 = min(r[1][0] for r in refs); uy1 = min(r[1][1] for r in refs)
        ux2 = max(r[1][2] for r in refs); uy2 = max(r[1][3] for r in refs)
        if margin:
            base = max(ux2 - ux1, uy2 - uy1); t, r, b, l = margin
            G = (ux1 - ev(l, base), uy1 - ev(t, base), ux2 + ev(r, base), uy2 + ev(b, base))
        else:
            G = (ux1, uy1, ux2, uy2)
        if target == 'rect':
            if not scene.close(got, G, TOL):
                return 'surround rect is %s, the union grown by the margin is %s' % (got, [float(v) for v in G])
        else:
            if G[2] <= G[0] or G[3] <= G[1]:
                return None   # negative margins emptied or inverted the box: no area to enclose (a round shape of zero width has no interior)
            for p in outline_points('rect', G):
                if not inside_shape(target, got, p):
                    return 'corner %s of the grown union %s is outside the surrounding %s %s' % (p, [float(v) for v in G], target, got)
        return None
    # inside
    ins = []
    for kind, bb in refs:
        if target == 'rect' and kind in ('circle', 'ellipse'):
            cx, cy = (bb[0] + bb[2]) / 2, (bb[1] + bb[3]) / 2; rx, ry = (bb[2] - bb[0]) / 2, (bb[3] - bb[1]) / 2
            k = F(11863283, 16777216)
            ins.append((cx - rx * k, cy - ry * k, cx + rx * k, cy + ry * k))
        else:
            ins.append(bb)
    I = (max(b[0] for b in ins), max(b[1] for b in ins), min(b[2] for b in ins), min(b[3] for b in ins))
    if I[2] < I[0] or I[3] < I[1]:
        return None       # empty intersection: element not positioned
    if margin:
        base = min(I[2] - I[0], I[3] - I[1]); t, r, b, l = margin
        I = (I[0] + ev(l, base), I[1] + ev(t, base), I[2] - ev(r, base), I[3] - ev(b, base))
    if I[2] < I[0] or I[3] < I[1]:
        return None
    if got is None:
        return 'no geometry in output %s' % (out_attrs,)
    grows = margin is not None and any(v < 0 for _, v in margin)
    for p in outline_points(target, got):
        if not inside_shape('rect', I, p):
            return 'point %s of the placed %s %s is outside the shrunk intersection %s' % (p, target, got, [float(v) for v in I])
        for kind, bb in refs:
            if not grows and not inside_shape(kind, bb, p):
                return 'point %s of the placed %s %s is outside the referenced %s %s' % (p, target, got, kind, [float(v) for v in bb])
    return None


def run(ctx):
    rng = ctx['rng']; lib = ctx['lib']; st = ctx['stats']; dist = st['distribution']
    quick = ctx['tier'] == 'quick'
    n = 1200 if quick else 25000
    cases = []
    for i in range(n):
        nref = rng.range(1, 4)
        mode = rng.choice(['surround', 'inside'])
        others = []; refs = []
        base = scene.rand_shape(rng, 'q', kinds=('rect',))[2]
        for j in range(nref):
            k, a, bb = scene.rand_shape(rng, 'r%d' % j, kinds=('rect', 'circle', 'ellipse', 'line', 'box'))
            if mode == 'inside' and j > 0 and rng.chance(0.8):
                # make overlap likely: re-centre on the first shape
                k = rng.choice(['rect', 'ellipse', 'circle'])
                cx = (refs[0][1][0] + refs[0][1][2]) / 2 + dy(rng, -2, 2, 4); cy = (refs[0][1][1] + refs[0][1][3]) / 2 + dy(rng, -2, 2, 4)
                w = dy(rng, 4, 30, 4); h = w if k == 'circle' else dy(rng, 4, 30, 4)
                bb = (cx - w / 2, cy - h / 2, cx + w / 2, cy + h / 2)
                if k == 'rect': a = [('id', 'r%d' % j), ('x', fmt(bb[0])), ('y', fmt(bb[1])), ('width', fmt(w)), ('height', fmt(h))]
                elif k == 'circle': a = [('id', 'r%d' % j), ('cx', fmt(cx)), ('cy', fmt(cy)), ('r', fmt(w / 2))]
                else: a = [('id', 'r%d' % j), ('cx', fmt(cx)), ('cy', fmt(cy)), ('rx', fmt(w / 2)), ('ry', fmt(h / 2))]
            others.append((k, a)); refs.append((k, bb))
        target = rng.choice(['rect', 'circle', 'ellipse'])
        use = rng.sample(list(range(nref)), rng.range(1, nref))
        attrs = [(mode, rng.choice([' ', ', ']).join('#r%d' % j for j in use))]
        margin = None
        if rng.chance(0.6):
            txt, margin = margin_form(rng)
            attrs.append(('margin', txt))
        if rng.chance(0.2):
            attrs.append(('id', 't'))
        rng.shuffle(attrs)
        malformed = False
        if rng.chance(0.04):
            k0, v0 = attrs[0]
            attrs[0] = (k0, rng.choice([v0 + ' #zz', v0 + ' 7', '', v0.replace('#', '^#'), '1 2 3 4 5', 'x']))
            malformed = True
        dist[mode + ':' + target] = dist.get(mode + ':' + target, 0) + 1
        cases.append(Case('h%d' % i, 'resolve', [hx(target), enc_attrs(attrs), enc_els(others)],
                          {'target': target, 'mode': mode, 'attrs': attrs, 'others': others, 'malformed': malformed,
                           'refs': [(refs[j][0], [str(v) for v in refs[j][1]]) for j in use],
                           'margin': [(k, str(v)) for k, v in margin] if margin else None}))
    impl = lib.run_impl(cases)
    model = lib.run_model(cases) if ctx['model_ok'] else {}
    seen = set()
    for c in cases:
        st['evaluations'] += 1
        key = tuple(c.fields)
        if key not in seen:
            seen.add(key); st['distinct_nontrivial'] += 1
        i = impl.get(c.id); m = model.get(c.id)
        if m is not None:
            st['traces_validated_against_impl'] += 1
            if i != m:
                yield {'kind': 'correspondence', 'what': 'model and implementation disagree on %s %s' % (c.meta['target'], c.meta['attrs']),
                       'case': c.to_json(), 'observed': [i[0], dec_attrs(i[1])] if i and i[0] == 'OK' else i,
                       'expected': [m[0], dec_attrs(m[1])] if m and m[0] == 'OK' else m}
        if c.meta['malformed']:
            continue
        if not i or i[0] != 'OK':
            yield {'kind': 'oracle', 'what': 'valid containment rejected: %s %s -> %s' % (c.meta['target'], c.meta['attrs'], i), 'case': c.to_json(), 'observed': i, 'expected': 'OK'}
            continue
        refs = [(k, tuple(F(v) for v in bb)) for k, bb in c.meta['refs']]
        margin = [(k, F(v)) for k, v in c.meta['margin']] if c.meta['margin'] else None
        msg = check_case(c.meta['target'], c.meta['mode'], refs, margin, dec_attrs(i[1]))
        if msg:
            yield {'kind': 'oracle', 'what': '%s %s: %s' % (c.meta['target'], c.meta['attrs'], msg), 'case': c.to_json(),
                   'observed': dec_attrs(i[1]), 'expected': msg}
        if len(st['samples']) < 4:
            st['samples'].append({'target': [c.meta['target'], c.meta['attrs']], 'refs': c.meta['others'], 'impl': dec_attrs(i[1])})
    # ---- documents: groups and nested surround/inside as references
    docs = []
    for di in range(40 if quick else 800):
        parts = []; boxes = {}
        for j in range(rng.range(2, 4)):
            k, a, bb = scene.rand_shape(rng, 'a%d' % j, kinds=('rect', 'circle', 'ellipse'))
            parts.append(xmlcanon.el(k, a)); boxes['a%d' % j] = bb
        # a group of two rects
        g = []
        gb = None
        for j in range(2):
            k, a, bb = scene.rand_shape(rng, None, kinds=('rect',))
            g.append(xmlcanon.el(k, a)); gb = bb if gb is None else (min(gb[0], bb[0]), min(gb[1], bb[1]), max(gb[2], bb[2]), max(gb[3], bb[3]))
        parts.append('<g id="g">%s</g>' % ''.join(g)); boxes['g'] = gb
        # nested: s1 surrounds a0 and g; s2 surrounds s1 and a1 with a margin
        m1 = dy(rng, 0, 4, 2)
        u1 = (min(boxes['a0'][0], gb[0]), min(boxes['a0'][1], gb[1]), max(boxes['a0'][2], gb[2]), max(boxes['a0'][3], gb[3]))
        s1 = (u1[0] - m1, u1[1] - m1, u1[2] + m1, u1[3] + m1)
        parts.append(xmlcanon.el('rect', [('id', 's1'), ('surround', '#a0 #g'), ('margin', fmt(m1))]))
        u2 = (min(s1[0], boxes['a1'][0]), min(s1[1], boxes['a1'][1]), max(s1[2], boxes['a1'][2]), max(s1[3], boxes['a1'][3]))
        parts.append(xmlcanon.el('rect', [('id', 's2'), ('surround', '#s1 #a1')]))
        parts.append(xmlcanon.el('rect', [('id', 'i1'), ('inside', '#s2 #s1'), ('margin', '0.5')]))
        i1 = (s1[0] + F(1, 2), s1[1] + F(1, 2), s1[2] - F(1, 2), s1[3] - F(1, 2))
        order = list(range(len(parts)))
        if rng.chance(0.5):
            rng.shuffle(order)     # forward references: order must not matter
        xml = '<svg>' + ''.join(parts[o] for o in order) + '</svg>'
        docs.append((doc_case('d%d' % di, xml, {'add_auto_styles': False}), {'s1': s1, 's2': u2, 'i1': i1}, xml))
    dres = lib.run_impl([d[0] for d in docs])
    for c, exps, xml in docs:
        st['evaluations'] += 1; st['distinct_nontrivial'] += 1
        r = dres.get(c.id)
        if not r or r[0] != 'OK':
            yield {'kind': 'oracle', 'what': 'nested containment document rejected: %s' % (r,), 'case': c.to_json(), 'observed': r, 'expected': 'OK'}
            continue
        root, _, err = xmlcanon.parse(bytes.fromhex(r[1]))
        for n_ in (root.iter() if root else []):
            idv = dict(n_.attrs).get('id')
            if idv in exps:
                got = scene.bbox_of('rect', n_.attrs)
                if not scene.close(got, exps[idv], TOL) or any(k in dict(n_.attrs) for k in ('surround', 'inside', 'margin')):
                    yield {'kind': 'oracle', 'what': 'nested containment: #%s is %s (attrs %s), expected %s; doc %s' % (idv, got, n_.attrs, [float(v) for v in exps[idv]], xml[:500]),
                           'case': c.to_json(), 'observed': got, 'expected': [float(v) for v in exps[idv]]}
                    break
    dist['nested_docs'] = len(docs)


def classify(v, known):
    """K18: circle/ellipse inside two or more references of which at least one is round"""
    m = v.get('case', {}).get('meta', {})
    if v.get('kind') == 'oracle' and m.get('mode') == 'inside' and m.get('target') in ('circle', 'ellipse') \
            and len(m.get('refs', [])) >= 2 and any(k in ('circle', 'ellipse') for k, _ in m['refs']):
        return 'K18'
    # K24: a round target inside ONE round reference with margins that differ per side: the shrunk
    # bounding box is no longer concentric with the reference, and the ellipse inscribed in it can
    # cross the reference's outline near a corner of its bounding box
    if v.get('kind') == 'oracle' and m.get('mode') == 'inside' and m.get('target') in ('circle', 'ellipse') \
            and len(m.get('refs', [])) == 1 and m['refs'][0][0] in ('circle', 'ellipse') and m.get('margin') \
            and len(set((k, val) for k, val in m['margin'])) > 1 and 'outside the referenced' in v.get('what', ''):
        return 'K24'
    return None


def replay_known(kf, ctx):
    import os
    lib = ctx['lib']
    xml = open(os.path.join(lib.VERIF, kf['witness'])).read()
    r = lib.run_impl([doc_case('k', xml, {'add_auto_styles': False})]).get('k')
    if not r or r[0] != 'OK':
        return False
    root, _, _ = xmlcanon.parse(bytes.fromhex(r[1]))
    els = [n for n in root.iter() if n.name in ('circle', 'ellipse')]
    refs = [(n.name, scene.bbox_of(n.name, n.attrs)) for n in els[:-1]]
    got = scene.bbox_of(els[-1].name, els[-1].attrs)
    return any(not inside_shape(k, bb, p) for p in outline_points(els[-1].name, got) for k, bb in refs)
