"""C16 Loops and conditionals render exactly what their unrolling renders."""
import os
from fractions import Fraction as F
from lib import Case, hx, doc_case, unhx
import xmlcanon

DOC_MODEL = True     # every generated document also runs through the composed Coq model of the whole transform
RULE = ('translation validation: generated programs over <loop count|while|until>, <for>, <if>, groups, var updates, shapes positioned '
        'relative to the previous element (^), text using the loop variables, nested to depth 3, with fractional / negative start and step; '
        'each program is transformed together with its mechanically unrolled twin (loop-free, the loop variable assigned by <var>) and the '
        'two outputs must have the same element stream (names, attributes, text; inter-element white space ignored) and the same root '
        'attributes. non-trivial = distinct program with >= 1 loop / for / if executing >= 1 pass')
THEOREM_NOTES = 'Props/C16.v: if_unrolls_true/false, loop_count_unrolls/ends, loop_while_unrolls/tested_before_each_pass, loop_until_unrolls/at_least_once, for_unrolls/ends'
ASSUMPTIONS = ['bodies do not fail (a failing pass makes the enclosing element retry as a whole: known finding K12)',
               'loop variables take dyadic values so that the f64 accumulation prints exactly (known finding K15 otherwise)']


def fnum(v):
    v = F(v)
    if v.denominator == 1:
        return str(v.numerator)
    s = ('%.6f' % float(v)).rstrip('0').rstrip('.')
    return s


class Gen:
    def __init__(self, rng):
        self.rng = rng; self.nv = 0; self.late = False

    def fresh(self, p):
        self.nv += 1; return '%s%d' % (p, self.nv)

    def absshapes(self, text):
        rng = self.rng
        return [('shape', 'rect', [('xy', '%d %d' % (rng.range(20, 90), rng.range(20, 90))), ('wh', rng.choice(['2', '3 1'])), ('text', text)])
                for _ in range(rng.range(1, 2))]

    def body(self, depth, vars_, top=False):
        """returns list of AST nodes; vars_: names of numeric variables in scope"""
        rng = self.rng
        out = []
        for _ in range(rng.range(1, 3)):
            k = rng.below(13)
            if k == 12:
                # a list of strings, blank items included: every item gets its pass, the index counts all of them
                v = self.fresh('s'); q = self.fresh('q') if rng.chance(0.6) else None
                items = [rng.choice(['a', '', ' ', 'b c', 'z', "it\\'s", 'a\\\\b', 'q.r']) for _ in range(rng.range(1, 4))]      # source spellings inside '..'
                out.append(('forstr', v, q, items, self.absshapes('[$%s%s]' % (v, ':$' + q if q else ''))))
                continue
            if k < 5 or depth <= 0:
                out.append(self.shape(vars_))
            elif k < 6:
                upd = [x for x in vars_ if x[0] == 'k']      # loop counters and loop variables are read-only in bodies
                v = rng.choice(upd) if upd and rng.chance(0.7) else self.fresh('k')
                if v in vars_:
                    out.append(('var', v, ('add', v, rng.range(1, 3))))
                else:
                    out.append(('var', v, ('lit', rng.range(0, 5)))); vars_ = vars_ + [v]
            elif k < 8:
                i = self.fresh('i')
                n = rng.range(0, 4)
                start = F(rng.range(-8, 8), rng.choice([1, 1, 2, 4, 16, 64])); step = F(rng.range(-6, 6), rng.choice([1, 1, 2, 32, 16])) or F(1)      # dyadic (exact in binary, no accumulation drift: K15), up to 6 decimals
                kv = [x for x in vars_ if x[0] == 'k']
                if kv and rng.chance(0.3):
                    # the number of passes given through a variable the body may update: it is read once, on entry
                    kvar = rng.choice(kv)
                    b = self.body(depth - 1, vars_ + [i])
                    if rng.chance(0.6):
                        b = b + [('var', kvar, ('add', kvar, rng.range(1, 2)))]      # the body changes the variable the count was read from
                    out.append(('loopvar', kvar, i, start, step, b))
                    continue
                out.append(('loop', n, i, start, step, self.body(depth - 1, vars_ + [i])))
                if n > 0 and rng.chance(0.4):      # after the loop the variable keeps the value of the last pass
                    out.append(('shape', 'rect', [('xy', '^|h 1'), ('wh', '2'), ('text', 'after:$%s' % i)]))
            elif k < 9:
                j = self.fresh('j'); n = rng.range(0, 4)
                kind = rng.choice(['while', 'until'])
                out.append((kind, j, n, self.body(depth - 1, vars_ + [j])))
            elif k < 10:
                v = self.fresh('f'); q = self.fresh('q') if rng.chance(0.5) else None
                items = [rng.choice(['3', '7', '1.5', '-2', '10']) for _ in range(rng.range(1, 4))]
                out.append(('for', v, q, items, self.body(depth - 1, vars_ + [v] + ([q] if q else []))))
            elif k < 11:
                if vars_ and rng.chance(0.7):
                    v = rng.choice(vars_); c = rng.range(-2, 6); op = rng.choice(['lt', 'ge', 'eq', 'ne', 'gt', 'le'])
                    test = ('cmp', op, v, c)
                else:
                    test = ('lit', rng.choice([0, 1, 1, 2, -1]))
                out.append(('if', test, self.body(depth - 1, vars_)))
            else:
                gb = self.body(depth - 1, vars_)
                # a group without drawn content becomes the previous element without a bounding box; the next '^' would fail
                # and be retried (outside this property: bodies do not fail), so groups always draw something
                out.append(('g', [self.shape(vars_)] + gb))
        return out

    def shape(self, vars_):
        rng = self.rng
        pos = rng.choice(['^|h 1', '^|v 2', '^|h', '^@br', '^|V 1', '^@tr 1 0'])
        if vars_ and rng.chance(0.5):
            v = rng.choice(vars_)
            size = rng.choice(['{{abs($%s) + 1}} 3' % v, '4 {{abs($%s * 2) + 1}}' % v, '5'])
            text = rng.choice([None, '$%s' % v, 'n=${%s}!' % v, '{{$%s + 1}}' % v])
        else:
            size = rng.choice(['3', '4 2', '2.5 6']); text = rng.choice([None, 'x'])
        a = [('xy', pos), ('wh', size)]
        if text:
            a.append(('text', text))
        return ('shape', rng.choice(['rect', 'rect', 'ellipse']), a)


def render(ast):
    out = []
    for n in ast:
        t = n[0]
        if t == 'shape':
            out.append(xmlcanon.el(n[1], n[2]))
        elif t == 'var':
            out.append('<var %s="%s"/>' % (n[1], expr_src(n[2])))
        elif t == 'loop':
            _, cnt, i, start, step, body = n
            out.append('<loop count="%d" loop-var="%s" start="%s" step="%s">%s</loop>' % (cnt, i, fnum(start), fnum(step), render(body)))
        elif t == 'loopvar':
            _, kvar, i, start, step, body = n
            out.append('<loop count="$%s" loop-var="%s" start="%s" step="%s">%s</loop>' % (kvar, i, fnum(start), fnum(step), render(body)))
        elif t in ('while', 'until'):
            _, j, cnt, body = n
            if t == 'while':
                out.append('<var %s="0"/><loop while="lt($%s, %d)"><var %s="{{$%s + 1}}"/>%s</loop>' % (j, j, cnt, j, j, render(body)))
            else:
                out.append('<var %s="0"/><loop until="ge($%s, %d)"><var %s="{{$%s + 1}}"/>%s</loop>' % (j, j, cnt, j, j, render(body)))
        elif t == 'for':
            _, v, q, items, body = n
            out.append('<for data="%s" var="%s"%s>%s</for>' % (', '.join(items), v, ' idx-var="%s"' % q if q else '', render(body)))
        elif t == 'if':
            out.append('<if test="%s">%s</if>' % (test_src(n[1]), render(n[2])))
        elif t == 'g':
            out.append('<g>%s</g>' % render(n[1]))
        elif t == 'forstr':
            _, v, q, items, body = n
            out.append('<for data="%s" var="%s"%s>%s</for>' % (', '.join("'%s'" % it for it in items), v, ' idx-var="%s"' % q if q else '', render(body)))
        elif t == 'iffwd':
            out.append('<if test="%s(#late~w, %d)">%s</if>' % (n[1], n[2], render(n[3])))
    return ''.join(out)


def expr_src(e):
    if e[0] == 'lit':
        return str(e[1])
    return '{{$%s + %d}}' % (e[1], e[2])


def test_src(t):
    if t[0] == 'lit':
        return str(t[1])
    return '%s($%s, %d)' % (t[1], t[2], t[3])


def unroll(ast, env):
    """loop-free twin as source text; env: variable -> Fraction (tracks values to decide tests and counts)"""
    out = []
    for n in ast:
        t = n[0]
        if t == 'shape':
            out.append(xmlcanon.el(n[1], n[2]))
        elif t == 'var':
            e = n[2]
            env[n[1]] = F(e[1]) if e[0] == 'lit' else env.get(e[1], F(0)) + e[2]
            out.append('<var %s="%s"/>' % (n[1], expr_src(e)))
        elif t == 'loop':
            _, cnt, i, start, step, body = n
            for k in range(cnt):
                v = start + k * step
                env[i] = v
                out.append('<var %s="%s"/>' % (i, fnum(v)))
                out.append(unroll(body, env))
        elif t == 'loopvar':
            _, kvar, i, start, step, body = n
            cnt = int(env.get(kvar, F(0)))
            for k in range(max(cnt, 0)):
                v = start + k * step
                env[i] = v
                out.append('<var %s="%s"/>' % (i, fnum(v)))
                out.append(unroll(body, env))
        elif t in ('while', 'until'):
            _, j, cnt, body = n
            env[j] = F(0)
            out.append('<var %s="0"/>' % j)
            passes = cnt if t == 'while' else max(cnt, 1)
            for k in range(passes):
                env[j] = env[j] + 1
                out.append('<var %s="{{$%s + 1}}"/>' % (j, j))
                out.append(unroll(body, env))
        elif t == 'for':
            _, v, q, items, body = n
            for k, it in enumerate(items):
                env[v] = F(it)
                out.append('<var %s="%s"%s/>' % (v, it, ' %s="%d"' % (q, k) if q else ''))
                if q:
                    env[q] = F(k)
                out.append(unroll(body, env))
        elif t == 'if':
            tt = n[1]
            if tt[0] == 'lit':
                ok = tt[1] != 0
            else:
                a = env.get(tt[2], F(0)); c = tt[3]
                ok = {'lt': a < c, 'le': a <= c, 'gt': a > c, 'ge': a >= c, 'eq': a == c, 'ne': a != c}[tt[1]]
            if ok:
                out.append(unroll(n[2], env))
        elif t == 'forstr':
            _, v, q, items, body = n
            for k, it in enumerate(items):
                raw = it.replace("\\'", "'").replace('\\\\', '\\')      # the item itself: escapes of the quoted spelling resolved
                out.append('<var %s="%s"%s/>' % (v, raw, ' %s="%d"' % (q, k) if q else ''))
                out.append(unroll(body, env))
        elif t == 'iffwd':
            w = 7; c = n[2]
            if {'gt': w > c, 'lt': w < c, 'ge': w >= c, 'ne': w != c}[n[1]]:
                out.append(unroll(n[3], env))
        elif t == 'g':
            sub = dict(env)
            out.append('<g>%s</g>' % unroll(n[1], sub))
            # variables set inside the group are discarded when it closes
    return ''.join(out)


def stream(out):
    root, evs, err = xmlcanon.parse(out)
    if err:
        return None
    res = []
    for e in evs:
        if e[0] == 'start':
            res.append(('start', e[1], tuple(sorted(e[2]))))
        elif e[0] == 'text':
            if e[1].strip():
                res.append(('text', e[1].strip()))
        elif e[0] == 'end':
            res.append(('end', e[1]))
    return res


def count_passes(ast):
    return sum(1 for n in ast if n[0] in ('loop', 'loopvar', 'while', 'until', 'for', 'if', 'forstr', 'iffwd'))


def run(ctx):
    rng = ctx['rng']; lib = ctx['lib']; st = ctx['stats']; dist = st['distribution']
    quick = ctx['tier'] == 'quick'
    n = 600 if quick else 12000
    cases = []; pairs = []
    for i in range(n):
        g = Gen(rng.fork('p%d' % i))
        ast = g.body(rng.range(1, 3), [], top=True)
        if rng.chance(0.25):
            # a test that can only be evaluated once an element further down is known: still rendered iff it is non-zero. Last in
            # the program, because what follows a deferred element sees a different previous element ('^'), which is not this property
            g.late = True
            ast.append(('iffwd', rng.choice(['gt', 'lt', 'ge', 'ne']), rng.choice([3, 5, 6, 7, 9]), g.absshapes('late')))
        head = '<rect id="o" xy="0 0" wh="2"/>'
        tail = '<rect id="late" xy="300 300" wh="7 2"/>' if g.late else ''
        p = '<svg>%s%s%s</svg>' % (head, render(ast), tail)
        u = '<svg>%s%s%s</svg>' % (head, unroll(ast, {}), tail)
        cases.append(doc_case('p%d' % i, p, {'add_auto_styles': False}, {'doc': p}))
        cases.append(doc_case('u%d' % i, u, {'add_auto_styles': False}, {'doc': u}))
        pairs.append((i, p, u, ast))
    impl = lib.run_impl(cases, timeout_ms=20000)
    seen = set()
    for i, p, u, ast in pairs:
        st['evaluations'] += 2
        if p not in seen:
            seen.add(p)
            if count_passes(ast):
                st['distinct_nontrivial'] += 1
        for nd in ast:
            dist[nd[0]] = dist.get(nd[0], 0) + 1
        rp = impl.get('p%d' % i); ru = impl.get('u%d' % i)
        c = cases[2 * i]
        if not ru or ru[0] != 'OK':
            dist['twin_rejected'] = dist.get('twin_rejected', 0) + 1
            if rp and rp[0] == 'OK':
                yield {'kind': 'oracle', 'what': 'the program succeeds but its unrolled twin fails (%s): %s  ||  %s' % (ru, p[:700], u[:700]), 'case': c.to_json(), 'observed': ru, 'expected': 'OK'}
            continue
        if not rp or rp[0] != 'OK':
            yield {'kind': 'oracle', 'what': 'the unrolled twin succeeds but the program fails (%s): %s' % (rp, p[:900]), 'case': c.to_json(), 'observed': rp, 'expected': 'OK', 'twin': u[:1500]}
            continue
        sp = stream(bytes.fromhex(rp[1])); su = stream(bytes.fromhex(ru[1]))
        if sp != su:
            k = next((j for j in range(min(len(sp or []), len(su or []))) if sp[j] != su[j]), None)
            yield {'kind': 'oracle', 'what': 'program and unrolled twin render differently at item %s: %s vs %s; program %s' % (k, sp[k] if sp and k is not None and k < len(sp) else len(sp or []), su[k] if su and k is not None and k < len(su) else len(su or []), p[:900]),
                   'case': c.to_json(), 'observed': unhx(rp[1])[:2500], 'expected': unhx(ru[1])[:2500], 'twin': u[:1500]}
        if len(st['samples']) < 3 and count_passes(ast):
            st['samples'].append({'program': p[:500], 'twin': u[:500]})


def classify(v, known):
    return None
