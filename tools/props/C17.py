"""C17 Limits reject exactly when exceeded; depth means nesting, not length."""
import os
from lib import Case, hx, doc_case, unhx
import xmlcanon

DOC_MODEL = True     # every generated document also runs through the composed Coq model of the whole transform
RULE = ('two-sided boundary documents: for L in {1,2,3,5,17,100,1000} and each limit (loop-limit for count / while / until / for, '
        'var-limit, depth-limit through nested g / reuse chains / containers / if / loop bodies) documents asking for L-1, L, L+1 (and a '
        'few beyond), limits set through the configuration and through <config>; flat documents of 10..5000 siblings of every element '
        'kind (shapes, text with content, containers, groups, vars, loops, reuse, forward references that need retries); verdict = Ok / '
        'Err(kind) as generated, output element count for accepted loops; the probe hook must report the initial stack heights and depth '
        'at the end of every transform. non-trivial = distinct document at or next to a boundary, or a flat document of >= 100 siblings')
THEOREM_NOTES = ('Props/C17.v: stack discipline (depth restored up to depth failures, for every evaluator and leaf), depth exceeded / within, '
                 'siblings_same_depth, loop / for limit not spurious and enforced, var limit enforced and not spurious')
ASSUMPTIONS = ['the theorems are about the pipeline skeleton (Model/Pipeline.v), generic in the expression evaluator and the leaf generator; '
               'the skeleton is tied to the code by the verdicts and the probe hook here and by whole-document correspondence in C15/C16']

KINDS = {'loop': 'LoopLimitError', 'var': 'VarLimitError', 'depth': 'DepthLimitExceeded'}


def nest(tag_open, tag_close, n, inner):
    return tag_open * n + inner + tag_close * n


def depth_doc(rng, n):
    """document whose element nesting (counting the root svg) is n"""
    kind = rng.choice(['g', 'g', 'mixed', 'reuse', 'if', 'loop', 'defs'])
    leaf = rng.choice(['<rect wh="1"/>', '<circle r="2"/>', '<rect wh="2" text="t"/>'])
    if n <= 1:
        return '<svg></svg>' if n == 1 else ''
    if n == 2:
        return '<svg>%s</svg>' % leaf
    k = n - 2
    if kind == 'g':
        return '<svg>%s</svg>' % nest('<g>', '</g>', k, leaf)
    if kind == 'mixed':
        o = ''; c = ''
        for i in range(k):
            t = rng.choice(['g', 'a', 'g', 'switch'])
            o += '<%s>' % t; c = '</%s>' % t + c
        return '<svg>%s%s%s</svg>' % (o, leaf, c)
    if kind == 'defs':
        return '<svg><defs>%s</defs></svg>' % nest('<g>', '</g>', k - 1, leaf) if k >= 1 else '<svg>%s</svg>' % leaf
    if kind == 'if':
        return '<svg>%s</svg>' % nest('<if test="1">', '</if>', k, leaf)
    if kind == 'loop':
        return '<svg>%s</svg>' % nest('<loop count="1">', '</loop>', k, leaf)
    # reuse chain: each instantiation adds the reuse element and the instantiated element
    return None


def run(ctx):
    rng = ctx['rng']; lib = ctx['lib']; st = ctx['stats']; dist = st['distribution']
    quick = ctx['tier'] == 'quick'
    cases = []   # (Case(probe), expected: 'ok' | kind, note)
    def add(xml, cfg, expect, note, count=None):
        i = len(cases)
        cases.append((Case('c%d' % i, 'probe', [lib.enc_cfg(cfg), hx(xml)], {'doc': xml[:4000], 'cfg': cfg, 'expect': expect, 'note': note}), expect, note, count))
    Ls = [1, 2, 3, 5, 17, 100] + ([1000] if not quick else [])
    reps = 1 if quick else 4
    for _ in range(reps):
        for L in Ls:
            for d in (-1, 0, 1, 2):
                n = L + d
                if n < 0:
                    continue
                body = rng.choice(['<rect wh="1" xy="$i 0"/>', '<rect wh="1"/><circle r="1"/>', '<var k="{{$k + 1}}"/>', '<g><rect wh="1"/></g>'])
                exp = 'ok' if n <= L else 'LoopLimitError'
                via_cfg = rng.chance(0.6)
                def wrap(inner, key='loop-limit', L=L, via_cfg=via_cfg):
                    if via_cfg:
                        return '<svg><var k="0"/>%s</svg>' % inner, {('loop_limit'): L, 'add_auto_styles': False}
                    other = rng.choice(['', '', '<config border="3"/>', '<config scale="2"/>', '<config theme="dark" font-size="4"/>'])      # settings that leave the limits alone
                    return '<svg><config %s="%d"/>%s<var k="0"/>%s</svg>' % (key, L, other, inner), {'add_auto_styles': False}
                # count loop
                xml, cfg = wrap('<loop count="%d" loop-var="i">%s</loop>' % (n, body))
                add(xml, cfg, exp, 'count n=%d L=%d' % (n, L), n if exp == 'ok' else None)
                # while loop over a counter: n passes
                xml, cfg = wrap('<var j="0"/><loop while="lt($j, %d)"><var j="{{$j + 1}}"/>%s</loop>' % (n, body.replace('$i', '$j')))
                add(xml, cfg, exp, 'while n=%d L=%d' % (n, L))
                # until loop: at least once; n passes for n >= 1
                if n >= 1:
                    xml, cfg = wrap('<var j="0"/><loop until="ge($j, %d)"><var j="{{$j + 1}}"/>%s</loop>' % (n, body.replace('$i', '$j')))
                    add(xml, cfg, exp, 'until n=%d L=%d' % (n, L))
                # for loop over n items
                if 1 <= n <= 1200:
                    items = ', '.join(str(x) for x in range(n))
                    xml, cfg = wrap('<for data="%s" var="i"%s>%s</for>' % (items, rng.choice(['', ' idx-var="q"']), body))
                    add(xml, cfg, exp if n >= 1 or True else 'ok', 'for n=%d L=%d' % (n, L))
                # variable length
                val = 'x' * n
                if rng.chance(0.5):
                    xml = '<svg><var v="%s"/><rect wh="1"/></svg>' % val; cfg = {'var_limit': L, 'add_auto_styles': False}
                else:
                    xml = '<svg><config var-limit="%d"/><var v="%s"/><rect wh="1"/></svg>' % (L, val); cfg = {'add_auto_styles': False}
                add(xml, cfg, 'ok' if n <= L else 'VarLimitError', 'var len=%d L=%d' % (n, L))
                # growth through expansion, with LATER siblings that shorten what the value was built from: the value computed in
                # document order decides (a limit error is never retried into acceptance)
                if 2 <= n <= 400:
                    half = n // 2; rest = n - half
                    later = rng.choice(['<var b="x"/>', '<var b=""/><rect wh="1"/>', '<rect wh="2"/><var b="y" c="z"/>', ''])
                    xml = '<svg><var b="%s" c="%s"/><var a="$b$c"/>%s<rect wh="1" text="$a"/></svg>' % ('p' * half, 'q' * rest, later)
                    add(xml, {'var_limit': L, 'add_auto_styles': False}, 'ok' if n <= L else 'VarLimitError', 'varexp len=%d L=%d later=%s' % (n, L, bool(later)))
                if 2 <= n <= 400:
                    # a value that reaches the name without a <var> of its own (a group attribute, a for item) and is then assigned to
                    # itself: the assignment is checked like any other
                    val2 = 'y' * n
                    xml = rng.choice(['<svg><g big="%s"><var big="$big"/><rect wh="1"/></g></svg>' % val2,
                                      '<svg><for data="\'%s\'" var="it"><var it="$it"/><rect wh="1"/></for></svg>' % val2,
                                      '<svg><g big="%s"><var copy="$big" big="$big"/><rect wh="1"/></g></svg>' % val2])
                    add(xml, {'var_limit': L, 'add_auto_styles': False}, 'ok' if n <= L else 'VarLimitError', 'varself len=%d L=%d' % (n, L))
                if 4 <= L <= 300 and d in (0, 1):
                    # doubling loop: 1, 2, 4, ... reaches 2^k; reset afterwards
                    k = 0
                    while (1 << k) <= L: k += 1            # 2^k > L: the k-th doubling exceeds the limit
                    passes = k if d == 1 else k - 1
                    xml = '<svg><var s="x"/><loop count="%d"><var s="$s$s"/></loop><var s="x"/><rect wh="1"/></svg>' % passes
                    add(xml, {'var_limit': L, 'add_auto_styles': False}, 'ok' if (1 << passes) <= L else 'VarLimitError', 'vardouble passes=%d L=%d' % (passes, L))
                # depth
                if 2 <= n <= 140:
                    dd = depth_doc(rng, n)
                    if dd:
                        cfg = {'depth_limit': L, 'add_auto_styles': False}
                        add(dd, cfg, 'ok' if n <= L else 'DepthLimitExceeded', 'depth nesting=%d L=%d' % (n, L))
    # flat documents of any length are accepted whatever the depth limit allows for their nesting
    sizes = [10, 120, 500] if quick else [10, 120, 500, 1500, 5000]
    for n in sizes:
        for kind in ['rect', 'textcontent', 'defs', 'g', 'var', 'loop', 'textattr', 'forward', 'comment', 'lineargradient', 'if', 'reuse', 'nestedsvg', 'emptyg', 'symbol']:
            if kind == 'rect': body = '<rect xy="1 2" wh="3"/>' * n; need = 2
            elif kind == 'textcontent': body = '<text xy="1 2">t</text>' * n; need = 3      # content promotion costs a level (K16)
            elif kind == 'defs': body = '<defs><rect id="d" wh="1"/></defs>' * min(n, 600); need = 3
            elif kind == 'g': body = '<g><rect wh="1"/></g>' * n; need = 3
            elif kind == 'var': body = '<var a="1"/>' * n; need = 2
            elif kind == 'loop': body = '<loop count="2"><rect wh="1"/></loop>' * min(n, 800); need = 3
            elif kind == 'textattr': body = '<rect wh="5" text="a"/>' * n; need = 2
            elif kind == 'forward': body = '<rect xy="#z|h" wh="2"/>' * min(n, 300) + '<rect id="z" wh="3"/>'; need = 2
            elif kind == 'comment': body = '<!-- c --><rect wh="1"/>' * n; need = 2
            elif kind == 'lineargradient': body = '<linearGradient><stop offset="0"/></linearGradient>' * min(n, 800); need = 3
            elif kind == 'if': body = '<if test="1"><rect wh="1"/></if>' * min(n, 800); need = 3
            elif kind == 'nestedsvg': body = '<rect wh="1"/>' + '<svg xmlns="http://www.w3.org/2000/svg"><rect width="1" height="1"/></svg>' * min(n, 600); need = 3
            elif kind == 'emptyg': body = '<g class="k"/><g id="x"></g>' * min(n, 600); need = 2
            elif kind == 'symbol': body = '<symbol id="s"><rect wh="1"/></symbol><use href="#s"/>' * min(n, 400); need = 3
            else: body = '<specs><rect id="t" wh="2"/></specs>' + '<reuse href="#t"/>' * min(n, 800); need = 3
            for lim in (need, need + 1, 100):
                add('<svg>%s</svg>' % body, {'depth_limit': lim, 'add_auto_styles': False}, 'ok', 'flat %s x%d depth-limit=%d' % (kind, n, lim))
            if kind == 'textcontent' and n == sizes[0]:
                # nesting is 2 (svg > text): within a depth limit of 2 by the property (known finding K16)
                add('<svg>%s</svg>' % body, {'depth_limit': 2, 'add_auto_styles': False}, 'ok', 'content-text x%d depth-limit=2' % n)
    impl = lib.run_impl([c for c, _, _, _ in cases], timeout_ms=60000)
    seen = set()
    for c, expect, note, count in cases:
        st['evaluations'] += 1
        k = note.split(' ')[0]
        dist[k] = dist.get(k, 0) + 1
        key = (c.fields[0], c.fields[1])
        if key not in seen:
            seen.add(key); st['distinct_nontrivial'] += 1
        r = impl.get(c.id)
        if not r or r[0] not in ('OK', 'ERR'):
            yield {'kind': 'oracle', 'what': 'transform did not return a result or an error (%s): %s' % (note, r), 'case': c.to_json(), 'observed': r, 'expected': expect}
            continue
        got = 'ok' if r[0] == 'OK' else r[1]
        probe = r[2] if len(r) > 2 else ''
        # K16: a graphics element with character content re-enters the dispatcher and costs an extra level
        if got != expect:
            yield {'kind': 'oracle', 'what': 'limit verdict: %s -> %s, expected %s' % (note, got, expect), 'case': c.to_json(), 'observed': got, 'expected': expect, 'note': note}
            continue
        # the probe: stacks empty (the global scope may remain), depth 0 unless a depth error ended the run
        try:
            sh, eh, dp, sp = probe.split(',')
            okp = int(eh) == 0 and int(sh) <= 1 and sp == 'false' and (int(dp) == 0 or expect == 'DepthLimitExceeded')
        except ValueError:
            okp = False
        st['traces_validated_against_impl'] += 1
        if not okp:
            yield {'kind': 'correspondence', 'what': 'context not restored at the end of the transform (scope stack, element stack, depth, in-specs) = %s for %s' % (probe, note),
                   'case': c.to_json(), 'observed': probe, 'expected': '<=1,0,0,false'}
        if count is not None and r[0] == 'OK' and '<rect' in c.meta['doc'] and 'count' in note:
            nrect = unhx(r[1]).count('<rect')
            per = c.meta['doc'].split('<loop')[1].count('<rect')
            if nrect != count * per:
                yield {'kind': 'oracle', 'what': 'count loop of %d passes rendered %d of %d elements (%s): truncated' % (count, nrect, count * per, note), 'case': c.to_json(), 'observed': nrect, 'expected': count * per}
        if len(st['samples']) < 4 and ('L=3' in note or 'flat g' in note):
            st['samples'].append({'doc': c.meta['doc'][:300], 'cfg': c.meta['cfg'], 'expected': expect, 'got': got, 'probe': probe})


def classify(v, known):
    # K16: character content of a graphics element is promoted to the text attribute by re-entering the dispatcher,
    # which costs one more depth level than the element's nesting
    if v.get('kind') == 'oracle' and str(v.get('note', '')).startswith('content-text') and v.get('observed') == 'DepthLimitExceeded':
        return 'K16'
    return None


def replay_known(kf, ctx):
    lib = ctx['lib']
    d = open(os.path.join(lib.VERIF, kf['witness']), encoding='utf-8').read()
    r = lib.run_impl([doc_case('k', d, {'depth_limit': 2, 'add_auto_styles': False})]).get('k')
    return bool(r) and r[0] == 'ERR' and 'DepthLimitExceeded' in r[1]
