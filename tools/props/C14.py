"""C14 Expressions: conventional arithmetic semantics, evaluated exactly once; malformed ones fail."""
import os, re
from lib import Case, hx, unhx, enc_attrs, doc_case
import exprref as R
from exprref import Gen, NoValue, Pcg

DOC_MODEL = True     # every generated document also runs through the composed Coq model of the whole transform
RULE = ('expression trees to depth 8 over numbers (exactly representable and up-to-7-digit decimals), scalar / list / string '
        'variables incl. indirection chains, unary minus, * / % + -, the six comparison and three logical word operators, '
        'parentheses, comma lists and calls of all 53 built-in functions, rendered with minimal or redundant parentheses and '
        'random spacing, through the hooks eval_attr (with seed; observable = result text or error kind + the next word of the '
        'random stream), eval_condition and eval_list; plus constructed malformed expressions (unbalanced parentheses, unknown '
        'function, wrong arity, undefined / circular variable), a token mutation stream, an ASCII noise stream, nesting sweeps '
        'around the depth guard, attribute-level forms ($var, ${var}, several {{..}}, unterminated {{) and whole documents with '
        '{{random()}} occurrences in every attribute context. Implementation vs extracted Coq model: bit-exact text, error kind '
        'and stream word (libm-dependent results excluded); implementation vs the independent Python reference evaluator of the '
        'TREE: exact text for the arithmetic subset, tolerance 1e-5 relative + 0.0011 for libm. '
        'non-trivial = distinct (expression, variables, seed) whose tree has >= 3 nodes or which is a constructed malformed form')
THEOREM_NOTES = ('Props/C14.v: eval_print, eval_print_comma_list, variable_text_evaluates (evaluate (print a) = denote a at the stated fuel: '
                 'precedence, left associativity, unary minus, parentheses, lists, calls, variable indirection), cmp_logic_01, rem_nonneg (QOps), '
                 'draws_exact, eval_attr_idempotent_on_inert, malformed_rejected (+ unbalanced_parentheses_rejected, unknown_function_is_rejected, '
                 'undefined_variable_is_rejected, wrong_arity_rejected over the generated arity table, circular_variable_rejected (any cycle of '
                 'mentions), variable_being_expanded_is_refused, self_referential_variable_rejected), expr_no_panic, expr_depth_guard (never OutOfFuel with fuel_for), eval_attr_total, '
                 'hook_context_ok (the executed binary32 instance satisfies the hypotheses)')
ASSUMPTIONS = ['libm functions (log exp pow sin cos tan asin acos atan hypot atan2) are an oracle of the model: results depending on them are '
               'excluded from the bit-exact comparison and checked against Python math with tolerance',
               'the sign of a NaN is outside the model (SpecFloat has one NaN): min/max over a NaN argument are excluded from the bit-exact comparison',
               'strings hold bytes; non-ASCII characters only inside quoted strings and surrounding text',
               'variables are textual (eval_vars substitutes their text before tokenizing): the reference uses literal, parenthesised and '
               'argument-list variable texts, for which substitution and evaluation agree']
NEEDS_BINS = False

FUNCS = R.ALL_FUNCTIONS
SAFE_TEXT = ['', '', 'v=', 'translate(', ') ', ' ', 'x', 'rgb(', ', ', 'a b', '#', '%', 'é ']


def var_env(rng, oracle_safe=True):
    """variables of a case: list of (name, text) for the hook and name -> definition tree for the reference"""
    kinds = {}
    defs = {}
    order = []
    g0 = Gen(rng, {}, allow_random=False, allow_libm=False, allow_strings=False)
    for name in rng.sample(R.NAMES_NUM, rng.range(0, 4)):
        r = rng.below(10)
        if r < 6 or not order:
            t = ('num', R.gen_literal(rng))
            if rng.chance(0.2):
                t = ('neg', t)
        else:
            # indirection: a parenthesised expression over earlier variables (looked up by the evaluator)
            g = Gen(rng, {k: 'n' for k in order if kinds[k] == 'n'}, allow_random=False, allow_libm=False, allow_strings=False)
            t = ('par', [g.num(rng.range(1, 3))])
        kinds[name] = 'n'; defs[name] = t; order.append(name)
    for name in rng.sample(R.NAMES_LIST, rng.range(0, 2)):
        t = ('top', [g0.num(0) for _ in range(rng.range(1, 4))])
        kinds[name] = 'l'; defs[name] = t; order.append(name)
    for name in rng.sample(R.NAMES_STR, rng.range(0, 1)):
        kinds[name] = 's'; defs[name] = ('str', rng.choice(R.WORDS)); order.append(name)
    texts = [(k, R.render(defs[k], rng, extra=0.0, spacing=0.2)) for k in order]
    return kinds, defs, texts


def reference(tree, defs, seed):
    """(status, text, approx, next_word, calls)  status 'OK' | 'NOVALUE'"""
    prng = Pcg(seed)
    st = {'approx': False, 'open': []}
    try:
        v = R.ref_eval_top(tree, defs, prng, st)
    except NoValue as e:
        return ('NOVALUE', str(e), st['approx'], None, None)
    except (OverflowError, ValueError, ZeroDivisionError) as e:
        return ('NOVALUE', repr(e), st['approx'], None, None)
    return ('OK', R.display(v), st['approx'], prng.peek(), prng.calls)


NUM_RE = re.compile(r'-?\d+(?:\.\d+)?')


def close_text(a, b):
    """two result texts agree up to the libm tolerance: same text around the numbers, each number within
    1e-5 relative + 0.0011 (the three printed decimals)"""
    if NUM_RE.split(a) != NUM_RE.split(b):
        return False
    for x, y in zip(NUM_RE.findall(a), NUM_RE.findall(b)):
        fx = float(x); fy = float(y)
        if abs(fx - fy) > 0.0011 + 1e-5 * max(abs(fx), abs(fy)):
            return False
    return True


def mk_attr_case(cid, value, texts, seed, meta):
    return Case(cid, 'evalattr', [hx(value), enc_attrs(texts), str(seed)], meta)


# ------------------------------------------------------------------ malformed by construction
def malformed(rng, tree, kinds, defs, texts):
    """(expression text, variables, why) - an expression that must be rejected"""
    toks = R.tokens(tree, 0, rng, 0.1)
    why = rng.choice(['unbalanced', 'unbalanced', 'unknown_function', 'wrong_arity', 'undefined_variable', 'circular_variable'])
    texts = list(texts)
    if why == 'unbalanced':
        idx = [i for i, t in enumerate(toks) if t in '()']
        if idx and rng.chance(0.6):
            del toks[rng.choice(idx)]
        elif rng.chance(0.5):
            toks.insert(rng.below(len(toks) + 1), rng.choice(['(', ')']))
        else:
            toks = ['('] * rng.range(1, 3) + toks if rng.chance(0.5) else toks + [')'] * rng.range(1, 3)
        if sum(1 for t in toks if t == '(') == sum(1 for t in toks if t == ')'):
            toks.append(')')
    elif why == 'unknown_function':
        name = rng.choice(['foo', 'sine', 'Abs', 'sqr', 'maxx', 'rand', 'len', 'f1', '__', 'mod'])
        sub = ['1'] if rng.chance(0.5) else R.tokens(tree, 0, rng, 0.0)
        call = [name, '('] + sub + [')']
        if rng.chance(0.5):
            toks = call
        else:
            toks = toks + [rng.choice(['+', '*', '-', 'and', 'lt'])] + call
    elif why == 'wrong_arity':
        f = rng.choice(sorted(R.FIXED_ARITY))
        n = R.FIXED_ARITY[f]
        k = rng.choice([x for x in (0, 1, 2, 3, 4) if x != n])
        args = []
        for i in range(k):
            if i: args.append(',')
            args.append(rng.choice(["'s'", "'t'"]) if f in ('splitw', 'trim', '_', 'split') else rng.choice(['1', '2', '0.5']))
        call = [f, '('] + args + [')']
        toks = call if rng.chance(0.6) else ['1', '+'] + call if f not in ('swap', 'r2p', 'p2r', 'split', 'splitw', 'divmod', 'trim', '_') else call
    elif why == 'undefined_variable':
        name = rng.choice(['zz', 'undefined', 'q9', 'A'])
        v = '$' + name if rng.chance(0.6) else '${' + name + '}'
        toks = [v] if rng.chance(0.3) else toks + [rng.choice(['+', '*', 'or'])] + [v]
    else:
        n = rng.range(1, 3)
        names = ['cy%d' % i for i in range(n)]
        for i, nm in enumerate(names):
            nxt = names[(i + 1) % n]
            texts.append((nm, rng.choice(['$%s', '($%s + 1)', '2 * $%s', 'abs(${%s})']) % nxt))
        toks = ['$' + names[0]] if rng.chance(0.4) else toks + ['+', '$' + names[0]]
    return R.join_tokens(toks, rng, 0.2), texts, why


# ------------------------------------------------------------------ documents (single evaluation)
def gen_doc(rng, seed, with_id_expr=False, unterminated=False):
    """document without forward references with n occurrences of {{random()}}; returns (xml, n_total, markers)"""
    parts = []
    n = 0
    mark = 0
    vis = []          # regexes / markers for visible values
    nvar = 0
    for _ in range(rng.range(2, 7)):
        kind = rng.below(14)
        mark += 1
        e = '{{random()}}'
        if kind == 0:
            parts.append('<rect x="%s" y="%d" width="10" height="5" data-m="m%d"/>' % (e, rng.range(0, 50), mark)); n += 1
        elif kind == 1:
            parts.append('<circle cx="3" cy="%s" r="%s" data-m="m%d"/>' % (e, e, mark)); n += 2
        elif kind == 2:
            parts.append('<rect xy="0" wh="10" text="t%d:%s" data-q%d="%s"/>' % (mark, e, mark, e)); n += 2
        elif kind == 3:
            parts.append('<text xy="%d">c%d:%s</text>' % (rng.range(0, 9), mark, e)); n += 1
        elif kind == 4:
            nvar += 1
            parts.append('<var v%d="%s"/><rect xy="0" wh="$v%d" data-v%d="$v%d"/>' % (nvar, e, nvar, nvar, nvar)); n += 1
        elif kind == 5:
            parts.append('<rect xy="1" wh="5" _="k%d:%s"/>' % (mark, e)); n += 1
        elif kind == 6:
            k = rng.range(1, 3)
            if rng.chance(0.5):
                parts.append('<loop count="%d"><circle r="2" data-l%d="%s"/></loop>' % (k, mark, e)); n += k
            else:      # loop control holding an expression: randint(k, k) draws one word and gives k
                parts.append('<loop count="{{randint(%d, %d)}}"><circle r="2" data-l%d="%s"/></loop>' % (k, k, mark, e)); n += k + 1
        elif kind == 7:
            parts.append('<if test="{{random() lt 2}}"><ellipse rx="4" ry="%s" data-m="m%d"/></if>' % (e, mark)); n += 2
        elif kind == 8:
            parts.append('<line x1="0" y1="0" x2="%s" y2="{{1 + random()}}" data-m="m%d"/>' % (e, mark)); n += 2
        elif kind == 9:      # attributes of a group (and of a nested group)
            if rng.chance(0.5):
                parts.append('<g data-g%d="%s"><rect wh="2"/></g>' % (mark, e)); n += 1
            else:
                parts.append('<g data-g%d="%s" class="c%d"><g data-h%d="%s"><circle r="1" data-i%d="%s"/></g></g>' % (mark, e, mark, mark, e, mark, e)); n += 3
        elif kind == 10:     # attributes of other containers
            nm = rng.choice(['a', 'defs', 'symbol', 'clipPath', 'marker'])
            parts.append('<%s id="n%d" data-c%d="%s"><rect wh="2" data-j%d="%s"/></%s>' % (nm, mark, mark, e, mark, e, nm)); n += 2
        elif kind == 11:     # for loops: data list and body
            parts.append('<for var="i" data="1, 2"><rect wh="2" data-f%d="%s"/></for>' % (mark, e)); n += 2
        elif kind == 12:     # a shape with an explicit end tag and character content
            parts.append('<rect xy="0" wh="9" data-k%d="%s">w%d:%s</rect>' % (mark, e, mark, e)); n += 2
        else:                # use of an earlier element
            parts.append('<rect id="u%d" wh="2"/><use href="#u%d" data-u%d="%s"/>' % (mark, mark, mark, e)); n += 1
    if with_id_expr:
        parts.insert(rng.below(len(parts) + 1), '<rect id="a{{randint(0, 1000)}}" xy="0" wh="3"/>'); n += 1
    if unterminated:
        parts.insert(rng.below(len(parts) + 1), '<rect xy="0" wh="3" data-u="a {{1 + 1"/>')
    parts.append('<rect xy="0" wh="1" data-end="{{random()}}"/>'); n += 1
    return '<svg>' + ''.join(parts) + '</svg>', n


def gen_value_doc(rng, di):
    """a document whose attribute / text / var / comment / if-test contexts hold arithmetic expressions;
    returns (xml, [(regex, expected text)], [(marker, expected presence)])"""
    kinds, defs, texts = {}, {}, []
    g = Gen(rng, {}, allow_random=False, allow_libm=False, allow_strings=False)
    parts = []; expect = []; present = []
    for k in range(rng.range(2, 5)):
        tree = ('top', [g.num(rng.range(1, 4))])
        ref = reference(tree, defs, 0)
        if ref[0] != 'OK' or ref[2]:
            continue
        expr = R.render(tree, rng, 0.1, 0.3).replace('\t', ' ')
        if any(ch in expr for ch in '<>&"'):
            continue
        ctxk = rng.below(6)
        tag = 'q%dx%d' % (di, k)
        if ctxk == 0:
            parts.append('<rect xy="0" wh="2" data-%s="{{%s}}"/>' % (tag, expr)); expect.append(('data-%s="([^"]*)"' % tag, ref[1]))
        elif ctxk == 1:
            parts.append('<rect xy="0" wh="2" text="%s:{{%s}}:"/>' % (tag, expr)); expect.append(('%s:([^:<]*):' % tag, ref[1]))
        elif ctxk == 2:
            parts.append('<text xy="0">%s:{{%s}}:</text>' % (tag, expr)); expect.append(('%s:([^:<]*):' % tag, ref[1]))
        elif ctxk == 3:
            parts.append('<var %s="{{%s}}"/><rect xy="0" wh="2" data-%s="$%s"/>' % (tag, expr, tag, tag)); expect.append(('data-%s="([^"]*)"' % tag, ref[1]))
        elif ctxk == 4:
            parts.append('<rect xy="0" wh="2" _="%s:{{%s}}:"/>' % (tag, expr)); expect.append(('%s:([^:<]*):' % tag, ref[1]))
        else:
            try:
                truth = float(ref[1]) != 0
            except ValueError:
                continue
            parts.append('<if test="{{%s}}"><rect xy="0" wh="2" data-%s="in"/></if>' % (expr, tag)); present.append(('data-%s="in"' % tag, truth))
    return '<svg>' + ''.join(parts) + '</svg>', expect, present


def doc_values(xml_out):
    """all three-decimal values below 1 that appear in the output as the result of a {{random()}} carrier"""
    return re.findall(r'(?<![\d.])0(?:\.\d{1,3})?(?![\d.])', xml_out)


# ------------------------------------------------------------------ run
def run(ctx):
    """violations ordered: oracle hits first, smallest input first (the first one becomes the replay file)"""
    found = list(run_all(ctx))
    found.sort(key=lambda v: (v.get('kind') != 'oracle', len(str(v.get('case', {}).get('meta', {}).get('value', '')))))
    yield from found


def run_all(ctx):
    rng = ctx['rng']; lib = ctx['lib']; st = ctx['stats']; dist = st['distribution']
    quick = ctx['tier'] == 'quick'
    scale = 1 if quick else 30
    cases = []
    trees = {}
    replay_case = None
    if ctx.get('replay'):
        import json
        j = json.load(open(ctx['replay']))
        v = j.get('violation') or (j.get('correspondence_cases') or [None])[0]
        if v and v.get('case'):
            replay_case = Case.from_json(v['case'])

    def count(k, n=1):
        dist[k] = dist.get(k, 0) + n

    # ---- S0: corpus (kept cases)
    cdir = os.path.join(lib.VERIF, 'corpus', 'C14')
    if os.path.isdir(cdir):
        for fn in sorted(os.listdir(cdir)):
            if fn.endswith('.expr'):
                for ln, line in enumerate(open(os.path.join(cdir, fn), encoding='utf-8')):
                    line = line.rstrip('\n')
                    if line and not line.startswith('#'):
                        unterminated = '{{' in line and '}}' not in line[line.rindex('{{'):]
                        cases.append(mk_attr_case('k%s_%d' % (fn[:-5], ln), line, [], 0,
                                                  {'stream': 'corpus', 'value': line, 'vars': [], 'unterminated': unterminated}))
                        count('corpus')

    # ---- S1: trees through eval_attr
    n1 = 2600 * scale
    for i in range(n1):
        kinds, defs, texts = var_env(rng)
        libm = rng.chance(0.08)
        g = Gen(rng, kinds, allow_random=True, allow_libm=False)
        d = rng.choice([1, 2, 2, 3, 3, 4, 4, 5, 6, 7, 8])
        if libm:
            # libm results only through continuous arithmetic: f(x), f(x) * c + g(y)
            gl = Gen(rng, {}, allow_random=False, allow_libm=False)
            def lc():
                f = rng.choice(['sin', 'cos', 'tan', 'asin', 'acos', 'atan', 'log', 'exp', 'pow', 'sqrt'])
                if f == 'pow': return ('call', f, [('num', rng.choice(['2', '1.5', '10', '0.5', '3'])), ('num', rng.choice(['2', '0.5', '3', '1.5', '0']))])
                if f in ('asin', 'acos'): return ('call', f, [('num', rng.choice(['0', '0.5', '1', '0.25', '0.7071']))])
                if f == 'log': return ('call', f, [('num', rng.choice(['1', '2', '10', '0.5', '2.718282', '100']))])
                if f == 'exp': return ('call', f, [('num', rng.choice(['0', '1', '2', '0.5', '3.5']))])
                if f == 'tan': return ('call', f, [('num', rng.choice(['0', '30', '45', '60', '10', '135']))])
                return ('call', f, [('num', rng.choice(['0', '30', '45', '60', '90', '180', '270', '12.5', '1', '2', '400']))])
            t = lc()
            if rng.chance(0.5): t = ('bin', rng.choice(['+', '-', '*']), t, rng.choice([lc(), ('num', rng.choice(['2', '0.5', '10']))]))
            if rng.chance(0.3): t = ('top', [t, ('call', rng.choice(['r2p', 'p2r']), [('num', rng.choice(['3', '1', '10', '2.5'])), ('num', rng.choice(['4', '30', '90', '45']))])])
            else: t = ('top', [t])
            tree = t
        else:
            tree = g.any_top(d)
        seed = rng.choice([0, 0, 1, 42, rng.below(2 ** 32), rng.below(2 ** 64)])
        expr = R.render(tree, rng, extra=rng.choice([0.0, 0.1, 0.3]), spacing=rng.choice([0.0, 0.3, 0.8]))
        pre = rng.choice(SAFE_TEXT); post = rng.choice(SAFE_TEXT)
        value = pre + '{{' + expr + '}}' + post
        ref = reference(tree, defs, seed)
        meta = {'stream': 'tree', 'value': value, 'vars': texts, 'seed': seed, 'nodes': R.count_nodes(tree), 'depth': R.depth(tree),
                'ops': sorted(R.functions_used(tree)), 'libm': libm}
        if ref[0] == 'OK':
            meta['expect'] = {'text': pre + ref[1] + post, 'approx': ref[2], 'word': ref[3], 'calls': ref[4]}
        cases.append(mk_attr_case('t%d' % i, value, texts, seed, meta))
        trees['t%d' % i] = (tree, defs)
        count('tree_depth_%d' % min(R.depth(tree), 9))
    # ---- S2: the lookup path (no textual substitution): eval_condition / eval_list
    for i in range(500 * scale):
        kinds, defs, texts = var_env(rng)
        g = Gen(rng, kinds, allow_random=False, allow_libm=False)
        if rng.chance(0.5):
            tree = ('top', [g.num(rng.range(1, 5))])
            expr = R.render(tree, rng, extra=0.1, spacing=0.3)
            value = '{{' + expr + '}}' if rng.chance(0.3) else expr
            ref = reference(tree, defs, 0)
            meta = {'stream': 'cond', 'value': value, 'vars': texts, 'nodes': R.count_nodes(tree), 'ops': sorted(R.functions_used(tree))}
            if ref[0] == 'OK' and not ref[2]:
                try:
                    x = float(ref[1]) if ref[1] not in ('NaN', 'inf', '-inf') else None
                except ValueError:
                    x = None          # not a single number (empty list, several items): no expectation
                if x is not None:
                    meta['expect'] = {'cond': x != 0}
            cases.append(Case('c%d' % i, 'evalcond', [hx(value), enc_attrs(texts)], meta))
            count('cond')
        else:
            tree = g.any_top(rng.range(1, 4))
            expr = R.render(tree, rng, extra=0.1, spacing=0.3)
            value = '{{' + expr + '}}' if rng.chance(0.3) else expr
            prng = Pcg(0); stt = {'approx': False, 'open': []}
            meta = {'stream': 'list', 'value': value, 'vars': texts, 'nodes': R.count_nodes(tree), 'ops': sorted(R.functions_used(tree))}
            try:
                v = R.ref_eval_top(tree, defs, prng, stt)
                if not stt['approx']:
                    meta['expect'] = {'list': R.raw_strings(v)}
            except (NoValue, OverflowError, ValueError, ZeroDivisionError):
                pass
            cases.append(Case('l%d' % i, 'evallist', [hx(value), enc_attrs(texts)], meta))
            count('list')
    # ---- S3: malformed by construction
    for i in range(600 * scale):
        kinds, defs, texts = var_env(rng)
        g = Gen(rng, kinds, allow_random=rng.chance(0.3), allow_libm=False)
        tree = ('top', [g.num(rng.range(1, 4))])
        expr, texts2, why = malformed(rng, tree, kinds, defs, texts)
        value = '{{' + expr + '}}'
        seed = rng.choice([0, 7])
        if rng.chance(0.8):
            cases.append(mk_attr_case('m%d' % i, value, texts2, seed, {'stream': 'malformed', 'why': why, 'value': value, 'vars': texts2, 'seed': seed, 'expect_err': True}))
        else:
            cases.append(Case('m%d' % i, rng.choice(['evalcond', 'evallist']), [hx(expr), enc_attrs(texts2)],
                              {'stream': 'malformed', 'why': why, 'value': expr, 'vars': texts2, 'expect_err': True}))
        count('malformed_' + why)
    # ---- S4: token mutations of well-formed expressions (correspondence, totality)
    pool = ['(', ')', ',', '+', '-', '*', '/', '%', 'and', 'lt', 'eq', '1', '0.5', '$a', '${b}', "'s'", 'max', 'random', '#a~w', '^~h', '"', "'", 'nan', 'inf', '1e', '$', '_']
    for i in range(900 * scale):
        kinds, defs, texts = var_env(rng)
        g = Gen(rng, kinds, allow_random=rng.chance(0.5), allow_libm=False)
        toks = R.tokens(g.any_top(rng.range(1, 5)), 0, rng, 0.1)
        for _ in range(rng.range(1, 3)):
            r = rng.below(4)
            if r == 0 and toks: del toks[rng.below(len(toks))]
            elif r == 1 and toks:
                j = rng.below(len(toks)); toks.insert(j, toks[j])
            elif r == 2: toks.insert(rng.below(len(toks) + 1), rng.choice(pool))
            elif toks:
                j = rng.below(len(toks)); k = rng.below(len(toks)); toks[j], toks[k] = toks[k], toks[j]
        expr = R.join_tokens(toks, rng, 0.3)
        value = '{{' + expr + '}}'
        seed = rng.choice([0, 3])
        kind = rng.choice(['evalattr', 'evalattr', 'evalcond', 'evallist'])
        meta = {'stream': 'mutation', 'value': value if kind == 'evalattr' else expr, 'vars': texts, 'seed': seed}
        if kind == 'evalattr':
            cases.append(mk_attr_case('u%d' % i, value, texts, seed, meta))
        else:
            cases.append(Case('u%d' % i, kind, [hx(expr), enc_attrs(texts)], meta))
        count('mutation')
    # ---- S5: noise over the expression alphabet
    alpha = list('0123456789.+-*/%(),\'" \t$#^~{}_\\eEnaxXlt') + ['and ', 'max(', 'é', '{{', '}}', '${', 'inf', '1e5', '$a', '\n']
    for i in range(500 * scale):
        n = rng.range(0, 24)
        s = ''.join(rng.choice(alpha) for _ in range(n))
        if rng.chance(0.6): s = '{{' + s + '}}'
        texts = [('a', rng.choice(['1', '$a', '(2', '1, 2', "'q'", '', '$b + 1'])), ('b', rng.choice(['2', '$a', ')']))] if rng.chance(0.5) else []
        kind = rng.choice(['evalattr', 'evalattr', 'evalcond', 'evallist'])
        meta = {'stream': 'noise', 'value': s, 'vars': texts, 'seed': 0}
        if kind == 'evalattr':
            cases.append(mk_attr_case('z%d' % i, s, texts, 0, meta))
        else:
            cases.append(Case('z%d' % i, kind, [hx(s), enc_attrs(texts)], meta))
        count('noise')
    # ---- S6: nesting around the depth guard (parentheses, unary minus, calls, variable chains)
    guard = 100
    try:
        guard = int(re.search(r'Definition max_expr_depth : nat := (\d+)\.', open(os.path.join(lib.COQ, 'Gen', 'Tables.v')).read()).group(1))
    except Exception:
        pass
    sweeps = sorted(set([1, 2, guard // 2, guard - 2, guard - 1, guard, guard + 1, guard + 2, guard + 50, 10 * guard] + ([] if quick else [20000, 200000])))
    for d in sweeps:
        for form in ('paren', 'minus', 'call', 'chain', 'mixed'):
            texts = []
            if form == 'paren': e = '(' * d + '1' + ')' * d
            elif form == 'minus': e = '-' * d + '1'
            elif form == 'call': e = 'abs(' * d + '1' + ')' * d
            elif form == 'mixed': e = '-(' * (d // 2) + ('-' if d % 2 else '') + '1' + ')' * (d // 2)
            else:
                if d > 1000: continue
                texts = [('v%d' % j, '$v%d' % (j + 1)) for j in range(d - 1)] + [('v%d' % (d - 1), '1')]
                e = '$v0'
            # nesting the code counts: one level per '(' , unary minus, call, variable indirection, plus the literal itself
            levels = {'paren': d + 1, 'minus': d + 1, 'call': d + 1, 'mixed': d + 1, 'chain': d + 1}[form]
            meta = {'stream': 'depth', 'form': form, 'd': d, 'value': '{{' + e[:60] + ('...' if len(e) > 60 else '') + '}}', 'vars': texts[:3], 'seed': 0,
                    'levels': levels}
            cases.append(mk_attr_case('g%s%d' % (form, d), '{{' + e + '}}', texts, 0, meta))
            count('depth_sweep')
    # ---- S7: attribute-level forms
    for i in range(400 * scale):
        kinds, defs, texts = var_env(rng)
        g = Gen(rng, kinds, allow_random=rng.chance(0.4), allow_libm=False)
        k = rng.range(1, 3)
        seed = rng.choice([0, 5])
        prng = Pcg(seed); stt = {'approx': False, 'open': []}
        value = rng.choice(SAFE_TEXT); exp = value; ok = True
        for _ in range(k):
            tree = g.any_top(rng.range(0, 3))
            value += '{{' + R.render(tree, rng, 0.1, 0.3) + '}}'
            try:
                exp += R.display(R.ref_eval_top(tree, defs, prng, stt))
            except (NoValue, OverflowError, ValueError, ZeroDivisionError):
                ok = False
            t = rng.choice(SAFE_TEXT); value += t; exp += t
        meta = {'stream': 'attr', 'value': value, 'vars': texts, 'seed': seed, 'nodes': 3}
        form = rng.below(10)
        if form == 0:
            # textual variable reference outside any expression
            if texts:
                nm, tx = rng.choice(texts)
                value += ' $' + nm + ' ${' + nm + '}'; exp += ' ' + tx + ' ' + tx
        elif form == 1:
            value += ' $nosuch ${nosuch}'; exp += ' $nosuch ${nosuch}'
        elif form == 2:
            value += ' {{1 + 1'; ok = False; meta['unterminated'] = True
        elif form == 3:
            value += '{{' + rng.choice(['', ' ', '}', '1}', ')']) + '}}'; ok = False
        meta['value'] = value
        if ok and not stt['approx']:
            meta['expect'] = {'text': exp, 'approx': False, 'word': prng.peek(), 'calls': prng.calls}
        cases.append(mk_attr_case('a%d' % i, value, texts, seed, meta))
        count('attr')
    # ---- the random stream itself
    for sd in [0, 1, 42, 2 ** 32 + 5, rng.below(2 ** 63)]:
        p = Pcg(sd)
        cases.append(mk_attr_case('w%d' % sd, '', [], sd, {'stream': 'rng', 'value': '', 'vars': [], 'seed': sd, 'expect': {'text': '', 'approx': False, 'word': p.peek(), 'calls': 0}}))

    if replay_case is not None:
        cases = [replay_case]; trees = {}
    impl = lib.run_impl(cases, timeout_ms=20000)
    model = lib.run_model(cases) if ctx['model_ok'] else {}
    seen = set()
    fn_seen = set()
    to_shrink = []
    def judge(c, i, mo):
            st['evaluations'] += 1
            m = c.meta
            key = (c.kind,) + tuple(c.fields)
            nontrivial = m.get('nodes', 0) >= 3 or m['stream'] in ('malformed', 'depth')
            if key not in seen and nontrivial:
                seen.add(key); st['distinct_nontrivial'] += 1
            fn_seen.update(m.get('ops', []))
            desc = '%s %s vars=%s' % (c.kind, m['value'][:300], m.get('vars', [])[:6])
            # ---- totality (the evaluator part of C01): a result or an error, never a crash or a hang
            if not i or i[0] not in ('OK', 'ERR'):
                yield {'kind': 'oracle', 'what': 'evaluation neither returned a value nor failed cleanly (%s): %s' % (i, desc),
                       'case': c.to_json(), 'observed': i, 'expected': 'OK or ERR'}
                return
            # ---- correspondence with the extracted model
            if mo is not None:
                # OtherError is the model's "outside the bit-exact instance" outcome (libm, sign of a NaN); the code never produces it
                approx = mo[0] == 'ERR' and mo[1] == 'OtherError'
                if approx:
                    count('model_skipped_libm_or_nan')
                elif mo[0] == 'TIMEOUT':
                    count('model_budget_exceeded')       # the driver's per-case budget (very deep nesting sweeps): no model answer
                else:
                    st['traces_validated_against_impl'] += 1
                    if mo[0] == 'OK':
                        same = i[0] == 'OK' and i[1:] == mo[1:len(i)]
                    elif mo[0] == 'ERR':
                        same = i[0] == 'ERR' and i[1] == mo[1]
                    else:
                        same = False
                    if not same:
                        yield {'kind': 'correspondence', 'what': 'model and implementation disagree on %s: impl %s, model %s' % (desc, show(i), show(mo)),
                               'case': c.to_json(), 'observed': show(i), 'expected': show(mo)}
            # ---- oracle: the property on the implementation's result
            if m.get('expect_err'):
                if i[0] != 'ERR':
                    yield {'kind': 'oracle', 'what': 'malformed expression (%s) yielded a value instead of failing: %s -> %s' % (m['why'], desc, show(i)),
                           'case': c.to_json(), 'observed': show(i), 'expected': 'ERR'}
                return
            if m['stream'] == 'depth':
                # well-formed nesting: below the guard the value is 1 (or -1), above it a clean error
                if i[0] == 'OK':
                    txt = unhx(i[1])
                    minus = m['d'] if m['form'] == 'minus' else (m['d'] // 2 + m['d'] % 2 if m['form'] == 'mixed' else 0)
                    want = '-1' if minus % 2 else '1'
                    if txt != want:
                        yield {'kind': 'oracle', 'what': 'nested expression %s (depth %d) evaluated to %s, expected %s' % (m['form'], m['d'], txt, want),
                               'case': c.to_json(), 'observed': txt, 'expected': want}
                return
            e = m.get('expect')
            if e is None:
                if m.get('unterminated') and i[0] == 'OK' and '{{' not in unhx(i[1]):
                    yield {'kind': 'oracle', 'what': 'unterminated {{ neither evaluated nor rejected, its braces are silently dropped: %s -> %s' % (desc, unhx(i[1])),
                           'case': c.to_json(), 'observed': unhx(i[1]), 'expected': 'an error, or the text unchanged'}
                return
            if 'cond' in e:
                if i[0] != 'OK' or i[1] != ('true' if e['cond'] else 'false'):
                    yield {'kind': 'oracle', 'what': 'condition %s: implementation %s, reference %s' % (desc, show(i), e['cond']),
                           'case': c.to_json(), 'observed': show(i), 'expected': e['cond']}
                return
            if 'list' in e:
                got = [unhx(x) for x in i[1].split(',')] if i[0] == 'OK' and i[1] else ([] if i[0] == 'OK' else None)
                if got != e['list'] and not (got == [] and e['list'] == ['']):      # [] and [""] have the same encoding
                    yield {'kind': 'oracle', 'what': 'list %s: implementation %s, reference %s' % (desc, got if got is not None else show(i), e['list']),
                           'case': c.to_json(), 'observed': got if got is not None else show(i), 'expected': e['list']}
                return
            if i[0] != 'OK':
                yield {'kind': 'oracle', 'what': 'well-formed expression rejected (%s): %s, reference value %s' % (i[1], desc, e['text']),
                       'case': c.to_json(), 'observed': show(i), 'expected': e['text']}
                if c.id in trees and len(to_shrink) < 4:
                    to_shrink.append(c)
                return
            got = unhx(i[1])
            okv = close_text(got, e['text']) if e['approx'] else got == e['text']
            if not okv:
                yield {'kind': 'oracle', 'what': 'value differs from conventional semantics: %s -> %s, reference %s' % (desc, got, e['text']),
                       'case': c.to_json(), 'observed': got, 'expected': e['text']}
                if c.id in trees and len(to_shrink) < 4:
                    to_shrink.append(c)
            elif str(e['word']) != i[2]:
                yield {'kind': 'oracle', 'what': 'random stream position after evaluation differs (expected %d random calls): %s -> next word %s, reference %s'
                       % (e['calls'], desc, i[2], e['word']), 'case': c.to_json(), 'observed': i[2], 'expected': e['word']}
            if len(st['samples']) < 6 and m.get('nodes', 0) >= 5 and m['stream'] == 'tree':
                st['samples'].append({'value': m['value'], 'vars': m['vars'], 'seed': m.get('seed'), 'impl': got, 'reference': e['text']})

    for c in cases:
        yield from judge(c, impl.get(c.id), model.get(c.id))
    # ---- shrink: the smallest sub-tree of a failing tree on which the implementation still differs
    for c in to_shrink:
        tree, defs = trees[c.id]
        subs = []

        def walk(t):
            if t[0] in ('neg',):
                subs.append(t); walk(t[1])
            elif t[0] in ('bin', 'cmp', 'log'):
                subs.append(t); walk(t[2]); walk(t[3])
            elif t[0] in ('par', 'top'):
                if t[0] == 'par': subs.append(t)
                for x in t[1]: walk(x)
            elif t[0] == 'call':
                subs.append(t)
                for x in t[2]: walk(x)
        walk(tree)
        scs = []
        for k, sub in enumerate(subs[:200]):
            st_ = ('top', [sub])
            ref = reference(st_, defs, c.meta['seed'])
            if ref[0] != 'OK':
                continue
            value = '{{' + R.render(st_, rng, extra=0.0, spacing=0.0) + '}}'
            scs.append(mk_attr_case('%s_s%d' % (c.id, k), value, c.meta['vars'], c.meta['seed'],
                                    {'stream': 'shrunk', 'value': value, 'vars': c.meta['vars'], 'seed': c.meta['seed'],
                                     'expect': {'text': ref[1], 'approx': ref[2], 'word': ref[3], 'calls': ref[4]}}))
        sres = lib.run_impl(scs)
        best = None
        for sc in scs:
            r = sres.get(sc.id); e = sc.meta['expect']
            if not r:
                continue
            got = unhx(r[1]) if r[0] == 'OK' else None
            bad = got is None or not (close_text(got, e['text']) if e['approx'] else got == e['text'])
            if bad and (best is None or len(sc.meta['value']) < len(best[0].meta['value'])):
                best = (sc, got if got is not None else show(r))
        if best:
            sc, got = best
            yield {'kind': 'oracle', 'what': 'value differs from conventional semantics (shrunk from a larger tree): evalattr %s vars=%s -> %s, reference %s'
                   % (sc.meta['value'], sc.meta['vars'], got, sc.meta['expect']['text']), 'case': sc.to_json(), 'observed': got,
                   'expected': sc.meta['expect']['text']}
    dist['functions_and_operators_exercised'] = len(fn_seen)
    missing = [f for f in FUNCS if f not in fn_seen]
    if missing and not quick:
        dist['functions_not_exercised'] = missing

    if replay_case is not None:
        if replay_case.kind == 'doc':
            r = impl.get(replay_case.id); m = replay_case.meta
            if r and r[0] == 'OK':
                msg = check_doc(bytes.fromhex(r[1]).decode('utf-8', 'replace'), m['n'], m['seed'])
                if msg:
                    yield {'kind': 'oracle', 'what': msg, 'case': replay_case.to_json(), 'observed': r, 'expected': msg}
        return
    # ---- S8: whole documents: every occurrence of {{random()}} draws exactly once
    docs = []
    if os.path.isdir(cdir):
        for fn in sorted(os.listdir(cdir)):
            if fn.endswith('.xml'):
                xml = open(os.path.join(cdir, fn), encoding='utf-8').read()
                n = xml.count('random()') + xml.count('randint(')
                docs.append((doc_case('dk' + fn[:-4], xml, {'add_auto_styles': False, 'seed': 0},
                                      {'stream': 'doc', 'value': xml, 'seed': 0, 'n': n, 'id_expr': 'id="a{{' in xml, 'unterminated': False}), xml, n, 0))
    for di in range(60 if quick else 1500):
        seed = rng.choice([0, 1, 9, rng.below(1000)])
        with_id = rng.chance(0.06); unterm = rng.chance(0.05)
        xml, n = gen_doc(rng, seed, with_id, unterm)
        docs.append((doc_case('d%d' % di, xml, {'add_auto_styles': False, 'seed': seed},
                              {'stream': 'doc', 'value': xml, 'seed': seed, 'n': n, 'id_expr': with_id, 'unterminated': unterm}), xml, n, seed))
    dres = lib.run_impl([d[0] for d in docs])
    for c, xml, n, seed in docs:
        st['evaluations'] += 1; st['distinct_nontrivial'] += 1
        count('documents')
        r = dres.get(c.id)
        if not r or r[0] != 'OK':
            yield {'kind': 'oracle', 'what': 'document with %d {{random()}} occurrences rejected: %s; %s' % (n, r, xml[:400]),
                   'case': c.to_json(), 'observed': r, 'expected': 'OK'}
            continue
        out = bytes.fromhex(r[1]).decode('utf-8', 'replace')
        msg = check_doc(out, n, seed)
        if msg:
            yield {'kind': 'oracle', 'what': '%s; document %s' % (msg, xml[:600]), 'case': c.to_json(), 'observed': out[:1500], 'expected': msg}
        if c.meta['unterminated'] and 'data-u="a {{1 + 1"' not in out:
            yield {'kind': 'oracle', 'what': 'unterminated {{ in an attribute neither evaluated nor rejected, its braces are silently dropped; document %s' % xml[:600],
                   'case': c.to_json(), 'observed': re.findall(r'data-u="[^"]*"', out), 'expected': 'an error, or the text unchanged'}
    yield from run_value_docs(ctx, count)


def run_value_docs(ctx, count):
    rng = ctx['rng']; lib = ctx['lib']; st = ctx['stats']; dist = st['distribution']
    vdocs = []
    for di in range(40 if ctx['tier'] == 'quick' else 1000):
        xml, expect, present = gen_value_doc(rng, di)
        if expect or present:
            vdocs.append((doc_case('v%d' % di, xml, {'add_auto_styles': False}, {'stream': 'valuedoc', 'value': xml}), xml, expect, present))
    vres = lib.run_impl([d[0] for d in vdocs])
    for c, xml, expect, present in vdocs:
        st['evaluations'] += 1; st['distinct_nontrivial'] += 1
        dist['value_documents'] = dist.get('value_documents', 0) + 1
        r = vres.get(c.id)
        if not r or r[0] != 'OK':
            yield {'kind': 'oracle', 'what': 'document with well-formed expressions rejected: %s; %s' % (r, xml[:500]), 'case': c.to_json(), 'observed': r, 'expected': 'OK'}
            continue
        out = bytes.fromhex(r[1]).decode('utf-8', 'replace')
        for rx, want in expect:
            mm = re.search(rx, out)
            if not mm or mm.group(1) != want:
                yield {'kind': 'oracle', 'what': 'expression in a document context evaluated to %s, reference %s; document %s'
                       % (mm.group(1) if mm else 'nothing', want, xml[:500]), 'case': c.to_json(), 'observed': out[:800], 'expected': want}
                break
        for marker, truth in present:
            if (marker in out) != truth:
                yield {'kind': 'oracle', 'what': 'if test: element %s, reference condition %s; document %s'
                       % ('present' if marker in out else 'absent', truth, xml[:500]), 'case': c.to_json(), 'observed': out[:800], 'expected': truth}
                break


def check_doc(out, n, seed):
    p = Pcg(seed)
    stream = [R.ref_fstr(R.f32(p.random())) for _ in range(n)]
    m = re.search(r'data-end="([^"]*)"', out)
    if not m:
        return 'sentinel attribute missing from the output'
    if m.group(1) != stream[-1]:
        where = [k for k, v in enumerate(Pcg_stream(seed, n + 8)) if v == m.group(1)]
        return ('the %d {{random()}} occurrences of the document did not advance the stream exactly %d times: the last occurrence shows %s, '
                'value number %d of the stream is %s (that value is at position %s)' % (n, n, m.group(1), n, stream[-1], [w + 1 for w in where][:3]))
    return None


def Pcg_stream(seed, n):
    p = Pcg(seed)
    return [R.ref_fstr(R.f32(p.random())) for _ in range(n)]


def show(r):
    if not r:
        return str(r)
    out = [r[0]]
    for k, f in enumerate(r[1:]):
        if r[0] == 'OK' and k == 0 and re.fullmatch(r'(?:[0-9a-f]{2})*', f or ''):
            out.append(repr(unhx(f)))
        elif r[0] == 'OK' and ',' in f and re.fullmatch(r'[0-9a-f,]*', f):
            out.append(repr([unhx(x) for x in f.split(',')]))
        else:
            out.append(f)
    return ' '.join(out)


# ------------------------------------------------------------------ known findings
def classify(v, known):
    ids = {k.get('id') for k in known}
    c = v.get('case', {}); m = c.get('meta', {})
    if v.get('kind') != 'oracle':
        return None
    # K4: an `id` attribute holding a random expression is evaluated twice (update_element evaluates it at registration)
    if 'K4' in ids and m.get('stream') == 'doc' and m.get('id_expr') and 'did not advance the stream exactly' in v.get('what', ''):
        return 'K4'
    # K19: '{{' without a closing '}}' in an attribute value: neither evaluated nor rejected, the braces disappear
    if 'K19' in ids and m.get('unterminated') and 'unterminated {{' in v.get('what', ''):
        return 'K19'
    return None


def replay_known(kf, ctx):
    lib = ctx['lib']
    path = os.path.join(lib.VERIF, kf['witness'])
    if kf.get('id') == 'K4':
        xml = open(path).read()
        r = lib.run_impl([doc_case('k', xml, {'add_auto_styles': False, 'seed': 0})]).get('k')
        if not r or r[0] != 'OK':
            return False
        out = bytes.fromhex(r[1]).decode('utf-8', 'replace')
        n = xml.count('random()') + xml.count('randint(')
        return check_doc(out, n, 0) is not None
    if kf.get('id') == 'K19':
        value = open(path).read().rstrip('\n')
        r = lib.run_impl([mk_attr_case('k', value, [], 0, {})]).get('k')
        return bool(r) and r[0] == 'OK' and '{{' not in unhx(r[1])
    return True
