"""C06 Determinism: same input and configuration give the same bytes (or the same error), every time."""
import os, subprocess
from lib import Case, hx, unhx, doc_case, enc_cfg, cfg_cli
import lib, gen_tables

NEEDS_BINS = True
RULE = ('(1) random stream: attribute values made of random()/randint(a,b) calls (64 outputs per case, ranges incl. full i32, '
        'swapped bounds) for many seeds through the evalattr hook, compared exactly (text and next raw word) with the extracted '
        'Coq model Rng.v; (2) theme builder on class sets with >= 2 members of one pattern family in several permutations vs the '
        'model; (3) repeat-run oracle: every generated document (several pattern classes, random functions in attributes and '
        'loops, several failing elements, reuse with attribute overrides, variables) is transformed 3 times in each of 3 fresh '
        'harness processes (fresh hash seeds) - output bytes / error Display and Debug text must coincide - and a sample through '
        'the svgdx CLI 3 times (exit code, stdout, stderr). non-trivial = distinct document with an order- or seed-sensitive feature')
THEOREM_NOTES = ('Props/C06.v: theme_order_independent, pattern_classes_sorted, auto_styles_order_independent, rng_function_of_seed, '
                 'rng_draws_compose, rng_state_update_pure, rng_seed_well_formed, random_unit_interval, randint_in_range')
ASSUMPTIONS = ['use_local_styles = false (the randomised root id is the permitted exception)',
               'MultiError display and reuse attribute iteration are not modelled in Coq; they are covered by the repeat-run oracle only',
               'hash-seed variation is exercised by fresh processes (std RandomState), not enumerated']


def rng_cases(rng, quick):
    cases = []
    seeds = [0, 1, 42, 0xdeadbeefcafef00d, 2 ** 64 - 1, 2 ** 63, 12345678901234567890 % 2 ** 64]
    seeds += [rng.next() for _ in range(60 if quick else 4000)] + [rng.below(1000) for _ in range(40 if quick else 1000)]
    for si, seed in enumerate(seeds):
        vals = [' '.join(['{{random()*16777216}}'] * 64)]
        toks = []
        for _ in range(64):
            k = rng.below(10)
            if k < 2: toks.append('{{random()}}')
            elif k < 4: toks.append('{{random()*16777216}}')
            else:
                m = rng.below(8)
                if m == 0: lo, hi = -2147483648, 2147483647
                elif m == 1: lo = rng.range(-100, 100); hi = lo
                elif m == 2: lo = rng.range(-2147483648, 2147483647); hi = rng.range(lo, 2147483647)
                elif m == 3: lo, hi = 0, rng.choice([1, 2, 3, 5, 6, 7, 255, 256, 65535, 2 ** 31 - 1, 2 ** 30 + 1, 3 * 2 ** 29])
                else: lo = rng.range(-1000, 1000); hi = lo + rng.range(0, 3000)
                toks.append('{{randint(%d,%d)}}' % (lo, hi))
        vals.append(' '.join(toks))
        if si % 7 == 0:
            vals.append('{{random()}} {{randint(%d,%d)}} {{random()}}' % (5, rng.range(-5, 4)))      # min > max: error after one draw
        for vi, v in enumerate(vals):
            cases.append(Case('r%d_%d' % (si, vi), 'rngattr', [hx(v), '', str(seed)], {'value': v[:200], 'seed': seed}))
    return cases


def theme_perm_cases(rng, quick, T):
    cases = []
    bases = [a for a, _, _ in T['pattern_table']]
    for i in range(150 if quick else 6000):
        cl = []
        for b in rng.sample(bases, rng.range(1, 3)):
            cl += ['%s-%d' % (b, n) for n in set(rng.range(0, T['pattern_max_spacing']) for _ in range(rng.range(2, 6)))]
            if rng.chance(0.3): cl.append(b)
        cl += rng.sample(['d-red', 'd-fill-blue', 'd-arrow', 'd-softshadow', 'd-hardshadow', 'd-dash', 'd-text-bold', 'foo'], rng.range(0, 4))
        theme = rng.choice(T['theme_names'])
        for p in range(3):
            perm = list(cl); rng.shuffle(perm)
            cases.append(Case('p%d_%d' % (i, p), 'theme', [','.join(hx(c) for c in perm), hx('rect') + ',' + hx('text'), hx(theme), hx('default'),
                                                            hx('3'), hx('sans-serif'), ''], {'classes': perm, 'group': i, 'theme': theme}))
    return cases


def rand_doc(rng, T, i):
    """returns (xml, cfg, feature tags)"""
    parts = []; feats = set()
    bases = [a for a, _, _ in T['pattern_table']]
    cfg = {}
    if rng.chance(0.6): cfg['seed'] = rng.choice([0, 1, 7, rng.below(2 ** 32), rng.next()])
    if rng.chance(0.3): cfg['theme'] = rng.choice(T['theme_names'])
    if rng.chance(0.15): cfg['add_metadata'] = True
    if rng.chance(0.1): cfg['debug'] = True
    if rng.chance(0.1): cfg['background'] = rng.choice(['white', '#eee'])
    if rng.chance(0.25): cfg['font_size'] = rng.choice([2.0, 3.0, 4.5, 7.0])
    if rng.chance(0.25): cfg['font_family'] = rng.choice(['serif', 'monospace', 'Arial', 'sans-serif'])
    n = rng.range(2, 7)
    ids = []
    for j in range(n):
        k = rng.below(100)
        if k < 30:      # several pattern classes
            b = rng.choice(bases)
            cl = ['%s-%d' % (rng.choice([b, rng.choice(bases)]), rng.range(0, 100)) for _ in range(rng.range(2, 6))]
            if rng.chance(0.4):      # the same spacing spelled in several ways (5, 05, 005): equal sort keys, distinct classes
                v = rng.range(1, 9)
                cl += ['%s-%s' % (b, sp) for sp in rng.sample(['%d' % v, '0%d' % v, '00%d' % v, '+%d' % v], rng.range(2, 3))]
            cl += rng.sample(['d-red', 'd-fill-azure', 'd-softshadow', 'd-hardshadow', 'd-arrow', 'd-biarrow', 'd-flow', 'd-dash', 'mine'], rng.range(0, 3))
            parts.append('<rect id="p%d" xy="%d %d" wh="%d" class="%s"/>' % (j, rng.range(0, 40), rng.range(0, 40), rng.range(2, 12), ' '.join(cl)))
            ids.append('p%d' % j); feats.add('patterns')
        elif k < 50:    # random functions
            parts.append('<rect id="q%d" xy="{{random()*50}} {{randint(0,40)}}" wh="{{randint(1,9)}} {{1 + random()}}" text="{{randint(%d,%d)}}"/>'
                         % (j, rng.range(-50, 0), rng.range(1, 99)))
            ids.append('q%d' % j); feats.add('random')
        elif k < 55:    # one <var> drawing several random values (evaluated in attribute order)
            parts.append('<var a%d="{{random()}}" b%d="{{randint(1, 99)}}" c%d="{{random() * 7}}" d%d="{{randint(5, 6)}}"/><text xy="1 %d" text="$a%d $b%d $c%d $d%d"/>'
                         % (j, j, j, j, j, j, j, j, j))
            if rng.chance(0.3):  # several failing attributes in one <var>: the error reported is the first one in attribute order
                parts.append('<var p%d="{{nofn(1)}}" q%d="{{randint(3, 1)}}" r%d="{{1 +}}"/>' % (j, j, j)); feats.add('errors')
            feats.add('random-var')
        elif k < 60:
            parts.append('<loop count="%d"><circle cxy="{{randint(0,50)}} {{randint(0,50)}}" r="{{random()+0.5}}" class="d-fill-%s"/></loop>'
                         % (rng.range(2, 6), rng.choice(T['colour_list'])))
            feats.add('random-loop')
        elif k < 75:    # failing elements
            bad = rng.choice(['<rect xy="#zz%d|h" wh="2"/>' % j, '<circle r="{{1+}}"/>', '<line xy1="#nope%d@r" xy2="3 4"/>' % j,
                              '<rect wh="{{randint(3,1)}}"/>', '<rect xy="^|h 2" wh="1"/>', '<reuse href="#missing%d"/>' % j,
                              '<rect surround="#ghost%d" />' % j])
            if rng.chance(0.5):      # several failing elements on ONE source line (equal line numbers in the error report)
                bad = ' '.join('<rect xy="#zz%d_%d|h" wh="2"/>' % (j, q) for q in range(rng.range(2, 6)))
            parts.append(bad); feats.add('errors')
        elif k < 88:    # reuse with many attribute overrides
            parts.append('<specs><g id="t%d"><rect wh="$w $h" fill="$fill" stroke="$stroke" rx="$rx"/><text xy="1 1" text="$label"/></g></specs>' % j)
            for r in range(rng.range(1, 3)):
                parts.append('<reuse href="#t%d" x="%d" y="%d" w="%d" h="%d" fill="red" stroke="blue" rx="1" label="L%d" opacity="0.5" class="d-thin k%d" transform="translate(1 2)"/>'
                             % (j, rng.range(0, 30), rng.range(0, 30), rng.range(2, 9), rng.range(2, 9), r, r))
            feats.add('reuse')
        else:           # group attributes visible as variables
            parts.append('<g fill="red" stroke="blue" opacity="0.5" font-size="3" aa="1" bb="2" cc="3"><rect wh="4" text="$fill $stroke $opacity"/>'
                         '<rect xy="^|h 1" wh="4" text="{{$aa + $bb}} $cc"/></g>')
            feats.add('scope-vars')
        if ids and rng.chance(0.3):
            parts.append('<rect xy="#%s|%s %d" wh="3" class="d-grid-%d d-grid-%d"/>' % (rng.choice(ids), rng.choice('hHvV'), rng.range(0, 3), rng.range(0, 50), rng.range(51, 100)))
    if rng.chance(0.25):
        rng.shuffle(parts)
    if rng.chance(0.1):
        # local styles switched on and off again inside the document: the result must not keep anything of the clock-seeded id
        a = rng.below(len(parts) + 1); parts.insert(a, '<config use-local-styles="true"/>')
        parts.insert(rng.range(a + 1, len(parts)), '<config use-local-styles="false"/>'); feats.add('local-styles-toggled')
    if rng.chance(0.1):
        parts.insert(rng.below(len(parts) + 1), '<config seed="%s"/><text xy="1 1" text="{{random()}}"/>' % rng.choice(['autumn', '-1', '1e3', ' 7', '0x10']))
        feats.add('errors')       # a seed that is not an unsigned integer: the same error every time
    ra = ''
    if rng.chance(0.3):
        ra = ''.join(' %s="%s"' % kv for kv in rng.sample([('xmlns:xlink', 'http://www.w3.org/1999/xlink'), ('preserveAspectRatio', 'xMidYMid'), ('data-a', '1'),
                                                               ('data-b', 'x y'), ('role', 'img'), ('aria-label', 'pic'), ('font-size', '3'), ('class', 'root')], rng.range(2, 6)))
        feats.add('root-attributes')
    xml = '<svg%s>\n  %s\n</svg>' % (ra, '\n  '.join(parts))
    return xml, cfg, sorted(feats)


def run(ctx):
    rng = ctx['rng']; st = ctx['stats']; dist = st['distribution']
    quick = ctx['tier'] == 'quick'
    try:
        T = gen_tables.theme_tables(os.path.join(lib.REPO, 'src'))
    except Exception:        # themes.rs no longer readable by the translator: generate from the pinned snapshot
        import json
        T = json.load(open(os.path.join(lib.VERIF, 'corpus', 'C20', 'theme_tables.json')))
    # ---- (1) random stream vs Rng.v
    rc = rng_cases(rng, quick)
    impl = lib.run_impl(rc); model = lib.run_model(rc) if ctx['model_ok'] else {}
    for c in rc:
        st['evaluations'] += 1; st['distinct_nontrivial'] += 1
        i = impl.get(c.id); m = model.get(c.id)
        if m is not None:
            st['traces_validated_against_impl'] += 1
            if i != m:
                def show(r):
                    return [r[0], unhx(r[1]) if r[0] == 'OK' else r[1]] + r[2:] if r and len(r) > 1 else r
                yield {'kind': 'correspondence', 'what': 'random stream: model and implementation disagree for seed %d on %s' % (c.meta['seed'], c.meta['value']),
                       'case': c.to_json(), 'observed': show(i), 'expected': show(m)}
    dist['rng_cases'] = len(rc)
    # ---- (1b) documents drawing random numbers, with an optional <config seed=..> in the middle: the texts must be the
    #      model's stream of the configured seed, and after a re-seed the model's stream of the new seed
    rdocs = []; mcases = []
    import re as _re
    for i in range(60 if quick else 1500):
        s1 = rng.choice([0, 1, 42, rng.below(2 ** 32), rng.next()]); s2 = rng.choice([None, None, 0, 7, rng.next()])
        def toks(k):
            out = []
            for _ in range(k):
                if rng.chance(0.5): out.append('{{random()*16777216}}')
                else:
                    lo = rng.range(-500, 500); out.append('{{randint(%d,%d)}}' % (lo, lo + rng.range(0, 1000)))
            return out
        t1 = toks(rng.range(1, 8)); t2 = toks(rng.range(1, 8)) if s2 is not None else []
        body = ''.join('<text xy="0 %d" text="%s"/>' % (j, t) for j, t in enumerate(t1))
        if s2 is not None:
            body += '<config seed="%d"/>' % s2 + ''.join('<text xy="9 %d" text="%s"/>' % (j, t) for j, t in enumerate(t2))
        xml = '<svg>%s</svg>' % body
        rdocs.append((doc_case('rd%d' % i, xml, {'seed': s1, 'add_auto_styles': False}), xml, s1, s2))
        mcases.append(Case('rd%d_a' % i, 'rngattr', [hx(' '.join(t1)), '', str(s1)]))
        if s2 is not None:
            mcases.append(Case('rd%d_b' % i, 'rngattr', [hx(' '.join(t2)), '', str(s2)]))
    if ctx['model_ok']:
        dimpl = lib.run_impl([d[0] for d in rdocs]); dmodel = lib.run_model(mcases)
        for c, xml, s1, s2 in rdocs:
            st['evaluations'] += 1; st['distinct_nontrivial'] += 1; st['traces_validated_against_impl'] += 1
            r = dimpl.get(c.id)
            exp = []
            for suffix in ('_a', '_b'):
                m = dmodel.get(c.id + suffix)
                if m and m[0] == 'OK':
                    exp += unhx(m[1]).split(' ')
            got = _re.findall(r'<text[^>]*>([^<]*)</text>', bytes.fromhex(r[1]).decode('utf-8', 'replace')) if r and r[0] == 'OK' else r
            if got != exp:
                yield {'kind': 'correspondence', 'what': 'document random values differ from the model stream (seed %s, re-seed %s): %s' % (s1, s2, xml[:400]),
                       'case': c.to_json(), 'observed': got, 'expected': exp}
    dist['rng_documents'] = len(rdocs)
    if rc and impl.get(rc[0].id) and len(st['samples']) < 2:
        r = impl[rc[0].id]
        st['samples'].append({'seed': rc[0].meta['seed'], 'first_outputs': unhx(r[1]).split()[:6] if r[0] == 'OK' else r})
    # ---- (2) theme builder under permutations of the class set
    tc = theme_perm_cases(rng, quick, T)
    impl = lib.run_impl(tc); model = lib.run_model(tc) if ctx['model_ok'] else {}
    groups = {}
    for c in tc:
        st['evaluations'] += 1
        i = impl.get(c.id); m = model.get(c.id)
        if m is not None:
            st['traces_validated_against_impl'] += 1
            if i != m:
                yield {'kind': 'correspondence', 'what': 'theme builder: model and implementation disagree on class order %s' % c.meta['classes'],
                       'case': c.to_json(), 'observed': i, 'expected': m}
        groups.setdefault(c.meta['group'], []).append((c, i))
    for g, l in groups.items():
        st['distinct_nontrivial'] += 1
        if any(x[1] != l[0][1] for x in l):
            yield {'kind': 'oracle', 'what': 'theme builder output depends on the order of the class set %s (theme %s)' % (sorted(l[0][0].meta['classes']), l[0][0].meta['theme']),
                   'case': l[0][0].to_json(), 'observed': [x[1] for x in l], 'expected': 'identical results'}
    dist['theme_permutation_groups'] = len(groups)
    # ---- (3) repeat-run oracle
    docs = []
    for i in range(500 if quick else 16000):
        xml, cfg, feats = rand_doc(rng, T, i)
        docs.append((i, xml, cfg, feats))
        for f in feats:
            dist['doc:' + f] = dist.get('doc:' + f, 0) + 1
    import docfuzz
    frng = rng.fork('repeat-fuzz')
    for i in range(len(docs), len(docs) + (200 if quick else 4000)):
        x, c = docfuzz.gen(frng)
        docs.append((i, x, {k: v for k, v in c.items() if k in ('seed', 'loop_limit', 'var_limit', 'depth_limit')}, ['fuzz']))
    lines = []
    for i, xml, cfg, feats in docs:
        for rep in 'abc':
            lines.append('\t'.join(['d%d%s' % (i, rep), 'docfull', enc_cfg(cfg), hx(xml)]))
    results = []
    for proc in range(3):
        out, _ = lib.run_lines(lib.HARNESS_BIN, ['10000'], lines)
        results.append(out)
    nerr = 0
    for i, xml, cfg, feats in docs:
        st['distinct_nontrivial'] += 1
        obs = []
        for proc in range(3):
            for rep in 'abc':
                obs.append(results[proc].get('d%d%s' % (i, rep)))
                st['evaluations'] += 1
        if obs[0] and obs[0][0] == 'ERR':
            nerr += 1
        bad = [k for k, o in enumerate(obs) if o != obs[0]]
        if bad:
            k = bad[0]
            def show(o):
                if not o: return o
                return [o[0]] + [unhx(x)[:1500] for x in o[1:]]
            where = 'within one process' if k < 3 else 'between fresh processes'
            what = 'output bytes' if obs[0] and obs[0][0] == 'OK' and obs[k] and obs[k][0] == 'OK' else 'error text / outcome'
            yield {'kind': 'oracle', 'what': 'repeated transform differs %s (%s), config %s:\n%s' % (where, what, cfg, xml[:700]),
                   'case': {'xml': xml, 'cfg': cfg, 'features': feats}, 'observed': show(obs[k]), 'expected': show(obs[0]), 'tag': 'repeat'}
        if len(st['samples']) < 4 and 'patterns' in feats and obs[0]:
            st['samples'].append({'doc': xml[:300], 'cfg': cfg, 'result': obs[0][0]})
    dist['docs_failing'] = nerr
    # ---- (3b) history independence on ONE thread: the same requests in two different orders (caches and statics keyed on too
    #      little show up as results that depend on what the thread transformed before)
    hdocs = [d for d in docs if 'errors' not in d[3]][:(120 if quick else 2000)]
    if hdocs:
        reqs = []
        for i, xml, cfg, feats in hdocs:
            reqs.append((i, xml, cfg))
            c2 = dict(cfg); c2['font_size'] = rng.choice([2.5, 6.0]); c2['font_family'] = rng.choice(['cursive', 'fantasy'])
            reqs.append((i, xml, c2))
            if rng.chance(0.5):
                c3 = dict(cfg); c3['theme'] = rng.choice(T['theme_names']); reqs.append((i, xml, c3))
        def one_thread(order):
            line = 'h\tfe_conc\t1\t' + ','.join('s:%s:%s' % (enc_cfg(reqs[k][2]), reqs[k][1].encode('utf-8').hex()) for k in order)
            out, _ = lib.run_lines(lib.HARNESS_BIN, ['600000'], [line], timeout=900)
            r = out.get('h') or []
            parts = r[1].split(';') if len(r) > 1 and r[0] == 'OK' else []
            return {k: p for k, p in zip(order, parts)} if len(parts) == len(order) else None
        fwd = list(range(len(reqs))); rev = list(reversed(fwd)); shuf = list(fwd); rng.shuffle(shuf)
        runs = [one_thread(o) for o in (fwd, rev, shuf)]
        if any(r is None for r in runs):
            yield {'kind': 'oracle', 'what': 'transforms run one after another on one thread did not all return', 'case': {'n': len(reqs)}, 'observed': [r is None for r in runs], 'expected': 'results', 'tag': 'history'}
        else:
            for k in fwd:
                st['evaluations'] += 3
                vals = [r[k] for r in runs]
                if vals[1] != vals[0] or vals[2] != vals[0]:
                    i, xml, cfg = reqs[k]
                    yield {'kind': 'oracle', 'what': 'the result of a transform depends on what the same thread transformed before it (config %s):\n%s' % (cfg, xml[:600]),
                           'case': {'xml': xml, 'cfg': cfg, 'position_in_orders': [fwd.index(k), rev.index(k), shuf.index(k)]},
                           'observed': [v[:400] for v in vals], 'expected': 'identical results', 'tag': 'history'}
                    break
        dist['same_thread_requests'] = len(reqs)
    # ---- CLI: exit code, stdout and stderr of 3 fresh processes
    ncli = 120 if quick else 3000
    cli_docs = [d for d in docs if 'errors' in d[3]][:ncli // 2] + [d for d in docs if 'errors' not in d[3]][:ncli // 2]
    for i, xml, cfg, feats in cli_docs:
        obs = []
        for rep in range(3):
            obs.append(lib.run_svgdx(xml, cfg))
            st['evaluations'] += 1
        bad = [k for k in range(3) if obs[k] != obs[0]]
        if bad:
            k = bad[0]
            part = 'exit code' if obs[k][0] != obs[0][0] else ('stdout' if obs[k][1] != obs[0][1] else 'stderr')
            yield {'kind': 'oracle', 'what': 'svgdx CLI: %s differs between runs of the same input, config %s:\n%s' % (part, cfg, xml[:700]),
                   'case': {'xml': xml, 'cfg': cfg, 'features': feats}, 'tag': 'cli-' + part.replace(' ', ''),
                   'observed': [obs[k][0], obs[k][1].decode('utf-8', 'replace')[:800], obs[k][2].decode('utf-8', 'replace')[:1500]],
                   'expected': [obs[0][0], obs[0][1].decode('utf-8', 'replace')[:800], obs[0][2].decode('utf-8', 'replace')[:1500]]}
    dist['cli_docs'] = len(cli_docs)


def classify(v, known):
    """K10 (only if listed in known_findings.txt): the CLI's stderr prints the Debug form of the error map of a failing
    document with several failing elements, and only the order of its entries differs"""
    ids = set(k.get('id') for k in known)
    if 'K10' in ids and v.get('kind') == 'oracle' and v.get('tag') == 'cli-stderr':
        a, b = v['observed'][2], v['expected'][2]
        if a.startswith('Error: MultiError(') and b.startswith('Error: MultiError(') and sorted(a) == sorted(b):
            return 'K10'
    return None


def replay_known(kf, ctx):
    xml = open(os.path.join(lib.VERIF, kf['witness'])).read()
    seen = set()
    for _ in range(12):
        seen.add(lib.run_svgdx(xml, {})[2])
    return len(seen) > 1
