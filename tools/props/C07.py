"""C07 Front-ends agree, transforms are isolated, failures leave no damage.

Histories of requests are run against the four front-ends of the implementation (library transform_str /
transform_stream through the harness, the svgdx binary, one long-lived svgdx-server process) and against the
extracted Coq model (Model/Front.v, `run_front`), whose document transform T is a table measured with one
fresh-process library call per distinct (input, configuration).  Every observation and the final bytes of every
file are compared (correspondence); the property itself is checked directly on the implementation's
observations (oracle)."""
import os, sys, json, tempfile, shutil, subprocess, threading, socket, hashlib, time, http.client
from concurrent.futures import ThreadPoolExecutor
from lib import Case, hx, enc_cfg, cfg_cli

NEEDS_BINS = True
RULE = ('histories of 5-40 requests over documents that succeed / fail (reference, parse, limit, late root-attribute errors '
        'that leave partial output, multi-element errors, empty input) x configurations (seed, limits, theme, border, scale, '
        'metadata, ...) x front-ends: library transform_str / transform_stream (one harness process per shard, requests in '
        'order), svgdx binary (file or stdin in, file or stdout out; output spellings: new file, existing file, symlink, '
        'dangling symlink, missing directory, another input, the input itself through the same name / symlink / ./sub/../ / '
        'absolute path, a hard link of the input), one long-lived svgdx-server (POST /api/transform, sequential and from '
        '8-32 threads), library from 8-32 threads; T measured by a fresh process per distinct (input, config); extracted '
        'model run on the same history, all observations and final file bytes compared. non-trivial = distinct history with '
        '>= 1 succeeding and >= 1 failing request over >= 2 front-ends')
THEOREM_NOTES = ('Props/C07.v: failed_request_preserves_fs, failed_requests_leave_no_trace, failing_history_preserves_fs, '
                 'transform_error_fails_request, failure_is_reported, same_file_refused (+ _hardlink_refuted: K22), '
                 'observation_depends_only_on_own_request, pure_request_history_independent, pure_history_observations_are_solo, observation_at_any_position, '
                 'pure_request_preserves_fs, command_touches_only_its_output, frontends_render_same_result, frontends_agree, '
                 'command_success_writes_output, server_empty_output (+ _refuted: K11)')
ASSUMPTIONS = ['the document transform is a function T of (input bytes, configuration) - C06; the theorems hold for every T',
               'interleavings are sampled (8-32 threads), not enumerated; the model is sequential and the concurrent runs are '
               'compared per request, which is justified inside the model by observation_depends_only_on_own_request',
               'OS atomicity of fs::copy, clap argument parsing, tempfile, axum/tokio/hyper are not modelled; name resolution '
               '(canon) and inode identity (same) are read from the OS per history and handed to the model']
TRUSTED_EXTRA = ['Python http.client / subprocess as observers of the server and the svgdx binary; os.path.realpath / st_ino as '
                 'the name-resolution and file-identity relations supplied to the model']

ENOENT_DBG = 'Os { code: 2, kind: NotFound, message: "No such file or directory" }'
OLD = 'OLD CONTENT %d\n'


# ------------------------------------------------------------------------------------------------ documents
def doc_pool(rng, n):
    """documents (text) with a tag; roughly 55% succeed under the default configuration"""
    docs = []

    def num(a, b):
        return str(rng.range(a, b))
    while len(docs) < n:
        k = rng.below(23)
        if k >= 20:
            k = 5
        if k == 0:
            d = '<svg><rect wh="%s %s" text="t%s"/></svg>' % (num(1, 40), num(1, 40), num(0, 99))
        elif k == 1:
            d = '<svg><rect id="a" wh="%s"/><circle xy="#a|h %s" r="%s"/></svg>' % (num(2, 30), num(0, 9), num(1, 9))
        elif k == 2:   # seed dependent
            d = '<svg><rect wh="{{randint(1,%s)}} {{randint(1,20)}}"/><circle r="{{random()}}" cx="3" cy="%s"/></svg>' % (num(5, 90), num(0, 9))
        elif k == 3:   # loop limit dependent
            d = '<svg><rect id="z" wh="2"/><loop count="%s"><rect wh="2" xy="^|h 1"/></loop></svg>' % num(2, 9)
        elif k == 4:   # var limit dependent
            d = '<svg><var v="%s"/><text xy="0" text="$v"/></svg>' % ('x' * (rng.range(3, 30) if rng.chance(0.7) else rng.choice([99, 101, 150, 600, 1024, 1025])))
        elif k == 5:   # theme / class dependent
            # pattern / arrow / shadow classes pull theme-dependent definitions in; the theme is often chosen in the document
            # itself so that the same class is rendered under different themes by one process, whatever the front-end
            th = rng.choice(['', '', '<config theme="dark"/>', '<config theme="light"/>', '<config theme="bold"/>', '<config theme="glass"/>'])
            d = '<svg>%s<rect wh="%s" class="%s"/></svg>' % (th, num(4, 20), rng.choice(
                ['d-fill-red', 'd-dash', 'd-softshadow', 'd-text-bigger d-fill-blue', 'd-grid', 'd-grid', 'd-hatch-5', 'd-stipple', 'd-crosshatch-10',
                 'd-grid-h', 'd-arrow', 'd-hardshadow', 'd-grid-10']))
        elif k == 6:   # real SVG: passes through
            d = '<svg xmlns="http://www.w3.org/2000/svg" width="%s" height="10"><rect width="3" height="%s"/></svg>' % (num(5, 50), num(1, 9))
        elif k == 7:
            d = '<!-- c%s --><svg><line xy1="0" xy2="%s %s"/></svg>' % (num(0, 9), num(1, 30), num(1, 30))
        elif k == 8:   # depth limit dependent
            depth = rng.range(1, 6) if rng.chance(0.7) else rng.choice([97, 98, 99, 100, 101, 120])     # around the default depth limit
            d = '<svg>' + '<g>' * depth + '<rect wh="%s"/>' % num(1, 9) + '</g>' * depth + '</svg>'
        elif k == 9:
            d = rng.choice(['', '', '\n', 'hello %s' % num(0, 9), '<!-- only %s -->' % num(0, 9)])
        elif k == 10:  # reference error
            d = '<svg><rect wh="%s" xy="#nope%s"/></svg>' % (num(1, 20), num(0, 9))
        elif k == 11:  # parse errors
            d = rng.choice(['<svg><rect wh="%s"' % num(1, 9), '<svg><g></svg>', '<svg><rect wh="1"/></svg></svg>', '<svg><rect wh=1/></svg>'])
        elif k == 12:  # fails late: the comment before the root has already been written
            d = '<!-- c%s --><svg width="abc"><rect wh="2"/></svg>' % num(0, 9)
        elif k == 13:  # expression error
            d = '<svg><rect wh="{{1/%s +}}"/></svg>' % num(1, 9)
        elif k == 14:  # two failing elements: MultiError with two entries
            d = '<svg><rect wh="1" xy="#n%s"/><rect wh="1" xy="#m"/></svg>' % num(0, 9)
        elif k == 15:
            d = '<svg><reuse href="#x%s"/></svg>' % num(0, 9)
        elif k == 16:  # circular reference
            d = '<svg><rect id="a" xy="#b|h" wh="%s"/><rect id="b" xy="#a|h" wh="2"/></svg>' % num(1, 9)
        elif k == 17:  # non-ASCII text
            d = '<svg><text xy="0" text="café ☃ %s"/></svg>' % num(0, 9)
        elif k == 18:
            d = '<svg><config border="%s"/><rect wh="%s"/></svg>' % (num(0, 20), num(1, 9))
        else:
            d = '<svg><rect wh="%s" xy="^|v"/></svg>' % num(1, 9)   # no previous element
        docs.append(d)
    return docs


CFG_CHOICES = [
    {}, {}, {}, {'seed': 1}, {'seed': 2}, {'seed': 12345678901}, {'add_auto_styles': False}, {'add_auto_styles': False, 'seed': 7},
    {'border': 0}, {'border': 17}, {'scale': 2.5}, {'add_metadata': True}, {'add_metadata': True}, {'loop_limit': 3},
    {'loop_limit': 6, 'add_auto_styles': False}, {'var_limit': 10}, {'depth_limit': 3}, {'depth_limit': 5, 'add_metadata': True},
    {'theme': 'dark'}, {'theme': 'light'}, {'theme': 'dark', 'seed': 3}, {'theme': 'bold', 'background': 'red'}, {'background': 'grey'}, {'font_size': 5}, {'font_family': 'serif'},
    {'svg_style': 'margin: 1px'}, {'debug': True},
]
HTTP_CFGS = [{}, {'add_metadata': True}]


# ------------------------------------------------------------------------------------------------ observers
class Server:
    def __init__(self, lib):
        last = None
        for attempt in range(4):
            s = socket.socket(); s.bind(('127.0.0.1', 0)); self.port = s.getsockname()[1]; s.close()
            self.p = subprocess.Popen([lib.SERVER_BIN, '--port', str(self.port)], stdout=subprocess.DEVNULL, stderr=subprocess.DEVNULL)
            t0 = time.time()
            while time.time() - t0 < 15 and self.p.poll() is None:
                try:
                    socket.create_connection(('127.0.0.1', self.port), timeout=0.5).close(); return
                except OSError as e:
                    last = e; time.sleep(0.05)
            self.stop()      # port taken in the meantime (bind failed) or no listener: try another port
        raise RuntimeError('svgdx-server did not start listening: %r' % (last,))

    def conn(self):
        return http.client.HTTPConnection('127.0.0.1', self.port, timeout=60)

    def post(self, body, meta, explicit_false=False, conn=None):
        """-> ('H', status, content-type, body) | ('H', 'noresponse', text)"""
        path = '/api/transform'
        if meta:
            path += '?add_metadata=true'
        elif explicit_false:
            path += '?add_metadata=false'
        own = conn is None
        c = conn or self.conn()
        try:
            c.request('POST', path, body=body, headers={'Content-Type': 'text/plain; charset=utf-8'})
            r = c.getresponse(); data = r.read()
            return ('H', r.status, (r.getheader('content-type') or '').encode(), data)
        except Exception as e:
            try: c.close()
            except Exception: pass
            return ('H', 'noresponse', repr(e)[:200].encode(), b'')
        finally:
            if own:
                c.close()

    def alive(self):
        return self.p.poll() is None

    def stop(self):
        try:
            self.p.kill(); self.p.wait(timeout=5)
        except Exception:
            pass


def canon_dbg(b):
    """Debug of a MultiError prints a HashMap, whose order is not fixed (C06 / K10): compare as a multiset of bytes"""
    if isinstance(b, str):
        b = b.encode('utf-8')
    if b'MultiError(' in b:
        return b'MULTI:' + bytes(sorted(b))
    return b


def parse_lib(fields):
    """harness fe_str / fe_stream result fields -> ('O', out) | ('E', partial, disp, dbg) | ('X', text)"""
    if fields and fields[0] == 'OK':
        return ('O', bytes.fromhex(fields[1] if len(fields) > 1 else ''))
    if fields and fields[0] == 'ERR' and len(fields) >= 4:
        return ('E', bytes.fromhex(fields[1]), bytes.fromhex(fields[2]), bytes.fromhex(fields[3]))
    return ('X', ' '.join(fields or ['no output']))


class Measure:
    """T: one fresh harness process per distinct (input, config)"""

    def __init__(self, lib):
        self.lib = lib; self.t = {}

    def key(self, inp, cfg):
        return (inp, enc_cfg(cfg))

    def _one(self, k):
        inp, ck = k
        try:
            p = subprocess.run([self.lib.HARNESS_BIN, '30000'], input=('m\tfe_stream\t%s\t%s\n' % (ck, inp.hex())).encode(),
                               stdout=subprocess.PIPE, stderr=subprocess.DEVNULL, timeout=60)
            line = p.stdout.decode().rstrip('\n')
            return parse_lib(line.split('\t')[1:]) if line else ('X', 'process died rc=%s' % p.returncode)
        except subprocess.TimeoutExpired:
            return ('X', 'timeout')

    def ensure(self, pairs):
        todo = []
        for inp, cfg in pairs:
            k = self.key(inp, cfg)
            if k not in self.t and k not in todo:
                todo.append(k)
        if len(todo) == 1:
            self.t[todo[0]] = self._one(todo[0])
        elif todo:
            with ThreadPoolExecutor(6) as ex:
                for k, r in zip(todo, ex.map(self._one, todo)):
                    self.t[k] = r

    def get(self, inp, cfg):
        self.ensure([(inp, cfg)])
        return self.t[self.key(inp, cfg)]


# ------------------------------------------------------------------------------------------------ histories
def gen_history(rng, docs, n_req, with_hardlink):
    """a self-contained, JSON-able history"""
    nin = rng.range(2, 4)
    files = {}
    for i in range(nin):
        files['in%d.xml' % i] = rng.choice(docs)
    nold = rng.range(1, 2)
    for i in range(nold):
        files['old%d.svg' % i] = OLD % i
    h = {'files': files, 'dirs': ['sub'], 'symlinks': {'sym0.xml': 'in0.xml', 'symout.svg': 'old0.svg', 'dangle.svg': 'fresh.svg'},
         'hardlinks': {'hard1.xml': 'in1.xml'} if with_hardlink else {}, 'requests': []}
    ins = ['in%d.xml' % i for i in range(nin)]

    def spell(name):
        return rng.choice([name, name, './' + name, 'sub/../' + name, './sub/../' + name, '@ABS@/' + name])
    for _ in range(n_req):
        fe = rng.choice(['str', 'stream', 'cli', 'cli', 'cli', 'http', 'http'])
        if fe in ('str', 'stream'):
            h['requests'].append({'fe': fe, 'doc': rng.choice(docs), 'cfg': rng.choice(CFG_CHOICES)})
        elif fe == 'http':
            h['requests'].append({'fe': 'http', 'doc': rng.choice(docs), 'meta': rng.chance(0.3), 'explicit': rng.chance(0.5)})
        else:
            r = {'fe': 'cli', 'cfg': rng.choice(CFG_CHOICES), 'stdin': ''}
            k = rng.below(10)
            if k < 3:
                r['file'] = '-'; r['stdin'] = rng.choice(docs); r['omit_file'] = rng.chance(0.5)
                src = None
            elif k == 3:
                r['file'] = rng.choice(['missing.xml', 'sub/none.xml', 'nodir/in0.xml']); src = None
            elif k == 4:
                r['file'] = rng.choice(['sym0.xml', 'old0.svg', 'new0.svg', 'symout.svg']); src = r['file']
            else:
                src = rng.choice(ins); r['file'] = spell(src)
            k = rng.below(16)
            if k < 4:
                r['output'] = '-'; r['omit_output'] = rng.chance(0.5)
            elif k < 7:
                r['output'] = spell(rng.choice(['old%d.svg' % i for i in range(nold)]))
            elif k < 9:
                r['output'] = spell(rng.choice(['new0.svg', 'new1.svg', 'sub/new2.svg']))
            elif k == 9:
                r['output'] = rng.choice(['symout.svg', 'dangle.svg'])
            elif k == 10:
                r['output'] = rng.choice(['nodir/x.svg', 'sub/nodir/y.svg'])
            elif k == 11:
                r['output'] = spell(rng.choice(ins))                       # another (or the same) input file
            elif k < 15 and src in ins:
                # the input itself: same spelling, other spellings, through the symlink
                r['output'] = rng.choice([r['file'], spell(src), 'sym0.xml' if src == 'in0.xml' else spell(src)])
            elif with_hardlink and k == 15:
                r['file'] = spell('in1.xml'); r['output'] = rng.choice(['hard1.xml', './sub/../hard1.xml'])   # K22 class
            else:
                r['output'] = 'new1.svg'
            h['requests'].append(r)
    return h


def materialise(h, root):
    d = tempfile.mkdtemp(prefix='h', dir=root)
    for sub in h.get('dirs', []):
        os.makedirs(os.path.join(d, sub))
    os.makedirs(os.path.join(d, '.tmp'))
    for n, t in h['files'].items():
        with open(os.path.join(d, n), 'wb') as f:
            f.write(t.encode('utf-8'))
    for n, t in h.get('hardlinks', {}).items():
        os.link(os.path.join(d, t), os.path.join(d, n))
    for n, t in h.get('symlinks', {}).items():
        os.symlink(t, os.path.join(d, n))
    return d


def snapshot(d):
    """canonical relative name -> bytes for every regular file (symlinks are names, not files)"""
    out = {}
    for dp, dns, fns in os.walk(d):
        if os.path.basename(dp) == '.tmp':
            dns[:] = []
            continue
        for fn in fns:
            p = os.path.join(dp, fn)
            if os.path.islink(p):
                continue
            with open(p, 'rb') as f:
                out[os.path.relpath(p, d)] = f.read()
    return out


def resolve(d, spelling):
    """what the OS resolves a spelling to, relative to d (None when a directory on the way is missing)"""
    p = spelling.replace('@ABS@', d)
    real = os.path.realpath(os.path.join(d, p))
    if not os.path.isdir(os.path.dirname(real)):
        return None
    # a component that is a regular file used as a directory, or `x/..` through a missing dir
    probe = os.path.join(d, p)
    parent = os.path.dirname(probe)
    if not os.path.isdir(parent):
        return None
    return os.path.relpath(real, d)


def run_cli(lib, d, r):
    args = [lib.SVGDX_BIN] + cfg_cli(r['cfg'])
    f = r['file'].replace('@ABS@', d); o = r['output'].replace('@ABS@', d)
    if not (f == '-' and r.get('omit_file')):
        args.append(f)
    if not (o == '-' and r.get('omit_output')):
        args += ['-o', o]
    env = dict(os.environ, TMPDIR=os.path.join(d, '.tmp'))
    try:
        p = subprocess.run(args, cwd=d, input=r.get('stdin', '').encode('utf-8'), stdout=subprocess.PIPE, stderr=subprocess.PIPE, timeout=60, env=env)
        return ('C', p.returncode, p.stdout, p.stderr)
    except subprocess.TimeoutExpired:
        return ('C', 'timeout', b'', b'')


def enc_tres(t):
    return 'O:' + t[1].hex() if t[0] == 'O' else 'E:%s:%s:%s' % (t[1].hex(), t[2].hex(), t[3].hex())


def dec_obs(s):
    p = s.split(':')
    b = bytes.fromhex
    if p[0] == 'LO': return ('LO', b(p[1]))
    if p[0] == 'LE': return ('LE', b(p[1]), canon_dbg(b(p[2])))
    if p[0] == 'SO': return ('SO', b(p[1]))
    if p[0] == 'SE': return ('SE', b(p[1]), b(p[2]), canon_dbg(b(p[3])))
    if p[0] == 'C': return ('C', int(p[1]), b(p[2]), canon_dbg(b(p[3])))
    if p[0] == 'H': return ('H', int(p[1]), b(p[2]), b(p[3]))
    return ('?', s)


def lib_obs(fe, res):
    """harness result -> the observation in the model's vocabulary"""
    if res[0] == 'O':
        return ('LO', res[1]) if fe == 'str' else ('SO', res[1])
    if res[0] == 'E':
        return ('LE', res[2], canon_dbg(res[3])) if fe == 'str' else ('SE', res[1], res[2], canon_dbg(res[3]))
    return ('X',) + tuple(res[1:])


def show(o):
    def s(x):
        if isinstance(x, bytes):
            t = x.decode('utf-8', 'replace')
            return t if len(t) < 160 else t[:150] + '...(%d bytes, sha %s)' % (len(x), hashlib.sha256(x).hexdigest()[:10])
        return x
    return [s(x) for x in o] if isinstance(o, (tuple, list)) else s(o)


class Agreement:
    """oracle O1: every eligible request on the same (input bytes, config) delivers the same bytes / fails alike"""

    def __init__(self):
        self.seen = {}

    def add(self, inp, cfg, fe, delivered, where):
        """delivered: bytes or None (failed). returns a disagreement record or None"""
        k = (inp, enc_cfg(cfg))
        first = self.seen.get(k)
        if first is None:
            self.seen[k] = (fe, delivered, where)
            return None
        if first[1] != delivered:
            return {'input': inp.decode('utf-8', 'replace'), 'cfg': cfg, 'a': {'frontend': first[0], 'delivered': show(first[1]), 'where': first[2]},
                    'b': {'frontend': fe, 'delivered': show(delivered), 'where': where}}
        return None


def execute_history(h, ctx, env):
    """run one history on the implementation + model. yields violations; returns via env['last']"""
    lib = ctx['lib']; server = env['server']; meas = env['meas']; agree = env['agree']
    d = materialise(h, env['root'])
    try:
        snap0 = snapshot(d)
        ino = {}
        for n in snap0:
            st = os.stat(os.path.join(d, n)); ino.setdefault((st.st_dev, st.st_ino), []).append(n)
        same_pairs = [(g[0], x) for g in ino.values() if len(g) > 1 for x in g[1:]]
        reqs = h['requests']
        # ---- library requests of this history: one harness process, in order
        lcases = [Case('%s.%d' % (env['hid'], i), 'fe_' + r['fe'], [enc_cfg(r['cfg']), r['doc'].encode('utf-8').hex()])
                  for i, r in enumerate(reqs) if r['fe'] in ('str', 'stream')]
        lres = {}
        if lcases:
            out, _ = lib.run_lines(lib.HARNESS_BIN, ['30000'], [c.line() for c in lcases])
            lres = out
        meas.ensure([(r['doc'].encode('utf-8'), r['cfg']) for r in reqs if r['fe'] in ('str', 'stream')] +
                    [(r['doc'].encode('utf-8'), {'add_metadata': True} if r['meta'] else {}) for r in reqs if r['fe'] == 'http'] +
                    [(r['stdin'].encode('utf-8'), r['cfg']) for r in reqs if r['fe'] == 'cli' and r['file'] == '-'])
        obs = []; tbl = {}; spellings = {}; mreqs = []
        conn = server.conn()
        for i, r in enumerate(reqs):
            where = '%s request %d' % (env['hid'], i)
            if r['fe'] in ('str', 'stream'):
                inp = r['doc'].encode('utf-8'); cfg = r['cfg']
                res = parse_lib(lres.get('%s.%d' % (env['hid'], i)))
                o = lib_obs(r['fe'], res)
                t = meas.get(inp, cfg)
                if t[0] == 'X' or res[0] == 'X':
                    env['unmeasurable'] += 1; o = None
                else:
                    tbl[(inp, enc_cfg(cfg))] = t
                    dis = agree.add(inp, cfg, 'fresh-process library', t[1] if t[0] == 'O' else None, 'measurement') or \
                        agree.add(inp, cfg, 'library transform_' + r['fe'], res[1] if res[0] == 'O' else None, where)
                    if dis:
                        yield {'kind': 'oracle', 'what': 'front-ends disagree on the same input and configuration: %s' % json.dumps(dis)[:700],
                               'case': {'history': h, 'index': i, 'class': 'disagree'}, 'observed': dis['b'], 'expected': dis['a']}
                obs.append(o)
                mreqs.append('%s:%s:%s' % ('S' if r['fe'] == 'str' else 'M', inp.hex(), hx(enc_cfg(cfg))))
            elif r['fe'] == 'http':
                inp = r['doc'].encode('utf-8'); cfg = {'add_metadata': True} if r['meta'] else {}
                o = server.post(inp, r['meta'], r.get('explicit', False), conn=conn)
                if o[1] == 'noresponse':
                    conn = server.conn()
                t = meas.get(inp, cfg)
                if t[0] == 'X':
                    env['unmeasurable'] += 1; obs.append(None)
                else:
                    tbl[(inp, enc_cfg(cfg))] = t
                    obs.append(o)
                    # oracle: 200 or 400, nothing else; agreement with the other front-ends
                    if o[1] not in (200, 400):
                        yield {'kind': 'oracle', 'what': 'server answered neither 200 nor 400 (%s) to a transform request; server alive: %s' % (show(o), server.alive()),
                               'case': {'history': h, 'index': i, 'class': 'http-status'}, 'observed': show(o), 'expected': '200 or 400'}
                    else:
                        agree.add(inp, cfg, 'fresh-process library', t[1] if t[0] == 'O' else None, 'measurement')
                        dis = agree.add(inp, cfg, 'server', o[3] if o[1] == 200 else None, where)
                        if dis:
                            empty = t[0] == 'O' and t[1] == b'' and o[1] == 400
                            yield {'kind': 'oracle', 'what': 'front-ends disagree on the same input and configuration: %s' % json.dumps(dis)[:700],
                                   'case': {'history': h, 'index': i, 'class': 'server-empty-output' if empty else 'disagree',
                                            'library_output_len': len(t[1]) if t[0] == 'O' else None, 'http_status': o[1], 'http_body': o[3].decode('utf-8', 'replace')[:200]},
                                   'observed': dis['b'], 'expected': dis['a']}
                mreqs.append('H:%s:%d' % (inp.hex(), 1 if r['meta'] else 0))
            else:
                before = snapshot(d)
                cf = resolve(d, r['file']) if r['file'] != '-' else None
                co = resolve(d, r['output']) if r['output'] != '-' else None
                for sp, c in ((r['file'], cf), (r['output'], co)):
                    if sp != '-':
                        spellings[sp] = c
                inp = r['stdin'].encode('utf-8') if r['file'] == '-' else (before.get(cf) if cf is not None else None)
                if inp is not None:
                    t = meas.get(inp, r['cfg'])
                    if t[0] != 'X':
                        tbl[(inp, enc_cfg(r['cfg']))] = t
                fpath = os.path.join(d, r['file'].replace('@ABS@', d)); opath = os.path.join(d, r['output'].replace('@ABS@', d))
                is_same = r['file'] != '-' and r['output'] != '-' and os.path.exists(fpath) and os.path.exists(opath) and \
                    (cf in before) and os.path.samefile(fpath, opath)
                o = run_cli(lib, d, r)
                after = snapshot(d)
                tmp_left = os.listdir(os.path.join(d, '.tmp'))
                if inp is not None and t[0] == 'X':
                    env['unmeasurable'] += 1; obs.append(None)
                else:
                    obs.append(('C', o[1], o[2], canon_dbg(o[3])))
                if tmp_left:
                    yield {'kind': 'correspondence', 'what': 'temporary file left behind by the command: %s' % tmp_left, 'case': {'history': h, 'index': i},
                           'observed': tmp_left, 'expected': []}
                    for x in tmp_left:
                        os.remove(os.path.join(d, '.tmp', x))
                # ---- oracle, directly on what the command did
                hard = is_same and cf != co
                failed = o[1] != 0
                dd = ctx['stats']['distribution']
                for flag, name in ((is_same and not hard, 'cli: -o names the input (same / symlink / dotted / absolute spelling)'), (hard, 'cli: -o is a hard link of the input (K22 class)'),
                                   (inp is None, 'cli: input missing'), (r['output'] != '-' and co is None, 'cli: output directory missing'),
                                   (inp is not None and failed and r['output'] != '-' and co in before and not is_same, 'cli: failing transform with an existing output file'),
                                   (inp is not None and t[0] == 'E' and t[1] != b'', 'cli: failing transform that had already written output')):
                    if flag:
                        dd[name] = dd.get(name, 0) + 1
                if failed and (o[1] == 'timeout' or not o[3].strip()):
                    yield {'kind': 'oracle', 'what': 'command failed without a message (exit %s, stderr %r)' % (o[1], o[3][:100]),
                           'case': {'history': h, 'index': i, 'class': 'no-message'}, 'observed': show(o), 'expected': 'non-zero exit status with a message'}
                if failed and after != before:
                    ch = sorted(n for n in set(before) | set(after) if before.get(n) != after.get(n))
                    yield {'kind': 'oracle', 'what': 'a failed command (exit %s: %s) changed files: %s' % (o[1], o[3].decode('utf-8', 'replace')[:120], [(n, show(before.get(n)), show(after.get(n))) for n in ch][:3]),
                           'case': {'history': h, 'index': i, 'class': 'damage'}, 'observed': {n: show(after.get(n)) for n in ch}, 'expected': {n: show(before.get(n)) for n in ch}}
                if is_same and (not failed or after != before):
                    yield {'kind': 'oracle', 'what': 'the command did not refuse to write over its own input: svgdx %s -o %s (exit %s); %s is now %s' % (
                               r['file'], r['output'], o[1], cf, show(after.get(cf))),
                           'case': {'history': h, 'index': i, 'class': 'hardlink-overwrite' if hard else 'same-file-not-refused', 'file': r['file'], 'output': r['output'],
                                    'canon_file': cf, 'canon_output': co},
                           'observed': {'exit': o[1], cf: show(after.get(cf))}, 'expected': 'refusal: non-zero exit, files untouched'}
                eligible = inp is not None and not is_same and (r['output'] == '-' or co is not None) and t[0] != 'X' and o[1] != 'timeout'
                if eligible:
                    if failed:
                        deliv = None
                    elif r['output'] == '-':
                        deliv = o[2]
                    else:
                        deliv = after.get(co)
                    agree.add(inp, r['cfg'], 'fresh-process library', t[1] if t[0] == 'O' else None, 'measurement')
                    dis = agree.add(inp, r['cfg'], 'svgdx command (%s -> %s)' % ('stdin' if r['file'] == '-' else 'file', 'stdout' if r['output'] == '-' else 'file'), deliv, where)
                    if dis:
                        yield {'kind': 'oracle', 'what': 'front-ends disagree on the same input and configuration: %s' % json.dumps(dis)[:700],
                               'case': {'history': h, 'index': i, 'class': 'disagree'}, 'observed': dis['b'], 'expected': dis['a']}
                mreqs.append('C:%s:%s:%s:%s' % (hx(r['file']), hx(r['output']), r.get('stdin', '').encode('utf-8').hex(), hx(enc_cfg(r['cfg']))))
        conn.close()
        final = snapshot(d)
        if not server.alive():
            yield {'kind': 'oracle', 'what': 'the server process died during the history', 'case': {'history': h, 'class': 'server-died'}, 'observed': 'exit %s' % server.p.poll(), 'expected': 'alive'}
        # ---- model
        probes = sorted(set(snap0) | set(final) | set(c for c in spellings.values() if c is not None))
        case = Case(env['hid'], 'front', [
            ','.join('%s:%s:%s' % (k[0].hex(), hx(k[1]), enc_tres(t)) for k, t in tbl.items()),
            hx(enc_cfg({})), hx(enc_cfg({'add_metadata': True})),
            ','.join('%s:%s' % (hx(sp), hx(c)) for sp, c in sorted(spellings.items()) if c is not None),
            ','.join('%s:%s' % (hx(a), hx(b)) for a, b in same_pairs),
            hx(ENOENT_DBG),
            ','.join('%s:%s' % (hx(n), b.hex()) for n, b in sorted(snap0.items())),
            ','.join(mreqs), ','.join(hx(p) for p in probes)])
        env['last'] = {'case': case, 'obs': obs, 'final': final, 'probes': probes, 'history': h}
    finally:
        shutil.rmtree(d, ignore_errors=True)


def compare_with_model(batch, ctx):
    """batch: list of env['last'] records. yields correspondence violations; returns number compared via ctx stats"""
    lib = ctx['lib']; st = ctx['stats']
    if not ctx['model_ok'] or not batch:
        return
    res = lib.run_model([b['case'] for b in batch], shards=6)
    for b in batch:
        m = res.get(b['case'].id)
        h = b['history']
        if not m or m[0] != 'OK':
            yield {'kind': 'correspondence', 'what': 'the model did not evaluate history %s: %s' % (b['case'].id, m), 'case': {'history': h}, 'observed': None, 'expected': m}
            continue
        mobs = [dec_obs(x) for x in m[1].split(';')] if len(m) > 1 and m[1] else []
        mfiles = (m[2].split(',') if len(m) > 2 and m[2] else [])
        if len(mobs) != len(b['obs']):
            yield {'kind': 'correspondence', 'what': 'model produced %d observations for %d requests' % (len(mobs), len(b['obs'])), 'case': {'history': h}, 'observed': len(b['obs']), 'expected': len(mobs)}
            continue
        bad = False
        for i, (io, mo) in enumerate(zip(b['obs'], mobs)):
            if io is None:
                continue
            st['traces_validated_against_impl'] += 1
            if tuple(io) != tuple(mo):
                bad = True
                yield {'kind': 'correspondence', 'what': 'model and implementation disagree on request %d (%s) of history %s: implementation %s, model %s' % (
                           i, json.dumps(h['requests'][i])[:300], b['case'].id, show(io), show(mo)),
                       'case': {'history': h, 'index': i}, 'observed': show(io), 'expected': show(mo)}
                break
        if bad:
            continue
        mfinal = {}
        for p, v in zip(b['probes'], mfiles):
            if v.startswith('='):
                mfinal[p] = bytes.fromhex(v[1:])
        if mfinal != b['final']:
            ch = sorted(n for n in set(mfinal) | set(b['final']) if mfinal.get(n) != b['final'].get(n))
            yield {'kind': 'correspondence', 'what': 'final files differ between model and implementation in history %s: %s' % (
                       b['case'].id, [(n, show(b['final'].get(n)), show(mfinal.get(n))) for n in ch][:3]),
                   'case': {'history': h}, 'observed': {n: show(b['final'].get(n)) for n in ch}, 'expected': {n: show(mfinal.get(n)) for n in ch}}


def nontrivial(h, obs):
    fes = set(r['fe'] for r in h['requests'])
    ok = fail = 0
    for o in obs:
        if o is None:
            continue
        f = (o[0] in ('LE', 'SE')) or (o[0] == 'C' and o[1] != 0) or (o[0] == 'H' and o[1] != 200)
        fail += f; ok += (not f)
    return len(fes) >= 2 and ok >= 1 and fail >= 1


# ------------------------------------------------------------------------------------------------ concurrency
def concurrent_phase(ctx, env, docs, n_req, rounds):
    lib = ctx['lib']; rng = ctx['rng']; server = env['server']; meas = env['meas']; st = ctx['stats']; agree = env['agree']
    for rd in range(rounds):
        nthreads = rng.range(8, 32)
        # ---- server
        reqs = [(rng.choice(docs).encode('utf-8'), rng.chance(0.3)) for _ in range(n_req)]
        meas.ensure([(inp, {'add_metadata': True} if m else {}) for inp, m in reqs])
        results = [None] * len(reqs); nxt = [0]; lock = threading.Lock(); bar = threading.Barrier(nthreads)

        def worker():
            c = server.conn()
            bar.wait()
            while True:
                with lock:
                    i = nxt[0]; nxt[0] += 1
                if i >= len(reqs):
                    break
                results[i] = server.post(reqs[i][0], reqs[i][1], conn=c)
                if results[i][1] == 'noresponse':
                    c = server.conn()
            c.close()
        ths = [threading.Thread(target=worker) for _ in range(nthreads)]
        for t in ths: t.start()
        for t in ths: t.join()
        # ---- library from threads
        lreqs = [(rng.choice(['s', 'm']), rng.choice(CFG_CHOICES), rng.choice(docs).encode('utf-8')) for _ in range(n_req)]
        meas.ensure([(inp, cfg) for _, cfg, inp in lreqs])
        out, _ = lib.run_lines(lib.HARNESS_BIN, ['120000'], ['c\tfe_conc\t%d\t%s' % (nthreads, ','.join('%s:%s:%s' % (k, enc_cfg(cfg), inp.hex()) for k, cfg, inp in lreqs))], timeout=300)
        lr = out.get('c') or []
        lparts = lr[1].split(';') if len(lr) > 1 and lr[0] == 'OK' else []
        # ---- model: the same requests as one sequential history (order is irrelevant: pure_request_history_independent)
        tbl = {}; mreqs = []; obs = []
        hist = {'files': {}, 'requests': [], 'concurrent_threads': nthreads}
        for (inp, m), o in zip(reqs, results):
            cfg = {'add_metadata': True} if m else {}
            t = meas.get(inp, cfg)
            hist['requests'].append({'fe': 'http', 'doc': inp.decode('utf-8'), 'meta': m})
            mreqs.append('H:%s:%d' % (inp.hex(), 1 if m else 0))
            if t[0] == 'X':
                obs.append(None); continue
            tbl[(inp, enc_cfg(cfg))] = t
            obs.append(o)
            i = len(obs) - 1
            if o[1] not in (200, 400):
                yield {'kind': 'oracle', 'what': 'server under %d concurrent clients answered neither 200 nor 400: %s; alive: %s' % (nthreads, show(o), server.alive()),
                       'case': {'history': hist, 'index': i, 'class': 'http-status'}, 'observed': show(o), 'expected': '200 or 400'}
                continue
            agree.add(inp, cfg, 'fresh-process library', t[1] if t[0] == 'O' else None, 'measurement')
            dis = agree.add(inp, cfg, 'server, %d concurrent clients' % nthreads, o[3] if o[1] == 200 else None, 'concurrent round %d request %d' % (rd, i))
            if dis:
                empty = t[0] == 'O' and t[1] == b'' and o[1] == 400
                yield {'kind': 'oracle', 'what': 'front-ends disagree on the same input and configuration: %s' % json.dumps(dis)[:700],
                       'case': {'history': hist, 'index': i, 'class': 'server-empty-output' if empty else 'disagree',
                                'library_output_len': len(t[1]) if t[0] == 'O' else None, 'http_status': o[1], 'http_body': o[3].decode('utf-8', 'replace')[:200]},
                       'observed': dis['b'], 'expected': dis['a']}
        if len(lparts) != len(lreqs):
            yield {'kind': 'oracle', 'what': 'library calls from %d threads did not all return: %s' % (nthreads, lr[:1]), 'case': {'history': hist, 'class': 'threads'},
                   'observed': lr[:1], 'expected': '%d results' % len(lreqs)}
        else:
            for (k, cfg, inp), part in zip(lreqs, lparts):
                fe = 'str' if k == 's' else 'stream'
                res = parse_lib(part.split(':'))
                t = meas.get(inp, cfg)
                hist['requests'].append({'fe': fe, 'doc': inp.decode('utf-8'), 'cfg': cfg})
                mreqs.append('%s:%s:%s' % ('S' if k == 's' else 'M', inp.hex(), hx(enc_cfg(cfg))))
                if t[0] == 'X' or res[0] == 'X':
                    obs.append(None); continue
                tbl[(inp, enc_cfg(cfg))] = t
                obs.append(lib_obs(fe, res))
                agree.add(inp, cfg, 'fresh-process library', t[1] if t[0] == 'O' else None, 'measurement')
                dis = agree.add(inp, cfg, 'library transform_%s, %d threads' % (fe, nthreads), res[1] if res[0] == 'O' else None, 'concurrent round %d' % rd)
                if dis:
                    yield {'kind': 'oracle', 'what': 'front-ends disagree on the same input and configuration: %s' % json.dumps(dis)[:700],
                           'case': {'history': hist, 'index': len(obs) - 1, 'class': 'disagree'}, 'observed': dis['b'], 'expected': dis['a']}
        # ---- transform_file from the same threads, every request between two files of its own: each output file must hold
        #      exactly what transform_str returns for that input and configuration
        freqs = [(rng.choice(CFG_CHOICES), rng.choice(docs).encode('utf-8')) for _ in range(n_req)]
        meas.ensure([(inp, cfg) for cfg, inp in freqs])
        fout, _ = lib.run_lines(lib.HARNESS_BIN, ['120000'], ['f\tfe_conc\t%d\t%s' % (nthreads, ','.join('f:%s:%s' % (enc_cfg(cfg), inp.hex()) for cfg, inp in freqs))], timeout=300)
        fr = fout.get('f') or []
        fparts = fr[1].split(';') if len(fr) > 1 and fr[0] == 'OK' else []
        if len(fparts) != len(freqs):
            yield {'kind': 'oracle', 'what': 'transform_file calls from %d threads did not all return: %s' % (nthreads, fr[:1]), 'case': {'class': 'threads'}, 'observed': fr[:1], 'expected': '%d results' % len(freqs)}
        else:
            for (cfg, inp), part in zip(freqs, fparts):
                res = parse_lib(part.split(':')); t = meas.get(inp, cfg)
                st['evaluations'] += 1
                if t[0] == 'X' or res[0] == 'X':
                    continue
                same = (t[0] == 'O' and res[0] == 'O' and t[1] == res[1]) or (t[0] == 'E' and res[0] == 'E')
                if not same:
                    yield {'kind': 'oracle', 'what': 'transform_file run from %d threads at once (separate files per call) left something else in its output file than transform_str returns: config %s, input %r: %s vs %s'
                           % (nthreads, cfg, inp[:300], (res[0], res[1][:200] if len(res) > 1 else None), (t[0], t[1][:200] if len(t) > 1 else None)),
                           'case': {'class': 'file-concurrent', 'cfg': cfg, 'input': inp.decode('utf-8', 'replace')}, 'observed': str(res[:2])[:600], 'expected': str(t[:2])[:600]}
                    break
        st['evaluations'] += len(obs)
        case = Case('conc%d' % rd, 'front', [
            ','.join('%s:%s:%s' % (k[0].hex(), hx(k[1]), enc_tres(t)) for k, t in tbl.items()),
            hx(enc_cfg({})), hx(enc_cfg({'add_metadata': True})), '', '', hx(ENOENT_DBG), '', ','.join(mreqs), ''])
        for v in compare_with_model([{'case': case, 'obs': obs, 'final': {}, 'probes': [], 'history': hist}], ctx):
            yield v
        st['distribution']['concurrent_requests'] = st['distribution'].get('concurrent_requests', 0) + len(obs)
        st['distribution']['threads_%d' % nthreads] = st['distribution'].get('threads_%d' % nthreads, 0) + 1
    # liveness after everything that failed
    o = server.post(b'<svg><rect wh="3"/></svg>', False)
    if not server.alive() or o[1] != 200:
        yield {'kind': 'oracle', 'what': 'the server no longer serves a valid document after the failing requests: %s' % (show(o),),
               'case': {'class': 'server-died'}, 'observed': show(o), 'expected': 200}


# ------------------------------------------------------------------------------------------------ entry points
def run(ctx):
    rng = ctx['rng']; lib = ctx['lib']; st = ctx['stats']; dist = st['distribution']
    quick = ctx['tier'] == 'quick'
    root = tempfile.mkdtemp(prefix='svgdx-c07-')
    server = Server(lib)
    env = {'server': server, 'meas': Measure(lib), 'agree': Agreement(), 'root': root, 'unmeasurable': 0, 'hid': '', 'last': None}
    try:
        hists = []
        replay = ctx.get('replay')
        if replay:
            j = json.load(open(replay))
            hh = j.get('violation', j).get('case', j).get('history') if 'history' not in j else j['history']
            if hh and 'files' in hh:
                hists.append(hh)
        else:
            # committed corpus first
            cdir = os.path.join(lib.VERIF, 'corpus', 'C07')
            for fn in sorted(os.listdir(cdir)) if os.path.isdir(cdir) else []:
                if fn.endswith('.json'):
                    hists.append(json.load(open(os.path.join(cdir, fn)))['history'])
            docs = doc_pool(rng, 60 if quick else 600)
            # real documents: the repository's examples (larger; loops, reuse, themes, variables)
            exdir = os.path.join(lib.REPO, 'examples')
            exs = sorted(f for f in os.listdir(exdir) if f.endswith('.xml')) if os.path.isdir(exdir) else []
            for fn in (rng.sample(exs, min(8, len(exs))) if quick else exs):
                try:
                    t = open(os.path.join(exdir, fn), encoding='utf-8').read()
                except (OSError, UnicodeDecodeError):
                    continue
                if len(t) < 6000:
                    docs.append(t)
            dist['documents_in_pool'] = len(docs)
            for i in range(250 if quick else 4000):
                hists.append(gen_history(rng, docs, rng.range(5, 40), with_hardlink=rng.chance(0.25)))
        seen = set(); batch = []
        for hi, h in enumerate(hists):
            env['hid'] = 'h%d' % hi; env['last'] = None
            for v in execute_history(h, ctx, env):
                yield v
            b = env['last']
            if b is None:
                continue
            st['evaluations'] += len(h['requests'])
            for r in h['requests']:
                key = r['fe'] if r['fe'] != 'cli' else 'cli:%s->%s' % ('stdin' if r['file'] == '-' else 'file', 'stdout' if r['output'] == '-' else 'file')
                dist[key] = dist.get(key, 0) + 1
            for o in b['obs']:
                if o is not None:
                    f = (o[0] in ('LE', 'SE')) or (o[0] == 'C' and o[1] != 0) or (o[0] == 'H' and o[1] != 200)
                    dist['failed' if f else 'succeeded'] = dist.get('failed' if f else 'succeeded', 0) + 1
            hk = hashlib.sha256(json.dumps(h, sort_keys=True).encode()).hexdigest()
            if hk not in seen and nontrivial(h, b['obs']):
                seen.add(hk); st['distinct_nontrivial'] += 1
            if len(st['samples']) < 3:
                st['samples'].append({'requests': h['requests'][:4], 'observations': [show(o) for o in b['obs'][:4]]})
            batch.append(b)
            if len(batch) >= 50:
                for v in compare_with_model(batch, ctx):
                    yield v
                batch = []
        for v in compare_with_model(batch, ctx):
            yield v
        if not replay:
            for v in concurrent_phase(ctx, env, docs, 400 if quick else 2500, 4 if quick else 10):
                yield v
        dist['distinct_input_config_pairs_measured'] = len(env['meas'].t)
        dist['unmeasurable'] = env['unmeasurable']
    finally:
        server.stop()
        shutil.rmtree(root, ignore_errors=True)


def classify(v, known):
    """K11: server + library output empty + 400 'Error: Empty response'.  K22: -o names a hard link of the input."""
    c = v.get('case') or {}
    if v.get('kind') != 'oracle':
        return None
    ids = set(k.get('id') for k in known)
    if c.get('class') == 'server-empty-output' and c.get('library_output_len') == 0 and c.get('http_status') == 400 \
            and c.get('http_body') == 'Error: Empty response' and 'K11' in ids:
        return 'K11'
    if c.get('class') == 'hardlink-overwrite' and c.get('canon_file') != c.get('canon_output') and c.get('canon_file') is not None \
            and 'K22' in ids:
        h = c.get('history', {})
        links = h.get('hardlinks', {})
        a, b = c.get('canon_file'), c.get('canon_output')
        if links.get(b) == a or links.get(a) == b:
            return 'K22'
    return None


def replay_known(kf, ctx):
    lib = ctx['lib']
    j = json.load(open(os.path.join(lib.VERIF, kf['witness'])))
    root = tempfile.mkdtemp(prefix='svgdx-c07-k-')
    server = Server(lib)
    env = {'server': server, 'meas': Measure(lib), 'agree': Agreement(), 'root': root, 'unmeasurable': 0, 'hid': 'k', 'last': None}
    try:
        vs = list(execute_history(j['history'], ctx, env))
        return any(classify(v, [kf]) == kf['id'] for v in vs)
    finally:
        server.stop()
        shutil.rmtree(root, ignore_errors=True)
