"""C08 Root extent: viewBox, width and height enclose exactly the drawn content."""
import math, os, re, struct
from fractions import Fraction as F
from lib import Case, hx, unhx, enc_attrs, enc_cfg, dec_attrs, doc_case
import xmlcanon
from scene import fmt, dy

DOC_MODEL = True     # every generated document also runs through the composed Coq model of the whole transform
RULE = ('(a) hook write_root_svg on random extents (dyadic, integer, arbitrary and special binary32 values) x root attribute '
        'subsets of {width, height, viewBox, version, xmlns, id, style} with units and malformed values x border x scale: '
        'attribute list compared as ordered text with the extracted Coq model; (b) whole documents of positioned shapes '
        '(rect circle ellipse line polyline polygon path-with-line-segments image), nested groups with translate/scale '
        'transforms, use (also of symbols, groups, forward references), box, point, standalone text, clip paths (in and '
        'outside defs), defs/specs/symbol/marker/mask/pattern content, shape text, relative positions, negative and '
        'fractional (dyadic) coordinates x all subsets of supplied root width/height/viewBox with units x border in '
        '{0,1,5,12} x scale in {0.5,1,2.5}: accumulated extent (hook doc_extent, bit patterns) and the root start tag '
        'compared with the model; oracle: extent E recomputed in exact rationals from the geometry of the OUTPUT '
        '(SVG semantics: shape attributes, text anchor, clip-path then transform, use = target moved by x,y; boxes taken '
        'from the input) and compared with the root viewBox / width / height / version / xmlns. '
        'non-trivial = distinct document with at least one rendered element that has an extent')
THEOREM_NOTES = ('Props/C08.v: root_attrs_spec, root_attrs_total, viewbox_is_four_numbers, root_tables, derived_dimension_keeps_aspect, '
                 'round_outward_encloses, expand_monotone, expand_encloses, viewbox_encloses_extent, viewbox_monotone, builder_is_union, '
                 'process_tags_each_tag_once, accumulated_extent_is_union, union_same_members_same_extent, union_order_independent, '
                 'union_repetition_independent, process_tags_fuel, no_retry_is_document_order, unrendered_add_nothing, '
                 'group_extent_is_transformed_union, scale_nonneg_wellformed, document_root_partial, extent_matches_structure_partial, '
                 'document_extent_partial')
ASSUMPTIONS = ['geometry theorems are on exact rationals; the binary32 instance is tied by the bit-exact correspondence',
               'the aspect-ratio clause is checked by the oracle only when the rounded extent has positive width and height',
               'rotate/skew/matrix transforms and curved path segments are outside the generated documents (the code ignores them / uses end points)']
TOL = F(6, 10000)


def bits(x):
    return struct.unpack('<I', struct.pack('<f', x))[0]


# ------------------------------------------------------------------------------------------------
# input documents
class N:
    __slots__ = ('name', 'attrs', 'kids', 'empty', 'text')

    def __init__(self, name, attrs, kids=None, empty=None, text=None):
        self.name = name; self.attrs = list(attrs); self.kids = kids or []; self.text = text
        self.empty = (not self.kids and text is None) if empty is None else empty

    def get(self, k):
        return dict(self.attrs).get(k)

    def walk(self):
        yield self
        for k in self.kids:
            yield from k.walk()


def to_xml(n, pretty=False, ind=0):
    a = ''.join(' %s="%s"' % (k, xmlcanon.esc_attr(v)) for k, v in n.attrs)
    pad = ('\n' + '  ' * ind) if pretty else ''
    if n.empty:
        return '%s<%s%s/>' % (pad, n.name, a)
    if n.text is not None:
        return '%s<%s%s>%s</%s>' % (pad, n.name, a, xmlcanon.esc_text(n.text), n.name)
    inner = ''.join(to_xml(k, pretty, ind + 1) for k in n.kids)
    return '%s<%s%s>%s%s</%s>' % (pad, n.name, a, inner, pad if n.kids else '', n.name)


def to_model(n, out):
    out.append('%s|%s|%s|%s|%d' % (hx(n.name), enc_attrs(n.attrs), 'E' if n.empty else 'C',
                                   hx(n.text) if n.text is not None else '-', len(n.kids)))
    for k in n.kids:
        to_model(k, out)
    return out


# ------------------------------------------------------------------------------------------------
# the independent recomputation of the extent from output geometry (exact rationals)
class Unsupported(Exception):
    pass


NOEXT = {'defs', 'symbol', 'clipPath', 'marker', 'mask', 'pattern', 'style', 'title', 'desc', 'metadata', 'script',
         'linearGradient', 'radialGradient', 'filter', 'point', 'box', 'specs', 'config'}
GROUPS = {'g', 'a', 'switch'}


def num(s):
    try:
        return F(s.strip())
    except (ValueError, ZeroDivisionError, AttributeError):
        raise Unsupported('number %r' % (s,))


def union(bs):
    bs = [b for b in bs if b is not None]
    if not bs:
        return None
    return (min(b[0] for b in bs), min(b[1] for b in bs), max(b[2] for b in bs), max(b[3] for b in bs))


def intersect(a, b):
    r = (max(a[0], b[0]), max(a[1], b[1]), min(a[2], b[2]), min(a[3], b[3]))
    return r if r[2] >= r[0] and r[3] >= r[1] else None


def path_box(d):
    toks = re.findall(r'[A-Za-z]|-?[0-9]*\.?[0-9]+', d)
    pts = []; cur = (F(0), F(0)); start = None; cmd = None; i = 0
    while i < len(toks):
        t = toks[i]
        if re.fullmatch(r'[A-Za-z]', t):
            cmd = t; i += 1
            if cmd in 'Zz':
                if start is not None:
                    cur = start; pts.append(cur)
                cmd = None
            continue
        if cmd is None:
            raise Unsupported('path ' + d)
        if cmd in 'MLT' or cmd in 'mlt':
            x, y = num(toks[i]), num(toks[i + 1]); i += 2
            cur = (x, y) if cmd.isupper() else (cur[0] + x, cur[1] + y)
        elif cmd in 'Hh':
            x = num(toks[i]); i += 1
            cur = (x if cmd == 'H' else cur[0] + x, cur[1])
        elif cmd in 'Vv':
            y = num(toks[i]); i += 1
            cur = (cur[0], y if cmd == 'V' else cur[1] + y)
        else:
            raise Unsupported('path command ' + cmd)
        if start is None:
            start = cur
        pts.append(cur)
    if not pts:
        return None
    return (min(p[0] for p in pts), min(p[1] for p in pts), max(p[0] for p in pts), max(p[1] for p in pts))


def shape_box(name, d):
    g = lambda k: num(d.get(k, '0'))
    if name in ('rect', 'image', 'foreignObject'):
        if 'width' not in d or 'height' not in d:
            return None
        x, y = g('x'), g('y')
        return (x, y, x + num(d['width']), y + num(d['height']))
    if name == 'circle':
        if 'r' not in d:
            return None
        r = num(d['r']); return (g('cx') - r, g('cy') - r, g('cx') + r, g('cy') + r)
    if name == 'ellipse':
        if 'rx' not in d or 'ry' not in d:
            return None
        rx, ry = num(d['rx']), num(d['ry']); return (g('cx') - rx, g('cy') - ry, g('cx') + rx, g('cy') + ry)
    if name == 'line':
        xa, ya, xb, yb = g('x1'), g('y1'), g('x2'), g('y2')
        return (min(xa, xb), min(ya, yb), max(xa, xb), max(ya, yb))
    if name in ('polyline', 'polygon'):
        if 'points' not in d:
            return None
        v = [num(t) for t in d['points'].replace(',', ' ').split()]
        if len(v) < 2:
            return None
        xs, ys = v[0::2], v[1::2][:len(v) // 2]
        return (min(xs), min(ys), max(xs), max(ys)) if ys else None
    if name == 'path':
        return path_box(d['d']) if 'd' in d else None
    if name == 'text':
        return (g('x'), g('y'), g('x'), g('y'))
    return None


def parse_transform(s):
    out = []
    for m in re.finditer(r'\s*,?\s*([A-Za-z]+)\s*\(([^)]*)\)', s):
        args = [num(t) for t in re.split(r'[\s,]+', m.group(2).strip()) if t]
        nm = m.group(1)
        if nm == 'translate' and len(args) in (1, 2):
            out.append(('t', args[0], args[1] if len(args) == 2 else F(0)))
        elif nm == 'scale' and len(args) in (1, 2):
            out.append(('s', args[0], args[1] if len(args) == 2 else args[0]))
        else:
            raise Unsupported('transform ' + s)
    return out


def apply_transform(ts, b, raw=False):
    for t in reversed(ts):
        if t[0] == 't':
            b = (b[0] + t[1], b[1] + t[2], b[2] + t[1], b[3] + t[2])
        else:
            xs = (b[0] * t[1], b[2] * t[1]); ys = (b[1] * t[2], b[3] * t[2])
            b = (xs[0], ys[0], xs[1], ys[1]) if raw else (min(xs), min(ys), max(xs), max(ys))
    return b


class Env:
    """output tree + what is only known from the input: the boxes (by parent id), which text elements were
    generated for a shape (no id), shapes written with an end tag; quirks = known-defect semantics switched on"""

    def __init__(self, root, boxes, endtag_ids, quirks=()):
        self.ids = {}
        self.order = {id(n): i for i, n in enumerate(root.iter())}
        for n in root.iter():
            i = dict(n.attrs).get('id')
            if i is not None and i not in self.ids:
                self.ids[i] = n
        self.boxes = boxes; self.endtag = set(endtag_ids); self.q = set(quirks); self.depth = 0


def ext(n, env, referenced_by=None):
    """extent of what the element renders, in its parent's coordinate system"""
    d = dict(n.attrs); nm = n.name
    if nm in NOEXT:
        return None
    r = _ext(n, d, env)
    if referenced_by is not None and ('K44' in env.q or 'K44*' in env.q) and 'clip-path' in d:
        # known defect: the copy made by <use> is counted unclipped when the target's clip path hides it
        # completely, or when the clipPath element comes after the target in the document (the target fails
        # its first pass, stays registered unclipped, and the use is evaluated on that registration);
        # K44* = unclipped whenever the target is clipped (nested retries can produce that as well)
        m = re.fullmatch(r'\s*url\(#(.*)\)\s*', d['clip-path'])
        c = env.ids.get(m.group(1)) if m else None
        if 'K44*' in env.q or r is None or (c is not None and env.order[id(c)] > env.order[id(n)]):
            d.pop('clip-path')
            r = _ext(n, d, env)
    return r


def _ext(n, d, env):
    nm = n.name
    env.depth += 1
    if env.depth > 60:
        raise Unsupported('reference depth')
    try:
        if nm in GROUPS or nm == 'svg':
            b = kids_ext(n, env)
        elif nm == 'use':
            h = d.get('href', d.get('xlink:href', ''))
            t = env.ids.get(h[1:]) if h.startswith('#') else None
            b = ref_ext(t, env, n) if t is not None else None
            if b is not None:
                dx, dy_ = num(d.get('x', '0')), num(d.get('y', '0'))
                b = (b[0] + dx, b[1] + dy_, b[2] + dx, b[3] + dy_)
        elif nm == 'text':
            b = shape_box(nm, d) if d.get('id') is not None else None      # generated text carries no id
        else:
            b = shape_box(nm, d)
            if 'K43' in env.q and d.get('id') in env.endtag:
                b = None
        return place(n, d, b, env)
    finally:
        env.depth -= 1


def kids_ext(n, env):
    is_root = n.parent is None or n.parent.name == '#doc'
    i = None if is_root else dict(n.attrs).get('id')
    bs = [ext(k, env) for k in n.children]
    if is_root or i is not None:
        bs += list(env.boxes.get(i, []))       # invisible <box> elements, known from the input only
    return union(bs)


def place(n, d, b, env):
    """SVG: the clip path is in the user space of the element, i.e. inside its own transform"""
    if b is None:
        return None
    ts = parse_transform(d['transform']) if 'transform' in d else []
    if n.name == 'use' and 'K42' in env.q:
        ts = []
    raw = 'K40' in env.q
    cp = d.get('clip-path')
    cb = None
    if cp is not None:
        m = re.fullmatch(r'\s*url\(#(.*)\)\s*', cp)
        c = env.ids.get(m.group(1)) if m else None
        if c is not None and c.name == 'clipPath':
            cb = place(c, dict(c.attrs), union(ext(k, env) for k in c.children), env)
            if cb is None:
                raise Unsupported('empty clip path')
    if 'K41' in env.q:
        b = apply_transform(ts, b, raw)
        return intersect(b, cb) if cb is not None else b
    if cb is not None:
        b = intersect(b, cb)
        if b is None:
            return None
    return apply_transform(ts, b, raw)


def ref_ext(t, env, use_node):
    """what a <use> of t renders, in the coordinate system of the use"""
    if t.name == 'symbol':
        return place(t, dict(t.attrs), union(ext(k, env) for k in t.children), env)
    return ext(t, env, referenced_by=use_node)


def output_extent(root, boxes, endtag_ids, quirks=()):
    env = Env(root, boxes, endtag_ids, quirks)
    svg = [n for n in root.children if n.name == 'svg']
    if not svg:
        return None
    return kids_ext(svg[0], env)


NUMUNIT = re.compile(r'^\s*(-?(?:[0-9]+\.?[0-9]*|\.[0-9]+))(.*)$', re.S)


def check_root(E, border, scale, supplied, got):
    """supplied / got: dicts of root attributes of the input / output. Returns None or a message."""
    for k in ('width', 'height', 'viewBox', 'version', 'xmlns'):
        if k in supplied and got.get(k) != supplied[k]:
            return 'author-supplied %s="%s" not kept verbatim (output has %r)' % (k, supplied[k], got.get(k))
    if 'xmlns' in supplied:
        return None       # a namespaced root is passed through untouched
    if got.get('version') is None or ('version' not in supplied and got['version'] != '1.1'):
        return 'version missing or not 1.1: %r' % (got.get('version'),)
    if got.get('xmlns') != 'http://www.w3.org/2000/svg':
        return 'xmlns missing or wrong: %r' % (got.get('xmlns'),)
    if E is None:
        for k in ('width', 'height', 'viewBox'):
            if k not in supplied and k in got:
                return 'nothing with an extent is rendered, but %s="%s" was added' % (k, got[k])
        return None
    B = (math.floor(E[0] - border), math.floor(E[1] - border), math.ceil(E[2] + border), math.ceil(E[3] + border))
    W, H = B[2] - B[0], B[3] - B[1]
    if 'viewBox' not in supplied:
        want = [B[0], B[1], W, H]
        try:
            have = [F(t) for t in got.get('viewBox', '').split()]
        except ValueError:
            have = None
        if have != want:
            return 'viewBox is %r; the content extent %s grown by %s and rounded outward is "%s"' % (
                got.get('viewBox'), [float(v) for v in E], border, ' '.join(str(v) for v in want))

    def dim(k, want, unit):
        m = NUMUNIT.match(got.get(k, ''))
        if not m:
            return '%s is %r, expected %s%s' % (k, got.get(k), float(want), unit)
        v = F(m.group(1))
        if m.group(2) != unit or abs(v - want) > TOL + abs(want) * F(1, 2000000):
            return '%s is %r, expected %s%s' % (k, got.get(k), float(want), unit)
        return None
    if 'width' not in supplied and 'height' not in supplied:
        return dim('width', W * scale, 'mm') or dim('height', H * scale, 'mm')
    if W <= 0 or H <= 0:
        return None
    if 'height' not in supplied:
        m = NUMUNIT.match(supplied['width'])
        return dim('height', F(m.group(1)) * H / W, m.group(2))
    if 'width' not in supplied:
        m = NUMUNIT.match(supplied['height'])
        return dim('width', F(m.group(1)) * W / H, m.group(2))
    return None


# ------------------------------------------------------------------------------------------------
# generators
class Gen:
    def __init__(self, rng):
        self.rng = rng; self.n = 0; self.clips = []; self.targets = []; self.boxes = {}; self.endtag = []
        self.features = set(); self.inject = None; self.abs_ids = []

    def nid(self, p):
        self.n += 1
        return '%s%d' % (p, self.n)

    def c(self, lo=-30, hi=60, den=8):
        return dy(self.rng, lo, hi, den)

    def sz(self, den=4):
        return dy(self.rng, 1, 24, den)

    def transform(self, allow_neg=False):
        r = self.rng; parts = []
        for _ in range(r.range(1, 2)):
            if r.chance(0.55):
                a = [fmt(self.c(-20, 30, 4))] + ([fmt(self.c(-20, 30, 4))] if r.chance(0.7) else [])
                parts.append('translate(%s)' % r.choice([' ', ', ', ',']).join(a))
            else:
                s = [r.choice(['0.5', '2', '1.5', '3', '0.25', '1'])] + ([r.choice(['0.5', '2', '1.5', '1'])] if r.chance(0.4) else [])
                if allow_neg:
                    s[0] = '-' + s[0]
                parts.append('scale(%s)' % r.choice([' ', ', ']).join(s))
        if allow_neg and not any(p.startswith('scale(-') for p in parts):
            parts.append('scale(-1 1)')
        return r.choice([' ', '']).join(parts)

    def shape(self, allow_text=True, kinds=None, force_id=False):
        r = self.rng
        k = r.choice(kinds or ['rect', 'rect', 'circle', 'ellipse', 'line', 'polyline', 'polygon', 'path', 'text', 'image'])
        a = []
        sid = self.nid(k[0]) if (force_id or k == 'text' or r.chance(0.5)) else None
        if sid:
            a.append(('id', sid))
        x, y, w, h = self.c(), self.c(), self.sz(), self.sz()
        text = None
        if k in ('rect', 'image'):
            if r.chance(0.15):
                a += [('xy', '%s %s' % (fmt(x), fmt(y))), ('wh', '%s %s' % (fmt(w), fmt(h)))]
            else:
                if r.chance(0.9): a.append(('x', fmt(x)))
                if r.chance(0.9): a.append(('y', fmt(y)))
                a += [('width', fmt(w)), ('height', fmt(h))]
            if k == 'image':
                a.append(('href', 'p.png'))
        elif k == 'circle':
            if r.chance(0.15):
                a += [('cxy', '%s %s' % (fmt(x), fmt(y))), ('r', fmt(w / 2))]
            else:
                a += [('cx', fmt(x)), ('cy', fmt(y)), ('r', fmt(w / 2))]
        elif k == 'ellipse':
            a += [('cx', fmt(x)), ('cy', fmt(y)), ('rx', fmt(w / 2)), ('ry', fmt(h / 2))]
        elif k == 'line':
            x2, y2 = self.c(), self.c()
            if r.chance(0.15):
                a += [('xy1', '%s %s' % (fmt(x), fmt(y))), ('xy2', '%s %s' % (fmt(x2), fmt(y2)))]
            else:
                a += [('x1', fmt(x)), ('y1', fmt(y)), ('x2', fmt(x2)), ('y2', fmt(y2))]
        elif k in ('polyline', 'polygon'):
            pts = [(self.c(), self.c()) for _ in range(r.range(2, 5))]
            sep = r.choice([',', ' '])
            a.append(('points', ' '.join('%s%s%s' % (fmt(px), sep, fmt(py)) for px, py in pts)))
        elif k == 'path':
            d = ['M %s %s' % (fmt(x), fmt(y))]
            for _ in range(r.range(1, 4)):
                c = r.choice('LlHhVv')
                if c in 'Ll':
                    d.append('%s %s %s' % (c, fmt(self.c(-10, 40) if c == 'L' else self.c(-8, 8)), fmt(self.c(-10, 40) if c == 'L' else self.c(-8, 8))))
                else:
                    d.append('%s %s' % (c, fmt(self.c(-10, 40) if c.isupper() else self.c(-8, 8))))
            if r.chance(0.4):
                d.append(r.choice('zZ'))
                if r.chance(0.5):      # segments after a closepath continue from the start point of the path
                    for _ in range(r.range(1, 2)):
                        c = r.choice('lhvm')
                        d.append('%s %s %s' % (c, fmt(self.c(-8, 8)), fmt(self.c(-8, 8))) if c in 'lm' else '%s %s' % (c, fmt(self.c(-8, 8))))
                        if c == 'm':
                            d.append('%s %s' % (r.choice('hv'), fmt(self.c(-8, 8))))
            a.append(('d', ' '.join(d)))
        elif k == 'text':
            a += [('x', fmt(x)), ('y', fmt(y))]
            if r.chance(0.7):
                text = r.choice(['hi', 'label', 'A b'])
            else:
                a.append(('text', r.choice(['yo', 'word'])))
        if allow_text and k in ('rect', 'circle', 'ellipse', 'line') and r.chance(0.12):
            a.append(('text', r.choice(['note', 'a longer label text', 'x'])))
            self.features.add('shape_text')
        if r.chance(0.15):
            a.append(r.choice([('fill', 'red'), ('class', 'd-blue'), ('stroke-width', '2'), ('opacity', '0.5')]))
        if k != 'text' and r.chance(0.10):
            a.append(('transform', self.transform())); self.features.add('shape_transform')
        elif k not in ('text',) and self.clips and r.chance(0.25):
            a.append(('clip-path', 'url(#%s)' % r.choice(self.clips))); self.features.add('clip')
        n = N(k, a, text=text)
        if sid and k != 'text':
            self.targets.append(sid)
            if k in ('rect', 'circle', 'ellipse', 'line', 'image') and not n.get('clip-path'):
                self.abs_ids.append(sid)
        return n

    def clip_path(self):
        r = self.rng
        cid = self.nid('c')
        kids = [self.shape(False, ['rect', 'circle', 'ellipse', 'rect']) for _ in range(r.range(1, 2))]
        for k in kids:    # plain shapes only
            k.attrs = [(a, v) for a, v in k.attrs if a not in ('clip-path',)]
        a = [('id', cid)]
        if r.chance(0.1):
            a.append(('transform', 'translate(%s %s)' % (fmt(self.c(-5, 5, 2)), fmt(self.c(-5, 5, 2)))))
        self.pending_clip = cid
        return N('clipPath', a, kids)

    def group(self, depth, parent_chain):
        r = self.rng
        gid = self.nid('g')
        a = [('id', gid)]
        if r.chance(0.55):
            a.append(('transform', self.transform())); self.features.add('group_transform')
        elif self.clips and r.chance(0.25):
            a.append(('clip-path', 'url(#%s)' % r.choice(self.clips))); self.features.add('clip')
        if r.chance(0.1):
            a.append(('fill', 'none'))
        kids = self.content(r.range(0 if r.chance(0.05) else 1, 4), depth + 1, gid)
        self.targets.append(gid)
        return N('g', a, kids, empty=(not kids and r.chance(0.5)))

    def content(self, count, depth, parent):
        r = self.rng; out = []
        for _ in range(count):
            p = r.below(100)
            if p < 50:
                out.append(self.shape())
            elif p < 64 and depth < 3:
                out.append(self.group(depth, parent)); self.features.add('group' if depth == 0 else 'nested_group')
            elif p < 70:
                x, y, w, h = self.c(), self.c(), self.sz(), self.sz()
                out.append(N('box', [('x', fmt(x)), ('y', fmt(y)), ('width', fmt(w)), ('height', fmt(h))]))
                self.boxes.setdefault(parent, []).append((x, y, x + w, y + h)); self.features.add('box')
            elif p < 75:
                out.append(N('point', [('id', self.nid('p')), ('x', fmt(self.c(-200, 300))), ('y', fmt(self.c(-200, 300)))]))
                self.features.add('point')
            elif p < 80:
                out.append(('use', None))      # placeholder, resolved when all targets are known
            elif p < 84 and depth == 0:
                ks = [self.shape(False) for _ in range(r.range(1, 2))]
                kind = r.choice(['defs', 'defs', 'specs', 'symbol'])
                a = [('id', self.nid('y'))] if kind == 'symbol' else []
                if kind == 'specs':
                    self.targets = [t for t in self.targets if t not in [k.get('id') for k in ks]]
                    self.abs_ids = [t for t in self.abs_ids if t not in [k.get('id') for k in ks]]
                    for k in ks:
                        if not k.get('id'):
                            k.attrs.insert(0, ('id', self.nid('q')))
                        if k.text is not None:        # text content inside specs: keep it simple
                            k.text = None; k.empty = True
                out.append(N(kind, a, ks)); self.features.add(kind)
                if kind == 'symbol':
                    self.targets.append(a[0][1])
            elif p < 90 and depth == 0:
                cp = self.clip_path()
                if r.chance(0.7):
                    out.append(N('defs', [], [cp]))
                else:
                    out.append(cp); self.features.add('clippath_outside_defs')
                self.clips.append(self.pending_clip)
            elif p < 92 and depth == 0:
                kind = r.choice(['marker', 'mask', 'pattern'])
                out.append(N(kind, [('id', self.nid('m'))], [self.shape(False, ['rect', 'circle'])]))
                self.features.add('unrendered_container')
            elif p < 94:
                out.append(N('a', [('href', 'http://x')], [self.shape()])); self.features.add('anchor')
            elif p < 97:
                out.append(('rel', None))      # relatively positioned rect, resolved when all targets are known
            else:
                out.append(self.shape())
        return out

    def resolve_uses(self, kids, chain):
        r = self.rng
        for i, k in enumerate(kids):
            if isinstance(k, tuple) and k[0] == 'rel':
                if not self.abs_ids:
                    kids[i] = self.shape(); continue
                t = r.choice(self.abs_ids)
                spec = r.choice(['#%s|h %s', '#%s|v %s', '#%s|H', '#%s@br %s', '#%s@tl', '#%s@tr %s 1.5']) 
                spec = spec % ((t, fmt(self.c(0, 6, 2))) if spec.count('%s') == 2 else (t,))
                kids[i] = N('rect', [('xy', spec), ('wh', '%s %s' % (fmt(dy(r, 1, 12, 2)), fmt(dy(r, 1, 12, 2))))])
                self.features.add('relative_position')
            elif isinstance(k, tuple):
                cands = [t for t in self.targets if t not in chain and t not in self.use_hosts]
                if not cands:
                    kids[i] = self.shape(); continue
                a = [('href', '#' + r.choice(cands))]
                if r.chance(0.7): a.append(('x', fmt(self.c(-20, 40, 4))))
                if r.chance(0.6): a.append(('y', fmt(self.c(-20, 40, 4))))
                if r.chance(0.3): a.insert(0, ('id', self.nid('u')))
                kids[i] = N('use', a); self.features.add('use')
            elif k.kids:
                self.resolve_uses(k.kids, chain + ([k.get('id')] if k.get('id') else []))

    def mark_use_hosts(self, n, chain):
        """ids of elements that contain a <use> placeholder: never a target (no reference cycles)"""
        found = False
        for k in n.kids if isinstance(n, N) else []:
            if isinstance(k, tuple):
                found = True
            elif self.mark_use_hosts(k, chain):
                found = True
        if found and isinstance(n, N) and n.get('id'):
            self.use_hosts.add(n.get('id'))
        return found

    def document(self):
        r = self.rng
        kids = self.content(r.range(1, 7), 0, None)
        # known-defect features, at most one per document, rarely
        p = r.below(100)
        if p < 2:
            kids.append(N('g', [('id', self.nid('g')), ('transform', self.transform(allow_neg=True))], [self.shape(False, ['rect', 'circle', 'line'])]))
            self.inject = 'K40'
        elif p < 4:
            cp = self.clip_path(); kids.append(cp)
            kids.append(N('g', [('id', self.nid('g')), ('transform', 'translate(%s %s)' % (fmt(self.c(5, 40, 2)), fmt(self.c(5, 40, 2)))),
                               ('clip-path', 'url(#%s)' % self.pending_clip)], [self.shape(False, ['rect', 'circle'])]))
            self.inject = 'K41'
        elif p < 6:
            t = self.shape(False, ['rect', 'circle', 'ellipse'], force_id=True)
            t.attrs = [(a, v) for a, v in t.attrs if a not in ('transform', 'clip-path')]
            kids.append(N('defs', [], [t]))
            kids.append(N('use', [('href', '#' + t.get('id')), ('x', fmt(self.c(0, 10, 2))), ('transform', 'translate(%s %s)' % (fmt(self.c(30, 90, 2)), fmt(self.c(30, 90, 2))))]))
            self.inject = 'K42'
        elif p < 8:
            cid = self.nid('c')     # a clip path that hides the target completely
            kids.append(N('defs', [], [N('clipPath', [('id', cid)], [N('rect', [('x', '200'), ('y', '200'), ('width', '5'), ('height', '5')])])]))
            self.pending_clip = cid
            t = self.shape(False, ['rect', 'ellipse'], force_id=True)
            t.attrs = [(a, v) for a, v in t.attrs if a not in ('transform', 'clip-path')] + [('clip-path', 'url(#%s)' % self.pending_clip)]
            if t.get('id') in self.abs_ids:
                self.abs_ids.remove(t.get('id'))
            kids.append(t)
            kids.append(N('use', [('href', '#' + t.get('id')), ('x', fmt(self.c(30, 90, 2))), ('y', fmt(self.c(30, 90, 2)))]))
            self.inject = 'K44'
        elif p < 10:
            t = self.shape(False, ['rect', 'circle', 'ellipse', 'line'], force_id=True)
            t.attrs = [(a, v) for a, v in t.attrs if a not in ('text',)]
            t.empty = False
            self.targets.remove(t.get('id'))
            if t.get('id') in self.abs_ids:
                self.abs_ids.remove(t.get('id'))
            kids.append(t); self.endtag.append(t.get('id')); self.inject = 'K43'
        top = N('svg', [], kids)
        self.use_hosts = set(); self.mark_use_hosts(top, [])
        self.resolve_uses(kids, [])
        return kids


UNITS = ['cm', 'mm', 'px', 'in', 'pt', '%', '', 'em', ' px']


def root_subset(rng):
    """author-supplied root attributes: every subset of {width, height, viewBox}, version / xmlns sometimes"""
    a = []
    m = rng.below(8)
    if m & 1:
        a.append(('width', fmt(dy(rng, 1, 400, 4)) + rng.choice(UNITS)))
    if m & 2:
        a.append(('height', fmt(dy(rng, 1, 400, 4)) + rng.choice(UNITS)))
    if m & 4:
        a.append(('viewBox', rng.choice(['0 0 100 100', '-10 -10 50 80', '0 0 12.5 7'])))
    if rng.chance(0.15):
        a.append(('version', rng.choice(['1.0', '1.1', '2'])))
    if rng.chance(0.1):
        a.append(rng.choice([('id', 'top'), ('style', 'background: white'), ('data-k', 'v'), ('preserveAspectRatio', 'none')]))
    rng.shuffle(a)
    return a, m


def make_doc(rng, i):
    g = Gen(rng)
    kids = g.document()
    rattrs, mask = root_subset(rng)
    border = rng.choice([0, 1, 5, 12]); scale = rng.choice(['0.5', '1', '2.5'])
    cfg = {'add_auto_styles': rng.chance(0.15)}
    via_config = rng.chance(0.2)
    if via_config:
        kids.insert(0, N('config', [('border', str(border)), ('scale', scale)]))
    else:
        cfg['border'] = border; cfg['scale'] = scale
    real = rng.chance(0.02)
    if real:
        rattrs.append(('xmlns', 'http://www.w3.org/2000/svg'))
    root = N('svg', rattrs, kids, empty=False)
    xml = to_xml(root, pretty=rng.chance(0.3))
    if rng.chance(0.1):
        xml = '<!-- c -->' + xml
    meta = {'xml': xml, 'cfg': cfg, 'border': border, 'scale': scale, 'root': rattrs, 'boxes': {str(k): [[str(v) for v in b] for b in bs] for k, bs in g.boxes.items()},
            'endtag': g.endtag, 'inject': g.inject, 'features': sorted(g.features), 'mask': mask}
    model = ';'.join(to_model(root, []))
    return xml, cfg, model, meta


def hook_cases(rng, n):
    out = []
    specials = [0.0, -0.0, 1e30, -1e30, float('inf'), float('-inf'), float('nan'), 1e-40, 16777216.0, 0.00005, 2147483648.0, -2147483904.0]
    for i in range(n):
        mode = rng.below(10)
        if mode < 4:
            x1 = float(dy(rng, -50, 100)); y1 = float(dy(rng, -50, 100)); bb = [x1, y1, x1 + float(dy(rng, 0, 80)), y1 + float(dy(rng, 0, 80))]
        elif mode < 6:
            bb = [float(rng.range(-100, 100)) for _ in range(2)]; bb += [bb[0] + rng.range(0, 200), bb[1] + rng.range(0, 200)]
        elif mode < 9:
            bb = [struct.unpack('<f', struct.pack('<f', rng.uniform(-3000, 3000)))[0] for _ in range(4)]
            if rng.chance(0.8):
                bb = [min(bb[0], bb[2]), min(bb[1], bb[3]), max(bb[0], bb[2]), max(bb[1], bb[3])]
        else:
            bb = [rng.choice(specials) if rng.chance(0.5) else float(rng.range(-9, 9)) for _ in range(4)]
        bbf = 'none' if rng.chance(0.05) else ','.join(str(bits(v)) for v in bb)
        a = []
        m = rng.below(8)

        def dimval():
            p = rng.below(20)
            if p < 14:
                return fmt(dy(rng, 0, 500, 8)) + rng.choice(UNITS)
            return rng.choice(['x10', '10 20', '1e3', '-5cm', '.5in', '5.', '', ' 12mm ', '1-2px', '10px5', '--3', '3..4', 'auto', '100%', '+4', 'inf', '0', '0cm', '12.5.1em'])
        if m & 1: a.append(('width', dimval()))
        if m & 2: a.append(('height', dimval()))
        if m & 4: a.append(('viewBox', rng.choice(['0 0 100 100', 'x', ''])))
        for k, vs in (('version', ['1.0', '1.1']), ('xmlns', ['http://www.w3.org/2000/svg', 'urn:x']), ('id', ['top']), ('style', ['fill: red']),
                      ('x', ['3']), ('data-a', ['q']), ('href', ['h']), ('r', ['1'])):
            if rng.chance(0.12):
                a.append((k, rng.choice(vs)))
        rng.shuffle(a)
        border = rng.choice([0, 1, 5, 12, rng.range(0, 65535), rng.range(0, 40)])
        sc = rng.choice([0.5, 1.0, 2.5, 1.0, rng.uniform(0.01, 20), 0.0, -1.0, 3.7795277, 1e-5, float('inf') if rng.chance(0.1) else 10.0])
        lid = hx('svgdx-%08x' % rng.below(1 << 32)) if rng.chance(0.1) else '-'
        sty = hx(rng.choice(['background: #eee', 'border: 1px solid'])) if rng.chance(0.1) else '-'
        out.append(Case('h%d' % i, 'rootattrs', [enc_attrs(a), bbf, str(border), str(bits(sc)), lid, sty],
                        {'attrs': a, 'bbox': None if bbf == 'none' else bb, 'border': border, 'scale': sc}))
    return out


def root_of(xml_bytes):
    root, _, err = xmlcanon.parse(xml_bytes)
    if root is None:
        return None, None
    svg = [n for n in root.children if n.name == 'svg']
    return root, (svg[0] if svg else None)


def oracle_doc(meta, out_bytes, quirks=()):
    """returns (message or None, E)"""
    root, svg = root_of(out_bytes)
    if svg is None:
        return 'output has no <svg> root element', None
    boxes = {(None if k == 'None' else k): [tuple(F(v) for v in b) for b in bs] for k, bs in meta['boxes'].items()}
    E = output_extent(root, boxes, meta['endtag'], quirks)
    return check_root(E, meta['border'], F(meta['scale']), dict(meta['root']), dict(svg.attrs)), E


def doc_features(xml, meta):
    """syntactic features of the input that put it into the class of a known finding"""
    root, _, err = xmlcanon.parse(xml)
    fs = set()
    if root is None:
        return fs
    ids = {}
    for n in root.iter():
        i = dict(n.attrs).get('id')
        if i is not None:
            ids.setdefault(i, n)
    for n in root.iter():
        d = dict(n.attrs)
        if 'transform' in d and re.search(r'scale\(\s*(-|[0-9.]+[\s,]+-)', d['transform']):
            fs.add('K40')
        if 'transform' in d and 'clip-path' in d:
            fs.add('K41')
        if n.name == 'use':
            if 'transform' in d:
                fs.add('K42')
            t = ids.get(d.get('href', '#')[1:])
            if t is not None and 'clip-path' in dict(t.attrs):
                fs.add('K44')
    if meta.get('endtag'):
        fs.add('K43')
    return fs


def explain_by_quirk(meta, out_bytes, xml):
    """the smallest set of known-defect semantics, among those whose syntactic feature is present in the
    input, that reproduces the observed root exactly"""
    import itertools
    fs = sorted(doc_features(xml, meta))
    for k in range(1, len(fs) + 1):
        for qs in itertools.combinations(fs, k):
            for variant in ([qs] + ([tuple('K44*' if q == 'K44' else q for q in qs)] if 'K44' in qs else [])):
                try:
                    msg, _ = oracle_doc(meta, out_bytes, variant)
                except Unsupported:
                    continue
                if msg is None:
                    return list(qs)
    return None


def replay(ctx):
    """re-run the case stored in a replay file (check.py C08 --replay <path>)"""
    import json
    lib = ctx['lib']; st = ctx['stats']
    j = json.load(open(ctx['replay']))
    vs = [j['violation']] if 'violation' in j else j.get('correspondence_cases', [])
    for v in vs:
        case = v.get('case', {})
        st['evaluations'] += 1
        if 'xml' in case:
            meta = case['meta']; xml = case['xml']
            rd = lib.run_impl([doc_case('d', xml, case['cfg'])]).get('d')
            print('input   :', xml); print('config  :', case['cfg'], 'border', meta['border'], 'scale', meta['scale'])
            if not rd or rd[0] != 'OK':
                print('observed:', rd)
                yield dict(v, observed=rd); continue
            out = bytes.fromhex(rd[1])
            print('output  :', out.decode('utf-8', 'replace')[:2000])
            if ctx['model_ok']:
                model = case.get('model') or ';'.join(to_model(parse_input(xml), []))
                rm = lib.run_model([Case('d', 'docroot', [model, str(meta['border']), str(bits(float(meta['scale'])))])]).get('d')
                print('model   :', rm[0], rm[1] if len(rm) > 1 else '', dec_attrs(rm[2][1:]) if len(rm) > 2 and rm[2].startswith('A') else '')
            try:
                msg, E = oracle_doc(meta, out)
            except Unsupported as e:
                msg, E = None, None
            print('extent recomputed from the output:', [float(x) for x in E] if E else E)
            print('verdict :', msg or 'property holds on this input')
            if msg:
                yield {'kind': 'oracle', 'what': msg, 'case': case, 'observed': dict(root_of(out)[1].attrs), 'expected': msg,
                       'explained_by': explain_by_quirk(meta, out, xml)}
        elif case.get('kind') == 'rootattrs':
            c = Case.from_json(case)
            i = lib.run_impl([c]).get(c.id); m = lib.run_model([c]).get(c.id) if ctx['model_ok'] else None
            ia = root_of(bytes.fromhex(i[1]) + b'</svg>')[1].attrs if i and i[0] == 'OK' else i
            ma = dec_attrs(m[1]) if m and m[0] == 'OK' and len(m) > 1 else m
            print('case    :', c.meta); print('impl    :', ia); print('model   :', ma)
            if m is not None and (['OK', ia] if i and i[0] == 'OK' else [i[0]]) != (['OK', ma] if m[0] == 'OK' else [m[0]]):
                yield dict(v, observed=ia, expected=ma)


def parse_input(xml):
    """input document -> N tree (for the model encoding in replays)"""
    root, _, err = xmlcanon.parse(xml)

    def conv(n):
        kids = [conv(k) for k in n.children]
        text = n.text if (not kids and n.text.strip()) else None
        raw_empty = re.search(r'<%s\b[^>]*/>' % re.escape(n.name), xml) is not None and not kids and text is None
        ident = dict(n.attrs).get('id')
        if ident is not None and not kids and text is None:
            raw_empty = re.search(r'<%s\b[^>]*\bid="%s"[^>]*[^/]></' % (re.escape(n.name), re.escape(ident)), xml) is None
        return N(n.name, n.attrs, kids, empty=raw_empty, text=text)
    return conv([c for c in root.children if c.name == 'svg'][0])


def run(ctx):
    if ctx.get('replay'):
        yield from replay(ctx)
        return
    rng = ctx['rng']; lib = ctx['lib']; st = ctx['stats']; dist = st['distribution']
    quick = ctx['tier'] == 'quick'
    # ---- (a) write_root_svg hook against the model
    hc = hook_cases(rng.fork('hook'), 4000 if quick else 80000)
    himpl = lib.run_impl(hc)
    hmodel = lib.run_model(hc) if ctx['model_ok'] else {}
    for c in hc:
        st['evaluations'] += 1
        i = himpl.get(c.id); m = hmodel.get(c.id)
        if i and i[0] == 'OK':
            _, svg = root_of(bytes.fromhex(i[1]) + b'</svg>')
            ic = ['OK', svg.attrs if svg is not None else None]
        else:
            ic = [i[0] if i else None]
        if m is not None:
            mc = ['OK', dec_attrs(m[1]) if len(m) > 1 else []] if m[0] == 'OK' else [m[0]]
            st['traces_validated_against_impl'] += 1
            if ic != mc:
                yield {'kind': 'correspondence', 'what': 'write_root_svg: model and implementation disagree on root %s extent %s border %s scale %s'
                       % (c.meta['attrs'], c.meta['bbox'], c.meta['border'], c.meta['scale']), 'case': c.to_json(), 'observed': ic, 'expected': mc}
        k = 'hook:' + ('none' if c.meta['bbox'] is None else 'bbox') + ':' + ''.join(sorted(x[0][0] for x in c.meta['attrs'] if x[0] in ('width', 'height', 'viewBox')))
        dist[k] = dist.get(k, 0) + 1
    # ---- (b) whole documents
    nd = 3000 if quick else 60000
    drng = rng.fork('docs')
    docs = []
    corpus = os.path.join(lib.VERIF, 'corpus', 'C08')
    seen = set()
    for i in range(nd):
        xml, cfg, model, meta = make_doc(drng, i)
        docs.append((i, xml, cfg, model, meta))
    icases = []; mcases = []
    for i, xml, cfg, model, meta in docs:
        icases.append(doc_case('x%d' % i, xml, cfg, meta, kind='docextent'))
        icases.append(doc_case('d%d' % i, xml, cfg, meta))
        mcases.append(Case('d%d' % i, 'docroot', [model, str(meta['border']), str(bits(float(meta['scale'])))], meta))
    impl = lib.run_impl(icases)
    model_r = lib.run_model(mcases) if ctx['model_ok'] else {}
    for (i, xml, cfg, model, meta), mc in zip(docs, mcases):
        st['evaluations'] += 1
        rx = impl.get('x%d' % i); rd = impl.get('d%d' % i); rm = model_r.get('d%d' % i)
        case = {'id': 'd%d' % i, 'xml': xml, 'cfg': cfg, 'meta': meta, 'model': model}
        for f in meta['features']:
            dist[f] = dist.get(f, 0) + 1
        dist['root:%d' % meta['mask']] = dist.get('root:%d' % meta['mask'], 0) + 1
        if meta['inject']:
            dist['inject:' + meta['inject']] = dist.get('inject:' + meta['inject'], 0) + 1
        # correspondence
        if rm is not None:
            st['traces_validated_against_impl'] += 1
            # the sign of a zero coordinate is not compared: f32::min/max leave it unspecified for (+0, -0)
            # and it is not observable in the output (fstr prints "0")
            zs = lambda t: ','.join('0' if v == '2147483648' else v for v in t.split(','))
            iext = zs(rx[1]) if rx and rx[0] == 'OK' else (rx[0] if rx else None)
            if rd and rd[0] == 'OK':
                _, svg = root_of(bytes.fromhex(rd[1]))
                iroot = svg.attrs if svg is not None else None
            else:
                iroot = rd[0] if rd else None
            if rm[0] == 'OK':
                mext = zs(rm[1]); mroot = dec_attrs(rm[2][1:]) if rm[2].startswith('A') else None
                if 'xmlns' in dict(meta['root']):
                    mroot = iroot if mroot is None else mroot     # pass-through document: no root synthesis
            else:
                mext = rm[0]; mroot = rm[0]
            if rm[0] == 'ERR' and not (rd and rd[0] == 'OK'):
                pass      # both reject (error kinds of a MultiError are not compared)
            elif iext != mext or iroot != mroot:
                yield {'kind': 'correspondence', 'what': 'document: model and implementation disagree (extent %s vs %s; root %s vs %s) on %s'
                       % (iext, mext, iroot, mroot, xml[:600]), 'case': case, 'observed': [iext, iroot], 'expected': [mext, mroot]}
        # oracle
        if not rd or rd[0] != 'OK':
            yield {'kind': 'oracle', 'what': 'document of positioned shapes rejected (%s): %s' % (rd, xml[:600]), 'case': case, 'observed': rd, 'expected': 'OK'}
            continue
        try:
            msg, E = oracle_doc(meta, bytes.fromhex(rd[1]))
        except Unsupported as e:
            dist['oracle_skipped'] = dist.get('oracle_skipped', 0) + 1
            continue
        if E is not None and xml not in seen:
            seen.add(xml); st['distinct_nontrivial'] += 1
        if msg:
            yield {'kind': 'oracle', 'what': '%s; border %s scale %s; document %s' % (msg, meta['border'], meta['scale'], xml[:700]),
                   'case': case, 'observed': dict(root_of(bytes.fromhex(rd[1]))[1].attrs), 'expected': msg,
                   'explained_by': explain_by_quirk(meta, bytes.fromhex(rd[1]), xml)}
        if len(st['samples']) < 4 and E is not None and i % 97 == 3:
            st['samples'].append({'doc': xml[:400], 'border': meta['border'], 'scale': meta['scale'], 'extent': [float(v) for v in E],
                                  'root': dict(root_of(bytes.fromhex(rd[1]))[1].attrs)})


def classify(v, known):
    """a known finding is accepted only when (1) the input has the syntactic feature of the class (call site + input
    shape) and (2) the observed root is reproduced exactly by the oracle with exactly those defects' semantics
    switched on (explain_by_quirk searches only among the features present)"""
    if v.get('kind') != 'oracle':
        return None
    qs = v.get('explained_by')
    if qs and all(any(k.get('id') == q for k in known) for q in qs):
        return qs[0]
    return None


def replay_known(kf, ctx):
    lib = ctx['lib']
    xml = open(os.path.join(lib.VERIF, kf['witness'])).read()
    r = lib.run_impl([doc_case('k', xml, {'add_auto_styles': False, 'border': 5, 'scale': '1'})]).get('k')
    if not r or r[0] != 'OK':
        return False
    meta = {'boxes': {}, 'endtag': re.findall(r'<\w+ id="(\w+)"[^>]*[^/]></', xml), 'border': 5, 'scale': '1', 'root': []}
    msg, _ = oracle_doc(meta, bytes.fromhex(r[1]))
    return msg is not None and explain_by_quirk(meta, bytes.fromhex(r[1]), xml) == [kf['id']]
