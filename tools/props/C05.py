"""C05 Output is a fixed point: re-processing svgdx output changes nothing."""
import os, glob
from lib import Case, hx, doc_case, unhx
import xmlcanon, docgen

DOC_MODEL = True     # every generated document also runs through the composed Coq model of the whole transform
RULE = ('generated svgdx documents with root <svg> covering every output-producing feature (generated text with special characters, '
        'tspans, comments incl. _ / __ / debug, CDATA styles, defs, metadata attributes, themes, prologues with trailing white space) and the '
        'repository examples; T_c1(x) is fed back under 2 further random configurations c2 and must succeed and reproduce the bytes; '
        'the second pass is also predicted by the extracted Coq model (read_xml; conv; write_to) and compared byte for byte. '
        'non-trivial = distinct first-pass output containing an escape, a comment or CDATA')
THEOREM_NOTES = ('Props/C05.v: blank_line_remover_idempotent, escape_stable, output_reads_back (all event lists); the full statement '
                 'writer_idempotent (write (conv (read (write es))) = write es for all canonical event lists) is covered up to the attribute '
                 're-sort / class re-split identities, which are exercised by the correspondence and the computed example only')
ASSUMPTIONS = ['the generated root always carries the SVG namespace so the second pass takes the pass-through path (checked by the oracle on every output)']


def run(ctx):
    rng = ctx['rng']; lib = ctx['lib']; st = ctx['stats']; dist = st['distribution']
    quick = ctx['tier'] == 'quick'
    n = 800 if quick else 15000
    docs = []
    for p in sorted(glob.glob(os.path.join(lib.REPO, 'examples', '*.xml'))):
        try:
            docs.append((open(p, encoding='utf-8').read(), 'example:' + os.path.basename(p)))
        except Exception:
            pass
    cdir = os.path.join(lib.VERIF, 'corpus', 'C05')
    for fn in sorted(os.listdir(cdir)) if os.path.isdir(cdir) else []:
        docs.append((open(os.path.join(cdir, fn), encoding='utf-8').read(), 'corpus'))
    for i in range(n):
        d = docgen.gen_doc(rng, text_heavy=rng.chance(0.3))
        kind = 'svgdx'
        if rng.chance(0.25):
            pro = rng.choice(['<?xml version="1.0" encoding="UTF-8"?>', '<!-- c -->', '<!-- a -->\n<!-- b -->', '<?xml version="1.0"?>\n<!-- x -->',
                              'stray text', '<![CDATA[lead]]>', '<!-- c -->\nword '])
            d = pro + rng.choice(['\n', '  \n', ' \t\n\n', '']) + d + rng.choice(['', '\n', '  \n'])
            kind = 'prologue'
        docs.append((d, kind))
    # documents combining every feature (loops, conditionals, reuse, groups: their indentation and tails end up in separate text
    # events of the output, which is where the writer's coalescing matters)
    import docfuzz
    frng = rng.fork('fixpoint-fuzz')
    for i in range(300 if quick else 6000):
        x, _cfg = docfuzz.gen(frng)
        if frng.chance(0.5):      # indented layout: every element on its own line, closing tags indented
            x = x.replace('><', '>\n    <').replace('\n    </', '\n  </')
        docs.append((x, 'fuzz'))
    first = []
    for i, (d, kind) in enumerate(docs):
        c1 = docgen.rand_cfg(rng, local_styles=True)
        first.append(doc_case('f%d' % i, d, c1, {'doc': d, 'cfg': c1, 'kind': kind}))
    r1 = lib.run_impl(first)
    second = []; msecond = []
    outs = {}
    for c in first:
        st['evaluations'] += 1
        r = r1.get(c.id)
        dist[c.meta['kind'].split(':')[0]] = dist.get(c.meta['kind'].split(':')[0], 0) + 1
        if not r or r[0] != 'OK':
            dist['first_pass_err'] = dist.get('first_pass_err', 0) + 1
            continue
        out = unhx(r[1]); outs[c.id] = out
        for j in range(2):
            c2 = docgen.rand_cfg(rng)
            second.append(doc_case('%s_%d' % (c.id, j), out, c2, {'first': c.to_json(), 'cfg2': c2}))
        msecond.append(Case(c.id, 'xmlpass', [hx(out)]))
    r2 = lib.run_impl(second)
    rm = lib.run_model(msecond) if ctx['model_ok'] else {}
    seen = set()
    for c in second:
        st['evaluations'] += 1
        fid = c.id.rsplit('_', 1)[0]
        out = outs[fid]
        if out not in seen:
            seen.add(out)
            if any(x in out for x in ('&', '<!--', 'CDATA')):
                st['distinct_nontrivial'] += 1
        r = r2.get(c.id)
        if not r or r[0] != 'OK':
            yield {'kind': 'oracle', 'what': 'second pass over svgdx output fails: %s (c1=%s c2=%s)' % (r, c.meta['first']['meta']['cfg'], c.meta['cfg2']),
                   'case': c.meta['first'], 'observed': r, 'expected': 'Ok, same bytes', 'first_output': out[:3000]}
            continue
        if unhx(r[1]) != out:
            o2 = unhx(r[1])
            k = next((i for i in range(min(len(o2), len(out))) if o2[i] != out[i]), min(len(o2), len(out)))
            yield {'kind': 'oracle', 'what': 'T(T(x)) differs from T(x) at byte %d: %r vs %r (c1=%s c2=%s)' % (k, out[max(0, k - 30):k + 30], o2[max(0, k - 30):k + 30], c.meta['first']['meta']['cfg'], c.meta['cfg2']),
                   'case': c.meta['first'], 'observed': o2[:3000], 'expected': out[:3000]}
        if len(st['samples']) < 3:
            st['samples'].append({'input': c.meta['first']['meta']['doc'][:300], 'c1': c.meta['first']['meta']['cfg'], 'c2': c.meta['cfg2'], 'T(x)': out[:300]})
    for fid, out in outs.items():
        m = rm.get(fid)
        if m is None:
            continue
        st['traces_validated_against_impl'] += 1
        a = r2.get(fid + '_0')
        if m[0] != 'OK' or (a and a[0] == 'OK' and a[1] != m[1]):
            yield {'kind': 'correspondence', 'what': 'model and implementation disagree on the second pass (%s)' % m[0],
                   'case': {'id': fid, 'doc': out[:3000]}, 'observed': unhx(a[1])[:2000] if a and a[0] == 'OK' else a, 'expected': unhx(m[1])[:2000] if m[0] == 'OK' else m}
