#!/usr/bin/env python3
"""dev only: apply each mutation to $SVGDX_REPO (a scratch worktree - it runs `git checkout -- src` there!), run the quick C07 check, print the verdict, revert"""
import subprocess, sys, os, re, time
REPO = os.environ.get('SVGDX_REPO', '/repo'); VERIF = os.path.dirname(os.path.dirname(os.path.dirname(os.path.abspath(__file__))))

def sub(path, old, new, count=1):
    p = os.path.join(REPO, path); s = open(p).read()
    assert s.count(old) >= 1, (path, old)
    open(p, 'w').write(s.replace(old, new, count))

MUT = {}
def m(name):
    def deco(f): MUT[name] = f; return f
    return deco

@m('M1 write directly to the output path (no temp file)')
def _():
    sub('src/lib.rs', '''        let mut out_temp = NamedTempFile::new()?;
        transform_stream(&mut in_reader, &mut out_temp, cfg)?;
        // Copy content rather than rename (by .persist()) since this
        // could cross filesystems; some apps (e.g. eog) also fail to
        // react to 'moved-over' files.
        fs::copy(out_temp.path(), output)?;''', '''        let _ = NamedTempFile::new;
        let _ = fs::copy::<&str, &str>;
        let mut out_file = File::create(output)?;
        transform_stream(&mut in_reader, &mut out_file, cfg)?;''')

@m('M2 static output cache keyed by input length in transform_str')
def _():
    sub('src/lib.rs', '''    let input = input.into();

    let mut input = Cursor::new(input);''', '''    let input = input.into();
    static CACHE: std::sync::Mutex<Vec<(usize, String)>> = std::sync::Mutex::new(Vec::new());
    if let Some((_, hit)) = CACHE.lock().unwrap().iter().find(|(n, _)| *n == input.len() && input.len() > 60) {
        return Ok(hit.clone());
    }
    let in_len = input.len();

    let mut input = Cursor::new(input);''')
    sub('src/lib.rs', '''    Ok(String::from_utf8(output).expect("Non-UTF8 output generated"))''',
        '''    let s = String::from_utf8(output).expect("Non-UTF8 output generated");
    CACHE.lock().unwrap().push((in_len, s.clone()));
    Ok(s)''')

@m('M3 same-file test compares the paths as given (no canonicalize)')
def _():
    sub('src/cli.rs', '''            if out_path.exists()
                && out_path.canonicalize().map_err(SvgdxError::from_err)?
                    == in_path.canonicalize().map_err(SvgdxError::from_err)?
            {''', '''            if out_path.exists() && out_path == in_path {''')

@m('M4 server reports transform errors with status 200')
def _():
    sub('src/server.rs', '.status(400)', '.status(200)')

@m('M5 PRNG seeded from a process-wide counter (shared state between transforms)')
def _():
    sub('src/context.rs', '        self.rng = RefCell::new(Pcg32::seed_from_u64(seed));',
        '        static N: std::sync::atomic::AtomicU64 = std::sync::atomic::AtomicU64::new(0);\n'
        '        self.rng = RefCell::new(Pcg32::seed_from_u64(seed + N.fetch_add(1, std::sync::atomic::Ordering::SeqCst)));')

@m('M6 main swallows the error (exit status 0 after a failed transform)')
def _():
    sub('src/bin/svgdx.rs', '''    run(get_config()?)?;
''', '''    if let Err(e) = run(get_config()?) {
        eprintln!("Error: {e:?}");
    }
''')

@m('M7 output copied before the transform result is checked')
def _():
    sub('src/lib.rs', '''        transform_stream(&mut in_reader, &mut out_temp, cfg)?;''', '''        let res = transform_stream(&mut in_reader, &mut out_temp, cfg);''')
    sub('src/lib.rs', '''        fs::copy(out_temp.path(), output)?;''', '''        fs::copy(out_temp.path(), output)?;
        res?;''')

@m('M8 server: add_metadata sticks once any request asked for it')
def _():
    sub('src/server.rs', '''        TransformConfig {
            add_metadata: config.add_metadata,''', '''        static STICKY: std::sync::atomic::AtomicBool = std::sync::atomic::AtomicBool::new(false);
        if config.add_metadata {
            STICKY.store(true, std::sync::atomic::Ordering::SeqCst);
        }
        TransformConfig {
            add_metadata: config.add_metadata || STICKY.load(std::sync::atomic::Ordering::SeqCst),''')

@m('M9 server error content type text/html')
def _():
    sub('src/server.rs', '''.header("Content-Type", "text/plain")''', '''.header("Content-Type", "text/html")''')

@m('M10 stdout path buffers nothing on error but file path ignores --seed (config dropped for file output)')
def _():
    sub('src/lib.rs', '''        transform_stream(&mut in_reader, &mut out_temp, cfg)?;''', '''        transform_stream(&mut in_reader, &mut out_temp, &TransformConfig { seed: 0, ..cfg.clone() })?;''')

@m('M11 refusal message reworded (table entry changed, behaviour still a refusal)')
def _():
    sub('src/cli.rs', '"Output path must not refer to the same file as the input file."', '"Refusing to overwrite the input file."')

@m('M12 same-file test no longer guarded by out_path.exists()')
def _():
    sub('src/cli.rs', '            if out_path.exists()\n                && out_path.canonicalize()', '            if out_path.canonicalize()')

def main():
    only = sys.argv[1:] 
    subprocess.run(['git', '-C', REPO, 'checkout', '--', 'src'], check=True)
    for name, f in MUT.items():
        if only and not any(name.startswith(o) for o in only):
            continue
        f()
        t0 = time.time()
        env = dict(os.environ, SVGDX_REPO=REPO, VERIF_SEED='0')
        p = subprocess.run([sys.executable, 'check.py', 'C07', '--tier', 'quick'], cwd=VERIF, env=env, stdout=subprocess.PIPE, stderr=subprocess.STDOUT)
        out = p.stdout.decode('utf-8', 'replace')
        lines = [l for l in out.split('\n') if l.startswith('C07') or l.startswith('VIOLATION')]
        print('=== %s -> exit %d (%.0fs)' % (name, p.returncode, time.time() - t0))
        for l in lines[:6]:
            print('   ', l[:400])
        if not lines:
            print(out[-1500:])
        sys.stdout.flush()
        subprocess.run(['git', '-C', REPO, 'checkout', '--', 'src'], check=True)

main()
