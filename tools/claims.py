# data for mkmanifest.py
HOOK_COMMITS = ['fba6b35', '69c1f84', 'ee68f01']
T = 'Coq proof over Gallina model + differential correspondence + oracle'
Q = 'theorems on exact rationals, execution on binary32'
CLAIMED = {
    'C02': (T, 'well-formedness proved at the lexical level of the model reader; expat is the independent oracle', None),
    'C03': (T, 'reader represented by the model read_xml, tied by byte-level correspondence; custom DTD entities outside the model', None),
    'C05': (T, 'idempotence of blank-line trimming, escaping and read-back proved; attribute re-sort / class re-split identities covered by correspondence only (partial)', None),
    'C09': (T, Q, None),
    'C19': (T, Q + '; text fidelity proved for text_string / lines / escaping, placement from the generated alignment table', None),
    'C11': (T, Q, None),
    'C12': (T, Q, None),
    'C13': (T, Q, None),
}
NA = {}
