# data for mkmanifest.py
HOOK_COMMITS = ['fba6b35']
T = 'Coq proof over Gallina model + differential correspondence + oracle'
Q = 'theorems on exact rationals, execution on binary32'
CLAIMED = {
    'C09': (T, Q, None),
    'C11': (T, Q, None),
    'C12': (T, Q, None),
}
NA = {}
