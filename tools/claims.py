# data for mkmanifest.py
HOOK_COMMITS = ['fba6b35', '69c1f84', 'ee68f01', 'd45d621']
T = 'Coq proof over Gallina model + differential correspondence + oracle'
Q = 'theorems on exact rationals, execution on binary32'
CLAIMED = {
    'C01': (T, 'progress of the path scanner, termination of the use / reuse and clip-path walks, unreachability of the modelled panic site, the retry pass budget and the depth cut proved for all inputs; whole-pipeline fuel adequacy, quick-xml, clap, axum and the real stack size are outside the model and rest on the process-level oracle through all four front-ends (partial)', None),
    'C02': (T, 'well-formedness proved at the lexical level of the model reader; expat is the independent oracle', None),
    'C03': (T, 'reader represented by the model read_xml, tied by byte-level correspondence; custom DTD entities outside the model', None),
    'C04': (T, 'list / points syntax acceptance and the frame property of position rewriting proved; path and transform scanners modelled and compared bit-exactly; tree-preservation oracle over the SVG 1.1 vocabulary (partial: no acceptance theorem for path data, see K8)', None),
    'C05': (T, 'idempotence of blank-line trimming, escaping and read-back proved; attribute re-sort / class re-split identities covered by correspondence only (partial)', None),
    'C08': (T, Q + '; partial: the equality of the accumulated extent with the structural extent of the written tree is proved for reference-free, already positioned documents (extent_matches_structure_partial); use, clip paths and attributes svgdx resolves are tied by the bit-exact correspondence (write_root_svg hook, document extent, root start tag) and checked by the recomputation oracle; known findings K40-K44', None),
    'C09': (T, Q, None),
    'C18': (T, 'independence of instances, first-registration template and specs proved on the pipeline skeleton; translation validation of reuse documents against inlined twins; the instantiation itself (attribute override, placement) is modelled in Model/Leaf.v and not yet under a theorem (partial)', None),
    'C19': (T, Q + '; text fidelity proved for text_string / lines / escaping, placement from the generated alignment table', None),
    'C10': (T, 'order independence proved for the abstract retry loop over a monotone step; the concrete step is not monotone (K3, excluded by its schedule-based class); all-orders oracle on the implementation', None),
    'C11': (T, Q, None),
    'C12': (T, Q, None),
    'C13': (T, Q, None),
    'C15': (T, 'scope discipline proved on the pipeline skeleton for every evaluator and leaf; tied to the code by probe texts against a reference lexical-scope interpreter and the context probe hook', None),
    'C16': (T, 'unrolling equations proved on the pipeline skeleton; translation validation of generated programs against their unrolled twins on the implementation', None),
    'C17': (T, 'theorems about the pipeline skeleton, generic in evaluator and leaf; tied to the code by two-sided limit verdicts and the context probe hook', None),
    'C07': ('Coq proof over a Gallina state machine of the front-ends (abstract transform T, file system with name resolution and '
            'file identity) + history correspondence against library / svgdx binary / svgdx-server + oracle',
            'theorems for all T, all name spaces, all file systems, all request histories (induction); T instantiated by a measured table for execution',
            'PARTIAL. Proved in Coq for every document transform T, file system and request history: a failed request leaves the whole file '
            'system unchanged and is reported (Err / non-zero exit + message / 400 text/plain); the final state of any history is that of its '
            'successful requests alone; every front-end delivers exactly T(input, config) (return value, writer, stdout, output file, response '
            'body); an observation depends only on its own request and the files it names (history independence); -o naming the input through any '
            'spelling that canonicalises equal is refused. Stated and refuted: agreement without exception (K11: empty output is Ok("") in the '
            'library, 400 in the server) and refusal for every name of the same file (K22: a hard link of the input is overwritten). The model is a '
            'hand transcription of lib.rs transform_file / cli.rs from_args / bin/svgdx.rs / server.rs transform tied to the code by regenerated '
            'tables (messages, status codes, content types, the temp-file protocol flag) and by running the extracted model on the same histories as '
            'the implementation. Not proved / not modelled: concurrent interleavings are sampled (8-32 threads), not enumerated - there is no shared '
            'mutable state in the modelled code, so a future cache or static is caught by the correspondence/oracle, not by the proof; OS atomicity '
            'of fs::copy, clap argument parsing, tempfile, axum/tokio/hyper, --watch.'),
    'C06': ('Coq proof over Gallina model (theme builder order independence, bit-exact PRNG) + differential correspondence + repeat-run oracle (3 runs x 3 fresh processes, CLI incl. stderr)',
            'proved: theme builder independent of hash-set iteration order; random stream a function of the seed (prefix-stable, composable, in range). Not modelled in Coq: MultiError display, reuse attribute iteration, the rest of the pipeline - these are covered by the repeat-run oracle only', None),
    'C20': (T, 'theorems over all class lists / element lists / themes on the model of ThemeBuilder::build instantiated from the generated theme tables; finite side conditions by vm_compute over those tables; text classes are gated on a text element (K50), nested svg in a non-svg root (K52)', None),
    'C14': (T, 'theorems generic in the number instance (exact rationals for rem_nonneg and the examples), execution on binary32; libm '
            'functions and the sign of NaN outside the bit-exact model (tolerance check against Python math)',
            'Coq theorems over an executable Gallina model of expression.rs / functions.rs (all token lists, all trees within the nesting '
            'guard, all variable contexts satisfying vars_ok): print/evaluate agreement at the stated fuel, draw counting, rejection of '
            'malformed input, no panic, no fuel exhaustion; tied to /repo on every run by regenerated tables (function names, operator '
            'words, arities, nesting guard) and a bit-exact correspondence of the extracted model with the eval hooks; single evaluation '
            'per rendered element across the element pipeline is searched by the document oracle, not proved'),
}
NA = {}
