"""Generators of well-formed XML / SVG source text with a rich alphabet (shared by C02, C03, C05, C19)."""

SVG_NS = 'http://www.w3.org/2000/svg'
NAMES = ['g', 'rect', 'circle', 'ellipse', 'line', 'path', 'text', 'tspan', 'defs', 'use', 'a', 'title', 'desc',
         'linearGradient', 'stop', 'marker', 'filter', 'feOffset', 'clipPath', 'style', 'image', 'foreignObject',
         'polyline', 'polygon', 'symbol', 'switch', 'metadata', 'x-custom', 'ns:thing', 'héllo', '_u', 'a.b']
ATTRS = ['id', 'x', 'y', 'width', 'height', 'cx', 'cy', 'r', 'rx', 'ry', 'd', 'points', 'transform', 'fill', 'stroke',
         'style', 'href', 'xlink:href', 'xml:space', 'xml:lang', 'data-x', 'wh', 'xy', 'text', 'surround', 'inside',
         'font-family', 'stroke-width', 'viewBox', 'offset', 'dx', 'dy', '_', '__', 'xy-loc', 'text-loc', 'opacity',
         'title', 'x1', 'y2', 'systemLanguage', 'aria-label', 'ättr']
SPECIAL = ['&', '<', '>', '"', "'", ']]>', '--', '-', '$x', '{{1+1}}', '#a', '^', '\\n', ' ', '  ', 'é', '中', '\U0001F600',
           ' ', '​', ';', '&amp;', '%', '\\', '/', '=', '?>', '<!--', '\t']
WORDS = ['a', 'b', 'red', '10', '2.5', 'none', 'url(#g)', 'M0 0 L10 10', 'translate(3 4)', 'x y', 'hello world', 'A1', '-3', '0']


def rand_plain(rng, specials=True, n=None):
    n = rng.range(0, 4) if n is None else n
    parts = []
    for _ in range(n):
        if specials and rng.chance(0.35):
            parts.append(rng.choice(SPECIAL))
        else:
            parts.append(rng.choice(WORDS))
    return rng.choice(['', ' ']).join(parts)


def esc_char_variants(rng, c, in_attr, quote):
    """source spellings of one character of a value"""
    named = {'&': '&amp;', '<': '&lt;', '>': '&gt;', '"': '&quot;', "'": '&apos;'}
    must = c in '&<' or (in_attr and c == quote)
    opts = []
    if c in named:
        opts.append(named[c])
    opts.append('&#%d;' % ord(c)); opts.append('&#x%X;' % ord(c)); opts.append('&#x%x;' % ord(c))
    if must:
        return rng.choice(opts)
    if rng.chance(0.04) and c not in '\t\n\r':
        return rng.choice(opts)
    return c


def src_value(rng, v, in_attr=True, quote='"'):
    out = []
    i = 0
    while i < len(v):
        if not in_attr and v.startswith(']]>', i):
            out.append(']]&gt;'); i += 3; continue
        out.append(esc_char_variants(rng, v[i], in_attr, quote)); i += 1
    return ''.join(out)


def gen_attrs(rng, svgdx_like=True, maxn=4, flags=None):
    """returns (source text of the attribute list incl. leading spaces, [(name, value)])"""
    n = rng.range(0, maxn)
    names = rng.sample(ATTRS, n)
    if rng.chance(0.25):
        names.append('class')
    src = []; vals = []
    for k in names:
        if k == 'class':
            toks = [rng.choice(['a', 'b', 'd-red', 'big', 'x-1', 'cé', 'r&d', 'x<y', 'q"t', "it's", 'a&lt;b', '&amp;', 'p>q']) for _ in range(rng.range(0, 3))]
            v = ' '.join(toks)
            if rng.chance(0.08):
                v = rng.choice([v + ' ', ' ' + v, v.replace(' ', '  ', 1), v + ' ' + (toks[0] if toks else 'a')])
        else:
            v = rand_plain(rng)
        if flags is not None and rng.chance(0.02):
            v = v + rng.choice(['\t', '\n']) + 'z'      # char ref to tab / newline in an attribute value (K7)
            q = '"'
            s = ''.join('&#9;' if ch == '\t' else (rng.choice(['&#10;', '&#xA;']) if ch == '\n' else src_value(rng, ch, True, q)) for ch in v)
        else:
            v = v.replace('\t', ' ')
            q = rng.choice(['"', '"', "'"])
            s = src_value(rng, v, True, q)
        eq = rng.choice(['=', '=', '=', ' = ', '= '])
        src.append(rng.choice([' ', ' ', '  ', '\n   ']) + k + eq + q + s + q)
        vals.append((k, v))
    return ''.join(src), vals


def gen_text(rng, allow_trailing_ws=True):
    parts = []
    for _ in range(rng.range(0, 4)):
        t = rand_plain(rng)
        t = t.replace('\t', ' ')
        if rng.chance(0.3):
            t += '\n' + ' ' * rng.range(0, 4)
        if allow_trailing_ws and rng.chance(0.03):
            t += rng.choice([' \n', '\t\n', ' \n \n'])
        parts.append(t)
    v = ''.join(parts)
    src = src_value(rng, v, in_attr=False)
    # character references to white-space characters, also directly before a line end
    if rng.chance(0.15):
        ref = rng.choice(['&#13;', '&#160;', '&#32;', '&#9;', '&#xA0;', '&#x20;', '&#10;', '&#x2003;'])
        if '\n' in src and rng.chance(0.6):
            k = src.index('\n'); src = src[:k] + ref + src[k:]
        else:
            src = src + ref + rng.choice(['', '\n', 'x'])
    return src, v


def gen_misc(rng):
    k = rng.choice(['comment', 'comment', 'cdata', 'pi'])
    if k == 'comment':
        body = rand_plain(rng)
        while '--' in body:
            body = body.replace('--', '- -')
        if body.endswith('-'):
            body += ' '
        return '<!--' + body + '-->'
    if k == 'cdata':
        return '<![CDATA[' + rand_plain(rng).replace(']]>', ']] >') + ']]>'
    return '<?' + rng.choice(['target', 'xml-stylesheet', 'php']) + rng.choice(['', ' a="b"', ' x y z']).replace('?>', '') + '?>'


def gen_element(rng, depth, flags=None, names=None):
    name = rng.choice(names or NAMES)
    asrc, _ = gen_attrs(rng, flags=flags)
    tail = rng.choice(['', '', ' ', '\n'])
    if depth <= 0 or rng.chance(0.35):
        return '<' + name + asrc + tail + '/>' if rng.chance(0.8) else '<' + name + asrc + tail + '></' + name + rng.choice(['', ' ']) + '>'
    body = []
    for _ in range(rng.range(0, 4)):
        r = rng.below(10)
        if r < 5:
            body.append(gen_element(rng, depth - 1, flags, names))
        elif r < 8:
            body.append(gen_text(rng)[0])
        else:
            body.append(gen_misc(rng))
    return '<' + name + asrc + tail + '>' + ''.join(body) + '</' + name + '>'


def gen_real_svg(rng, flags=None):
    """a well-formed document rooted at <svg xmlns="http://www.w3.org/2000/svg">"""
    pro = ''
    if rng.chance(0.3):
        pro += '<?xml version="1.0" encoding="UTF-8"?>' + rng.choice(['', '\n'])
    ents = []
    if rng.chance(0.12):
        # an internal subset declaring general entities (Illustrator style); used below in attributes and text of non-root elements
        ents = rng.sample(['brand', 'ns_x', 'c1'], rng.range(1, 2))
        vals = {'brand': '#336699', 'ns_x': 'http://ns.example/x', 'c1': 'a b'}
        pro += '<!DOCTYPE svg [' + rng.choice(['', '\n']) + ''.join('<!ENTITY %s "%s">%s' % (e, vals[e], rng.choice(['', '\n'])) for e in ents) + ']>' + rng.choice(['', '\n'])
    elif rng.chance(0.15):
        pro += rng.choice(['<!DOCTYPE svg>', '<!DOCTYPE svg PUBLIC "-//W3C//DTD SVG 1.1//EN" "http://www.w3.org/Graphics/SVG/1.1/DTD/svg11.dtd">', '<!DOCTYPE   svg  >']) + '\n'
    if rng.chance(0.2):
        pro += gen_misc(rng).replace('<![CDATA[', '<!--').replace(']]>', '-->') if False else ('<!-- c -->' + rng.choice(['', '\n']))
    if rng.chance(0.12):
        # a long prolog (stylesheet PIs, several comments, each on its own line): the root is still the first element
        for _ in range(rng.range(3, 9)):
            pro += rng.choice(['<!-- note -->', '<?xml-stylesheet href="a.css"?>', '<!-- x y -->', '<?php x?>']) + rng.choice(['\n', '\n\n', ''])
    asrc, vals = gen_attrs(rng, flags=flags)
    vals = [(k, v) for k, v in vals]
    ns = ' xmlns=' + rng.choice(['"%s"' % SVG_NS, "'%s'" % SVG_NS])
    extra = rng.choice(['', ' xmlns:xlink="http://www.w3.org/1999/xlink"', ' version="1.1"', ' baseProfile="full"'])
    parts = [asrc, ns, extra]
    rng.shuffle(parts)
    body = []
    for _ in range(rng.range(0, 5)):
        r = rng.below(10)
        if r < 6:
            body.append(gen_element(rng, rng.range(0, 3), flags))
        elif r < 8:
            body.append(gen_text(rng)[0])
        else:
            body.append(gen_misc(rng))
    for e in ents:
        k = rng.below(3)
        if k == 0: body.insert(rng.below(len(body) + 1), '<rect fill="&%s;" width="3"/>' % e)
        elif k == 1: body.insert(rng.below(len(body) + 1), '<g data-e="x &%s; y"><path d="M0 0" stroke="&%s;"/></g>' % (e, e))
        else: body.insert(rng.below(len(body) + 1), '<desc>a &%s; b</desc>' % e)
    return pro + '<svg' + ''.join(parts) + '>' + ''.join(body) + '</svg>' + rng.choice(['', '\n'])
