#!/usr/bin/env python3
"""Translator: re-extract the table-shaped parts of /repo/src/*.rs into coq/Gen/Tables.v.

Run on every check. Nothing in Gen/Tables.v is written by hand. A table that cannot be
located makes this script fail (exit 2) naming the table: the tie to the code is broken.
"""
import re, sys, os

class Missing(Exception):
    pass

def lex_strip(src):
    """blank out comments (strings kept)"""
    out = []; i = 0; n = len(src)
    while i < n:
        c = src[i]
        if src.startswith('//', i):
            j = src.find('\n', i); j = n if j < 0 else j; out.append(' ' * (j - i)); i = j
        elif src.startswith('/*', i):
            j = src.find('*/', i) + 2; out.append(' ' * (j - i)); i = j
        elif c == 'r' and re.match(r'r#*"', src[i:]):
            m = re.match(r'r(#*)"', src[i:]); h = m.group(1)
            end = src.find('"' + h, i + len(m.group(0))); j = end + 1 + len(h)
            out.append(src[i:j]); i = j
        elif c == '"':
            j = i + 1
            while src[j] != '"':
                j += 2 if src[j] == '\\' else 1
            out.append(src[i:j + 1]); i = j + 1
        elif c == "'" and re.match(r"'(\\.|[^\\'])'", src[i:]):
            m = re.match(r"'(\\.|[^\\'])'", src[i:]); out.append(m.group(0)); i += len(m.group(0))
        else:
            out.append(c); i += 1
    return ''.join(out)

def body_after(src, anchor_re, open_ch='{', close_ch='}', what=None):
    m = re.search(anchor_re, src)
    if not m:
        raise Missing(what or anchor_re)
    i = src.index(open_ch, m.end()); depth = 0; j = i
    while True:
        c = src[j]
        if c == '"':
            j += 1
            while src[j] != '"':
                j += 2 if src[j] == '\\' else 1
        elif c == 'r' and re.match(r'r#+"', src[j:]):
            mm = re.match(r'r(#+)"', src[j:]); h = mm.group(1)
            j = src.find('"' + h, j + len(mm.group(0))) + len(h)
        elif c == "'" and re.match(r"'(\\.|[^\\'])'", src[j:]):
            j += len(re.match(r"'(\\.|[^\\'])'", src[j:]).group(0)) - 1
        elif c == open_ch:
            depth += 1
        elif c == close_ch:
            depth -= 1
            if depth == 0:
                return src[i + 1:j]
        j += 1

STR = r'"((?:[^"\\]|\\.)*)"'

def unesc(s):
    return s.replace('\\"', '"').replace('\\\\', '\\').replace("\\'", "'").replace('\\n', '\n')

def strs(s):
    return [unesc(x) for x in re.findall(STR, s)]

def cq(s):
    """Coq string literal"""
    assert '\n' not in s or True
    return '"' + s.replace('"', '""') + '"'

def cql(l):
    return '[' + '; '.join(cq(x) for x in l) + ']'

def need(cond, what):
    if not cond:
        raise Missing(what)

def read(srcdir, name):
    p = os.path.join(srcdir, name)
    if not os.path.exists(p):
        raise Missing(name)
    return lex_strip(open(p, encoding='utf-8').read())


# ---------------------------------------------------------------- themes.rs: templates (C20 / C06)
def fmt_segments(fs, what='format string'):
    """Rust format string -> [('L', text) | ('H', hole name)]; positional {} holes are numbered 0, 1, .."""
    segs = []; lit = ''; i = 0; pos = 0
    while i < len(fs):
        c = fs[i]
        if fs.startswith('{{', i):
            lit += '{'; i += 2
        elif fs.startswith('}}', i):
            lit += '}'; i += 2
        elif c == '{':
            j = fs.index('}', i)
            name = fs[i + 1:j]
            if ':' in name:
                raise Missing(what + ': format spec in hole ' + name)
            if name == '':
                name = str(pos); pos += 1
            if lit:
                segs.append(('L', lit)); lit = ''
            segs.append(('H', name)); i = j + 1
        elif c == '}':
            raise Missing(what + ': stray }')
        else:
            lit += c; i += 1
    if lit:
        segs.append(('L', lit))
    return segs

def cseg(segs):
    return '[' + '; '.join(('Lit %s' if k == 'L' else 'Hole %s') % cq(v) for k, v in segs) + ']'

RAWSTR = r'r#"(.*?)"#'

def theme_tables(srcdir):
    """every table-shaped part of themes.rs that the theme model (Model/Themes.v) instantiates.
    Returns a dict (used by the python oracles as well); theme_tables_coq renders it."""
    th = read(srcdir, 'themes.rs')
    T = {}
    # --- append_common_styles
    cs = body_after(th, r'fn append_common_styles', what='append_common_styles')
    m = re.search(r'let all_elements = if tb\.local_style_id\.is_some\(\)\s*\{\s*' + STR + r'\s*\}\s*else\s*\{\s*' + STR + r'\s*\}', cs)
    need(m, 'append_common_styles all_elements')
    T['all_elements'] = (unesc(m.group(1)), unesc(m.group(2)))
    arr = body_after(cs, r'for s in', open_ch='[', close_ch=']', what='append_common_styles rule list')
    T['common'] = [fmt_segments(unesc(x), 'common style') for x in re.findall(r'format!\(\s*' + STR + r'\s*\)', arr)]
    need(len(T['common']) >= 1, 'append_common_styles rules')
    # --- append_colour_styles: one block per `for colour in COLOUR_LIST`
    col = body_after(th, r'fn append_colour_styles', what='append_colour_styles')
    blocks = []
    for part in re.split(r'for colour in COLOUR_LIST', col)[1:]:
        blk = body_after(part, r'', what='colour loop body')
        m = re.search(r'tb\.has_class\(&format!\(' + STR + r'\)\)', blk)
        need(m, 'colour block class template')
        cls = fmt_segments(unesc(m.group(1)), 'colour class')
        guard = None; gspan = (0, 0)
        g = re.search(r'if \*colour != ' + STR + r'\s*\{', blk)
        if g:
            gb = body_after(blk[g.start():], r'if \*colour != ' + STR)
            gspan = (g.start(), g.start() + blk[g.start():].index(gb) + len(gb)); guard = unesc(g.group(1))
        styles = []
        for sm in re.finditer(r'tb\.add_style\(&format!\(\s*' + STR + r'\s*\)\)', blk):
            styles.append((guard if gspan[0] <= sm.start() < gspan[1] else None, fmt_segments(unesc(sm.group(1)), 'colour style')))
        need(styles, 'colour block styles')
        tf = ('', ''); tsk = ('', '')
        m2 = re.search(r'let \(text_fill, text_stroke\) = if DARK_COLOURS\.contains\(colour\)\s*\{\s*\(' + STR + r',\s*' + STR + r'\)\s*\}\s*else\s*\{\s*\(' + STR + r',\s*' + STR + r'\)', blk)
        m1 = re.search(r'let text_stroke = if DARK_COLOURS\.contains\(colour\)\s*\{\s*' + STR + r'\s*\}\s*else\s*\{\s*' + STR + r'\s*\}', blk)
        if m2:
            tf = (m2.group(1), m2.group(3)); tsk = (m2.group(2), m2.group(4))
        elif m1:
            tsk = (m1.group(1), m1.group(2))
        holes = set(v for _, st in styles for k, v in st if k == 'H') | set(v for k, v in cls if k == 'H')
        need(holes <= {'colour', 'text_fill', 'text_stroke'}, 'colour block holes %s' % sorted(holes))
        need(('text_fill' not in holes or m2) and ('text_stroke' not in holes or m2 or m1), 'colour block dark/light choice')
        blocks.append({'class': cls, 'styles': styles, 'text_fill': tf, 'text_stroke': tsk})
    need(len(blocks) >= 1, 'append_colour_styles loops')
    T['colour_blocks'] = blocks
    # --- stroke widths / text sizes / outline widths: templates
    sw = body_after(th, r'fn append_stroke_width_styles', what='append_stroke_width_styles')
    m = re.search(r'tb\.add_style\(&format!\(\s*' + STR, sw); need(m, 'stroke width template')
    T['stroke_width_tmpl'] = fmt_segments(unesc(m.group(1)), 'stroke width template')
    ts = body_after(th, r'fn append_text_styles', what='append_text_styles')
    m = re.search(r'if !tb\.has_element\(' + STR + r'\)\s*\{\s*return;', ts)
    T['text_gate'] = unesc(m.group(1)) if m else ''
    tmpls = re.findall(r'tb\.add_style\(&format!\(\s*' + STR, ts)
    need(len(tmpls) == 2, 'text size / outline templates')
    T['text_size_tmpl'] = fmt_segments(unesc(tmpls[0]), 'text size template')
    T['text_ol_tmpl'] = fmt_segments(unesc(tmpls[1]), 'text outline template')
    # --- arrows
    ar = body_after(th, r'fn append_arrow_styles', what='append_arrow_styles')
    T['arrows'] = [(unesc(a), unesc(b)) for a, b in re.findall(r'tb\.has_class\(' + STR + r'\)\s*\{\s*tb\.add_style\(\s*' + STR + r',?\s*\);\s*has_arrow = true;', ar)]
    need(len(T['arrows']) >= 1, 'arrow rules')
    m = re.search(r'if has_arrow\s*\{', ar); need(m, 'arrow marker block')
    hb = body_after(ar[m.start():], r'if has_arrow')
    m1 = re.search(r'tb\.add_style\(' + STR + r'\)', hb); m2 = re.search(r'tb\.add_defs\(\s*' + RAWSTR, hb, re.S)
    need(m1 and m2, 'arrow marker style / def')
    T['arrow_extra_style'] = unesc(m1.group(1)); T['arrow_def'] = m2.group(1)
    # --- dash / flow
    dsh = body_after(th, r'fn append_dash_styles', what='append_dash_styles')
    m = re.search(r'tb\.add_style\(&format!\(' + STR, dsh); need(m, 'flow template')
    T['flow_tmpl'] = fmt_segments(unesc(m.group(1)), 'flow template')
    m = re.search(r'if has_flow\s*\{\s*tb\.add_style\(' + STR, dsh); need(m, 'flow keyframes rule')
    T['flow_keyframes'] = unesc(m.group(1))
    # --- patterns
    pd = body_after(th, r'fn pattern_defs', what='pattern_defs')
    m = re.search(r'format!\(' + STR + r'\)\s*\}\s*else', pd); need(m, 'pattern rotate template')
    T['pattern_rotate_tmpl'] = fmt_segments(unesc(m.group(1)), 'rotate')
    m = re.search(r'class\.trim_start_matches\(' + STR + r'\)', pd); need(m, 'pattern id prefix')
    T['pattern_id_strip'] = unesc(m.group(1))
    m = re.search(r'tb\.add_style\(&format!\(' + STR, pd); need(m, 'pattern style template')
    T['pattern_style_tmpl'] = fmt_segments(unesc(m.group(1)), 'pattern style')
    parts = []
    for mm in re.finditer(r'if let ((?:PatternType::\w+\s*\|?\s*)+)= direction\s*\{', pd):
        blk = body_after(pd[mm.start():], r'= direction')
        t = re.search(RAWSTR, blk, re.S); need(t, 'pattern line template')
        parts.append((re.findall(r'PatternType::(\w+)', mm.group(1)), fmt_segments(t.group(1), 'pattern part')))
    need(len(parts) >= 1, 'pattern parts')
    T['pattern_parts'] = parts
    m = re.search(r'tb\.add_defs\(&format!\(\s*' + RAWSTR, pd, re.S); need(m, 'pattern def template')
    T['pattern_def_tmpl'] = fmt_segments(m.group(1), 'pattern def')
    ptn = body_after(th, r'fn append_pattern_styles', what='append_pattern_styles')
    m = re.search(r'let spec_class = format!\(' + STR + r',\s*ptn_class\)', ptn); need(m, 'pattern spec_class')
    T['pattern_spec_tmpl'] = fmt_segments(unesc(m.group(1)), 'pattern spec class')
    m = re.search(r'pattern_defs\(tb, t_stroke, ptn_class, (\d+),', ptn); need(m, 'pattern base spacing')
    T['pattern_base_spacing'] = int(m.group(1))
    # --- shadows + build
    bd = body_after(th, r'trait Theme', what='trait Theme')
    bld = body_after(bd, r'fn build\(&self, tb: &mut ThemeBuilder\)', what='Theme::build')
    sh = []
    for cls, fn in re.findall(r'\(' + STR + r',\s*&(\w+) as &Tfn\)', bld):
        fb = body_after(th, r'fn %s\(' % fn, what='shadow fn ' + fn)
        a = re.search(r'tb\.add_style\(' + STR + r'\)', fb); d = re.search(r'tb\.add_defs\(\s*' + RAWSTR, fb, re.S)
        need(a and d, 'shadow style/def in ' + fn)
        sh.append((unesc(cls), unesc(a.group(1)), d.group(1)))
    need(len(sh) >= 1, 'shadow table')
    T['shadows'] = sh
    m = re.search(r'let mut outer_svg = String::from\(' + STR + r'\)', bld); need(m, 'build outer_svg')
    T['outer_svg'] = unesc(m.group(1))
    m = re.search(r'outer_svg = format!\(' + STR, bld); need(m, 'build outer_svg local')
    T['outer_svg_local_tmpl'] = fmt_segments(unesc(m.group(1)), 'outer svg local')
    m = re.search(r'if tb\.background != ' + STR, bld); need(m, 'build background sentinel')
    T['background_sentinel'] = unesc(m.group(1))
    bgs = re.findall(r'tb\.add_style\(&format!\(\s*' + STR + r',\s*outer_svg,', bld)
    need(len(bgs) == 2 and bgs[0] == bgs[1], 'build background templates')
    T['background_tmpl'] = fmt_segments(unesc(bgs[0]), 'background')
    m = re.search(r'tb\.add_style\(&format!\(' + STR + r',\s*id\)\)', bld); need(m, 'build nested open')
    T['nested_open_tmpl'] = fmt_segments(unesc(m.group(1)), 'nested open')
    m = re.search(r'if tb\.local_style_id\.is_some\(\)\s*\{\s*tb\.add_style\(' + STR + r'\)', bld); need(m, 'build nested close')
    T['nested_close'] = unesc(m.group(1))
    m = re.search(r'if tb\.has_class\(' + STR + r'\)\s*\{\s*tb\.add_style\(' + STR + r'\);', bld); need(m, 'build surround rule')
    T['early_rules'] = [(unesc(m.group(1)), unesc(m.group(2)))]
    T['text_element_gate'] = ''
    m = re.search(r'if tb\.elements\.contains\(' + STR + r'\)\s*\{\s*append_text_styles', bld)
    if m:
        T['text_element_gate'] = unesc(m.group(1))
    # order of the sections in build (a dropped / reordered call changes this list)
    # --- transform.rs postprocess: the injection condition (a conjunction of flags)
    tf = read(srcdir, 'transform.rs')
    pp = body_after(tf, r'fn postprocess', what='transform.rs postprocess')
    m = re.search(r'if ([a-z_.& ]+?)\s*\{\s*self\.write_auto_styles\(', pp); need(m, 'postprocess injection condition')
    conj = [x.strip().split('.')[-1] for x in m.group(1).split('&&')]
    need(all(re.fullmatch(r'[a-z_]+', x) for x in conj) and '||' not in m.group(1), 'postprocess injection condition is a conjunction')
    T['inject_condition'] = conj
    m = re.search(r'events\.partition\(' + STR + r'\)', pp); need(m, 'postprocess root element name')
    T['root_element'] = unesc(m.group(1))
    # --- class vocabulary (same regexes as gen() below), for the python oracles
    col = read(srcdir, 'colours.rs')
    T['colour_list'] = strs(body_after(col, r'COLOUR_LIST[^=]*=\s*&', open_ch='[', close_ch=']', what='COLOUR_LIST'))
    T['dark_colours'] = strs(body_after(col, r'DARK_COLOURS[^=]*=\s*&', open_ch='[', close_ch=']', what='DARK_COLOURS'))
    T['text_rules'] = [(unesc(a), unesc(b)) for a, b in re.findall(r'\(' + STR + r',\s*' + STR + r'\)', ts) if b.startswith('text.')]
    m = re.search(r'let text_sizes = vec!\[(.*?)\];', ts, re.S); need(m, 'text_sizes')
    T['text_sizes'] = [a for a, b in re.findall(r'\(' + STR + r',\s*tb\.font_size(?:\s*\*\s*([0-9.]+))?\)', m.group(1))]
    m = re.search(r'let text_ol_widths = vec!\[(.*?)\];', ts, re.S); need(m, 'text_ol_widths')
    T['text_ol_widths'] = [a for a, b in re.findall(r'\(' + STR + r',\s*([0-9.]+)\)', m.group(1))]
    T['stroke_widths'] = [a for a, b in re.findall(r'\(' + STR + r',\s*base\s*\*\s*([0-9.]+)\)', sw)]
    m = re.search(r'let flow_style = vec!\[(.*?)\];', dsh, re.S); need(m, 'flow_style')
    T['flow_styles'] = [a for a, b in re.findall(r'\(' + STR + r',\s*' + STR + r'\)', m.group(1))]
    T['dash_styles'] = [unesc(a) for a, b in re.findall(r'tb\.has_class\(' + STR + r'\)\s*\{\s*tb\.add_style\(' + STR + r'\);', dsh)]
    T['pattern_table'] = [(a, b, int(d) if d else None) for a, b, c, d in re.findall(r'\(' + STR + r',\s*PatternType::(\w+),\s*(None|Some\((-?\d+)\))\)', ptn)]
    m = re.search(r'filter\(\|&n\| n <= (\d+)\)', ptn); need(m, 'pattern spacing limit')
    T['pattern_max_spacing'] = int(m.group(1))
    tn = body_after(th, r'impl FromStr for ThemeType', what='ThemeType::from_str')
    T['theme_names'] = [a for a in strs(tn) if re.fullmatch(r'[a-z]+', a)]
    T['build_sequence'] = re.findall(r'\b(append_early_styles|append_common_styles|append_colour_styles|append_stroke_width_styles|append_text_styles|append_arrow_styles|append_dash_styles|append_pattern_styles|append_late_styles|build_fn)\(', bld)
    return T

def theme_tables_coq(T, emit):
    emit('(* ---- themes.rs templates: Lit = literal text, Hole = format argument *)')
    emit('Inductive seg := Lit (s : string) | Hole (s : string).')
    emit('Definition common_all_elements : string * string := (%s, %s).' % (cq(T['all_elements'][0]), cq(T['all_elements'][1])))
    emit('Definition common_templates : list (list seg) := [' + ';\n  '.join(cseg(x) for x in T['common']) + '].')
    emit('(* per colour loop: class template, [(colour excluded by a guard, rule template)], (text_fill dark/light, text_stroke dark/light) *)')
    emit('Definition colour_blocks : list (list seg * list (option string * list seg) * ((string * string) * (string * string))) := [' + ';\n  '.join(
        '(%s, [%s], ((%s, %s), (%s, %s)))' % (cseg(b['class']), '; '.join('(%s, %s)' % (('Some ' + cq(g)) if g is not None else 'None', cseg(st)) for g, st in b['styles']),
                                              cq(b['text_fill'][0]), cq(b['text_fill'][1]), cq(b['text_stroke'][0]), cq(b['text_stroke'][1]))
        for b in T['colour_blocks']) + '].')
    emit('Definition stroke_width_template : list seg := %s.' % cseg(T['stroke_width_tmpl']))
    emit('Definition text_gate_element : string := %s.' % cq(T['text_gate']))
    emit('Definition text_build_gate_element : string := %s.' % cq(T['text_element_gate']))
    emit('Definition text_size_template : list seg := %s.' % cseg(T['text_size_tmpl']))
    emit('Definition text_ol_template : list seg := %s.' % cseg(T['text_ol_tmpl']))
    emit('Definition arrow_rules : list (string * string) := [' + '; '.join('(%s, %s)' % (cq(a), cq(b)) for a, b in T['arrows']) + '].')
    emit('Definition arrow_extra_style : string := %s.' % cq(T['arrow_extra_style']))
    emit('Definition arrow_def : string := %s.' % cq(T['arrow_def']))
    emit('Definition flow_template : list seg := %s.' % cseg(T['flow_tmpl']))
    emit('Definition flow_keyframes : string := %s.' % cq(T['flow_keyframes']))
    emit('Definition pattern_rotate_template : list seg := %s.' % cseg(T['pattern_rotate_tmpl']))
    emit('Definition pattern_id_strip : string := %s.' % cq(T['pattern_id_strip']))
    emit('Definition pattern_style_template : list seg := %s.' % cseg(T['pattern_style_tmpl']))
    emit('Definition pattern_parts : list (list string * list seg) := [' + ';\n  '.join('(%s, %s)' % (cql(a), cseg(b)) for a, b in T['pattern_parts']) + '].')
    emit('Definition pattern_def_template : list seg := %s.' % cseg(T['pattern_def_tmpl']))
    emit('Definition pattern_spec_template : list seg := %s.' % cseg(T['pattern_spec_tmpl']))
    emit('Definition pattern_base_spacing : Z := %d%%Z.' % T['pattern_base_spacing'])
    emit('Definition shadow_table : list (string * (string * string)) := [' + ';\n  '.join('(%s, (%s, %s))' % (cq(a), cq(b), cq(c)) for a, b, c in T['shadows']) + '].')
    emit('Definition outer_svg_name : string := %s.' % cq(T['outer_svg']))
    emit('Definition outer_svg_local_template : list seg := %s.' % cseg(T['outer_svg_local_tmpl']))
    emit('Definition background_sentinel : string := %s.' % cq(T['background_sentinel']))
    emit('Definition background_template : list seg := %s.' % cseg(T['background_tmpl']))
    emit('Definition nested_open_template : list seg := %s.' % cseg(T['nested_open_tmpl']))
    emit('Definition nested_close : string := %s.' % cq(T['nested_close']))
    emit('Definition early_rules : list (string * string) := [' + '; '.join('(%s, %s)' % (cq(a), cq(b)) for a, b in T['early_rules']) + '].')
    emit('Definition build_sequence : list string := %s.' % cql(T['build_sequence']))
    emit('(* transform.rs postprocess: write_auto_styles is called iff all of these flags hold *)')
    emit('Definition inject_condition : list string := %s.' % cql(T['inject_condition']))
    emit('Definition root_element_name : string := %s.' % cq(T['root_element']))

def gen(srcdir):
    out = []
    def emit(s=''):
        out.append(s)
    emit('(* GENERATED by tools/gen_tables.py from the svgdx sources. Do not edit. *)')
    emit('From Coq Require Import String List ZArith.')
    emit('Import ListNotations.')
    emit('Open Scope string_scope.')
    emit()
    # ---- types.rs: AttrMap::priority
    types = read(srcdir, 'types.rs')
    prio = body_after(types, r'fn priority\(', what='types.rs AttrMap::priority')
    pr = re.findall(STR + r'\s*=>\s*(\d+)', prio)
    need(len(pr) >= 1, 'types.rs AttrMap::priority arms')
    emit('Definition attr_priority : list (string * nat) :=')
    emit('  [' + '; '.join('(%s, %s%%nat)' % (cq(k), v) for k, v in pr) + '].')
    emit()
    # ---- position.rs: set_position_attrs
    pos = read(srcdir, 'position.rs')
    spa = body_after(pos, r'pub fn set_position_attrs', what='position.rs set_position_attrs')
    groups = []
    for m in re.finditer(r'((?:"[a-zA-Z]*"\s*\|?\s*)+)=>\s*\{', spa):
        shapes = strs(m.group(1))
        blk = body_after(spa[m.start():], r'=>')
        rem = re.search(r'remove_attrs\(&\[(.*?)\]\)', blk, re.S)
        sets = []
        for s in re.findall(r'set_attr\(' + STR, blk):
            if s not in sets:
                sets.append(s)
        groups.append((shapes, sets, strs(rem.group(1)) if rem else []))
    need(len(groups) >= 5, 'position.rs set_position_attrs arms')
    emit('(* (element names, attributes set, attributes removed) per arm of set_position_attrs *)')
    emit('Definition position_arms : list (list string * list string * list string) :=')
    emit('  [' + ';\n   '.join('(%s, %s, %s)' % (cql(a), cql(b), cql(c)) for a, b, c in groups) + '].')
    pvt = body_after(pos, r'fn position_via_transform', what='position.rs position_via_transform')
    rem = re.search(r'remove_attrs\(&\[(.*?)\]\)', pvt, re.S)
    need(rem, 'position_via_transform remove list')
    emit('Definition via_transform_remove : list string := %s.' % cql(strs(rem.group(1))))
    m = re.search(r'else if matches!\(element\.name\.as_str\(\),\s*((?:"[a-z]+"\s*\|?\s*)+)\)', spa)
    need(m, 'set_position_attrs via-transform element list')
    emit('Definition via_transform_elements : list string := %s.' % cql(strs(m.group(1))))
    emit()
    # locspec / scalarspec / dirspec names
    ls = body_after(pos, r'impl FromStr for LocSpec', what='LocSpec::from_str')
    named = re.findall(STR + r'\s*=>\s*Ok\(Self::(\w+)\)', ls)
    need(len(named) >= 9, 'LocSpec names')
    emit('Definition locspec_names : list (string * string) := [' + '; '.join('(%s, %s)' % (cq(a), cq(b)) for a, b in named) + '].')
    edges = re.findall(STR + r'\s*=>\s*Ok\(Self::(\w+)\(len\)\)', ls)
    need(len(edges) == 4, 'LocSpec edge names')
    emit('Definition edgespec_names : list (string * string) := [' + '; '.join('(%s, %s)' % (cq(a), cq(b)) for a, b in edges) + '].')
    ss = body_after(pos, r'impl FromStr for ScalarSpec', what='ScalarSpec::from_str')
    sc = []
    for m in re.finditer(r'((?:"[a-z0-9]+"\s*\|?\s*)+)=>\s*Ok\(Self::(\w+)\)', ss):
        for nme in strs(m.group(1)):
            sc.append((nme, m.group(2)))
    need(len(sc) >= 11, 'ScalarSpec names')
    emit('Definition scalarspec_names : list (string * string) := [' + '; '.join('(%s, %s)' % (cq(a), cq(b)) for a, b in sc) + '].')
    s2l = body_after(pos, r'impl From<ScalarSpec> for LocSpec', what='From<ScalarSpec> for LocSpec')
    s2 = []
    for m in re.finditer(r'((?:ScalarSpec::\w+\s*\|?\s*)+)=>\s*Self::(\w+)', s2l):
        for nme in re.findall(r'ScalarSpec::(\w+)', m.group(1)):
            s2.append((nme, m.group(2)))
    need(len(s2) >= 11, 'ScalarSpec -> LocSpec')
    emit('Definition scalar_to_loc : list (string * string) := [' + '; '.join('(%s, %s)' % (cq(a), cq(b)) for a, b in s2) + '].')
    ds = body_after(pos, r'impl FromStr for DirSpec', what='DirSpec::from_str')
    dn = re.findall(STR + r'\s*=>\s*Ok\(Self::(\w+)\)', ds)
    need(len(dn) == 4, 'DirSpec names')
    emit('Definition dirspec_names : list (string * string) := [' + '; '.join('(%s, %s)' % (cq(a), cq(b)) for a, b in dn) + '].')
    d2l = body_after(pos, r'pub fn to_locspec', what='DirSpec::to_locspec')
    d2 = re.findall(r'Self::(\w+)\s*=>\s*LocSpec::(\w+)', d2l)
    need(len(d2) == 4, 'DirSpec -> LocSpec')
    emit('Definition dir_to_loc : list (string * string) := [' + '; '.join('(%s, %s)' % (cq(a), cq(b)) for a, b in d2) + '].')
    emit()
    # ---- element.rs
    el = read(srcdir, 'element.rs')
    ecp = body_after(el, r'pub fn expand_compound_pos', what='element.rs expand_compound_pos')
    rows = re.findall(r'Some\(' + STR + r'\)\s*=>\s*\(' + STR + r',\s*' + STR + r'\)', ecp)
    need(len(rows) >= 8, 'xy-loc table')
    emit('Definition xy_loc_table : list (string * (string * string)) := [' + '; '.join('(%s, (%s, %s))' % (cq(a), cq(b), cq(c)) for a, b, c in rows) + '].')
    dflt = re.search(r'_\s*=>\s*\(' + STR + r',\s*' + STR + r'\)', ecp)
    need(dflt, 'xy-loc default')
    emit('Definition xy_loc_default : string * string := (%s, %s).' % (cq(dflt.group(1)), cq(dflt.group(2))))
    cp = []
    for m in re.finditer(r'if let Some\(\w+\) = self\.pop_attr\(' + STR + r'\)\s*\{', ecp):
        blk = body_after(ecp[m.start():], r'pop_attr\(' + STR + r'\)')
        ins = re.findall(r'insert_first\(' + STR + r',', blk)
        if len(ins) == 2:
            cp.append((m.group(1), ins[0], ins[1]))
    need(len(cp) >= 4, 'compound pos attrs')
    emit('Definition compound_pos : list (string * (string * string)) := [' + '; '.join('(%s, (%s, %s))' % (cq(a), cq(b), cq(c)) for a, b, c in cp) + '].')
    ecs = body_after(el, r'pub fn expand_compound_size', what='element.rs expand_compound_size')
    cs = re.findall(r'self\.attrs\.pop\(' + STR + r'\)\)?\s*\{.*?insert_first\(' + STR + r', \w+\);\s*self\.attrs\.insert_first\(' + STR, ecs, re.S)
    need(len(cs) >= 3, 'compound size attrs')
    emit('Definition compound_size : list (string * (string * string)) := [' + '; '.join('(%s, (%s, %s))' % (cq(a), cq(b), cq(c)) for a, b, c in cs) + '].')
    ipa = body_after(el, r'fn is_pos_attr', what='is_pos_attr')
    emit('Definition pos_attr_names : list string := %s.' % cql(strs(ipa)))
    ige = body_after(el, r'pub fn is_graphics_element', what='is_graphics_element')
    emit('Definition graphics_elements : list string := %s.' % cql(strs(ige)))
    hc = body_after(el, r'fn handle_containment', what='handle_containment')
    m = re.search(r'remove_attrs\(&\[(.*?)\]\)', hc, re.S)
    need(m, 'handle_containment remove list')
    emit('Definition containment_remove : list string := %s.' % cql(strs(m.group(1))))
    tm = body_after(el, r'pub fn transmute', what='transmute')
    m = re.search(r'!matches!\(self\.name\.as_str\(\),\s*((?:"[a-zA-Z]+"\s*\|?\s*)+)\)', tm)
    need(m, 'transmute dx/dy exception list')
    emit('Definition intrinsic_dxdy_elements : list string := %s.' % cql(strs(m.group(1))))
    emit()
    # ---- functions.rs
    fn = read(srcdir, 'functions.rs')
    fs = body_after(fn, r'impl FromStr for Function', what='Function::from_str')
    fnames = re.findall(STR + r'\s*=>\s*Self::(\w+)', fs)
    need(len(fnames) >= 10, 'function names')
    emit('Definition function_names : list (string * string) := [' + ';\n  '.join('(%s, %s)' % (cq(a), cq(b)) for a, b in fnames) + '].')
    # arity each function insists on: the accessor its arm of eval_function applies to the whole argument list
    ef = body_after(fn, r'pub fn eval_function', what='functions.rs eval_function')
    arms = re.split(r'Function::(\w+)\s*=>', ef)
    accessors = [(r'args\.one_number\(\)', 1), (r'args\.number_pair\(\)', 2), (r'args\.number_triple\(\)', 3),
                 (r'args\.pair\(\)', 2), (r'args\.string_pair\(\)', 2), (r'args\.one_string\(\)', 1)]
    arity = []
    for k in range(1, len(arms) - 1, 2):
        name, text = arms[k], arms[k + 1]
        found = []
        for rx, n in accessors:
            mm = re.search(rx, text)
            if mm:
                found.append((mm.start(), n))
        mm = re.search(r'let \[(\w+(?:\s*,\s*\w+)*)\] = &args\.flatten\(\)', text)
        if mm:
            found.append((mm.start(), len(mm.group(1).split(','))))
        if found:
            arity.append((name, sorted(found)[0][1]))
    need(len(arity) >= 30, 'functions.rs eval_function argument accessors')
    emit('Definition function_arity : list (string * nat) := [' + '; '.join('(%s, %d%%nat)' % (cq(a), n) for a, n in arity) + '].')
    ex = read(srcdir, 'expression.rs')
    m = re.search(r'const MAX_EXPR_DEPTH: usize = (\d+);', ex)
    need(m, 'MAX_EXPR_DEPTH')
    emit('Definition max_expr_depth : nat := %s.' % m.group(1))
    cmp_ = body_after(ex, r'impl FromStr for ComparisonOp', what='ComparisonOp::from_str')
    emit('Definition comparison_ops : list (string * string) := [' + '; '.join('(%s, %s)' % (cq(a), cq(b)) for a, b in re.findall(STR + r'\s*=>\s*Ok\(Self::(\w+)\)', cmp_)) + '].')
    lg = body_after(ex, r'impl FromStr for LogicalOp', what='LogicalOp::from_str')
    emit('Definition logical_ops : list (string * string) := [' + '; '.join('(%s, %s)' % (cq(a), cq(b)) for a, b in re.findall(STR + r'\s*=>\s*Ok\(Self::(\w+)\)', lg)) + '].')
    emit()
    # ---- connector.rs
    cn = read(srcdir, 'connector.rs')
    el_ = body_after(cn, r'fn edge_locations', what='edge_locations')
    arms = []
    for m in re.finditer(r'ConnectionType::(\w+)\s*=>\s*(?:\{\s*)?vec!\[(.*?)\]', el_, re.S):
        arms.append((m.group(1), re.findall(r'LocSpec::(\w+)', m.group(2))))
    need(len(arms) == 4, 'edge_locations arms')
    emit('Definition edge_locations_tbl : list (string * list string) := [' + ';\n  '.join('(%s, %s)' % (cq(a), cql(b)) for a, b in arms) + '].')
    l2d = body_after(cn, r'fn loc_to_dir', what='loc_to_dir')
    l2 = []
    for m in re.finditer(r'((?:LocSpec::\w+(?:\(_\))?\s*\|?\s*)+)=>\s*Some\(Direction::(\w+)\)', l2d):
        for nme in re.findall(r'LocSpec::(\w+)', m.group(1)):
            l2.append((nme, m.group(2)))
    need(len(l2) == 8, 'loc_to_dir')
    emit('Definition loc_to_dir_tbl : list (string * string) := [' + '; '.join('(%s, %s)' % (cq(a), cq(b)) for a, b in l2) + '].')
    ct = body_after(cn, r'pub fn from_str\(s: &str\) -> Self', what='ConnectionType::from_str')
    c2 = []
    for m in re.finditer(r'((?:"[a-z]+"\s*\|?\s*)+)=>\s*Self::(\w+)', ct):
        for nme in strs(m.group(1)):
            c2.append((nme, m.group(2)))
    need(len(c2) == 4, 'ConnectionType names')
    emit('Definition conntype_names : list (string * string) := [' + '; '.join('(%s, %s)' % (cq(a), cq(b)) for a, b in c2) + '].')
    # connector.rs render: default offsets and the (start direction, end direction) -> route table
    rn = body_after(cn, r'pub fn render\(', what='Connector::render')
    def dec_q(txt):
        ip, _, fp = txt.partition('.')
        return int((ip + fp) or '0'), 10 ** len(fp)
    for nm in ('default_ratio_offset', 'default_abs_offset'):
        m = re.search(r'let %s = Length::(\w+)\(([0-9]+\.?[0-9]*)\);' % nm, rn)
        need(m, 'Connector::render ' + nm)
        emit('Definition %s_tbl : string * (Z * Z) := (%s, (%d%%Z, %d%%Z)).' % ((nm, cq(m.group(1))) + dec_q(m.group(2))))
    cm = body_after(rn, r'points = match \(start_dir_some, end_dir_some\)', what='Connector::render corner match')
    coord = {'x1': 'x1', 'y1': 'y1', 'x2': 'x2', 'y2': 'y2', 'self.start.origin.0': 'x1', 'self.start.origin.1': 'y1',
             'self.end.origin.0': 'x2', 'self.end.origin.1': 'y2', 'mid_x': 'mid', 'mid_y': 'mid'}
    rows = []; i = 0
    while True:
        j = cm.find('=>', i)
        if j < 0:
            break
        pat = cm[i:j]
        blk = body_after(cm[j:], r'=>')
        i = j + cm[j:].index('{') + len(blk) + 2
        pairs = []
        for a, b in re.findall(r'\(\s*((?:Direction::\w+\s*\|?\s*)+),\s*((?:Direction::\w+\s*\|?\s*)+)\)', pat):
            for x in re.findall(r'Direction::(\w+)', a):
                for y in re.findall(r'Direction::(\w+)', b):
                    pairs.append((x, y))
        need(pairs, 'Connector::render corner arm pattern: ' + ' '.join(pat.split())[:60])
        flat = re.sub(r'\s+', '', blk)
        m = re.search(r'vec!\[(.*?)\]', flat)
        need(m, 'Connector::render corner arm points')
        pts = []
        for a, b in re.findall(r'\(([\w.]+),([\w.]+)\)', m.group(1)):
            need(a in coord and b in coord, 'Connector::render corner arm coordinate %s,%s' % (a, b))
            need(('mid' not in a or 'let' + a + '=' in flat) and ('mid' not in b or 'let' + b + '=' in flat), 'Connector::render corner arm mid variable')
            pts.append((coord[a], coord[b]))
        need(len(pts) >= 2, 'Connector::render corner arm points')
        mid = ('none', '', '', '')
        if 'letmid_' in flat:
            mc = re.search(r'letmid_[xy]=self\.offset\.unwrap_or\((default_\w+)\)\.calc_offset\(([\w.]+),([\w.]+)\);', flat)
            mu = re.search(r'let(m(?:in|ax)_[xy])=([\w.]+?)\.(min|max)\(([\w.]+)\);letmid_[xy]=(m(?:in|ax)_[xy])([-+])self\.offset\.unwrap_or\((default_\w+)\)\.absolute\(\)\.ok_or_else', flat)
            if mc:
                need(mc.group(2) in coord and mc.group(3) in coord, 'Connector::render calc_offset arguments')
                mid = ('calc', mc.group(1), coord[mc.group(2)], coord[mc.group(3)])
            elif mu and mu.group(1) == mu.group(5):
                need(mu.group(2) in coord and mu.group(4) in coord, 'Connector::render min/max arguments')
                mid = (mu.group(3) + mu.group(6), mu.group(7), coord[mu.group(2)], coord[mu.group(4)])
            else:
                raise Missing('Connector::render corner arm mid expression: ' + flat[:80])
        rows.append((pairs, pts, mid))
    need(len(rows) >= 1, 'Connector::render corner arms')
    def cqp(l):
        return '[' + '; '.join('(%s, %s)' % (cq(a), cq(b)) for a, b in l) + ']'
    emit('(* per arm of the corner match: (start direction, end direction) pairs, points, (mid kind, default offset, a, b) *)')
    emit('Definition corner_arms_tbl : list (list (string * string) * list (string * string) * (string * string * string * string)) := [' +
         ';\n  '.join('(%s, %s, (%s, %s, %s, %s))' % ((cqp(a), cqp(b)) + tuple(cq(x) for x in c)) for a, b, c in rows) + '].')
    fe = body_after(cn, r'pub fn from_element\(', what='Connector::from_element')
    emit('Definition connector_popped : list string := %s.' % cql(re.findall(r'\.pop_attr\(' + STR + r'\)', fe)))
    tmc = body_after(el, r'pub fn transmute', what='transmute')
    m = re.search(r'conn\.render\(ctx\)\?((?:\.without_attr\(' + STR + r'\))*)', tmc)
    need(m, 'transmute connector replacement')
    emit('Definition connector_removed_after : list string := %s.' % cql(re.findall(r'without_attr\(' + STR + r'\)', m.group(1))))
    ic = body_after(el, r'pub fn is_connector', what='is_connector')
    emit('Definition connector_required_attrs : list string := %s.' % cql(re.findall(r'has_attr\(' + STR + r'\)', ic)))
    emit('Definition connector_elements : list string := %s.' % cql(re.findall(r'self\.name == ' + STR, ic)))
    emit()
    # ---- text.rs
    tx = read(srcdir, 'text.rs')
    pta = body_after(tx, r'pub fn process_text_attr', what='process_text_attr')
    m = re.search(r'let text_ignore_classes = \[(.*?)\];', pta, re.S)
    need(m, 'text_ignore_classes')
    emit('Definition text_ignore_classes : list string := %s.' % cql(strs(m.group(1))))
    m = re.search(r'let text_ignore_class_fns = \[(.*?)\];', pta, re.S)
    need(m, 'text_ignore_class_fns')
    emit('Definition text_ignore_prefixes : list string := %s.' % cql(strs(m.group(1))))
    m = re.search(r'let text_presentation_attrs = \[(.*?)\];', pta, re.S)
    need(m, 'text_presentation_attrs')
    emit('Definition text_presentation_attrs : list string := %s.' % cql(strs(m.group(1))))
    # alignment classes and offset signs of get_text_position: one row per side test
    gtp = body_after(tx, r'fn get_text_position', what='get_text_position')
    rows = []
    for side in ('top', 'bottom', 'left', 'right'):
        blk = body_after(gtp, r'ls if ls\.is_%s\(\) =>' % side, what='get_text_position is_%s arm' % side)
        arms = re.findall(r'\((true|false), (true|false)\) => "([^"]+)"', blk)
        need(len(arms) == 4, 'get_text_position is_%s class arms' % side)
        mo = re.search(r't_(dx|dy) \+= if outside \{ (-?)text_offset \} else \{ (-?)text_offset \}', blk)
        need(mo, 'get_text_position is_%s offset' % side)
        d = dict(((a, b), c) for a, b, c in arms)
        rows.append('(%s, ((%s, %s, %s, %s), (%s, %s, %s)))' % (
            cq(side), cq(d[('false', 'false')]), cq(d[('true', 'false')]), cq(d[('false', 'true')]), cq(d[('true', 'true')]),
            cq(mo.group(1)), 'true' if mo.group(2) == '-' else 'false', 'true' if mo.group(3) == '-' else 'false'))
    emit('(* side -> ((class inside, class outside, class inside-vertical, class outside-vertical), (axis, negative when outside, negative when inside)) *)')
    emit('Definition text_align_table : list (string * ((string * string * string * string) * (string * bool * bool))) := [' + ';\n  '.join(rows) + '].')
    m = re.search(r'matches!\(element\.name\.as_str\(\), ((?:"[a-z]+"\s*\|?\s*)+)\)', gtp)
    need(m, 'get_text_position outside-by-default elements')
    emit('Definition text_outside_elements : list string := %s.' % cql(strs(m.group(1))))
    emit()
    # ---- themes.rs, colours.rs
    col = read(srcdir, 'colours.rs')
    cl = strs(body_after(col, r'COLOUR_LIST[^=]*=\s*&', open_ch='[', close_ch=']', what='COLOUR_LIST'))
    dk = strs(body_after(col, r'DARK_COLOURS[^=]*=\s*&', open_ch='[', close_ch=']', what='DARK_COLOURS'))
    need(len(cl) > 100, 'COLOUR_LIST')
    emit('Definition colour_list : list string := %s.' % cql(cl))
    emit('Definition dark_colours : list string := %s.' % cql(dk))
    th = read(srcdir, 'themes.rs')
    ts = body_after(th, r'fn append_text_styles', what='append_text_styles')
    rules = re.findall(r'\(' + STR + r',\s*' + STR + r'\)', ts)
    rules = [(unesc(a), unesc(b)) for a, b in rules if b.startswith('text.')]
    need(len(rules) >= 10, 'text style rules')
    emit('Definition text_rules : list (string * string) := [' + ';\n  '.join('(%s, %s)' % (cq(a), cq(b)) for a, b in rules) + '].')
    m = re.search(r'let text_sizes = vec!\[(.*?)\];', ts, re.S)
    need(m, 'text_sizes')
    sizes = re.findall(r'\(' + STR + r',\s*tb\.font_size(?:\s*\*\s*([0-9.]+))?\)', m.group(1))
    need(len(sizes) >= 7, 'text_sizes rows')
    emit('Definition text_sizes : list (string * string) := [' + '; '.join('(%s, %s)' % (cq(a), cq(b or '1')) for a, b in sizes) + '].')
    m = re.search(r'let text_ol_widths = vec!\[(.*?)\];', ts, re.S)
    need(m, 'text_ol_widths')
    olw = re.findall(r'\(' + STR + r',\s*([0-9.]+)\)', m.group(1))
    emit('Definition text_ol_widths : list (string * string) := [' + '; '.join('(%s, %s)' % (cq(a), cq(b)) for a, b in olw) + '].')
    sw = body_after(th, r'fn append_stroke_width_styles', what='append_stroke_width_styles')
    sws = re.findall(r'\(' + STR + r',\s*base\s*\*\s*([0-9.]+)\)', sw)
    need(len(sws) == 4, 'stroke widths')
    emit('Definition stroke_widths : list (string * string) := [' + '; '.join('(%s, %s)' % (cq(a), cq(b)) for a, b in sws) + '].')
    dsh = body_after(th, r'fn append_dash_styles', what='append_dash_styles')
    m = re.search(r'let flow_style = vec!\[(.*?)\];', dsh, re.S)
    need(m, 'flow_style')
    fl = re.findall(r'\(' + STR + r',\s*' + STR + r'\)', m.group(1))
    emit('Definition flow_styles : list (string * string) := [' + '; '.join('(%s, %s)' % (cq(a), cq(b)) for a, b in fl) + '].')
    dashes = re.findall(r'tb\.has_class\(' + STR + r'\)\s*\{\s*tb\.add_style\(' + STR + r'\);', dsh)
    need(len(dashes) >= 4, 'dash styles')
    emit('Definition dash_styles : list (string * string) := [' + '; '.join('(%s, %s)' % (cq(unesc(a)), cq(unesc(b))) for a, b in dashes) + '].')
    ptn = body_after(th, r'fn append_pattern_styles', what='append_pattern_styles')
    pt = re.findall(r'\(' + STR + r',\s*PatternType::(\w+),\s*(None|Some\((-?\d+)\))\)', ptn)
    need(len(pt) == 6, 'pattern table')
    emit('Definition pattern_table : list (string * (string * option Z)) := [' + '; '.join('(%s, (%s, %s))' % (cq(a), cq(b), ('Some (%s)%%Z' % d) if d else 'None') for a, b, c, d in pt) + '].')
    m = re.search(r'filter\(\|&n\| n <= (\d+)\)', ptn)
    need(m, 'pattern spacing limit')
    emit('Definition pattern_max_spacing : Z := %s%%Z.' % m.group(1))
    emit('Definition pattern_sorted : bool := %s.' % ('true' if re.search(r'classes\.sort\(\)', ptn) else 'false'))
    # themes: per-theme constants
    themes = []
    for tname in ['Default', 'Fine', 'Bold', 'Glass', 'Light', 'Dark']:
        if tname == 'Default':
            body = ''
        else:
            body = body_after(th, r'impl Theme for %sTheme' % tname, what='impl Theme for %sTheme' % tname)
        def const(fname, default):
            mm = re.search(r'fn %s\(&self\)[^{]*\{\s*(?:String::from\(' % fname + STR + r'\)|([0-9.]+))\s*\}', body)
            if not mm:
                return default
            return unesc(mm.group(1)) if mm.group(1) is not None else mm.group(2)
        early = re.search(r'fn append_early_styles[^{]*\{\s*tb\.add_style\(' + STR + r'\);', body)
        themes.append((tname.lower(), const('default_fill', None), const('default_stroke', None),
                       const('default_background', None), const('default_stroke_width', None),
                       unesc(early.group(1)) if early else None))
    tr = body_after(th, r'trait Theme', what='trait Theme')
    def tdef(fname):
        mm = re.search(r'fn %s\(&self\)[^{]*\{\s*(?:String::from\(' % fname + STR + r'\)|([0-9.]+))\s*\}', tr)
        need(mm, 'Theme default ' + fname)
        return unesc(mm.group(1)) if mm.group(1) is not None else mm.group(2)
    dfl = (tdef('default_fill'), tdef('default_stroke'), tdef('default_background'), tdef('default_stroke_width'))
    emit('(* theme name, fill, stroke, background, stroke width (text), early style *)')
    emit('Definition theme_table : list (string * (string * string * string * string * option string)) := [' + ';\n  '.join(
        '(%s, (%s, %s, %s, %s, %s))' % (cq(n), cq(f or dfl[0]), cq(s or dfl[1]), cq(b or dfl[2]), cq(w or dfl[3]), ('Some ' + cq(e)) if e else 'None')
        for n, f, s, b, w, e in themes) + '].')
    tn = body_after(th, r'impl FromStr for ThemeType', what='ThemeType::from_str')
    emit('Definition theme_names : list string := %s.' % cql([a for a in strs(tn) if re.fullmatch(r'[a-z]+', a)]))
    theme_tables_coq(theme_tables(srcdir), emit)
    emit()
    # ---- lib.rs defaults
    lib = read(srcdir, 'lib.rs')
    dfc = body_after(lib, r'impl Default for TransformConfig', what='Default for TransformConfig')
    for key in ['loop_limit', 'var_limit', 'depth_limit', 'border']:
        m = re.search(key + r':\s*(\d+)', dfc)
        need(m, 'config default ' + key)
        emit('Definition default_%s : Z := %s%%Z.' % (key, m.group(1)))
    # ---- transform.rs dispatch names, config keys
    tf = read(srcdir, 'transform.rs')
    ge = body_after(tf, r'impl EventGen for SvgElement', what='EventGen for SvgElement')
    disp = []
    for m in re.finditer(r'((?:"[a-z]+"\s*\|?\s*)+)=>\s*(\w+)\(self\.clone\(\)\)', ge):
        for nme in strs(m.group(1)):
            disp.append((nme, m.group(2)))
    need(len(disp) >= 9, 'dispatch table')
    emit('Definition dispatch_table : list (string * string) := [' + '; '.join('(%s, %s)' % (cq(a), cq(b)) for a, b in disp) + '].')
    emit('Definition container_restores_depth : bool := %s.' % ('false' if re.search(r'return Container\(self\.clone\(\)\)', ge) else 'true'))
    ce = body_after(tf, r'impl EventGen for ConfigElement', what='ConfigElement')
    emit('Definition config_keys : list string := %s.' % cql(re.findall(STR + r'\s*=>\s*new_config', ce)))
    pt_ = body_after(tf, r'fn process_tags', what='process_tags')
    lim = re.findall(r'SvgdxError::(\w+)\(\.\.\)', pt_)
    emit('Definition fatal_errors : list string := %s.' % cql(lim))
    oe = body_after(tf, r'impl EventGen for OtherElement', what='OtherElement')
    m = re.search(r'if ((?:k != "[^"]*"\s*(?:&&)?\s*)+)\{', oe)
    need(m, 'OtherElement filtered attrs')
    emit('Definition other_filtered_attrs : list string := %s.' % cql(strs(m.group(1))))
    # transform names / arities
    ta = read(srcdir, 'transform_attr.rs')
    tt = body_after(ta, r'impl FromStr for TransformType', what='TransformType::from_str')
    ar = []
    for m in re.finditer(STR + r'\s*=>\s*\{(.*?)\n            \}', tt, re.S):
        ns = sorted(set(int(x) for x in re.findall(r'args\.len\(\) == (\d+)', m.group(2))))
        ar.append((m.group(1), ns))
    need(len(ar) == 6, 'transform arities')
    emit('Definition transform_arities : list (string * list nat) := [' + '; '.join('(%s, [%s])' % (cq(a), '; '.join('%d%%nat' % n for n in b)) for a, b in ar) + '].')

    # ---- front-ends (C07): lib.rs transform_file, cli.rs Config::from_args, bin/svgdx.rs, server.rs, errors.rs
    tfile = body_after(lib, r'pub fn transform_file', what='lib.rs transform_file')
    mi = re.search(r'input\s*==\s*' + STR, tfile); mo = re.search(r'output\s*==\s*' + STR, tfile)
    need(mi and mo and mi.group(1) == mo.group(1), 'lib.rs transform_file stdin/stdout marker')
    emit()
    emit('(* front-ends (C07) *)')
    emit('Definition front_stdio_marker : string := %s.' % cq(unesc(mi.group(1))))
    need(re.search(r'File::open\(input\)\?', tfile), 'lib.rs transform_file File::open(input)?')
    need(re.search(r'transform_stream\(&mut in_reader,\s*&mut std::io::stdout\(\),\s*cfg\)\?', tfile), 'lib.rs transform_file stdout branch')
    # output protocol: temp file created, transform into it with `?`, copy to the output afterwards
    i_tmp = tfile.find('NamedTempFile::new()?')
    m_ts = re.search(r'transform_stream\(&mut in_reader,\s*&mut (\w+),\s*cfg\)\?', tfile)
    m_cp = re.search(r'fs::copy\((\w+)\.path\(\),\s*output\)\?', tfile)
    via_temp = bool(i_tmp >= 0 and m_ts and m_cp and m_ts.group(1) == m_cp.group(1)
                    and i_tmp < m_ts.start() < m_cp.start()
                    and re.search(r'let\s+mut\s+%s\s*=\s*NamedTempFile::new\(\)\?' % m_ts.group(1), tfile))
    direct = bool(re.search(r'File::create\(output\)', tfile))
    need(via_temp or direct, 'lib.rs transform_file output protocol (temp file + copy, or File::create)')
    emit('Definition front_output_via_temp : bool := %s.' % ('true' if via_temp and not direct else 'false'))
    cli = read(srcdir, 'cli.rs')
    fa = body_after(cli, r'fn from_args\(', what='cli.rs Config::from_args')
    mg = re.search(r'if\s+args\.file\s*!=\s*' + STR + r'\s*&&\s*args\.output\s*!=\s*' + STR, fa)
    need(mg and mg.group(1) == mg.group(2) == mi.group(1), 'cli.rs from_args same-file guard (file/output not stdio)')
    blk = body_after(fa[mg.start():], r'args\.output\s*!=\s*' + STR, what='cli.rs from_args same-file block')
    mc = re.search(r'if\s+(out_path\.exists\(\)\s*&&\s*)?out_path\.canonicalize\(\)\.map_err\(SvgdxError::(\w+)\)\?\s*==\s*in_path\.canonicalize\(\)\.map_err\(SvgdxError::(\w+)\)\?', blk)
    need(mc and mc.group(2) == mc.group(3), 'cli.rs from_args canonical path comparison')
    emit('Definition cli_same_file_needs_existing_output : bool := %s.' % ('true' if mc.group(1) else 'false'))
    cond = body_after(blk[mc.end():], r'', what='cli.rs same-file refusal block')
    mm = re.search(r'return Err\(SvgdxError::from\(\s*' + STR, cond)
    need(mm, 'cli.rs same-file refusal message')
    emit('Definition cli_same_file_msg : string := %s.' % cq(unesc(mm.group(1))))
    runb = body_after(cli, r'pub fn run\(', what='cli.rs run')
    need(re.search(r'if !config\.watch\s*\{\s*transform_file\(&config\.input_path,\s*&config\.output_path,\s*&config\.transform\)\?;', runb), 'cli.rs run -> transform_file(..)?')
    mainrs = read(srcdir, 'bin/svgdx.rs')
    need(re.search(r'fn main\(\)\s*->\s*Result<\(\)>', mainrs) and re.search(r'run\(get_config\(\)\?\)\?;', mainrs), 'bin/svgdx.rs main returns Result and propagates run(get_config()?)?')
    errs = read(srcdir, 'errors.rs')
    m1 = re.search(r'SvgdxError::(\w+)\(err\)', body_after(errs, r'impl From<std::io::Error> for SvgdxError', what='errors.rs From<io::Error>'))
    m2 = re.search(r'SvgdxError::(\w+)\(Box::new\(err\)\)', body_after(errs, r'pub fn from_err', what='errors.rs from_err'))
    m3 = re.search(r'SvgdxError::(\w+)\(err\.to_string\(\)\)', body_after(errs, r'impl From<&str> for SvgdxError', what='errors.rs From<&str>'))
    need(m1 and m2 and m3, 'errors.rs conversion variants')
    emit('Definition err_variant_io : string := %s.' % cq(m1.group(1)))
    emit('Definition err_variant_from_err : string := %s.' % cq(m2.group(1)))
    emit('Definition err_variant_message : string := %s.' % cq(m3.group(1)))
    emit('Definition err_variant_from_err_of_canonicalize : string := %s.' % cq({'from_err': m2.group(1), 'from': m1.group(1)}.get(mc.group(2), mc.group(2))))
    srv = read(srcdir, 'server.rs')
    st = body_after(srv, r'async fn transform\(', what='server.rs transform')
    need(re.search(r'transform_str\(input,\s*&config\.into\(\)\)', st), 'server.rs transform calls transform_str(input, &config.into())')
    me = re.search(r'if\s+output\.is_empty\(\)\s*\{[^}]*?Err\(SvgdxError::from\(' + STR + r'\)\)', st, re.S)
    need(me, 'server.rs empty-output rule')
    emit('Definition server_empty_msg : string := %s.' % cq(unesc(me.group(1))))
    okb = st[st.index('.map(|output|'):st.index('.map_err(')] if '.map(|output|' in st and '.map_err(' in st else None
    need(okb is not None, 'server.rs success / error response builders')
    erb = st[st.index('.map_err('):]
    need('.status(' not in okb, 'server.rs success response has the default status')
    mct = re.search(r'\.header\("Content-Type",\s*' + STR + r'\)', okb); need(mct, 'server.rs success content type')
    emit('Definition server_ok_status : nat := 200.   (* no .status(..) call on the success builder: http default *)')
    emit('Definition server_ok_ctype : string := %s.' % cq(mct.group(1)))
    mst = re.search(r'\.status\((\d+)\)', erb); need(mst, 'server.rs error status')
    mct = re.search(r'\.header\("Content-Type",\s*' + STR + r'\)', erb); need(mct, 'server.rs error content type')
    mfm = re.search(r'Body::from\(format!\(' + STR + r',\s*e\)\)', erb); need(mfm, 'server.rs error body format')
    emit('Definition server_err_status : nat := %s.' % mst.group(1))
    emit('Definition server_err_ctype : string := %s.' % cq(mct.group(1)))
    emit('Definition server_err_format : string := %s.' % cq(unesc(mfm.group(1))))
    mr = re.search(r'\.route\(' + STR + r',\s*post\(transform\)\)', srv); need(mr, 'server.rs transform route')
    emit('Definition server_route : string := %s.' % cq(mr.group(1)))
    rc = body_after(srv, r'struct RequestConfig', what='server.rs RequestConfig')
    flds = re.findall(r'(\w+)\s*:\s*(\w+)', rc)
    need(flds, 'server.rs RequestConfig fields')
    emit('Definition server_request_fields : list (string * string) := [' + '; '.join('(%s, %s)' % (cq(a), cq(b)) for a, b in flds) + '].')
    frm = body_after(srv, r'impl From<RequestConfig> for TransformConfig', what='server.rs From<RequestConfig>')
    sets = re.findall(r'(\w+)\s*:\s*config\.(\w+)', frm)
    need(sets and re.search(r'\.\.Default::default\(\)', frm), 'server.rs RequestConfig -> TransformConfig')
    emit('Definition server_config_sets : list (string * string) := [' + '; '.join('(%s, %s)' % (cq(a), cq(b)) for a, b in sets) + '].')
    # ---- C08: transform.rs write_root_svg constants, elements without an extent of their own
    wr = body_after(tf, r'fn write_root_svg', what='transform.rs write_root_svg')
    dfa = re.findall(r'if !orig_svg_attrs\.contains_key\(' + STR + r'\)\s*\{\s*new_svg_attrs\.insert\(' + STR + r',\s*' + STR + r'\);', wr)
    need(len(dfa) >= 1 and all(a == b for a, b, _ in dfa), 'write_root_svg default attributes (version, xmlns)')
    emit('Definition root_default_attrs : list (string * string) := [' + '; '.join('(%s, %s)' % (cq(a), cq(unesc(c))) for a, _, c in dfa) + '].')
    un = re.findall(r'format!\("\{\}([^"{}]*)",\s*(width|height)\)', wr)
    need(len(un) == 2 and un[0][0] == un[1][0] and {un[0][1], un[1][1]} == {'width', 'height'}, 'write_root_svg default unit')
    emit('Definition root_default_unit : string := %s.' % cq(un[0][0]))
    vb = re.search(r'format!\(' + STR + r',\s*fstr\(x1\),\s*fstr\(y1\),\s*view_width,\s*view_height\)', wr)
    need(vb and vb.group(1).count('{}') == 4, 'write_root_svg viewBox format')
    emit('Definition root_viewbox_seps : list string := %s.' % cql(unesc(vb.group(1)).split('{}')))
    rk = re.findall(r'new_svg_attrs\.insert\(\s*' + STR, wr)
    need(len(rk) >= 7, 'write_root_svg inserted keys')
    emit('Definition root_inserted_keys : list string := %s.' % cql(rk))
    ctn = body_after(tf, r'impl EventGen for Container', what='EventGen for Container')
    m = re.search(r'if ((?:self\.0\.name == "[A-Za-z]+"\s*(?:\|\|)?\s*)+)\{\s*bbox = None;', ctn)
    need(m, 'Container elements whose content has no extent (defs, symbol)')
    emit('Definition container_no_bbox : list string := %s.' % cql(strs(m.group(1))))
    m = re.search(r'if matches!\(\s*self\.0\.name\.as_str\(\),\s*((?:"[A-Za-z]+"\s*\|?\s*)+)\)\s*\{\s*bbox = None;', ctn)
    emit('Definition container_unrendered : list string := %s.' % cql(strs(m.group(1)) if m else []))
    m = re.search(r'if self\.0\.name == ' + STR + r'\s*\{\s*bb = None;', oe)
    need(m, 'OtherElement element without an extent (point)')
    emit('Definition leaf_no_bbox : list string := %s.' % cql([m.group(1)]))
    ge2 = re.search(r'\(\s*"clipPath"\s*,\s*Some\(clip_bbox\)\s*\)', ge)
    need(ge2, 'EventGen for SvgElement clip-path step')
    gr = body_after(tf, r'impl EventGen for GroupElement', what='EventGen for GroupElement')
    m = re.search(r'let result_bb = if self\.0\.name == ' + STR + r'\s*\{\s*None', gr)
    need(m, 'GroupElement element without an extent (symbol)')
    emit('Definition group_no_bbox : list string := %s.' % cql([m.group(1)]))
    return '\n'.join(out) + '\n'

def main():
    srcdir = sys.argv[1] if len(sys.argv) > 1 else '/repo/src'
    dest = sys.argv[2] if len(sys.argv) > 2 else os.path.join(os.path.dirname(os.path.abspath(__file__)), '..', 'coq', 'Gen', 'Tables.v')
    try:
        text = gen(srcdir)
    except Missing as e:
        print('TRANSLATOR-FAILED table=%s' % e)
        sys.exit(2)
    except Exception as e:
        print('TRANSLATOR-FAILED exception=%r' % (e,))
        sys.exit(2)
    old = open(dest).read() if os.path.exists(dest) else None
    if old != text:
        open(dest, 'w').write(text)
        print('Tables.v updated')
    else:
        print('Tables.v unchanged')

if __name__ == '__main__':
    main()
