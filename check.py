#!/usr/bin/env python3
"""Entry point of every check:  python3 check.py <ID> --tier quick|thorough
                                python3 check.py <ID> --replay <path>
                                python3 check.py --setup
See DESIGN.md section 2 for the sequence of steps."""
import sys, os, json, time, argparse, importlib, traceback

sys.path.insert(0, os.path.join(os.path.dirname(os.path.abspath(__file__)), 'tools'))
import lib
from lib import Case, Rng

VERIF = lib.VERIF
TRUSTED_BASE = [
    'Coq 8.16.1 kernel incl. the vm_compute machine (no native_compute); full .vo builds',
    'axioms: none declared; every property theorem is checked by Print Assumptions on each run',
    'tools/gen_tables.py (translator Rust tables -> Gen/Tables.v)',
    'extraction: ExtrOcamlBasic + ExtrOcamlString only, no Extract Constant of our own; OCaml 4.13.1; ocaml/driver.ml',
    'harness/src/main.rs + /repo/src/verif.rs (feature verif-hooks); check.py, tools/*.py (generators, canonicalisers, oracles)',
    'modelled, not verified: the Gallina model is a hand transcription of the Rust code tied by the correspondence check',
]


def load_known():
    """known_findings.txt -> {property: [entry]}"""
    out = {}
    p = os.path.join(VERIF, 'known_findings.txt')
    if not os.path.exists(p):
        return out
    for line in open(p, encoding='utf-8'):
        line = line.strip()
        if not line or line.startswith('#'):
            continue
        if line.startswith('finding:'):
            head, _, what = line[len('finding:'):].partition('::')
            kv = dict(x.split('=', 1) for x in head.split())
            kv['what'] = what.strip()
            out.setdefault(kv['property'], []).append(kv)
    return out


def write_evidence(pid, ev):
    os.makedirs(os.path.join(VERIF, 'evidence'), exist_ok=True)
    with open(os.path.join(VERIF, 'evidence', pid + '.json'), 'w') as f:
        json.dump(ev, f, indent=1, sort_keys=True)


def write_replay(pid, name, obj):
    d = os.path.join(VERIF, 'replays', pid)
    os.makedirs(d, exist_ok=True)
    p = os.path.join(d, name + '.json')
    with open(p, 'w') as f:
        json.dump(obj, f, indent=1, sort_keys=True)
    return p


def setup():
    t0 = time.time()
    with lib.Lock():
        ok, out = lib.build_harness()
        print('harness build:', 'ok' if ok else 'FAILED');
        if not ok: print(out[-3000:]); return 1
        ok, out = lib.build_repo_bins()
        print('repo binaries:', 'ok' if ok else 'FAILED')
        if not ok: print(out[-3000:]); return 1
        ok, out = lib.gen_tables()
        print('translator:', out)
        if not ok: return 1
        ok, out = lib.coq_make([])
        print('coq build:', 'ok' if ok else 'FAILED')
        if not ok: print(out[-3000:]); return 1
        ok, out = lib.build_driver()
        print('driver build:', 'ok' if ok else 'FAILED')
        if not ok: print(out[-3000:]); return 1
    print('setup done in %.1fs' % (time.time() - t0))
    return 0


_MC = {'n': 0}


def model_contradicts(lib, v):
    """True iff the violation's case can be run through the extracted model and the implementation and they differ on it.
    (None / False when the case has no machine-readable form, the model has no such entry point, or they agree.)"""
    c = v.get('case') or {}
    if not isinstance(c, dict) or 'kind' not in c or 'fields' not in c or _MC['n'] >= 400:
        return False
    _MC['n'] += 1
    try:
        from lib import Case
        import doccorr
        case = Case.from_json(c)
        if case.kind in ('doc', 'docfull', 'probe', 'docbytes'):
            xml = bytes.fromhex(case.fields[1]).decode('utf-8'); cfg = doccorr.dec_cfg(case.fields[0])
            if not doccorr.applicable(xml, cfg):
                return False
            return doccorr._differs(lib, xml, cfg)
        if case.kind not in ('fstr', 'fdisplay', 'strp', 'attrsplit', 'posbbox', 'resolve', 'textstr', 'textattr', 'connect', 'evalcond', 'evallist', 'xfrm'):
            return False       # only entry points that the harness and the driver answer in the same format
        a = lib.run_impl([case], shards=1).get(case.id); b = lib.run_model([case], shards=1).get(case.id)
        if not a or not b or b[0] in ('SKIP', 'TIMEOUT', 'OUTOFFUEL', 'STACKOVERFLOW', 'DRIVERFAIL'):
            return False
        return a != b
    except Exception:
        return False


def run_check(pid, tier, seed, replay=None):
    t0 = time.time()
    import shutil
    shutil.rmtree(os.path.join(VERIF, 'replays', pid), ignore_errors=True)
    mod = importlib.import_module('props.' + pid)
    known = load_known().get(pid, [])
    violations = []       # (description, replay object)
    broken = []           # proof / translator / correspondence breakage without (yet) a failing input
    notes = []
    # ---- 1. rebuild from /repo's working tree
    with lib.Lock():
        ok, out = lib.build_harness()
        if not ok:
            print(out[-2000:])
            print('cannot build /repo with hooks on: the tree does not compile')
            broken.append(('build', 'harness build failed: ' + out[-300:]))
        if getattr(mod, 'NEEDS_BINS', False):
            okb, outb = lib.build_repo_bins()
            if not okb:
                broken.append(('build', 'svgdx binaries failed to build: ' + outb[-300:]))
        # ---- 2. translate
        okt, outt = lib.gen_tables()
        notes.append('translator: ' + outt)
        if not okt:
            broken.append(('translator', outt))
        # ---- 3. proof obligations
        bad = lib.scan_forbidden()
        if bad:
            broken.append(('forbidden', 'forbidden constructs in the Coq development: %s' % bad[:5]))
        pok, nobl, ndis, pdetails, plog = lib.check_props(pid, flocq_ok=getattr(mod, 'FLOCQ_THEOREMS', ()))
        if not pok:
            broken.append(('proof', '; '.join(pdetails) or 'proof obligations failed'))
        if pok and tier == 'thorough':
            okc, outc = lib.coqchk(pid)
            notes.append(outc)
            if not okc:
                broken.append(('proof', outc))
        okd, outd = lib.build_driver()
        if not okd:
            broken.append(('model', 'extracted model failed to build: ' + outd[-300:]))
    if any(b[0] == 'build' for b in broken):
        # nothing can run; report as broken tie
        pass
    # ---- 4/5. correspondence + oracle
    rng = Rng(seed).fork(pid)
    stats = {'evaluations': 0, 'distinct_nontrivial': 0, 'traces_validated_against_impl': 0,
             'samples': [], 'distribution': {}}
    ctx = {'tier': tier, 'seed': seed, 'rng': rng, 'stats': stats, 'known': known, 'lib': lib,
           'broken': [b[0] for b in broken], 'model_ok': okd and not any(b[0] == 'build' for b in broken),
           'impl_ok': not any(b[0] == 'build' for b in broken), 'replay': replay}
    known_hits = {}
    docmodel = getattr(mod, 'DOC_MODEL', False) and not replay
    if docmodel:
        lib.DOC_LOG = []
    try:
        if ctx['impl_ok']:
            for v in mod.run(ctx):
                # v = dict(what=..., case=..., observed=..., expected=..., kind='oracle'|'correspondence')
                k = mod.classify(v, known) if hasattr(mod, 'classify') else None
                if k and ctx['model_ok'] and model_contradicts(lib, v):
                    # a known finding describes the recorded behaviour, which the model reproduces; where the implementation no
                    # longer answers as the model does on this very case, the finding does not explain what was observed
                    v = dict(v); v['what'] = v.get('what', '') + ' [inside the class of known finding %s, but the model of the recorded behaviour answers differently on this case]' % k
                    k = None
                if k:
                    known_hits[k] = known_hits.get(k, 0) + 1
                else:
                    violations.append(v)
        if docmodel and ctx['impl_ok'] and ctx['model_ok']:
            # the documents this check generated, through the composed whole-document model (Model/Svgdx.v) as well
            import doccorr
            log, lib.DOC_LOG = lib.DOC_LOG, None
            seen = set(); items = []
            for cf, d in log:
                if (cf, d) in seen:
                    continue
                seen.add((cf, d))
                try:
                    items.append((bytes.fromhex(d).decode('utf-8'), doccorr.dec_cfg(cf)))
                except UnicodeDecodeError:
                    pass
            cap = 1500 if tier == 'quick' else 40000
            if len(items) > cap:
                step = len(items) / float(cap)
                items = [items[int(i * step)] for i in range(cap)]
            # plus grammar-generated documents combining every modelled feature (tools/docfuzz.py)
            import docfuzz
            frng = rng.fork('docfuzz')
            nf = 1500 if tier == 'quick' else 40000
            items += [docfuzz.gen(frng) for _ in range(nf)]
            stats['distribution']['doc_model_fuzz_documents'] = nf
            for v in doccorr.compare(lib, items, stats):
                violations.append(v)
    except Exception:
        traceback.print_exc()
        broken.append(('machinery', 'check machinery raised an exception: ' + traceback.format_exc()[-400:]))
    finally:
        lib.DOC_LOG = None
    # ---- known findings: replay each witness
    for kf in known:
        still = mod.replay_known(kf, ctx) if hasattr(mod, 'replay_known') else True
        if still:
            print('KNOWN-FINDING: property=%s %s %s' % (pid, kf.get('id', ''), kf['what']))
        else:
            notes.append('known finding %s no longer reproduces' % kf.get('id'))
    # ---- 6. verdict
    rc = 0
    oracle_v = [v for v in violations if v.get('kind') != 'correspondence']
    corr_v = [v for v in violations if v.get('kind') == 'correspondence']
    if oracle_v:
        v = oracle_v[0]
        path = write_replay(pid, 'violation', {'property': pid, 'seed': seed, 'tier': tier, 'violation': v,
                                               'others': len(oracle_v) - 1})
        print('%s: %s' % (pid, v['what']))
        for w in oracle_v[1:8]:
            print('%s: (also) %s' % (pid, w['what'][:300]))
        print('VIOLATION property=%s replay=%s' % (pid, path))
        rc = 1
    elif corr_v or broken:
        # the tie (proof, translator or correspondence) is broken and the search found no input on
        # which the property itself fails
        what = [b[1] for b in broken] + [v['what'] for v in corr_v[:3]]
        path = write_replay(pid, 'broken', {'property': pid, 'seed': seed, 'tier': tier,
                                            'no_longer_checks': what,
                                            'correspondence_cases': corr_v[:5]})
        for w in what[:6]:
            print('%s: %s' % (pid, w[:500]))
        print('VIOLATION property=%s replay=%s no-failing-input-found' % (pid, path))
        rc = 1
    wall = time.time() - t0
    ev = {
        'property_id': pid, 'tier': tier, 'seed': seed, 'level': 'proof',
        'coverage': {
            'obligations': max(nobl, 1), 'discharged': ndis if pok else min(ndis, max(nobl - 1, 0)),
            'checker_cmd': 'cd coq && make -j16 Props/%s.vo  (Print Assumptions under every theorem; forbidden-construct scan)' % pid,
            'trusted_base': TRUSTED_BASE + list(getattr(mod, 'TRUSTED_EXTRA', [])),
            'evaluations': stats['evaluations'], 'distinct_nontrivial': stats['distinct_nontrivial'],
            'rule': getattr(mod, 'RULE', ''), 'samples': stats['samples'][:6],
            'traces_validated_against_impl': stats['traces_validated_against_impl'],
            'distribution': stats['distribution'],
            'theorems': getattr(mod, 'THEOREM_NOTES', ''),
            'known_findings_hit': known_hits, 'notes': notes, 'proof_details': pdetails,
        },
        'assumptions': list(getattr(mod, 'ASSUMPTIONS', [])),
        'wall_s': round(wall, 2), 'violations': len(violations) + (1 if broken and not violations else 0),
    }
    write_evidence(pid, ev)
    print('%s %s seed=%d: obligations %d/%d, evaluations %d, nontrivial %d, model-vs-impl %d, violations %d, %.1fs'
          % (pid, tier, seed, ev['coverage']['discharged'], ev['coverage']['obligations'], stats['evaluations'],
             stats['distinct_nontrivial'], stats['traces_validated_against_impl'], len(violations), wall))
    return rc


def main():
    ap = argparse.ArgumentParser()
    ap.add_argument('pid', nargs='?')
    ap.add_argument('--tier', default=os.environ.get('VERIF_TIER', 'quick'))
    ap.add_argument('--replay')
    ap.add_argument('--setup', action='store_true')
    a = ap.parse_args()
    if a.setup:
        sys.exit(setup())
    seed = int(os.environ.get('VERIF_SEED', '0') or 0)
    tier = a.tier if a.tier in ('quick', 'thorough') else 'quick'
    sys.exit(run_check(a.pid, tier, seed, replay=a.replay))


if __name__ == '__main__':
    main()
