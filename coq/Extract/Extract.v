(* Extraction of the executable model. Only the two standard extraction libraries are used;
   Z, N, positive, nat and spec_float stay the extracted inductive types. *)
From Coq Require Import extraction.Extraction extraction.ExtrOcamlBasic extraction.ExtrOcamlString.
From Coq Require Import ZArith String List.
From SvgdxModel Require Import Base.Str Base.Res Num.F32 Model.Types Model.Run Model.Xml Model.Front
  Model.Themes Model.Rng Model.RngRun Model.ExprRun Model.Svgdx.
Extraction "model.ml" fstr_bits strp_bits fdisplay_bits attr_split split_compound_attr errkind_name
  run_posbbox run_elbbox run_xfrm run_resolve run_connect
  run_textattr run_textstring passthrough_doc read_xml unesc escape5 blank_line_remover
  run_front run_theme run_autostyles run_rng_attr
  run_rootattrs mk_node run_docroot
  run_evalattr run_evalcond run_evallist run_rngwords
  run_doc.
