(* Mirrors svgdx src/transform.rs: Transformer::write_root_svg (root attribute synthesis),
   process_tags (retry loop + BoundingBoxBuilder), the EventGen dispatch restricted to the
   geometry sub-language (Container, GroupElement, OtherElement, SpecsElement, the clip-path step of
   SvgElement::generate_events), process_events / postprocess for the root element; src/types.rs
   split_unit; src/context.rs update_element / set_prev_element. Definitions only. *)
From Coq Require Import String Ascii List Bool ZArith.
From SvgdxModel Require Import Base.Str Base.Res Num.NumOps Gen.Tables Model.Types Model.Geom
  Model.Position Model.Scan Model.Element.
Import ListNotations.
Open Scope string_scope.

(* ---------------------------------------------------------------- process_tags, generic part *)
(* The retry loop of process_tags over an abstract tag type T, context C and box type B.
   [gen] is Tag::generate_events preceded by the early update_element; it returns the context it
   leaves behind in every case (a failed attempt keeps its side effects). *)
Inductive outcome (B : Type) :=
| Done (b : option B)          (* Ok((events, maybe_bbox)) *)
| Failed (k : errkind)         (* an error that is queued for a retry *)
| Fatal (k : errkind)          (* limit errors: returned at once *)
| FatalPanic (s : string) | FatalFuel.
Arguments Done {B}. Arguments Failed {B}. Arguments Fatal {B}. Arguments FatalPanic {B}. Arguments FatalFuel {B}.

Section Retry.
Context {T C B : Type} (gen : C -> T -> C * outcome B) (combine : B -> B -> B).

(* BoundingBoxBuilder::extend *)
Definition bbb_extend (acc : option B) (b : B) : option B :=
  match acc with Some a => Some (combine a b) | None => Some b end.
Definition bbb_extend_opt (acc : option B) (b : option B) : option B :=
  match b with Some x => bbb_extend acc x | None => acc end.
(* the boxes recorded in a log of successful tags, in the order of success *)
Definition log_boxes (log : list (T * option B)) : list B :=
  flat_map (fun tb => match snd tb with Some b => [b] | None => [] end) log.

Record pass_state := { p_ctx : C; p_bbb : option B; p_remain : list T; p_log : list (T * option B) }.
(* one execution of the `for (idx, t) in tags` body over all tags; remain in document order *)
Fixpoint pass (tags : list T) (st : pass_state) : pass_state + (C * res unit) :=
  match tags with
  | [] => inl st
  | t :: r =>
      let '(c, o) := gen (p_ctx st) t in
      match o with
      | Done ob => pass r {| p_ctx := c; p_bbb := bbb_extend_opt (p_bbb st) ob; p_remain := p_remain st;
                             p_log := (p_log st ++ [(t, ob)])%list |}
      | Failed _ => pass r {| p_ctx := c; p_bbb := p_bbb st; p_remain := (p_remain st ++ [t])%list; p_log := p_log st |}
      | Fatal k => inr (c, Err k)
      | FatalPanic s => inr (c, Panic s)
      | FatalFuel => inr (c, OutOfFuel)
      end
  end.

(* while !tags.is_empty() && progress { pass; if no progress -> MultiError; swap } *)
Fixpoint retry_loop (fuel : nat) (tags : list T) (c : C) (bbb : option B) (log : list (T * option B))
  : C * res (option B * list (T * option B)) :=
  match tags with
  | [] => (c, Ok (bbb, log))
  | _ =>
      match fuel with
      | O => (c, OutOfFuel)
      | S f =>
          match pass tags {| p_ctx := c; p_bbb := bbb; p_remain := []; p_log := log |} with
          | inr (c', Err k) => (c', Err k)
          | inr (c', Panic s) => (c', Panic s)
          | inr (c', _) => (c', OutOfFuel)
          | inl st =>
              if Nat.eqb (List.length (p_remain st)) (List.length tags) then (p_ctx st, Err EMulti)
              else retry_loop f (p_remain st) (p_ctx st) (p_bbb st) (p_log st)
          end
      end
  end.
Definition process_tags (tags : list T) (c : C) : C * res (option B * list (T * option B)) :=
  retry_loop (S (List.length tags)) tags c None [].
End Retry.

Section WithNum.
Context (N : NumOps) (strp : string -> option (num N)) (fstr : num N -> string)
        (fdisplay : num N -> string).
Local Notation num := (num N).
Local Notation "a -. b" := (nsub N a b) (at level 50, left associativity).
Local Notation "a *. b" := (nmul N a b) (at level 40, left associativity).
Local Notation "a /. b" := (ndiv N a b) (at level 40, left associativity).
Local Notation bbox := (bbox N).
Local Notation el := (el N).
Local Notation emap := (emap N).

(* ---------------------------------------------------------------- types.rs split_unit *)
Definition is_valch (c : ascii) : bool := (is_digit c || Ascii.eqb c "." || Ascii.eqb c "-")%bool.
(* the value is the maximal leading run of [0-9.-]; one more such character after the unit has
   started is an error, as is an empty value (strp "" fails) *)
Definition split_unit (s : string) : res (num * string) :=
  let t := trim s in
  let v := take_while is_valch t in
  let u := drop_while is_valch t in
  if exists_char is_valch u then Err EParse
  else match v with
       | EmptyString => Err EParse
       | _ => match strp v with Some x => Ok (x, u) | None => Err EParse end
       end.

(* ---------------------------------------------------------------- write_root_svg *)
Fixpoint fill_format (seps vals : list string) : string :=
  match seps, vals with
  | s :: sr, v :: vr => s ++ v ++ fill_format sr vr
  | s :: _, [] => s
  | [], _ => ""
  end.
(* bb.expand(border, border); bb.round() *)
Definition root_extent (e : bbox) (border : num) : bbox := bb_round N (bb_expand N e border border).
Definition viewbox_str (b : bbox) : string :=
  fill_format root_viewbox_seps [fstr (bx1 b); fstr (by1 b); fstr (bb_width N b); fstr (bb_height N b)].
Definition add_defaults (orig a : attrs) : attrs :=
  fold_left (fun acc kv => if has orig (fst kv) then acc else set acc (fst kv) (snd kv)) root_default_attrs a.

Definition root_attrs (orig : attrs) (extent : option bbox) (border scale : num)
           (local_id svg_style : option string) : res attrs :=
  let a := add_defaults orig orig in
  let a := if has orig "id" then a else match local_id with Some l => set a "id" l | None => a end in
  let a := match svg_style with Some s => set a "style" s | None => a end in
  match extent with
  | None => Ok a
  | Some e =>
      let b := root_extent e border in
      let w := bb_width N b in let h := bb_height N b in
      let aspect := w /. h in
      do a <- (match get orig "width", get orig "height" with
               | None, None =>
                   Ok (set (set a "width" (fstr (w *. scale) ++ root_default_unit))
                           "height" (fstr (h *. scale) ++ root_default_unit))
               | Some ow, None =>
                   do '(v, u) <- split_unit ow; Ok (set a "height" (fstr (v /. aspect) ++ u))
               | None, Some oh =>
                   do '(v, u) <- split_unit oh; Ok (set a "width" (fstr (v *. aspect) ++ u))
               | Some _, Some _ => Ok a
               end);
      Ok (if has orig "viewBox" then a else set a "viewBox" (viewbox_str b))
  end.

(* ---------------------------------------------------------------- context.rs *)
Definition update_element (c : emap) (e : el) : emap :=
  match eget N e "id" with
  | Some id => {| cmap := (id, e) :: cmap N c; cprev := cprev N c |}
  | None => c end.
Definition set_prev (c : emap) (e : el) : emap := {| cmap := cmap N c; cprev := Some e |}.

(* ---------------------------------------------------------------- documents *)
Inductive node := Node (e : el) (kids : list node).
Definition node_el (n : node) : el := match n with Node e _ => e end.

Definition no_eval (c : emap) (e : el) : res el := Ok e.
Definition resolve := resolve_position N strp fstr fdisplay no_eval.
Definition lift {A} (c : emap) (r : res A) (k : A -> emap * res (option bbox)) : emap * res (option bbox) :=
  match r with Ok a => k a | Err e => (c, Err e) | Panic s => (c, Panic s) | OutOfFuel => (c, OutOfFuel) end.

(* impl EventGen for OtherElement (connectors, bearing paths and element_events failures are outside
   the modelled sub-language) *)
Definition gen_other (c : emap) (e : el) : emap * res (option bbox) :=
  lift c (do e1 <- resolve c e; do e2 <- transmute_dxy N strp fstr e1; resolve c e2) (fun e3 =>
  let c := update_element c e3 in
  lift c (get_element_bbox N strp c e3) (fun bb =>
  let c := match bb with Some _ => set_prev c e3 | None => c end in
  (c, Ok (if mem_str (ename N e) leaf_no_bbox then None else bb)))).

(* the clip-path step at the end of SvgElement::generate_events; [orig] is self *)
Definition clip_step (orig : el) (r : emap * res (option bbox)) : emap * res (option bbox) :=
  match r with
  | (c, Ok (Some bb)) =>
      match (match eget N orig "clip-path" with Some u => extract_urlref u | None => None end) with
      | None => r
      | Some rf =>
          match get_element N c rf with
          | None => (c, Err EReference)
          | Some ce =>
              lift c (get_element_bbox N strp c ce) (fun ob =>
              match ob with
              | Some cb =>
                  if String.eqb (ename N ce) "clipPath" then
                    let b := bb_intersect N bb cb in
                    (update_element c (with_cbb N orig b), Ok b)
                  else r
              | None => r end)
          end
      end
  | _ => r
  end.

Definition to_outcome (r : res (option bbox)) : outcome bbox :=
  match r with
  | Ok ob => Done ob
  | Err k => if mem_str (errkind_name k) fatal_errors then Fatal k else Failed k
  | Panic s => FatalPanic s
  | OutOfFuel => FatalFuel
  end.

Definition dispatch (name : string) : option string := assoc name dispatch_table.

(* GroupElement after its content has been processed: cb is the content bounding box *)
Definition group_finish (e : el) (c1 : emap) (cb : option bbox) : emap * res (option bbox) :=
  let ne := with_cbb N e cb in
  let c2 := set_prev (update_element c1 ne) ne in
  if mem_str (ename N e) group_no_bbox then (c2, Ok None)
  else lift c2 (el_bbox N strp ne) (fun b => (c2, Ok b)).
(* Container after its content has been processed *)
Definition container_finish (e : el) (c1 : emap) (bbox0 : option bbox) : emap * res (option bbox) :=
  let '(c2, bbox1) :=
    if mem_str (ename N e) container_no_bbox then (c1, None)
    else match bbox0 with
         | Some _ => (update_element c1 (with_cbb N e bbox0), bbox0)
         | None => (c1, None) end in
  let c3 := match bbox1 with Some _ => set_prev c2 (with_cbb N e bbox1) | None => c2 end in
  (c3, Ok (if mem_str (ename N e) container_unrendered then None else bbox1)).
(* a graphics element whose content is text only: the text becomes its text attribute and the
   element is handled as an empty element *)
Definition text_to_attr (e : el) (t : string) : el :=
  let a := set (eattrs N e) "text" t in
  {| ename := ename N e; eattrs := a; ecls := ecls N e; ecbb := ecbb N e; eidx := eidx N e; etext := None;
     eindent := eindent N e; eline := eline N e; eempty := true; eorig := eorig N e |}.

(* generate_events for one element; [in_specs] is context.in_specs *)
Fixpoint gen_node (fuel : nat) (in_specs : bool) (c : emap) (n : node) {struct fuel} : emap * res (option bbox) :=
  match fuel with
  | O => (c, OutOfFuel)
  | S f =>
      let '(Node e kids) := n in
      let name := ename N e in
      (* process_events on the inner events: process_tags unless inside <specs> *)
      let level (in_specs : bool) (c : emap) : emap * res (option bbox) :=
        if in_specs then
          (* results and errors are ignored, side effects stay *)
          (fold_left (fun c k => fst (gen_node f true (update_element c (node_el k)) k)) kids c, Ok None)
        else
          let '(c', r) := process_tags (fun c k => let '(c', r) := gen_node f false (update_element c (node_el k)) k in
                                                   (c', to_outcome r))
                                       (bb_combine N) kids c in
          (c', match r with Ok (b, _) => Ok b | Err k => Err k | Panic s => Panic s | OutOfFuel => OutOfFuel end) in
      clip_step e
        (match dispatch name with
         | Some h =>
             if String.eqb h "GroupElement" then
               let '(c1, r) := if eempty N e then (c, Ok None) else level in_specs c in
               lift c1 r (group_finish e c1)
             else if String.eqb h "SpecsElement" then
               if in_specs then (c, Err EDocument)
               else let '(c1, r) := level true c in lift c1 r (fun _ => (c1, Ok None))
             else if String.eqb h "ConfigElement" then (c, Ok None)   (* configuration is an input of the model *)
             else (c, Err EOther)                                     (* loop, reuse, var, if, defaults, for: not modelled *)
         | None =>
             if eempty N e then gen_other c e
             else
               (* impl EventGen for Container *)
               match kids, etext N e with
               | [], Some t =>
                   if mem_str name graphics_elements then gen_node f in_specs c (Node (text_to_attr e t) [])
                   else (c, Ok None)
               | _, _ =>
                   if (String.eqb name "svg" && ehas N e "xmlns")%bool then (c, Ok None)
                   else let '(c1, r) := level in_specs c in lift c1 r (container_finish e c1)
               end
         end)
  end.

(* is_real_svg: the first element is <svg> with the SVG namespace *)
Definition svg_ns : string := "http://www.w3.org/2000/svg".
Definition is_real_svg (doc : list node) : bool :=
  match doc with
  | Node e _ :: _ => if String.eqb (ename N e) "svg" then
                       match eget N e "xmlns" with Some v => String.eqb v svg_ns | None => false end
                     else false
  | [] => false end.

Definition doc_fuel : nat := 40.
(* process_events on the whole document: the accumulated extent *)
Definition doc_extent (doc : list node) : res (option bbox) :=
  if is_real_svg doc then Ok None else
  let '(_, r) := process_tags (fun c k => let '(c', r) := gen_node doc_fuel false (update_element c (node_el k)) k in
                                          (c', to_outcome r))
                              (bb_combine N) doc {| cmap := []; cprev := None |} in
  match r with Ok (b, _) => Ok b | Err k => Err k | Panic s => Panic s | OutOfFuel => OutOfFuel end.

(* transform = process_events; postprocess: attributes of the first <svg> start tag *)
Fixpoint first_svg (doc : list node) : option el :=
  match doc with
  | [] => None
  | Node e _ :: r => if String.eqb (ename N e) "svg" then Some e else first_svg r
  end.
Definition doc_root (doc : list node) (border scale : num) (local_id svg_style : option string)
  : res (option bbox * option attrs) :=
  do ext <- doc_extent doc;
  if is_real_svg doc then Ok (ext, None) else
  match first_svg doc with
  | Some e => do a <- root_attrs (eattrs N e) ext border scale local_id svg_style; Ok (ext, Some a)
  | None => Ok (ext, None)
  end.
End WithNum.

Arguments Node {N}.
