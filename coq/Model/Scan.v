(* Mirrors svgdx src/path.rs (bbox of path data), src/transform_attr.rs and the points scanner
   of element.rs bbox_raw. Scanners consume a [string] suffix; recursion is on explicit fuel. *)
From Coq Require Import String Ascii List Bool ZArith.
From SvgdxModel Require Import Base.Str Base.Res Num.NumOps Gen.Tables Model.Types Model.Geom.
Import ListNotations.
Open Scope string_scope.

Definition is_path_ws (c : ascii) : bool :=   (* char::is_ascii_whitespace: 9,10,12,13,32 *)
  let n := byte_of c in (Nat.eqb n 32 || Nat.eqb n 9 || Nat.eqb n 10 || Nat.eqb n 12 || Nat.eqb n 13)%bool.
Definition skip_ws (s : string) : string := drop_while is_path_ws s.
Definition skip_wsp_comma (s : string) : string :=
  match skip_ws s with String "," r => skip_ws r | r => r end.
Definition is_path_cmd (c : ascii) : bool := contains_char c "MmLlHhVvZzCcSsQqTtAa".
Definition is_numch (c : ascii) : bool := (is_digit c || Ascii.eqb c "." || Ascii.eqb c "-")%bool.

Section WithNum.
Context (N : NumOps) (strp : string -> option (num N)).
Local Notation num := (num N).
Local Notation "a +. b" := (nadd N a b) (at level 50, left associativity).
Local Notation bbox := (bbox N).

(* read_number: Err on end of data or on an unparsable run *)
Definition read_number (s : string) : res (num * string) :=
  match s with
  | EmptyString => Err EParse
  | _ => let t := take_while is_numch s in
         let r := skip_wsp_comma (drop_while is_numch s) in
         match strp t with
         | Some v => if exists_char is_ws t then Err EParse else Ok (v, r)
         | None => Err EParse end
  end.
Definition read_coord (s : string) : res (num * num * string) :=
  do '(x, r) <- read_number s;
  do '(y, r2) <- read_number (skip_wsp_comma r);
  Ok (x, y, skip_wsp_comma r2).

Record pstate := {
  ps_pos : option (num * num); ps_start : option (num * num); ps_cmd : option ascii;
  ps_minx : num; ps_miny : num; ps_maxx : num; ps_maxy : num }.
Definition ps_update (st : pstate) (p : num * num) : pstate :=
  let first := match ps_pos st with None => true | Some _ => false end in
  {| ps_pos := Some p;
     ps_start := match ps_start st with None => Some p | s => s end;
     ps_cmd := ps_cmd st;
     ps_minx := if first then fst p else nmin N (ps_minx st) (fst p);
     ps_miny := if first then snd p else nmin N (ps_miny st) (snd p);
     ps_maxx := if first then fst p else nmax N (ps_maxx st) (fst p);
     ps_maxy := if first then snd p else nmax N (ps_maxy st) (snd p) |}.
Definition ps_setcmd (st : pstate) (c : option ascii) : pstate :=
  {| ps_pos := ps_pos st; ps_start := ps_start st; ps_cmd := c; ps_minx := ps_minx st;
     ps_miny := ps_miny st; ps_maxx := ps_maxx st; ps_maxy := ps_maxy st |}.
Definition cur (st : pstate) : num * num :=
  match ps_pos st with Some p => p | None => (nofZ N 0, nofZ N 0) end.

(* one process_instruction step on a non-empty remainder *)
Definition path_step (st : pstate) (s : string) : res (pstate * string) :=
  do '(st, s) <-
    (match ps_cmd st, s with
     | _, EmptyString => Err EParse
     | None, String c r => if is_path_cmd c then Ok (ps_setcmd st (Some c), skip_wsp_comma r) else Err EInvalidData
     | Some _, String c r => if is_path_cmd c then Ok (ps_setcmd st (Some c), skip_wsp_comma r) else Ok (st, s)
     end);
  match ps_cmd st with
  | None => Err EInternalLogic
  | Some c =>
      let abs_xy s := do '(x, y, r) <- read_coord s; Ok (ps_update st (x, y), r) in
      let rel_xy s := do '(x, y, r) <- read_coord s;
                      let '(cx, cy) := cur st in Ok (ps_update st (cx +. x, cy +. y), r) in
      if (Ascii.eqb c "M" || Ascii.eqb c "L" || Ascii.eqb c "T")%bool then abs_xy s
      else if (Ascii.eqb c "m" || Ascii.eqb c "l" || Ascii.eqb c "t")%bool then rel_xy s
      else if Ascii.eqb c "H" then do '(x, r) <- read_number s; Ok (ps_update st (x, snd (cur st)), r)
      else if Ascii.eqb c "h" then do '(x, r) <- read_number s; Ok (ps_update st (fst (cur st) +. x, snd (cur st)), r)
      else if Ascii.eqb c "V" then do '(y, r) <- read_number s; Ok (ps_update st (fst (cur st), y), r)
      else if Ascii.eqb c "v" then do '(y, r) <- read_number s; Ok (ps_update st (fst (cur st), snd (cur st) +. y), r)
      else if (Ascii.eqb c "Z" || Ascii.eqb c "z")%bool then
        match ps_start st with
        | Some p => Ok (ps_setcmd (ps_update st p) None, s)
        | None => Err EInvalidData end
      else if Ascii.eqb c "C" then do '(_, _, r) <- read_coord s; do '(_, _, r) <- read_coord r; abs_xy r
      else if Ascii.eqb c "c" then do '(_, _, r) <- read_coord s; do '(_, _, r) <- read_coord r; rel_xy r
      else if (Ascii.eqb c "S" || Ascii.eqb c "Q")%bool then do '(_, _, r) <- read_coord s; abs_xy r
      else if (Ascii.eqb c "s" || Ascii.eqb c "q")%bool then do '(_, _, r) <- read_coord s; rel_xy r
      else if Ascii.eqb c "A" then
        do '(_, _, r) <- read_coord s; do '(_, r) <- read_number r; do '(_, r) <- read_number r;
        do '(_, r) <- read_number r; abs_xy r
      else if Ascii.eqb c "a" then
        do '(_, _, r) <- read_coord s; do '(_, r) <- read_number r; do '(_, r) <- read_number r;
        do '(_, r) <- read_number r; rel_xy r
      else Err EInvalidData
  end.

Fixpoint path_loop (fuel : nat) (st : pstate) (s : string) : res pstate :=
  match s with
  | EmptyString => Ok st
  | _ => match fuel with
         | O => OutOfFuel
         | S f => do '(st', s') <- path_step st s; path_loop f st' s'
         end
  end.
Definition ps_init : pstate :=
  {| ps_pos := None; ps_start := None; ps_cmd := None; ps_minx := nofZ N 0; ps_miny := nofZ N 0;
     ps_maxx := nofZ N 0; ps_maxy := nofZ N 0 |}.
Definition path_bbox (d : string) : res (option bbox) :=
  do st <- path_loop (S (String.length d)) ps_init (skip_ws d);
  match ps_start st with
  | Some _ => Ok (Some {| bx1 := ps_minx st; by1 := ps_miny st; bx2 := ps_maxx st; by2 := ps_maxy st |})
  | None => Ok None end.

(* ---- points="..." of polyline / polygon (element.rs bbox_raw) ---- *)
Definition points_values (s : string) : res (list num) :=
  mapM (fun t => of_opt EParse (strp t))
       (filter nonempty (map trim (flat_map (split_char ",") (split_whitespace s)))).
Fixpoint points_fold (l : list num) (isx : bool) (acc : option (num * num) * option (num * num))
  : option (num * num) * option (num * num) :=
  match l with
  | [] => acc
  | v :: r =>
      let upd o := match o with None => Some (v, v) | Some (lo, hi) => Some (nmin N lo v, nmax N hi v) end in
      if isx then points_fold r false (upd (fst acc), snd acc)
      else points_fold r true (fst acc, upd (snd acc))
  end.
(* f32::MAX.min(v) etc: with a first value the fold above equals the code's MAX/MIN-initialised fold
   for finite v; NaN points are outside the model *)
Definition points_bbox (s : string) : res (option bbox) :=
  do vs <- points_values s;
  match points_fold vs true (None, None) with
  | (Some (x1, x2), Some (y1, y2)) => Ok (Some {| bx1 := x1; by1 := y1; bx2 := x2; by2 := y2 |})
  | _ => Ok None end.

(* ---- transform attribute ---- *)
Inductive xfrm := XTranslate (x y : num) | XScale (x y : num) | XOther.
Definition is_xsep (c : ascii) : bool :=
  (Ascii.eqb c "," || Ascii.eqb c " " || Nat.eqb (byte_of c) 9 || Nat.eqb (byte_of c) 10 || Nat.eqb (byte_of c) 13)%bool.
Definition arity_ok (name : string) (n : nat) : bool :=
  match assoc name transform_arities with Some l => existsb (Nat.eqb n) l | None => false end.
Definition parse_xfrm (v : string) : res xfrm :=
  match break_at (Ascii.eqb "(") v with
  | (_, None) => Err EParse
  | (name, Some (_, args)) =>
      match strip_suffix ")" args with
      | None => Err EParse
      | Some a =>
          do vals <- mapM (fun t => of_opt EParse (strp t)) (filter nonempty (split_on is_xsep a));
          let lname := lower_str name in
          if arity_ok lname (List.length vals) then
            if String.eqb lname "translate" then
              match vals with [x] => Ok (XTranslate x (nofZ N 0)) | [x; y] => Ok (XTranslate x y) | _ => Err EParse end
            else if String.eqb lname "scale" then
              match vals with [x] => Ok (XScale x x) | [x; y] => Ok (XScale x y) | _ => Err EParse end
            else Ok XOther
          else Err EParse
      end
  end.
(* split_inclusive(')') *)
Fixpoint split_inclusive_close (s cur : string) : list string :=
  match s with
  | EmptyString => if nonempty cur then [srev cur] else []
  | String c r => if Ascii.eqb c ")" then srev (String c cur) :: split_inclusive_close r ""
                  else split_inclusive_close r (String c cur)
  end.
Definition parse_transform (v : string) : res (list xfrm) :=
  mapM parse_xfrm
    (map (drop_while is_xsep) (filter nonempty (map trim (split_inclusive_close v "")))).
Definition apply_transform (ts : list xfrm) (b : bbox) : bbox :=
  fold_left (fun acc t => match t with
                          | XTranslate x y => bb_translated N acc x y
                          | XScale x y => bb_scale0 N acc x y
                          | XOther => acc end) (rev ts) b.
End WithNum.
