(* Entry point of the correspondence driver for the random stream: attribute values made only of
   the three random expressions, evaluated the way functions.rs does (random::<f32>(),
   random_range(min as i32 ..= max as i32) as f32) and printed with fstr. *)
From Coq Require Import String Ascii List Bool ZArith.
From SvgdxModel Require Import Base.Str Base.Res Num.F32 Model.Rng.
Import ListNotations.
Open Scope string_scope.

Inductive rtok := RRandom | RRandomScaled | RRandInt (a b : string).

Definition parse_rtok (s : string) : option rtok :=
  if String.eqb s "{{random()}}" then Some RRandom
  else if String.eqb s "{{random()*16777216}}" then Some RRandomScaled
  else match strip_prefix "{{randint(" s with
       | Some r => match strip_suffix ")}}" r with
                   | Some args => match split_char "," args with
                                  | [a; b] => Some (RRandInt (trim a) (trim b))
                                  | _ => None end
                   | None => None end
       | None => None
       end.

Definition two24 : Z := 16777216.
(* evaluates one token: printed text and next generator state *)
Definition eval_rtok (t : rtok) (g : rng) : res string * rng :=
  match t with
  | RRandom => let '(m, g1) := random_m24 g in (Ok (fstr (fdiv (of_Z m) (of_Z two24))), g1)
  | RRandomScaled => let '(m, g1) := random_m24 g in (Ok (fstr (fmul (fdiv (of_Z m) (of_Z two24)) (of_Z two24))), g1)
  | RRandInt a b =>
      match strp a, strp b with
      | Some x, Some y =>
          let lo := as_i32 x in let hi := as_i32 y in
          if Z.ltb hi lo then (Err EInvalidData, g)
          else let '(v, g1) := random_range_i32 lo hi g in (Ok (fstr (of_Z v)), g1)
      | _, _ => (Err EParse, g)
      end
  end.

Fixpoint eval_rtoks (ts : list rtok) (g : rng) : res (list string) * rng :=
  match ts with
  | [] => (Ok [], g)
  | t :: r => match eval_rtok t g with
              | (Ok s, g1) => match eval_rtoks r g1 with
                              | (Ok l, g2) => (Ok (s :: l), g2)
                              | (e, g2) => (e, g2) end
              | (Err k, g1) => (Err k, g1)
              | (Panic p, g1) => (Panic p, g1)
              | (OutOfFuel, g1) => (OutOfFuel, g1)
              end
  end.

Fixpoint parse_all (l : list string) : option (list rtok) :=
  match l with
  | [] => Some []
  | s :: r => match parse_rtok s, parse_all r with Some t, Some ts => Some (t :: ts) | _, _ => None end
  end.

(* None: the value is outside this little language. Otherwise (result text, the next raw word). *)
Definition run_rng_attr (value : string) (seed : Z) : option (res string * Z) :=
  match parse_all (split_char " " value) with
  | None => None
  | Some ts =>
      let '(r, g) := eval_rtoks ts (seed_from_u64 seed) in
      Some (match r with Ok l => Ok (concat_sep " " l) | Err k => Err k | Panic p => Panic p | OutOfFuel => OutOfFuel end,
            fst (next_u32 g))
  end.
