(* Entry points of the executable model on the binary32 instance, in the shapes the
   correspondence driver feeds them (strings, association lists, bit patterns). *)
From Coq Require Import String Ascii List Bool ZArith.
From SvgdxModel Require Import Base.Str Base.Res Num.F32 Num.NumOps Gen.Tables Model.Types Model.Geom
  Model.Position Model.Scan Model.Element Model.Text Model.Connector Model.Root.
Import ListNotations.
Open Scope string_scope.

Notation FN := F32Ops.
Definition bb_bits (b : bbox FN) : Z * Z * Z * Z :=
  (to_bits (bx1 b), to_bits (by1 b), to_bits (bx2 b), to_bits (by2 b)).

Definition run_posbbox (name : string) (a : attrs) : option (Z * Z * Z * Z) :=
  let e := new_el FN name a in
  option_map bb_bits (to_bbox FN (position_of FN strp (ename FN e) (eattrs FN e))).

Definition run_elbbox (name : string) (a : attrs) : res (option (Z * Z * Z * Z)) :=
  do b <- el_bbox FN strp (new_el FN name a); Ok (option_map bb_bits b).

Definition run_xfrm (t : string) (b : Z * Z * Z * Z) : res (Z * Z * Z * Z) :=
  let '(x1, y1, x2, y2) := b in
  do ts <- parse_transform FN strp t;
  Ok (bb_bits (apply_transform FN ts (Build_bbox FN (of_bits x1) (of_bits y1) (of_bits x2) (of_bits y2)))).

(* the stand-alone element hook: no variables, so eval_attributes is the identity on
   values without '$', '{{' and '\' (the generator's sub-language) *)
Definition no_eval (c : emap FN) (e : el FN) : res (el FN) := Ok e.
Definition f_resolve := resolve_position FN strp fstr fdisplay no_eval.

Definition build_ctx (others : list (string * attrs)) : emap FN :=
  fold_left (fun c na =>
               let e := new_el FN (fst na) (snd na) in
               let m := match eget FN e "id" with Some id => (id, e) :: cmap FN c | None => cmap FN c end in
               let p := match el_bbox FN strp e with Ok (Some _) => Some e | _ => cprev FN c end in
               {| cmap := m; cprev := p |}) others {| cmap := []; cprev := None |}.

(* f32::MAX, the initial value of the minimum searches in connector.rs *)
Definition f32_max : f32 := of_bits 2139095039.

Definition run_resolve (name : string) (a : attrs) (others : list (string * attrs)) : res attrs :=
  let c := build_ctx others in
  do e <- f_resolve c (new_el FN name a);
  do e <- transmute_conn FN strp fstr f32_max c e;
  do e <- transmute_dxy FN strp fstr e;
  do e <- f_resolve c e;
  do _ <- get_element_bbox FN strp c e;
  Ok (match ecls FN e with
      | [] => eattrs FN e
      | cl => (eattrs FN e ++ [("class", concat_sep " " cl)])%list end).

Definition flat_el (a : attrs) (cl : classes) : attrs :=
  match cl with [] => a | _ => (a ++ [("class", concat_sep " " cl)])%list end.
Definition run_textattr (name : string) (a : attrs) : res (attrs * list (string * attrs * string)) :=
  do '(e, ts) <- process_text_attr FN strp fstr (new_el FN name a);
  Ok (flat_el (eattrs FN e) (ecls FN e), map (fun t => let '(n, ta, tc, content) := t in (n, flat_el ta tc, content)) ts).
Definition run_textstring (s : string) : string := text_string s.
(* the same sequence, returning the element name as well (a connector is replaced by a line or a
   polyline) *)
Definition run_connect (name : string) (a : attrs) (others : list (string * attrs)) : res (string * attrs) :=
  let c := build_ctx others in
  do e <- f_resolve c (new_el FN name a);
  do e <- transmute_conn FN strp fstr f32_max c e;
  do e <- transmute_dxy FN strp fstr e;
  do e <- f_resolve c e;
  do _ <- get_element_bbox FN strp c e;
  Ok (ename FN e,
      match ecls FN e with
      | [] => eattrs FN e
      | cl => (eattrs FN e ++ [("class", concat_sep " " cl)])%list end).
(* ---- C08: root attributes and document extent ---- *)
Definition bb_of_bits (b : Z * Z * Z * Z) : bbox FN :=
  let '(x1, y1, x2, y2) := b in Build_bbox FN (of_bits x1) (of_bits y1) (of_bits x2) (of_bits y2).
(* the hook builds the root element with SvgElement::new("svg", attrs) *)
Definition run_rootattrs (orig : attrs) (bb : option (Z * Z * Z * Z)) (border scale_bits : Z)
           (local_id svg_style : option string) : res attrs :=
  root_attrs FN strp fstr (eattrs FN (new_el FN "svg" orig)) (option_map bb_of_bits bb)
             (of_Z border) (of_bits scale_bits) local_id svg_style.
Definition mk_node (name : string) (a : attrs) (idx : Z) (empty : bool) (text : option string)
           (kids : list (node FN)) : node FN :=
  let e := new_el FN name a in
  Node {| ename := ename FN e; eattrs := eattrs FN e; ecls := ecls FN e; ecbb := None; eidx := idx;
          etext := text; eindent := 0; eline := 0; eempty := empty; eorig := "" |} kids.
Definition run_docroot (doc : list (node FN)) (border scale_bits : Z)
  : res (option (Z * Z * Z * Z) * option attrs) :=
  do '(e, a) <- doc_root FN strp fstr fdisplay doc (of_Z border) (of_bits scale_bits) None None;
  Ok (option_map bb_bits e, a).
