(* Mirrors svgdx src/types.rs: attr_split, split_unit, AttrMap, ClassList, extract_elref. *)
From Coq Require Import String Ascii List Bool Arith ZArith.
From SvgdxModel Require Import Base.Str Base.Res Gen.Tables.
Import ListNotations.
Open Scope string_scope.

(* attr_split: split_whitespace, then split each on ',', dropping empties *)
Definition attr_split (s : string) : list string :=
  flat_map (fun w => filter nonempty (split_char "," w)) (split_whitespace s).

(* attr_split_cycle(..).next() twice *)
Definition cycle2 (l : list string) : option string * option string :=
  match l with [] => (None, None) | [a] => (Some a, Some a) | a :: b :: _ => (Some a, Some b) end.
Definition odflt (o : option string) : string := match o with Some s => s | None => "" end.

(* ---- AttrMap: order-preserving, stably re-sorted by priority on every insert ---- *)
Definition attrs := list (string * string).
Definition big_priority : nat := 1000.
Definition priority (k : string) : nat :=
  match assoc k attr_priority with Some n => n | None => big_priority end.

Fixpoint ins_sorted (kv : string * string) (a : attrs) : attrs :=
  match a with
  | [] => [kv]
  | h :: r => if Nat.leb (priority (fst kv)) (priority (fst h)) then kv :: a else h :: ins_sorted kv r
  end.
(* stable sort by priority: insertion sort from the right; an element goes in front of the
   already placed (later) elements of equal priority *)
Definition reorder (a : attrs) : attrs := fold_right ins_sorted [] a.

Fixpoint get (a : attrs) (k : string) : option string :=
  match a with [] => None | (k', v) :: r => if String.eqb k k' then Some v else get r k end.
Definition has (a : attrs) (k : string) : bool := match get a k with Some _ => true | None => false end.
Fixpoint pop (a : attrs) (k : string) : attrs :=
  match a with [] => [] | (k', v) :: r => if String.eqb k k' then r else (k', v) :: pop r k end.
Fixpoint upd (a : attrs) (k v : string) : attrs :=
  match a with [] => []
  | (k', v') :: r => if String.eqb k k' then (k', v) :: r else (k', v') :: upd r k v end.
(* AttrMap::insert: update in place or push, then reorder *)
Definition set (a : attrs) (k v : string) : attrs :=
  reorder (if has a k then upd a k v else (a ++ [(k, v)])%list).
Definition set_first (a : attrs) (k v : string) : attrs := if has a k then a else set a k v.
Definition remove_attrs (a : attrs) (ks : list string) : attrs := fold_left pop ks a.
Definition update (a b : attrs) : attrs := fold_left (fun acc kv => set acc (fst kv) (snd kv)) b a.
Definition of_vec (v : attrs) : attrs := reorder v.

(* ---- ClassList: insertion-ordered set ---- *)
Definition classes := list string.
Definition cl_insert (c : classes) (x : string) : classes := if mem_str x c then c else (c ++ [x])%list.
Definition cl_extend (c d : classes) : classes := fold_left cl_insert d c.
Fixpoint cl_remove (c : classes) (x : string) : classes :=
  match c with [] => [] | y :: r => if String.eqb x y then r else y :: cl_remove r x end.
Definition cl_replace (c : classes) (old new : string) : classes :=
  if mem_str old c then fold_left cl_insert (split_whitespace new) (cl_remove c old) else c.
Definition cl_of_list (l : list string) : classes := fold_left cl_insert l [].

(* ---- element references ---- *)
Inductive elref := RefId (id : string) | RefPrev.
Definition id_first (c : ascii) : bool := (is_alpha c || Ascii.eqb c "_")%bool.
Definition id_subseq (c : ascii) : bool := (is_alnum c || Ascii.eqb c "_" || Ascii.eqb c "-")%bool.
(* returns the reference and the remaining string *)
Definition extract_elref (s : string) : option (elref * string) :=
  match s with
  | String "#" r =>
      match r with
      | String c _ => if id_first c then
                        let id := take_while id_subseq r in
                        Some (RefId id, drop_while id_subseq r)
                      else None
      | EmptyString => None
      end
  | String "^" r => Some (RefPrev, r)
  | _ => None
  end.
Definition parse_elref (s : string) : option elref :=
  match extract_elref s with Some (r, "") => Some r | _ => None end.

Definition extract_urlref (s : string) : option elref :=
  match strip_prefix "url(#" (trim s) with
  | Some r => match strip_suffix ")" r with Some id => Some (RefId id) | None => None end
  | None => None end.

(* split_compound_attr *)
Definition starts_ref (s : string) : bool :=
  match s with String c _ => (Ascii.eqb c "#" || Ascii.eqb c "^")%bool | _ => false end.
Definition split_compound_attr (value : string) : string * string :=
  if starts_ref value then
    match break_at is_ws value with
    | (pfx, Some (_, remain)) =>
        let '(x, y) := cycle2 (attr_split remain) in
        (pfx ++ " " ++ odflt x, pfx ++ " " ++ odflt y)
    | (_, None) => (value, value)
    end
  else let '(x, y) := cycle2 (attr_split value) in (odflt x, odflt y).
