(* The whole transform on the binary32 instance: lib.rs transform_str -> Transformer::transform ->
   InputList::from_reader, process_events, postprocess (without the auto-style block, which Model/Themes.v
   covers on its own and which the correspondence switches off through add_auto_styles = false).
   Reader: Model/Xml.v; tree: Model/Doc.v; control skeleton: Model/Pipeline.v instantiated with the
   expression evaluator (Model/Expr.v), the leaf semantics (Model/Leaf.v), connectors (Model/Connector.v)
   and the root attributes (Model/Root.v); writer: Model/Xml.v.
   Outside this composition (the entry point answers Err EOther "unmodelled" and the correspondence skips
   the case): bearing paths, <config> and <defaults> elements, debug and metadata output. *)
From Coq Require Import String Ascii List Bool ZArith.
From SvgdxModel Require Import Base.Str Base.Res Num.F32 Num.F32X Num.F64 Num.NumOps Num.XOps Model.Pcg Gen.Tables
  Model.Types Model.Geom Model.Position Model.Scan Model.Element Model.Text Model.Connector Model.Root Model.Run
  Model.Xml Model.Pipeline Model.Leaf Model.Doc Model.Funcs Model.Expr.
Import ListNotations.
Open Scope string_scope.

Definition dES := est F32X.
Definition d_vbound : nat := 64.
(* EvalState::element_ref against the element map *)
Definition d_elref (em : emap FN) (v : string) : res f32 :=
  match parse_el_scalar v with
  | Ok (r, Some sc) =>
      match get_element FN em r with
      | Some e => do ob <- get_element_bbox FN strp em e;
                  match ob with Some bb => Ok (bb_scalarspec FN bb sc) | None => Err EMissingBBox end
      | None => Err EReference end
  | _ => Err EParse
  end.
(* an operation outside the bit-exact instance (libm, the sign of a NaN in min / max) answers Err EOther in Model/Funcs.v; it is
   turned into the one outcome the pipeline never retries, so that the whole run answers "unmodelled" instead of a wrong document *)
Definition unmodelled {A} (r : res A) : res A := match r with Err EOther => Panic "unmodelled" | _ => r end.
Definition d_eva (gv : string -> option string) (em : emap FN) (v : string) (es : dES) : res (string * dES) :=
  unmodelled (eval_attr F32X gv (d_elref em) d_vbound v es).
Definition d_evc (gv : string -> option string) (em : emap FN) (v : string) (es : dES) : res (bool * dES) :=
  unmodelled (eval_condition F32X gv (d_elref em) d_vbound v es).
Definition d_evl (gv : string -> option string) (em : emap FN) (v : string) (es : dES) : res (list string * dES) :=
  unmodelled (eval_list F32X gv (d_elref em) d_vbound v es).
Definition d_bearing (d : string) : res string := Err EOther.
Definition d_connector (em : emap FN) (e : el FN) : res (el FN) := transmute_conn FN strp fstr f32_max em e.
Definition d_unescape (s : string) : string := match unesc s with Some t => t | None => s end.

Definition d_leaf := leaf FN strp fstr fdisplay dES d_eva d_bearing d_connector.
Definition d_clip := clip FN strp dES d_eva.
Definition d_inst := instantiate FN strp fstr fdisplay dES d_eva.

Definition d_process (kt : list (Z * list (node FN))) (fuel : nat) (ns : list (node FN)) (c : pctx FN dES) :=
  process_events FN dES d_eva d_evc d_evl d_leaf (el_bbox_of FN strp) d_inst (kid_lookup FN kt) d_clip d_unescape fuel ns c.

Definition d_ctx (cfg : pcfg) (seed : Z) : pctx FN dES :=
  {| px_l := {| l_map := []; l_orig := []; l_prev := None; l_es := Build_est F32X (pcg_seed seed) 0%nat |};
     px_scopes := []; px_estack := []; px_depth := 0; px_specs := false; px_cfg := cfg; px_real := false; px_over := 0 |}.

(* OutputList::partition("svg") *)
Fixpoint partition_svg (es : list oev) (before : list oev) : list oev * option oev * list oev :=
  match es with
  | [] => (rev before, None, [])
  | (OStart n _ _ as e) :: r | (OEmpty n _ _ as e) :: r =>
      if String.eqb n "svg" then (rev before, Some e, r) else partition_svg r (e :: before)
  | e :: r => partition_svg r (e :: before)
  end.

Fixpoint node_unmodelled (n : node FN) : bool :=
  match n with
  | NEl _ e kids => (mem_str (ename FN e) ["config"; "defaults"] || existsb node_unmodelled kids)%bool
  | NLeaf _ e => mem_str (ename FN e) ["config"; "defaults"]
  | _ => false end.
Definition has_unmodelled (ns : list (node FN)) : bool := existsb node_unmodelled ns.

(* bytes in, bytes out *)
Definition transform_doc (cfg : pcfg) (seed border : Z) (scale : f32) (input : string) : res string :=
  match read_xml input with
  | None => Err EParse
  | Some toks =>
      if negb (nesting_ok toks []) then Err EParse else
      (* a real SVG document passes through token by token (tags whose attributes cannot be unescaped included) *)
      if is_real_svg toks then Ok (write_to (map conv toks)) else
      (* elsewhere a tag SvgElement::try_from rejects fails the document (tagify_events) *)
      if existsb (fun t => match t with TRawStart _ | TRawEmpty _ => true | _ => false end) toks then Err EDocument else
      match build_doc FN toks with
      | None => Err EParse
      | Some ns =>
          if has_unmodelled ns then Err EOther else
          let kt := kid_table FN ns in
          let fuel := (4 * (List.length toks) + 64 + Z.to_nat (c_depth_limit cfg) * 8 + Z.to_nat (c_loop_limit cfg) * 2)%nat in
          match d_process kt fuel ns (d_ctx cfg seed) with
          | (Ok (evl, bb), c) =>
              if px_real FN dES c then Ok (write_to evl) else
              match partition_svg evl [] with
              | (pre, Some first, rest) =>
                  let orig := match first with OStart _ a _ => a | _ => [] end in
                  do a <- root_attrs FN strp fstr orig bb (of_Z border) scale None None;
                  Ok (write_to pre ++ write_to [OStart "svg" a []] ++ write_to rest)
              | (pre, None, _) => Ok (write_to pre)
              end
          | (Err EInternalLogic, _) => Err EOther     (* a panic site inside a pass: here only "unmodelled" *)
          | (Err k, _) => Err k | (Panic s, _) => Panic s | (OutOfFuel, _) => OutOfFuel
          end
      end
  end.

Definition run_doc (loop_limit var_limit depth_limit seed border scale_bits : Z) (input : string) : res string :=
  transform_doc {| c_loop_limit := loop_limit; c_var_limit := var_limit; c_depth_limit := depth_limit;
                   c_debug := false; c_metadata := false |} seed border (of_bits scale_bits) input.
