(* The control skeleton of svgdx: src/transform.rs (EventGen dispatch with the depth counter, Tag,
   process_tags retry loop, process_events, Container, GroupElement, SpecsElement, VarElement, IfElement,
   ConfigElement limits), src/loop_el.rs (LoopElement, ForElement), src/reuse.rs (ReuseElement) and the
   scope / element stack / depth part of src/context.rs.

   The expression evaluator and the leaf generator (OtherElement: geometry, text, events) are parameters
   of the section; the leaf generator can only change the [lst] part of the context (element maps,
   previous element, evaluator state), so everything proved here about scopes, the element stack, the
   depth counter and limits holds for every evaluator and every leaf semantics. *)
From Coq Require Import String Ascii List Bool ZArith.
From SvgdxModel Require Import Base.Str Base.Res Num.F32 Num.F64 Num.NumOps Gen.Tables Model.Types Model.Geom
  Model.Position Model.Scan Model.Element Model.Xml.
Import ListNotations.
Open Scope string_scope.

Record pcfg := { c_loop_limit : Z; c_var_limit : Z; c_depth_limit : Z; c_debug : bool; c_metadata : bool }.

Section Pipeline.
Context (N : NumOps) (strp : string -> option (num N)) (fstr : num N -> string) (fdisplay : num N -> string).
Local Notation num := (num N).
Local Notation el := (el N).
Local Notation bbox := (bbox N).
Local Notation emap := (emap N).

Inductive node :=
| NEl (e : el) (kids : list node)      (* start tag .. end tag *)
| NLeaf (e : el)                        (* empty element *)
| NComment (s : string) | NText (s : string) | NCData (s : string)
| NOther (t : tok).                    (* declaration, processing instruction, doctype: kept only by the pass-through *)
Inductive tag :=
| TgEl (e : el) (kids : option (list node)) (tail : option string)
| TgComment (c : string) (tail : option string)
| TgText (t : string) | TgCData (t : string).

(* evaluator state (random stream) and the part of the context a leaf may change *)
Context (ES : Type).
Record lst := { l_map : list (string * el); l_orig : list (string * el); l_prev : option el; l_es : ES }.
Definition scope := list (string * string).
(* [px_over] is a ghost counter (number of depth-limit failures so far); it influences nothing *)
Record pctx := { px_l : lst; px_scopes : list scope; px_estack : list el; px_depth : Z; px_specs : bool;
                 px_cfg : pcfg; px_real : bool; px_over : Z }.
Definition with_l (c : pctx) (l : lst) : pctx :=
  {| px_l := l; px_scopes := px_scopes c; px_estack := px_estack c; px_depth := px_depth c;
     px_specs := px_specs c; px_cfg := px_cfg c; px_real := px_real c; px_over := px_over c |}.
Definition with_scopes (c : pctx) (s : list scope) (st : list el) : pctx :=
  {| px_l := px_l c; px_scopes := s; px_estack := st; px_depth := px_depth c;
     px_specs := px_specs c; px_cfg := px_cfg c; px_real := px_real c; px_over := px_over c |}.
Definition with_over (c : pctx) (o : Z) : pctx :=
  {| px_l := px_l c; px_scopes := px_scopes c; px_estack := px_estack c; px_depth := px_depth c;
     px_specs := px_specs c; px_cfg := px_cfg c; px_real := px_real c; px_over := o |}.
Definition with_depth (c : pctx) (d : Z) : pctx :=
  {| px_l := px_l c; px_scopes := px_scopes c; px_estack := px_estack c; px_depth := d;
     px_specs := px_specs c; px_cfg := px_cfg c; px_real := px_real c; px_over := px_over c |}.
Definition with_specs (c : pctx) (b : bool) : pctx :=
  {| px_l := px_l c; px_scopes := px_scopes c; px_estack := px_estack c; px_depth := px_depth c;
     px_specs := b; px_cfg := px_cfg c; px_real := px_real c; px_over := px_over c |}.
Definition with_cfg (c : pctx) (g : pcfg) : pctx :=
  {| px_l := px_l c; px_scopes := px_scopes c; px_estack := px_estack c; px_depth := px_depth c;
     px_specs := px_specs c; px_cfg := g; px_real := px_real c; px_over := px_over c |}.
Definition with_real (c : pctx) (b : bool) : pctx :=
  {| px_l := px_l c; px_scopes := px_scopes c; px_estack := px_estack c; px_depth := px_depth c;
     px_specs := px_specs c; px_cfg := px_cfg c; px_real := b; px_over := px_over c |}.
Definition with_es (l : lst) (s : ES) : lst := {| l_map := l_map l; l_orig := l_orig l; l_prev := l_prev l; l_es := s |}.
Definition with_prev (l : lst) (p : option el) : lst := {| l_map := l_map l; l_orig := l_orig l; l_prev := p; l_es := l_es l |}.
Definition emap_of (l : lst) : emap := {| cmap := l_map l; cprev := l_prev l |}.

(* ---- variables: innermost scope first ---- *)
Fixpoint get_var (ss : list scope) (name : string) : option string :=
  match ss with [] => None | s :: r => match assoc name s with Some v => Some v | None => get_var r name end end.
Fixpoint scope_set (s : scope) (k v : string) : scope :=
  match s with [] => [(k, v)] | (k', v') :: r => if String.eqb k k' then (k, v) :: r else (k', v') :: scope_set r k v end.
(* set_var: into the top scope, creating the global scope if the stack is empty (ensure_scope) *)
Definition set_var (ss : list scope) (k v : string) : list scope :=
  match ss with [] => [[(k, v)]] | s :: r => scope_set s k v :: r end.
Definition push_element (c : pctx) (e : el) : pctx := with_scopes c (eattrs N e :: px_scopes c) (e :: px_estack c).
Definition pop_element (c : pctx) : pctx := with_scopes c (tl (px_scopes c)) (tl (px_estack c)).

(* ---- the evaluator (src/expression.rs), a parameter ---- *)
Context (eva : (string -> option string) -> emap -> string -> ES -> res (string * ES))
        (evc : (string -> option string) -> emap -> string -> ES -> res (bool * ES))
        (evl : (string -> option string) -> emap -> string -> ES -> res (list string * ES)).
Definition R (A : Type) := (res A * pctx)%type.
Definition eval_attr (c : pctx) (v : string) : R string :=
  match eva (get_var (px_scopes c)) (emap_of (px_l c)) v (l_es (px_l c)) with
  | Ok (s, es) => (Ok s, with_l c (with_es (px_l c) es))
  | Err k => (Err k, c) | Panic s => (Panic s, c) | OutOfFuel => (OutOfFuel, c) end.
Definition eval_cond (c : pctx) (v : string) : R bool :=
  match evc (get_var (px_scopes c)) (emap_of (px_l c)) v (l_es (px_l c)) with
  | Ok (s, es) => (Ok s, with_l c (with_es (px_l c) es))
  | Err k => (Err k, c) | Panic s => (Panic s, c) | OutOfFuel => (OutOfFuel, c) end.
Definition eval_lst (c : pctx) (v : string) : R (list string) :=
  match evl (get_var (px_scopes c)) (emap_of (px_l c)) v (l_es (px_l c)) with
  | Ok (s, es) => (Ok s, with_l c (with_es (px_l c) es))
  | Err k => (Err k, c) | Panic s => (Panic s, c) | OutOfFuel => (OutOfFuel, c) end.
Definition rbind {A B} (r : R A) (f : A -> pctx -> R B) : R B :=
  match r with
  | (Ok a, c) => f a c
  | (Err k, c) => (Err k, c) | (Panic s, c) => (Panic s, c) | (OutOfFuel, c) => (OutOfFuel, c) end.
Notation "'dor' x , c <- r ; k" := (rbind r (fun x c => k)) (at level 200, x name, c name, r at level 100, k at level 200).

(* eval_attributes: every attribute except the raw comment, then every class *)
Fixpoint eval_attr_list (l : attrs) (e : el) (c : pctx) : R el :=
  match l with
  | [] => (Ok e, c)
  | (k, v) :: r =>
      if String.eqb k "__" then eval_attr_list r e c
      else dor v', c1 <- eval_attr c v; eval_attr_list r (eset N e k v') c1
  end.
Fixpoint eval_class_list (l : classes) (e : el) (c : pctx) : R el :=
  match l with
  | [] => (Ok e, c)
  | x :: r => dor x', c1 <- eval_attr c x; eval_class_list r (with_cls N e (cl_replace (ecls N e) x x')) c1
  end.
Definition eval_attributes (e : el) (c : pctx) : R el :=
  dor e1, c1 <- eval_attr_list (eattrs N e) e c; eval_class_list (ecls N e1) e1 c1.

(* update_element: the id is evaluated if possible; the first registration is also the original *)
Definition update_element (c : pctx) (e : el) : pctx :=
  match eget N e "id" with
  | None => c
  | Some id =>
      let id := match eva (get_var (px_scopes c)) (emap_of (px_l c)) id (l_es (px_l c)) with Ok (s, _) => s | _ => id end in
      let l := px_l c in
      let fresh := match assoc id (l_map l) with Some _ => false | None => true end in
      with_l c {| l_map := (id, e) :: l_map l; l_orig := if fresh then (id, e) :: l_orig l else l_orig l;
                  l_prev := l_prev l; l_es := l_es l |}
  end.
Definition set_prev (c : pctx) (e : el) : pctx := with_l c (with_prev (px_l c) (Some e)).

(* ---- the leaf generator (OtherElement), a parameter: reads the whole context, changes only [lst] ---- *)
Definition evs := list oev.
Context (leaf : pctx -> el -> res (evs * option bbox) * lst).
(* pieces of element semantics the skeleton needs, parameters too *)
Context (el_bbox_of : el -> res (option bbox))                  (* SvgElement::bbox (uses content_bbox, transform) *)
        (instantiate : pctx -> el -> el -> res el * lst)          (* reuse: target evaluated and positioned under the reuse scope *)
        (kidtab : Z -> option (list node))                        (* children of the element whose start event has this index *)
        (clip : pctx -> el -> option bbox -> res (option bbox) * lst).   (* clip-path adjustment of an element's bbox *)

Definition inc_depth (c : pctx) : R unit :=
  let d := (px_depth c + 1)%Z in
  let c' := with_depth c d in
  if (c_depth_limit (px_cfg c) <? d)%Z then (Err EDepthLimit, with_over c' (px_over c + 1)%Z) else (Ok tt, c').
Definition dec_depth (c : pctx) : R unit :=
  if (0 <? px_depth c)%Z then (Ok tt, with_depth c (px_depth c - 1)%Z) else (Err EMessage, c).

Definition oel (start : bool) (e : el) : oev :=
  if start then OStart (ename N e) (eattrs N e) (ecls N e) else OEmpty (ename N e) (eattrs N e) (ecls N e).
Fixpoint raw_events (n : node) : evs :=
  match n with
  | NEl e kids => oel true e :: flat_map raw_events kids ++ [OEnd (ename N e)]
  | NLeaf e => [oel false e]
  | NComment s => [OComment s] | NText s => [OText s] | NCData s => [OCData s] | NOther t => [ORaw t]
  end.

(* tagify_events: text / CDATA following a tag becomes its tail; leading text is a tag of its own *)
Definition set_tail (t : tag) (s : string) : tag :=
  match t with TgEl e k _ => TgEl e k (Some s) | TgComment c _ => TgComment c (Some s) | _ => t end.
Fixpoint tagify_go (ns : list node) (acc : list tag) : list tag :=    (* acc reversed *)
  match ns with
  | [] => rev acc
  | n :: r =>
      match n with
      | NEl e kids => tagify_go r (TgEl e (Some kids) None :: acc)
      | NLeaf e => tagify_go r (TgEl e None None :: acc)
      | NComment s => tagify_go r (TgComment s None :: acc)
      | NText s => tagify_go r (match acc with t :: a => set_tail t s :: a | [] => [TgText s] end)
      | NCData s => tagify_go r (match acc with t :: a => set_tail t s :: a | [] => [TgCData s] end)
      | NOther _ => tagify_go r acc
      end
  end.
Definition tagify (ns : list node) : list tag := tagify_go ns [].

Definition first_real_svg (ns : list node) : bool :=
  let fix go (l : list node) : bool :=
    match l with
    | [] => false
    | (NEl e _ | NLeaf e) :: _ =>
        (String.eqb (ename N e) "svg" && match eget N e "xmlns" with Some v => String.eqb v svg_ns | None => false end)%bool
    | _ :: r => go r end in go ns.

Definition bb_opt_union (a b : option bbox) : option bbox :=
  match a, b with Some x, Some y => Some (bb_combine N x y) | Some x, None => Some x | None, y => y end.
(* limit errors end the retry loop at once (generated list). EInternalLogic is the model's own marker for a panic site or an
   operation outside the executable instance (the modelled code paths never produce it): it is never retried either *)
Definition is_fatal (k : errkind) : bool :=
  (mem_str (errkind_name k) fatal_errors || match k with EInternalLogic => true | _ => false end)%bool.
Definition is_graphics (e : el) : bool := mem_str (ename N e) graphics_elements.

(* inner text of a container: Some text if the content is only text / CDATA (the first text, or the last CDATA) *)
Fixpoint inner_text_go (kids : list node) (acc : option string) : option string :=
  match kids with
  | [] => acc
  | NText t :: r => inner_text_go r (match acc with None => Some t | a => a end)
  | NCData t :: r => inner_text_go r (Some t)
  | _ => None
  end.
Context (text_unescape : string -> string).   (* InputEvent::text_string: XML-unescape, or the raw text if that fails *)
Fixpoint inner_text_go' (kids : list node) (acc : option string) : option string :=
  match kids with
  | [] => acc
  | NText t :: r => inner_text_go' r (match acc with None => Some (text_unescape t) | a => a end)
  | NCData t :: r => inner_text_go' r (Some t)
  | _ => None
  end.

Definition ok0 (c : pctx) : R (evs * option bbox) := (Ok ([], None), c).
(* <var a=".." b="..">: all values are computed from the bindings in force before, then assigned *)
Fixpoint gen_var (l : attrs) (newv : list (string * string)) (c : pctx) {struct l} : R (evs * option bbox) :=
  match l with
  | [] => (Ok ([], None), with_scopes c (fold_left (fun ss kv => set_var ss (fst kv) (snd kv)) (rev newv) (px_scopes c)) (px_estack c))
  | (k, v) :: r =>
      if (String.eqb k "_" || String.eqb k "__")%bool then gen_var r newv c
      else dor v', c1 <- eval_attr c v;
           if (c_var_limit (px_cfg c1) <? Z.of_nat (String.length v'))%Z then (Err EVarLimit, c1)
           else gen_var r ((k, v') :: newv) c1
  end.
Definition gen_config (e : el) (c : pctx) : R (evs * option bbox) := ok0 c.

(* outputs in tag order (BTreeMap<OrderIndex, OutputList>) *)
Fixpoint ins_out (x : nat * evs) (l : list (nat * evs)) : list (nat * evs) :=
  match l with [] => [x] | h :: r => if Nat.leb (fst x) (fst h) then x :: l else h :: ins_out x r end.
Definition sort_out (l : list (nat * evs)) : list (nat * evs) := fold_right ins_out [] l.

(* ---- the generators; recursion on fuel (reuse re-enters arbitrary elements) ---- *)
(* one pass of process_tags over the pending list: (outputs by index, bbox, remaining, fatal error) *)
Record passres := { pr_out : list (nat * evs); pr_bb : option bbox; pr_rem : list (nat * tag); pr_fatal : option errkind }.

Fixpoint gen (fuel : nat) (e : el) (kids : option (list node)) (c : pctx) {struct fuel} : R (evs * option bbox) :=
  match fuel with O => (OutOfFuel, c) | S f =>
  match inc_depth c with
  | (Ok _, c1) =>
      let '(r, c2) := dispatch f e kids c1 in
      match dec_depth c2 with
      | (Ok _, c3) =>
          match r with
          | Ok (ev, b) => match clip c3 e b with
                          | (Ok b', l) => (Ok (ev, b'), with_l c3 l)
                          | (Err k, l) => (Err k, with_l c3 l) | (Panic s, l) => (Panic s, with_l c3 l)
                          | (OutOfFuel, l) => (OutOfFuel, with_l c3 l) end
          | _ => (r, c3) end
      | (Err k, c3) => (Err k, c3) | (Panic s, c3) => (Panic s, c3) | (OutOfFuel, c3) => (OutOfFuel, c3)
      end
  | (Err k, c1) => (Err k, c1) | (Panic s, c1) => (Panic s, c1) | (OutOfFuel, c1) => (OutOfFuel, c1)
  end end
with dispatch (fuel : nat) (e : el) (kids : option (list node)) (c : pctx) {struct fuel} : R (evs * option bbox) :=
  match fuel with O => (OutOfFuel, c) | S f =>
  let kind := match assoc (ename N e) dispatch_table with Some k => k | None => "" end in
  if String.eqb kind "LoopElement" then gen_loop f e kids c
  else if String.eqb kind "ConfigElement" then gen_config e c
  else if String.eqb kind "ReuseElement" then gen_reuse f e c
  else if String.eqb kind "SpecsElement" then gen_specs f e kids c
  else if String.eqb kind "VarElement" then gen_var (eattrs N e) [] c
  else if String.eqb kind "IfElement" then gen_if f e kids c
  else if String.eqb kind "DefaultsElement" then ok0 c
  else if String.eqb kind "ForElement" then gen_for f e kids c
  else if String.eqb kind "GroupElement" then gen_group f e kids c
  else match kids with
       | Some ks => gen_container f e ks c
       | None => let '(r, l) := leaf c e in (r, with_l c l)
       end
  end
with process_events (fuel : nat) (ns : list node) (c : pctx) {struct fuel} : R (evs * option bbox) :=
  match fuel with O => (OutOfFuel, c) | S f =>
  if first_real_svg ns then
    (Ok (flat_map raw_events ns, None), match px_estack c with [] => with_real c true | _ => c end)
  else
    let tags := tagify ns in
    retry f (List.length tags) (combine (seq 0 (List.length tags)) tags) [] None c
  end
(* process_tags: passes until nothing is pending or no progress *)
with retry (fuel : nat) (passes : nat) (pending : list (nat * tag)) (out : list (nat * evs)) (bb : option bbox) (c : pctx)
     {struct fuel} : R (evs * option bbox) :=
  match fuel with O => (OutOfFuel, c) | S f =>
  match pending with
  | [] => (Ok (flat_map snd (sort_out out), bb), c)
  | _ =>
      let '(pr, c1) := pass f pending c in
      match pr_fatal pr with
      | Some k => (Err k, c1)
      | None =>
          let out' := (out ++ pr_out pr)%list in
          let bb' := bb_opt_union bb (pr_bb pr) in
          if Nat.eqb (List.length (pr_rem pr)) (List.length pending) then (Err EMulti, c1)
          else match passes with
               | O => (OutOfFuel, c1)
               | S p => retry f p (pr_rem pr) out' bb' c1 end
      end
  end end
with pass (fuel : nat) (pending : list (nat * tag)) (c : pctx) {struct fuel} : passres * pctx :=
  match fuel with O => ({| pr_out := []; pr_bb := None; pr_rem := pending; pr_fatal := Some EInternalLogic |}, c) | S f =>
  match pending with
  | [] => ({| pr_out := []; pr_bb := None; pr_rem := []; pr_fatal := None |}, c)
  | (i, t) :: r =>
      let c0 := match t with TgEl e _ _ => update_element c e | _ => c end in
      let '(res1, c1) := gen_tag f t c0 in
      if px_specs c1 then pass f r c1           (* inside <specs>: results and errors are dropped *)
      else
        match res1 with
        | Ok (ev, b) =>
            let '(pr, c2) := pass f r c1 in
            ({| pr_out := (match ev with [] => [] | _ => [(i, ev)] end) ++ pr_out pr; pr_bb := bb_opt_union b (pr_bb pr);
                pr_rem := pr_rem pr; pr_fatal := pr_fatal pr |}, c2)
        | Err k =>
            if is_fatal k then ({| pr_out := []; pr_bb := None; pr_rem := pending; pr_fatal := Some k |}, c1)
            else let '(pr, c2) := pass f r c1 in
                 ({| pr_out := pr_out pr; pr_bb := pr_bb pr; pr_rem := (i, t) :: pr_rem pr; pr_fatal := pr_fatal pr |}, c2)
        | Panic s => ({| pr_out := []; pr_bb := None; pr_rem := pending; pr_fatal := Some EInternalLogic |}, c1)
        | OutOfFuel => ({| pr_out := []; pr_bb := None; pr_rem := pending; pr_fatal := Some EOther |}, c1)
        end
  end end
with gen_tag (fuel : nat) (t : tag) (c : pctx) {struct fuel} : R (evs * option bbox) :=
  match fuel with O => (OutOfFuel, c) | S f =>
  match t with
  | TgEl e kids tail =>
      dor r, c1 <- gen f e kids c;
      let '(ev, b) := r in
      (Ok (match tail, ev with Some tl, _ :: _ => (ev ++ [OText tl])%list | _, _ => ev end, b), c1)
  | TgComment s tail => (Ok (OComment s :: match tail with Some tl => [OText tl] | None => [] end, None), c)
  | TgText s => (Ok ([OText s], None), c)
  | TgCData s => (Ok ([OCData s], None), c)
  end end
with gen_group (fuel : nat) (e : el) (kids : option (list node)) (c : pctx) {struct fuel} : R (evs * option bbox) :=
  match fuel with O => (OutOfFuel, c) | S f =>
  dor ne, c1 <- eval_attributes e c;
  let c2 := push_element c1 e in
  let '(r, c3) :=
    match kids with
    | None => (Ok ([oel false ne], None), c2)
    | Some ks =>
        match process_events f ks c2 with
        | (Ok (ev, b), c') => (Ok (oel true ne :: ev ++ [OEnd (ename N ne)], b), c')
        | (Err k, c') => (Err k, c') | (Panic s, c') => (Panic s, c') | (OutOfFuel, c') => (OutOfFuel, c')
        end
    end in
  let c4 := pop_element c3 in
  match r with
  | Ok (ev, cb) =>
      let ge := with_cbb N e cb in
      let c5 := set_prev (update_element c4 ge) ge in
      if String.eqb (ename N e) "symbol" then (Ok (ev, None), c5)
      else match el_bbox_of ge with
           | Ok b => (Ok (ev, b), c5)
           | Err k => (Err k, c5) | Panic s => (Panic s, c5) | OutOfFuel => (OutOfFuel, c5) end
  | Err k => (Err k, c4) | Panic s => (Panic s, c4) | OutOfFuel => (OutOfFuel, c4)
  end end
with gen_container (fuel : nat) (e : el) (ks : list node) (c : pctx) {struct fuel} : R (evs * option bbox) :=
  match fuel with O => (OutOfFuel, c) | S f =>
  let inner_text := inner_text_go' ks None in
  match is_graphics e, inner_text with
  | true, Some t =>
      (* character-only content of a graphics element is shorthand for the text attribute *)
      gen f (eset N e "text" t) None c
  | _, _ =>
      if (String.eqb (ename N e) "svg" && ehas N e "xmlns")%bool then (Ok (raw_events (NEl e ks), None), c)
      else
        dor ne, c1 <- eval_attributes e c;
        let ne := if c_metadata (px_cfg c1) then eset N ne "data-src-line" (nat_str (Z.of_nat (eline N e))) else ne in
        dor rb, c2 <- (match inner_text with
                       | Some _ => (Ok (flat_map raw_events ks, None), c1)
                       | None => process_events f ks c1 end);
        let '(ev, b) := rb in
        let events := (oel true ne :: ev ++ [OEnd (ename N e)])%list in
        let '(b, c3) :=
          if (String.eqb (ename N e) "defs" || String.eqb (ename N e) "symbol")%bool then (None, c2)
          else match b with Some _ => (b, update_element c2 (with_cbb N ne b)) | None => (b, c2) end in
        let c4 := match b with Some _ => set_prev c3 (with_cbb N ne b) | None => c3 end in
        (* content only rendered where it is referenced adds nothing to the parent *)
        (Ok (events, if mem_str (ename N e) container_unrendered then None else b), c4)
  end end
with gen_specs (fuel : nat) (e : el) (kids : option (list node)) (c : pctx) {struct fuel} : R (evs * option bbox) :=
  match fuel with O => (OutOfFuel, c) | S f =>
  if px_specs c then (Err EDocument, c) else
  match kids with
  | None => ok0 c
  | Some ks =>
      match process_events f ks (with_specs c true) with
      | (Ok _, c1) => ok0 (with_specs c1 false)
      | (Err k, c1) => (Err k, c1) | (Panic s, c1) => (Panic s, c1) | (OutOfFuel, c1) => (OutOfFuel, c1)
      end
  end end
with gen_if (fuel : nat) (e : el) (kids : option (list node)) (c : pctx) {struct fuel} : R (evs * option bbox) :=
  match fuel with O => (OutOfFuel, c) | S f =>
  match eget N e "test" with
  | None => (Err EMissingAttribute, c)
  | Some test =>
      match kids with
      | None => ok0 c
      | Some ks => dor b, c1 <- eval_cond c test; if b then process_events f ks c1 else ok0 c1
      end
  end end
(* loops: [iter] passes done so far; recursion on the remaining fuel, at most loop_limit + 1 passes *)
with gen_loop (fuel : nat) (e : el) (kids : option (list node)) (c : pctx) {struct fuel} : R (evs * option bbox) :=
  match fuel with O => (OutOfFuel, c) | S f =>
  let kind := if ehas N e "count" then Some 0%nat else if ehas N e "while" then Some 1%nat
              else if ehas N e "until" then Some 2%nat else None in
  match kind, kids with
  | Some k, Some ks =>
      dor count, c1 <- (match eget N e "count" with
                        | Some cs => dor s, c' <- eval_attr c cs;
                                     (match parse_u32 s with Some n => (Ok n, c') | None => (Err EParse, c') end)
                        | None => (Ok 0%Z, c) end);
      dor spec, c2 <- (match eget N e "loop-var" with
                       | Some lv =>
                           dor name, ca <- eval_attr c1 lv;
                           dor st, cb <- eval_attr ca (match eget N e "start" with Some s => s | None => "0" end);
                           dor sp, cc <- eval_attr cb (match eget N e "step" with Some s => s | None => "1" end);
                           (match parse_f64 st, parse_f64 sp with
                            | Some a, Some b => (Ok (name, a, b), cc)
                            | _, _ => (Err EParse, cc) end)
                       | None => (Ok ("", f64_zero, f64_one), c1) end);
      let '(name, start, step) := spec in
      loop_iter f k (match eget N e (match k with O => "count" | 1%nat => "while" | _ => "until" end) with Some s => s | None => "" end)
                count name step ks 0%Z start [] None c2
  | _, _ => ok0 c
  end end
with loop_iter (fuel : nat) (k : nat) (expr : string) (count : Z) (name : string) (step : f64) (ks : list node)
               (iteration : Z) (value : f64) (acc : evs) (bb : option bbox) (c : pctx) {struct fuel} : R (evs * option bbox) :=
  match fuel with O => (OutOfFuel, c) | S f =>
  dor go_on, c1 <- (match k with
                    | O => (Ok (iteration <? count)%Z, c)
                    | 1%nat => eval_cond c expr
                    | _ => (Ok true, c) end);
  if negb go_on then (Ok (acc, bb), c1) else
  let c2 := if nonempty name then with_scopes c1 (set_var (px_scopes c1) name (f64_to_string value)) (px_estack c1) else c1 in
  dor r, c3 <- process_events f ks c2;
  let '(ev, b) := r in
  let acc' := (acc ++ ev)%list in let bb' := bb_opt_union bb b in
  let it' := (iteration + 1)%Z in
  if (c_loop_limit (px_cfg c3) <? it')%Z then (Err ELoopLimit, c3) else
  dor stop, c4 <- (match k with 2%nat => eval_cond c3 expr | _ => (Ok false, c3) end);
  if stop then (Ok (acc', bb'), c4)
  else loop_iter f k expr count name step ks it' (f64_add value step) acc' bb' c4
  end
with gen_for (fuel : nat) (e : el) (kids : option (list node)) (c : pctx) {struct fuel} : R (evs * option bbox) :=
  match fuel with O => (OutOfFuel, c) | S f =>
  match eget N e "var", eget N e "data", kids with
  | Some var, Some data, Some ks =>
      dor items, c1 <- eval_lst c data;
      for_iter f var (eget N e "idx-var") ks items 0%Z [] None c1
  | _, _, _ => (Err EInvalidData, c)
  end end
with for_iter (fuel : nat) (var : string) (idxv : option string) (ks : list node) (items : list string)
              (idx : Z) (acc : evs) (bb : option bbox) (c : pctx) {struct fuel} : R (evs * option bbox) :=
  match fuel with O => (OutOfFuel, c) | S f =>
  match items with
  | [] => (Ok (acc, bb), c)
  | it :: rest =>
      let ss := set_var (px_scopes c) var it in
      let ss := match idxv with Some iv => set_var ss iv (int_str idx) | None => ss end in
      dor r, c1 <- process_events f ks (with_scopes c ss (px_estack c));
      let '(ev, b) := r in
      let idx' := (idx + 1)%Z in
      if (c_loop_limit (px_cfg c1) <? idx')%Z then (Err ELoopLimit, c1)
      else for_iter f var idxv ks rest idx' (acc ++ ev)%list (bb_opt_union bb b) c1
  end end
(* reuse: evaluate the reuse element, push it as a scope, instantiate the ORIGINAL target, render it, pop *)
with gen_reuse (fuel : nat) (e : el) (c : pctx) {struct fuel} : R (evs * option bbox) :=
  match fuel with O => (OutOfFuel, c) | S f =>
  dor re, c1 <- eval_attributes e c;
  let c2 := push_element c1 re in
  let '(r, c3) :=
    match eget N re "href" with
    | None => (Err EMissingAttribute, c2)
    | Some h =>
        match parse_elref h with
        | None => (Err EParse, c2)
        | Some rf =>
            match (match rf with RefId id => assoc id (l_orig (px_l c2)) | RefPrev => l_prev (px_l c2) end) with
            | None => (Err EReference, c2)
            | Some target =>
                match instantiate c2 re target with
                | (Ok inst, l) =>
                    let c' := with_l c2 l in
                    if eempty N inst then gen f inst None c'
                    else match kidtab (eidx N target) with
                         | Some ks => process_events f [NEl inst ks] c'
                         | None => gen f inst None c' end
                | (Err k, l) => (Err k, with_l c2 l) | (Panic s, l) => (Panic s, with_l c2 l) | (OutOfFuel, l) => (OutOfFuel, with_l c2 l)
                end
            end
        end
    end in
  (r, pop_element c3)
  end.

End Pipeline.
