(* Mirrors svgdx src/expression.rs `ExprValue` (and its accessors / Display) and
   src/functions.rs `eval_function`. Definitions only.

   ExprValue::List never nests in the code (every list is built from `flatten`ed items, from
   numbers or from strings), so a value is one scalar or a flat list of scalars. *)
From Coq Require Import String Ascii List Bool Arith ZArith.
From SvgdxModel Require Import Base.Str Base.Res Num.NumOps Num.XOps Gen.Tables.
Import ListNotations.
Open Scope string_scope.

Section Funcs.
Context {N : NumOps} (X : XOps N).
Local Notation num := (num N).

Inductive sval := SNum (x : num) | SStr (s : string) | SText (s : string).
Inductive value := VOne (s : sval) | VList (l : list sval).
Definition VNum (x : num) : value := VOne (SNum x).

(* evaluation state threaded through an evaluation: the random stream and the number of
   random()/randint() calls made so far *)
Record est := { rs : xrng X; calls : nat }.
(* an operation outside the bit-exact part of an instance (libm on binary32, the sign of a NaN in
   total_cmp): the evaluation stops with an error kind the expression code itself never produces,
   and the correspondence check skips the case *)
Definition unsupported {A} : res A := Err EOther.

Definition zero : num := nofZ N 0.
Definition one : num := nofZ N 1.
Definition of_bool (b : bool) : num := if b then one else zero.
Definition nonzero (x : num) : bool := negb (neqb N x zero).      (* x != 0. *)

(* ---- ExprValue accessors ---- *)
Definition flatten (v : value) : list sval := match v with VOne s => [s] | VList l => l end.
Definition vlen (v : value) : nat := match v with VOne _ => 1 | VList l => length l end.
Definition sval_num (s : sval) : res num := match s with SNum x => Ok x | _ => Err EParse end.
Definition sval_str (s : sval) : res string :=
  match s with SNum _ => Err EParse | SStr s => Ok s | SText s => Ok s end.

Definition pair (v : value) : res (sval * sval) :=
  match flatten v with [a; b] => Ok (a, b) | _ => Err EParse end.
Definition number_list (v : value) : res (list num) :=
  match v with
  | VOne (SNum x) => Ok [x]
  | VOne _ => Err EParse
  | VList l => mapM sval_num l
  end.
Definition one_number (v : value) : res num :=
  do l <- number_list v; match l with [a] => Ok a | _ => Err EParse end.
Definition number_pair (v : value) : res (num * num) :=
  do l <- number_list v; match l with [a; b] => Ok (a, b) | _ => Err EParse end.
Definition number_triple (v : value) : res (num * num * num) :=
  do l <- number_list v; match l with [a; b; c] => Ok (a, b, c) | _ => Err EParse end.
Definition string_list (v : value) : res (list string) :=
  match v with
  | VOne s => do x <- sval_str s; Ok [x]
  | VList l => mapM sval_str l
  end.
Definition one_string (v : value) : res string :=
  do l <- string_list v; match l with [a] => Ok a | _ => Err EParse end.
Definition string_pair (v : value) : res (string * string) :=
  do l <- string_list v; match l with [a; b] => Ok (a, b) | _ => Err EParse end.

(* derived PartialEq *)
Definition sval_eqb (a b : sval) : bool :=
  match a, b with
  | SNum x, SNum y => neqb N x y
  | SStr x, SStr y => String.eqb x y
  | SText x, SText y => String.eqb x y
  | _, _ => false
  end.

(* ---- Display ---- *)
Fixpoint escape (s : string) : string :=
  match s with
  | EmptyString => ""
  | String c r =>
      (if Ascii.eqb c "\" then "\\" else if Ascii.eqb c nl then "\n"
       else if Ascii.eqb c "'" then "\'" else String c "") ++ escape r
  end.
Definition sval_display (s : sval) : string :=
  match s with
  | SNum x => xfstr X x
  | SStr s => "'" ++ escape s ++ "'"
  | SText t => t
  end.
Definition value_display (v : value) : string :=
  match v with
  | VOne s => sval_display s
  | VList l => concat_sep ", " (map sval_display l)
  end.
Definition sval_raw (s : sval) : string :=
  match s with SNum x => xfstr X x | SStr s => s | SText s => s end.
Definition to_string_vec (v : value) : list string := map sval_raw (flatten v).

(* ---- the function enum ---- *)
Inductive func :=
| FAbs | FCeil | FFloor | FFract | FSign | FDivMod | FSqrt | FLog | FExp | FPow
| FSin | FCos | FTan | FAsin | FAcos | FAtan | FRandom | FRandInt
| FMin | FMax | FSum | FProduct | FMean | FClamp | FMix
| FEqual | FNotEqual | FLessThan | FLessThanEqual | FGreaterThan | FGreaterThanEqual
| FIf | FNot | FAnd | FOr | FXor | FSwap | FRect2Polar | FPolar2Rect | FSelect
| FAddv | FSubv | FScalev | FHead | FTail | FEmpty | FCount | FIn
| FSplit | FSplitw | FTrim | FJoin | FText.

(* constructor of this model for each variant name of the Rust enum; which *name* selects
   which variant is the generated table Gen.Tables.function_names *)
Definition func_of_variant : list (string * func) :=
  [("Abs", FAbs); ("Ceil", FCeil); ("Floor", FFloor); ("Fract", FFract); ("Sign", FSign);
   ("DivMod", FDivMod); ("Sqrt", FSqrt); ("Log", FLog); ("Exp", FExp); ("Pow", FPow);
   ("Sin", FSin); ("Cos", FCos); ("Tan", FTan); ("Asin", FAsin); ("Acos", FAcos); ("Atan", FAtan);
   ("Random", FRandom); ("RandInt", FRandInt); ("Min", FMin); ("Max", FMax); ("Sum", FSum);
   ("Product", FProduct); ("Mean", FMean); ("Clamp", FClamp); ("Mix", FMix);
   ("Equal", FEqual); ("NotEqual", FNotEqual); ("LessThan", FLessThan);
   ("LessThanEqual", FLessThanEqual); ("GreaterThan", FGreaterThan);
   ("GreaterThanEqual", FGreaterThanEqual); ("If", FIf); ("Not", FNot); ("And", FAnd); ("Or", FOr);
   ("Xor", FXor); ("Swap", FSwap); ("Rect2Polar", FRect2Polar); ("Polar2Rect", FPolar2Rect);
   ("Select", FSelect); ("Addv", FAddv); ("Subv", FSubv); ("Scalev", FScalev); ("Head", FHead);
   ("Tail", FTail); ("Empty", FEmpty); ("Count", FCount); ("In", FIn); ("Split", FSplit);
   ("Splitw", FSplitw); ("Trim", FTrim); ("Join", FJoin); ("Text", FText)].

(* Function::from_str over the generated name table. A name of the table whose variant this
   model does not know gives EOther (an error kind the expression code never produces). *)
Definition function_of (name : string) : res func :=
  match assoc name function_names with
  | None => Err EParse
  | Some v => match assoc v func_of_variant with Some f => Ok f | None => Err EOther end
  end.

(* ---- std functions with a panicking precondition ---- *)
(* f32::clamp: assert!(min <= max, ...) - false also when either bound is NaN *)
Definition std_clamp (x lo hi : num) : res num :=
  if nleb N lo hi then Ok (xclamp X x lo hi) else Panic "f32::clamp: min > max, or either was NaN".
(* Rng::random_range(lo..=hi): panics on an empty range *)
Definition std_random_range (lo hi : Z) (g : xrng X) : res (Z * xrng X) :=
  if (lo <=? hi)%Z then Ok (xrandint X lo hi g) else Panic "random_range: empty range".

(* ---- helpers ---- *)
Definition sum_f (l : list num) : num := fold_left (nadd N) l (xneg_zero X).
Definition product_f (l : list num) : num := fold_left (nmul N) l one.
(* Iterator::max_by / min_by with f32::total_cmp *)
Definition max_total (l : list num) : option num :=
  match l with [] => None
  | x :: r => Some (fold_left (fun a b => if xtotal_ltb X b a then a else b) r x) end.
Definition min_total (l : list num) : option num :=
  match l with [] => None
  | x :: r => Some (fold_left (fun a b => if xtotal_ltb X b a then b else a) r x) end.
Fixpoint zip_with (f : num -> num -> num) (a b : list num) : list num :=
  match a, b with x :: a', y :: b' => f x y :: zip_with f a' b' | _, _ => [] end.
Definition halves (f : num -> num -> num) (l : list num) : res (list num) :=
  if Nat.even (length l) then
    let h := Nat.div2 (length l) in Ok (zip_with f (firstn h l) (skipn h l))
  else Err EParse.
Definition nums (l : list num) : value := VList (map SNum l).

(* str::split(&str) *)
Fixpoint split_sub (n : nat) (pat s : string) : list string :=
  match n with
  | O => [s]
  | S n' => match find_sub pat s with
            | Some (a, b) => a :: split_sub n' pat b
            | None => [s] end
  end.
Fixpoint chars_of (s : string) : list string :=
  match s with EmptyString => [] | String c r => String c "" :: chars_of r end.
Definition split_str (pat s : string) : list string :=
  match pat with
  | EmptyString => ("" :: chars_of s) ++ [""]     (* per character; bytes here: ASCII only *)
  | _ => split_sub (String.length s) pat s
  end.
(* u8::is_ascii_whitespace: space, \t, \n, \x0C, \r (not \x0B) *)
Definition is_ascii_ws (c : ascii) : bool :=
  let n := nat_of_ascii c in
  (Nat.eqb n 32 || Nat.eqb n 9 || Nat.eqb n 10 || Nat.eqb n 12 || Nat.eqb n 13)%bool.
Definition split_ascii_whitespace (s : string) : list string := filter nonempty (split_on is_ascii_ws s).

Definition has_nan (l : list num) : bool := existsb (xis_nan X) l.

(* ---- eval_function ---- *)
Definition ret (x : num) (st : est) : res (value * est) := Ok (VNum x, st).
(* a result computed through libm *)
Definition ret_libm (x : num) (st : est) : res (value * est) :=
  if xlibm_exact X then Ok (VNum x, st) else unsupported.

Definition eval_function (fn : func) (args : value) (st : est) : res (value * est) :=
  match fn with
  | FSwap => do '(a, b) <- pair args; Ok (VList [b; a], st)
  | FRect2Polar =>
      do '(x, y) <- number_pair args;
      if xlibm_exact X then Ok (nums [xlibm2 X LHypot x y; nmul N (xlibm2 X LAtan2 y x) (xdeg_per_rad X)], st)
      else unsupported
  | FPolar2Rect =>
      do '(r, theta) <- number_pair args;
      let theta := nmul N theta (xrad_per_deg X) in
      if xlibm_exact X then Ok (nums [nmul N r (xlibm1 X LCos theta); nmul N r (xlibm1 X LSin theta)], st)
      else unsupported
  | FAddv => do l <- number_list args; do r <- halves (nadd N) l; Ok (nums r, st)
  | FSubv => do l <- number_list args; do r <- halves (nsub N) l; Ok (nums r, st)
  | FScalev =>
      do l <- number_list args;
      match l with
      | s :: ((_ :: _) as r) => Ok (nums (map (nmul N s) r), st)
      | _ => Err EParse end
  | FHead => match flatten args with [] => Ok (VList [], st) | a :: _ => Ok (VOne a, st) end
  | FTail => match flatten args with _ :: ((_ :: _) as r) => Ok (VList r, st) | _ => Ok (VList [], st) end
  | FEmpty => ret (of_bool (Nat.eqb (vlen args) 0)) st
  | FCount => ret (nofZ N (Z.of_nat (vlen args))) st
  | FSelect =>
      match flatten args with
      | a :: ((_ :: _) as rest) =>
          do x <- sval_num a;
          let n := xas_usize X x in
          if (n <? Z.of_nat (length rest))%Z then
            match nth_error rest (Z.to_nat n) with
            | Some v => Ok (VOne v, st)
            | None => Panic "select: index out of bounds" end
          else Err EInvalidData
      | _ => Err EParse end
  | FIn =>
      match flatten args with
      | [] => Err EParse
      | v :: rest => ret (of_bool (existsb (fun x => sval_eqb x v) rest)) st end
  | FAbs => do x <- one_number args; ret (nabs N x) st
  | FCeil => do x <- one_number args; ret (nceil N x) st
  | FFloor => do x <- one_number args; ret (nfloor N x) st
  | FFract => do x <- one_number args; ret (xfract X x) st
  | FSign => do e <- one_number args; ret (if neqb N e zero then zero else xsignum X e) st
  | FDivMod =>
      do '(x, n) <- number_pair args; Ok (nums [xdiv_euclid X x n; xrem_euclid X x n], st)
  | FSqrt => do x <- one_number args; ret (xsqrt X x) st
  | FLog => do x <- one_number args; ret_libm (xlibm1 X LLn x) st
  | FExp => do x <- one_number args; ret_libm (xlibm1 X LExp x) st
  | FPow => do '(x, y) <- number_pair args; ret_libm (xlibm2 X LPow x y) st
  | FSin => do x <- one_number args; ret_libm (xlibm1 X LSin (nmul N x (xrad_per_deg X))) st
  | FCos => do x <- one_number args; ret_libm (xlibm1 X LCos (nmul N x (xrad_per_deg X))) st
  | FTan => do x <- one_number args; ret_libm (xlibm1 X LTan (nmul N x (xrad_per_deg X))) st
  | FAsin => do x <- one_number args; ret_libm (nmul N (xlibm1 X LAsin x) (xdeg_per_rad X)) st
  | FAcos => do x <- one_number args; ret_libm (nmul N (xlibm1 X LAcos x) (xdeg_per_rad X)) st
  | FAtan => do x <- one_number args; ret_libm (nmul N (xlibm1 X LAtan x) (xdeg_per_rad X)) st
  | FRandom =>
      let '(x, g) := xrandom X (rs st) in
      ret x {| rs := g; calls := S (calls st) |}
  | FRandInt =>
      do '(a, b) <- number_pair args;
      let lo := xas_i32 X a in let hi := xas_i32 X b in
      if (hi <? lo)%Z then Err EInvalidData
      else do '(z, g) <- std_random_range lo hi (rs st);
           ret (nofZ N z) {| rs := g; calls := S (calls st) |}
  | FMax =>
      do l <- number_list args;
      if (xnan_signed X && has_nan l)%bool then unsupported
      else match max_total l with
           | Some x => ret x st
           | None => Err EInvalidData end
  | FMin =>
      do l <- number_list args;
      if (xnan_signed X && has_nan l)%bool then unsupported
      else match min_total l with
           | Some x => ret x st
           | None => Err EInvalidData end
  | FSum => do l <- number_list args; ret (sum_f l) st
  | FProduct => do l <- number_list args; ret (product_f l) st
  | FMean =>
      if Nat.eqb (vlen args) 0 then Err EParse
      else let n := nofZ N (Z.of_nat (vlen args)) in
           do l <- number_list args; ret (ndiv N (sum_f l) n) st
  | FClamp =>
      do '(x, lo, hi) <- number_triple args;
      if (nltb N hi lo || xis_nan X lo || xis_nan X hi)%bool then Err EInvalidData
      else do r <- std_clamp x lo hi; ret r st
  | FMix =>
      do '(a, b, c) <- number_triple args;
      ret (nadd N (nmul N a (nsub N one c)) (nmul N b c)) st
  | FEqual => do '(a, b) <- pair args; ret (of_bool (sval_eqb a b)) st
  | FNotEqual => do '(a, b) <- pair args; ret (of_bool (negb (sval_eqb a b))) st
  | FLessThan => do '(a, b) <- number_pair args; ret (of_bool (nltb N a b)) st
  | FLessThanEqual => do '(a, b) <- number_pair args; ret (of_bool (nleb N a b)) st
  | FGreaterThan => do '(a, b) <- number_pair args; ret (of_bool (nltb N b a)) st
  | FGreaterThanEqual => do '(a, b) <- number_pair args; ret (of_bool (nleb N b a)) st
  | FIf =>
      match flatten args with
      | [c; a; b] => do x <- sval_num c; Ok (VOne (if nonzero x then a else b), st)
      | _ => Err EParse end
  | FNot => do x <- one_number args; ret (of_bool (neqb N x zero)) st
  | FAnd => do '(a, b) <- number_pair args; ret (of_bool (nonzero a && nonzero b)) st
  | FOr => do '(a, b) <- number_pair args; ret (of_bool (nonzero a || nonzero b)) st
  | FXor => do '(a, b) <- number_pair args; ret (of_bool (xorb (nonzero a) (nonzero b))) st
  | FSplit => do '(sep, a) <- string_pair args; Ok (VList (map SStr (split_str sep a)), st)
  | FSplitw => do a <- one_string args; Ok (VList (map SStr (split_ascii_whitespace a)), st)
  | FTrim => do a <- one_string args; Ok (VOne (SStr (trim a)), st)
  | FJoin =>
      do l <- string_list args;
      match l with
      | sep :: rest => Ok (VOne (SStr (concat_sep sep rest)), st)
      | [] => Err EParse end
  | FText => do a <- one_string args; Ok (VOne (SText a), st)
  end.

End Funcs.

Arguments SNum {N}. Arguments SStr {N}. Arguments SText {N}.
Arguments VOne {N}. Arguments VList {N}. Arguments VNum {N}.
Arguments rs {N X}. Arguments calls {N X}.
