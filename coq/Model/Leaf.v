(* The concrete leaf semantics plugged into the pipeline skeleton: OtherElement::generate_events
   (src/transform.rs), SvgElement::element_events and comment_text (src/element.rs), the clip-path
   adjustment of SvgElement::generate_events, and the instantiation part of ReuseElement (src/reuse.rs). *)
From Coq Require Import String Ascii List Bool ZArith.
From SvgdxModel Require Import Base.Str Base.Res Num.F32 Num.F64 Num.NumOps Gen.Tables Model.Types Model.Geom
  Model.Position Model.Scan Model.Element Model.Text Model.Xml Model.Pipeline.
Import ListNotations.
Open Scope string_scope.

(* comment_text: "--" is not allowed inside a comment; repeat until none is left *)
Fixpoint replace_dd (s : string) : string :=
  match s with
  | String "-" (String "-" r) => "- -" ++ replace_dd r
  | String c r => String c (replace_dd r)
  | EmptyString => ""
  end.
Fixpoint comment_fix (fuel : nat) (s : string) : string :=
  match fuel with O => s | S f => if contains_sub "--" s then comment_fix f (replace_dd s) else s end.
Definition comment_text (s : string) : string := " " ++ comment_fix (S (String.length s)) s ++ " ".
Fixpoint remove_chars (p : ascii -> bool) (s : string) : string :=
  match s with EmptyString => "" | String c r => if p c then remove_chars p r else String c (remove_chars p r) end.

Section Leaf.
Context (N : NumOps) (strp : string -> option (num N)) (fstr : num N -> string) (fdisplay : num N -> string).
Context (ES : Type)
  (eva : (string -> option string) -> emap N -> string -> ES -> res (string * ES)).
(* path bearing and connectors: parameters until their models are merged (identity / rejection by default) *)
Context (path_bearing : string -> res string)
        (connector : emap N -> el N -> res (el N)).
Local Notation el := (el N).
Local Notation bbox := (bbox N).
Local Notation pctx := (pctx N ES).
Local Notation lst := (lst N ES).

Definition no_eval (c : emap N) (e : el) : res el := Ok e.
Definition resolve_pos (c : emap N) (e : el) : res el := resolve_position N strp fstr fdisplay no_eval c e.

Definition is_connector (e : el) : bool :=
  (ehas N e "start" && ehas N e "end" && (String.eqb (ename N e) "line" || String.eqb (ename N e) "polyline"))%bool.
Definition transmute (c : emap N) (e : el) : res el :=
  do e <- (if String.eqb (ename N e) "path" then
             match eget N e "d" with
             | Some d => if (contains_char "b" d || contains_char "B" d)%bool
                         then do d' <- path_bearing d; Ok (eset N e "d" d') else Ok e
             | None => Ok e end
           else Ok e);
  do e <- (if is_connector e then connector c e else Ok e);
  transmute_dxy N strp fstr e.

Definition spaces (n : nat) : string := repeat_str " " n.
Definition flat_text (t : telem) : oev * string :=
  let '(n, a, cl, content) := t in (OStart n a cl, content).

(* element_events; the evaluator is needed for the "_" comment *)
Definition element_events (c : pctx) (e : el) : res evs * lst :=
  let l := px_l N ES c in
  let nlind := OText (String nl (spaces (eindent N e))) in
  let dbg := if c_debug (px_cfg N ES c)
             then [OComment (comment_text (remove_chars (fun ch => (Ascii.eqb ch "<" || Ascii.eqb ch ">")%bool)
                                                        (replace_char """" "`" (eorig N e)))); nlind] else [] in
  let '(rc, l1) :=
    match eget N e "_" with
    | Some cm => match eva (get_var (px_scopes N ES c)) (emap_of N ES l) cm (l_es N ES l) with
                 | Ok (v, es) => (Ok [OComment (comment_text v); nlind], with_es N ES l es)
                 | Err k => (Err k, l) | Panic s => (Panic s, l) | OutOfFuel => (OutOfFuel, l) end
    | None => (Ok [], l) end in
  match rc with
  | Ok c1 =>
      let c2 := match eget N e "__" with Some cm => [OComment (comment_text cm); nlind] | None => [] end in
      let phantom := (String.eqb (ename N e) "point" || String.eqb (ename N e) "box")%bool in
      let pre := (dbg ++ c1 ++ c2)%list in
      if ehas N e "text" then
        match process_text_attr N strp fstr e with
        | Ok (orig, texts) =>
            let shape := if (negb (String.eqb (ename N orig) "text") && negb phantom)%bool
                         then [OEmpty (ename N orig) (eattrs N orig) (ecls N orig); nlind] else [] in
            let tev :=
              match texts with
              | [] => []
              | [t] => let '(st, content) := flat_text t in [st; OText (escape5 content); OEnd "text"]
              | t :: spans =>
                  let '(st, _) := flat_text t in
                  (st :: nlind :: flat_map (fun s => let '(ss, content) := flat_text s in [ss; OText (escape5 content); OEnd "tspan"]) spans
                     ++ [nlind; OEnd "text"])%list
              end in
            (Ok (pre ++ shape ++ tev)%list, l1)
        | Err k => (Err k, l1) | Panic s => (Panic s, l1) | OutOfFuel => (OutOfFuel, l1)
        end
      else if phantom then (Ok pre, l1)
      else (Ok (pre ++ [if eempty N e then OEmpty (ename N e) (eattrs N e) (ecls N e)
                        else OStart (ename N e) (eattrs N e) (ecls N e)])%list, l1)
  | Err k => (Err k, l1) | Panic s => (Panic s, l1) | OutOfFuel => (OutOfFuel, l1)
  end.

(* OtherElement's adaptation of generated start / empty events *)
Definition adapt (meta : bool) (line : nat) (ev : oev) : oev :=
  let fix_el (n : string) (a : attrs) (cl : classes) : attrs * classes :=
    let a' := fold_left (fun acc kv => if mem_str (fst kv) other_filtered_attrs then acc else set acc (fst kv) (snd kv)) a [] in
    let a' := if meta then set a' "data-src-line" (nat_str (Z.of_nat line)) else a' in
    (a', cl_of_list cl) in
  match ev with
  | OStart n a cl => let '(a', c') := fix_el n a cl in OStart n a' c'
  | OEmpty n a cl => let '(a', c') := fix_el n a cl in OEmpty n a' c'
  | _ => ev end.

Definition lift {A} (r : res A) (l : lst) : res A * lst := (r, l).
Definition upd_el (c : pctx) (e : el) : pctx := update_element N ES eva c e.

Definition leaf (c : pctx) (e0 : el) : res (evs * option bbox) * lst :=
  match eval_attributes N ES eva e0 c with
  | (Ok e1, c1) =>
      match (do e <- resolve_pos (emap_of N ES (px_l N ES c1)) e1; transmute (emap_of N ES (px_l N ES c1)) e) with
      | Ok e2 =>
          match eval_attributes N ES eva e2 c1 with
          | (Ok e3, c2) =>
              match resolve_pos (emap_of N ES (px_l N ES c2)) e3 with
              | Ok e =>
                  let c3 := upd_el c2 e in
                  match get_element_bbox N strp (emap_of N ES (px_l N ES c3)) e with
                  | Ok bb =>
                      let c4 := match bb with Some _ => set_prev N ES c3 e | None => c3 end in
                      match element_events c4 e with
                      | (Ok evl, l5) =>
                          (Ok (map (adapt (c_metadata (px_cfg N ES c)) (eline N e)) evl,
                               if String.eqb (ename N e0) "point" then None else bb), l5)
                      | (Err k, l5) => (Err k, l5) | (Panic s, l5) => (Panic s, l5) | (OutOfFuel, l5) => (OutOfFuel, l5)
                      end
                  | Err k => (Err k, px_l N ES c3) | Panic s => (Panic s, px_l N ES c3) | OutOfFuel => (OutOfFuel, px_l N ES c3)
                  end
              | Err k => (Err k, px_l N ES c2) | Panic s => (Panic s, px_l N ES c2) | OutOfFuel => (OutOfFuel, px_l N ES c2)
              end
          | (Err k, c2) => (Err k, px_l N ES c2) | (Panic s, c2) => (Panic s, px_l N ES c2) | (OutOfFuel, c2) => (OutOfFuel, px_l N ES c2)
          end
      | Err k => (Err k, px_l N ES c1) | Panic s => (Panic s, px_l N ES c1) | OutOfFuel => (OutOfFuel, px_l N ES c1)
      end
  | (Err k, c1) => (Err k, px_l N ES c1) | (Panic s, c1) => (Panic s, px_l N ES c1) | (OutOfFuel, c1) => (OutOfFuel, px_l N ES c1)
  end.

(* SvgElement::bbox *)
Definition el_bbox_of (e : el) : res (option bbox) := el_bbox N strp e.

(* clip-path: the bbox is intersected with the bbox of the referenced clipPath, and the element re-registered *)
Definition clip (c : pctx) (e : el) (b : option bbox) : res (option bbox) * lst :=
  let l := px_l N ES c in
  match b, (match eget N e "clip-path" with Some u => extract_urlref u | None => None end) with
  | Some eb, Some rf =>
      match get_element N (emap_of N ES l) rf with
      | None => (Err EReference, l)
      | Some ce =>
          match get_element_bbox N strp (emap_of N ES l) ce with
          | Ok (Some cb) =>
              if String.eqb (ename N ce) "clipPath" then
                let nb := bb_intersect N eb cb in
                (Ok nb, px_l N ES (upd_el c (with_cbb N e nb)))
              else (Ok b, l)
          | Ok None => (Ok b, l)
          | Err k => (Err k, l) | Panic s => (Panic s, l) | OutOfFuel => (OutOfFuel, l)
          end
      end
  | _, _ => (Ok b, l)
  end.

(* ReuseElement between push_element and the rendering of the instance *)
Definition with_attrs_from (self other : el) : el :=
  let a := fold_left (fun acc kv => set acc (fst kv) (snd kv)) (eattrs N other) (eattrs N self) in
  with_name N (with_attrs N other a) (ename N self).
Definition instantiate (c : pctx) (re target : el) : res el * lst :=
  let inst := expand_compound_size N target in
  match eval_attributes N ES eva inst c with
  | (Ok inst, c1) =>
      let em := emap_of N ES (px_l N ES c1) in
      match el_size N strp em inst with
      | Ok isz =>
          (* reuse attributes override the target's defaults *)
          let inst := fold_left (fun (i : el) kv =>
                         let '(k, v) := kv in
                         if mem_str k ["href"; "id"; "x"; "y"] then i
                         else if String.eqb k "transform" then
                           eset N i "transform" (match eget N i "transform" with Some t => t ++ " " ++ v | None => v end)
                         else if ehas N i k then eset N i k v else i) (eattrs N re) inst in
          let ref_id := eget N inst "id" in
          let inst := epop N inst "id" in
          let '(inst, c2) := match eget N re "id" with
                             | Some rid => (eset N inst "id" rid, upd_el c1 re)
                             | None => (inst, c1) end in
          let inst := {| ename := ename N inst; eattrs := eattrs N inst; ecls := ecls N inst; ecbb := ecbb N inst; eidx := eidx N inst;
                         etext := etext N inst; eindent := eindent N re; eline := eline N re; eempty := eempty N inst; eorig := eorig N inst |} in
          let inst := match eget N re "style" with Some s => eset N inst "style" s | None => inst end in
          let inst := with_cls N inst (cl_extend (ecls N inst) (ecls N re)) in
          let inst := match ref_id with Some r => add_class N inst r | None => inst end in
          let inst := if String.eqb (ename N inst) "symbol" then with_attrs_from (new_el N "g" []) inst else inst in
          (* resolve_position starts with another eval_attributes of the reuse element (values that still hold variables after
             the first evaluation are expanded here) *)
          match eval_attributes N ES eva re c2 with
          | (Ok re1, c2) =>
          let em2 := emap_of N ES (px_l N ES c2) in
          match resolve_pos em2 re1 with
          | Ok re2 =>
              let rf := match eget N re "href" with Some h => parse_elref h | None => None end in
              match (match rf with Some r => get_element N em2 r | None => None end) with
              | None => (Err EReference, px_l N ES c2)
              | Some inst_el =>
                  let p := position_of N strp (ename N re2) (eattrs N re2) in
                  let sz := match ecbb N inst_el with
                            | Some bb => Some (bb_width N bb, bb_height N bb)
                            | None => isz end in
                  let p := match sz with
                           | Some (w, h) => {| pxmin := pxmin N p; pymin := pymin N p; pxmax := pxmax N p; pymax := pymax N p;
                                               pcx := pcx N p; pcy := pcy N p; pwidth := Some w; pheight := Some h;
                                               pdx := pdx N p; pdy := pdy N p; pshape := ename N inst |}
                           | None => {| pxmin := pxmin N p; pymin := pymin N p; pxmax := pxmax N p; pymax := pymax N p;
                                        pcx := pcx N p; pcy := pcy N p; pwidth := pwidth N p; pheight := pheight N p;
                                        pdx := pdx N p; pdy := pdy N p; pshape := ename N inst |} end in
                  (Ok (with_attrs N inst (set_position_attrs N strp fstr fdisplay p (ename N inst) (eattrs N inst))), px_l N ES c2)
              end
          | Err k => (Err k, px_l N ES c2) | Panic s => (Panic s, px_l N ES c2) | OutOfFuel => (OutOfFuel, px_l N ES c2)
          end
          | (Err k, c2) => (Err k, px_l N ES c2) | (Panic s, c2) => (Panic s, px_l N ES c2) | (OutOfFuel, c2) => (OutOfFuel, px_l N ES c2)
          end
      | Err k => (Err k, px_l N ES c1) | Panic s => (Panic s, px_l N ES c1) | OutOfFuel => (OutOfFuel, px_l N ES c1)
      end
  | (Err k, c1) => (Err k, px_l N ES c1) | (Panic s, c1) => (Panic s, px_l N ES c1) | (OutOfFuel, c1) => (OutOfFuel, px_l N ES c1)
  end.
End Leaf.
