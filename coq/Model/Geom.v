(* Mirrors svgdx src/position.rs: Length, LocSpec, ScalarSpec, DirSpec, BoundingBox, TrblLength. *)
From Coq Require Import String Ascii List Bool ZArith.
From SvgdxModel Require Import Base.Str Base.Res Num.NumOps Gen.Tables Model.Types.
Import ListNotations.
Open Scope string_scope.

Inductive locname := TopLeft | Top | TopRight | Right | BottomRight | Bottom | BottomLeft | Left | Center.
Inductive edgename := TopEdge | RightEdge | BottomEdge | LeftEdge.
Inductive scalarspec := Minx | Maxx | Cx | Miny | Maxy | Cy | Radius | Width | Rx | Height | Ry.
Inductive dirspec := InFront | Behind | Below | Above.

Definition locname_of_string (s : string) : option locname :=
  if String.eqb s "TopLeft" then Some TopLeft else if String.eqb s "Top" then Some Top
  else if String.eqb s "TopRight" then Some TopRight else if String.eqb s "Right" then Some Right
  else if String.eqb s "BottomRight" then Some BottomRight else if String.eqb s "Bottom" then Some Bottom
  else if String.eqb s "BottomLeft" then Some BottomLeft else if String.eqb s "Left" then Some Left
  else if String.eqb s "Center" then Some Center else None.
Definition edgename_of_string (s : string) : option edgename :=
  if String.eqb s "TopEdge" then Some TopEdge else if String.eqb s "RightEdge" then Some RightEdge
  else if String.eqb s "BottomEdge" then Some BottomEdge else if String.eqb s "LeftEdge" then Some LeftEdge
  else None.
Definition scalarspec_of_string (s : string) : option scalarspec :=
  if String.eqb s "Minx" then Some Minx else if String.eqb s "Maxx" then Some Maxx
  else if String.eqb s "Cx" then Some Cx else if String.eqb s "Miny" then Some Miny
  else if String.eqb s "Maxy" then Some Maxy else if String.eqb s "Cy" then Some Cy
  else if String.eqb s "Radius" then Some Radius else if String.eqb s "Width" then Some Width
  else if String.eqb s "Rx" then Some Rx else if String.eqb s "Height" then Some Height
  else if String.eqb s "Ry" then Some Ry else None.
Definition scalarspec_name (s : scalarspec) : string :=
  match s with Minx => "Minx" | Maxx => "Maxx" | Cx => "Cx" | Miny => "Miny" | Maxy => "Maxy"
  | Cy => "Cy" | Radius => "Radius" | Width => "Width" | Rx => "Rx" | Height => "Height" | Ry => "Ry" end.
Definition dirspec_of_string (s : string) : option dirspec :=
  if String.eqb s "InFront" then Some InFront else if String.eqb s "Behind" then Some Behind
  else if String.eqb s "Below" then Some Below else if String.eqb s "Above" then Some Above else None.
Definition dirspec_name (d : dirspec) : string :=
  match d with InFront => "InFront" | Behind => "Behind" | Below => "Below" | Above => "Above" end.

(* parsers driven by the generated name tables *)
Definition parse_locname (s : string) : option locname :=
  match assoc s locspec_names with Some n => locname_of_string n | None => None end.
Definition parse_edgename (s : string) : option edgename :=
  match assoc s edgespec_names with Some n => edgename_of_string n | None => None end.
Definition parse_scalarspec (s : string) : option scalarspec :=
  match assoc s scalarspec_names with Some n => scalarspec_of_string n | None => None end.
Definition parse_dirspec (s : string) : option dirspec :=
  match assoc s dirspec_names with Some n => dirspec_of_string n | None => None end.
Definition dir_to_locname (d : dirspec) : locname :=
  match assoc (dirspec_name d) dir_to_loc with
  | Some n => match locname_of_string n with Some l => l | None => Center end
  | None => Center end.
Definition scalar_to_locname (s : scalarspec) : locname :=
  match assoc (scalarspec_name s) scalar_to_loc with
  | Some n => match locname_of_string n with Some l => l | None => Center end
  | None => Center end.
Definition is_size_scalar (s : scalarspec) : bool :=
  match s with Width | Height | Rx | Ry | Radius => true | _ => false end.

Section WithNum.
Context (N : NumOps) (strp : string -> option (num N)) (fstr : num N -> string).
Local Notation num := (num N).
Local Notation "a +. b" := (nadd N a b) (at level 50, left associativity).
Local Notation "a -. b" := (nsub N a b) (at level 50, left associativity).
Local Notation "a *. b" := (nmul N a b) (at level 40, left associativity).
Local Notation "a /. b" := (ndiv N a b) (at level 40, left associativity).
Definition two : num := nofZ N 2.
Definition zero : num := nofZ N 0.

Inductive length := Absolute (v : num) | Ratio (v : num).
Definition len_evaluate (l : length) (base : num) : num :=
  match l with Absolute a => a | Ratio r => base *. r end.
Definition len_adjust (l : length) (v : num) : num :=
  match l with Absolute a => v +. a | Ratio r => v *. r end.
Definition len_calc_offset (l : length) (s e : num) : num :=
  match l with
  | Absolute a =>
      let mult := if nltb N e s then nneg N (nofZ N 1) else nofZ N 1 in
      if nltb N a zero then e +. a *. mult else s +. a *. mult
  | Ratio r => s +. (e -. s) *. r
  end.
Definition strp_length (s : string) : option length :=
  let v := trim s in
  match strip_suffix "%" v with
  | Some pc => match strp pc with Some x => Some (Ratio (x *. n0p01 N)) | None => None end
  | None => match strp v with Some x => Some (Absolute x) | None => None end
  end.

Inductive locspec := LNamed (l : locname) | LEdge (e : edgename) (len : length).
Definition loc_is_top (l : locspec) : bool :=
  match l with LNamed Top | LNamed TopLeft | LNamed TopRight | LEdge TopEdge _ => true | _ => false end.
Definition loc_is_right (l : locspec) : bool :=
  match l with LNamed Right | LNamed TopRight | LNamed BottomRight | LEdge RightEdge _ => true | _ => false end.
Definition loc_is_bottom (l : locspec) : bool :=
  match l with LNamed Bottom | LNamed BottomLeft | LNamed BottomRight | LEdge BottomEdge _ => true | _ => false end.
Definition loc_is_left (l : locspec) : bool :=
  match l with LNamed Left | LNamed TopLeft | LNamed BottomLeft | LEdge LeftEdge _ => true | _ => false end.

(* LocSpec::from_str: Err kinds: InvalidData for a bad name, ParseError for a bad length *)
Definition parse_locspec (s : string) : res locspec :=
  match parse_locname s with
  | Some l => Ok (LNamed l)
  | None =>
      match break_at (Ascii.eqb ":") s with
      | (edge, Some (_, len)) =>
          match strp_length len with
          | None => Err EParse
          | Some l => match parse_edgename edge with
                      | Some e => Ok (LEdge e l)
                      | None => Err EInvalidData end
          end
      | (_, None) => Err EInvalidData
      end
  end.

Record bbox := { bx1 : num; by1 : num; bx2 : num; by2 : num }.
Definition bb_width (b : bbox) := bx2 b -. bx1 b.
Definition bb_height (b : bbox) := by2 b -. by1 b.
Definition bb_center (b : bbox) : num * num :=
  (bx1 b +. (bx2 b -. bx1 b) /. two, by1 b +. (by2 b -. by1 b) /. two).
Definition bb_locspec (b : bbox) (l : locspec) : num * num :=
  let mx := (bx1 b +. bx2 b) /. two in let my := (by1 b +. by2 b) /. two in
  match l with
  | LNamed TopLeft => (bx1 b, by1 b) | LNamed Top => (mx, by1 b) | LNamed TopRight => (bx2 b, by1 b)
  | LNamed Right => (bx2 b, my) | LNamed BottomRight => (bx2 b, by2 b) | LNamed Bottom => (mx, by2 b)
  | LNamed BottomLeft => (bx1 b, by2 b) | LNamed Left => (bx1 b, my) | LNamed Center => (mx, my)
  | LEdge TopEdge len => (len_calc_offset len (bx1 b) (bx2 b), by1 b)
  | LEdge RightEdge len => (bx2 b, len_calc_offset len (by1 b) (by2 b))
  | LEdge BottomEdge len => (len_calc_offset len (bx1 b) (bx2 b), by2 b)
  | LEdge LeftEdge len => (bx1 b, len_calc_offset len (by1 b) (by2 b))
  end.
Definition bb_scalarspec (b : bbox) (s : scalarspec) : num :=
  let rx := nabs N (bx2 b -. bx1 b) /. two in let ry := nabs N (by2 b -. by1 b) /. two in
  match s with
  | Minx => bx1 b | Maxx => bx2 b | Miny => by1 b | Maxy => by2 b
  | Width => nabs N (bx2 b -. bx1 b) | Height => nabs N (by2 b -. by1 b)
  | Cx => (bx1 b +. bx2 b) /. two | Cy => (by1 b +. by2 b) /. two
  | Radius => nmax N rx ry | Rx => rx | Ry => ry
  end.
Definition bb_combine (a b : bbox) : bbox :=
  {| bx1 := nmin N (bx1 a) (bx1 b); by1 := nmin N (by1 a) (by1 b);
     bx2 := nmax N (bx2 a) (bx2 b); by2 := nmax N (by2 a) (by2 b) |}.
Definition bb_union (l : list bbox) : option bbox :=
  match l with [] => None | b :: r => Some (fold_left bb_combine r b) end.
Definition bb_intersect (a b : bbox) : option bbox :=
  let r := {| bx1 := nmax N (bx1 a) (bx1 b); by1 := nmax N (by1 a) (by1 b);
              bx2 := nmin N (bx2 a) (bx2 b); by2 := nmin N (by2 a) (by2 b) |} in
  if (nleb N zero (bb_width r) && nleb N zero (bb_height r))%bool then Some r else None.
Fixpoint bb_intersection_from (acc : bbox) (l : list bbox) : option bbox :=
  match l with
  | [] => Some acc
  | b :: r => match bb_intersect acc b with Some i => bb_intersection_from i r | None => None end
  end.
Definition bb_intersection (l : list bbox) : option bbox :=
  match l with [] => None | b :: r => bb_intersection_from b r end.
Definition bb_expand (b : bbox) (ex ey : num) : bbox :=
  {| bx1 := bx1 b -. ex; by1 := by1 b -. ey; bx2 := bx2 b +. ex; by2 := by2 b +. ey |}.
Definition bb_translated (b : bbox) (dx dy : num) : bbox :=
  {| bx1 := bx1 b +. dx; by1 := by1 b +. dy; bx2 := bx2 b +. dx; by2 := by2 b +. dy |}.
Definition bb_scale0 (b : bbox) (sx sy : num) : bbox :=
  {| bx1 := bx1 b *. sx; by1 := by1 b *. sy; bx2 := bx2 b *. sx; by2 := by2 b *. sy |}.
Definition bb_round (b : bbox) : bbox :=
  {| bx1 := nfloor N (bx1 b); by1 := nfloor N (by1 b); bx2 := nceil N (bx2 b); by2 := nceil N (by2 b) |}.

Record trbl := { t_top : length; t_right : length; t_bottom : length; t_left : length }.
Definition parse_trbl (s : string) : res trbl :=
  let fix go (l : list string) : option (list length) :=
    match l with [] => Some []
    | x :: r => match strp_length x, go r with Some a, Some b => Some (a :: b) | _, _ => None end end in
  match go (attr_split s) with
  | None => Err EParse
  | Some [a] => Ok {| t_top := a; t_right := a; t_bottom := a; t_left := a |}
  | Some [a; b] => Ok {| t_top := a; t_right := b; t_bottom := a; t_left := b |}
  | Some [a; b; c] => Ok {| t_top := a; t_right := b; t_bottom := c; t_left := b |}
  | Some [a; b; c; d] => Ok {| t_top := a; t_right := b; t_bottom := c; t_left := d |}
  | Some _ => Err EInvalidData
  end.
Definition bb_expand_trbl (b : bbox) (m : trbl) : bbox :=
  let base := nmax N (bb_width b) (bb_height b) in
  {| bx1 := bx1 b -. len_evaluate (t_left m) base; by1 := by1 b -. len_evaluate (t_top m) base;
     bx2 := bx2 b +. len_evaluate (t_right m) base; by2 := by2 b +. len_evaluate (t_bottom m) base |}.
Definition bb_shrink_trbl (b : bbox) (m : trbl) : bbox :=
  let base := nmin N (bb_width b) (bb_height b) in
  {| bx1 := bx1 b +. len_evaluate (t_left m) base; by1 := by1 b +. len_evaluate (t_top m) base;
     bx2 := bx2 b -. len_evaluate (t_right m) base; by2 := by2 b -. len_evaluate (t_bottom m) base |}.

(* parse_el_loc / parse_el_scalar: "#id@loc", "#id~scalar" *)
Definition parse_el_loc (s : string) : res (elref * option locspec) :=
  match extract_elref s with
  | None => Err EParse
  | Some (r, "") => Ok (r, None)
  | Some (r, rest) =>
      match strip_prefix "@" rest with
      | None => Err EParse
      | Some loc => if exists_char is_ws loc then Err EParse
                    else do l <- parse_locspec loc; Ok (r, Some l)
      end
  end.
Definition parse_el_scalar (s : string) : res (elref * option scalarspec) :=
  match extract_elref s with
  | None => Err EParse
  | Some (r, "") => Ok (r, None)
  | Some (r, rest) =>
      match strip_prefix "~" rest with
      | None => Err EParse
      | Some sc => if exists_char is_ws sc then Err EParse
                   else match parse_scalarspec sc with
                        | Some x => Ok (r, Some x) | None => Err EInvalidData end
      end
  end.
End WithNum.

Arguments Absolute {N}. Arguments Ratio {N}.
Arguments LNamed {N}. Arguments LEdge {N}.
Arguments bx1 {N}. Arguments by1 {N}. Arguments bx2 {N}. Arguments by2 {N}.
