(* Front-ends of svgdx (C07): the library string / stream functions, the `svgdx` command and the
   server's transform endpoint, as a state machine over an abstract file system.

   Transcribed from
     src/lib.rs        transform_str, transform_stream, transform_file
     src/cli.rs        Config::from_args (same-file refusal), run
     src/bin/svgdx.rs  main (returns Result: Err -> "Error: {:?}" on stderr, exit status 1)
     src/server.rs     transform (POST /api/transform)
   The document transform itself is the section parameter [T] (a pure function of input bytes and
   configuration: that is what C01-C06, C08-C20 are about).  [T] reports, for a failing document,
   the bytes already written to the writer before the error was detected (`partial`), and the
   Display and Debug renderings of the error value.

   File system.  Path spellings are strings; [canon] resolves a spelling (symlinks, `.` and `..`
   followed, as std::fs::canonicalize / open do) to a canonical path, [None] when a directory on
   the way does not exist.  A file system state maps canonical paths to contents.  File IDENTITY
   is the separate relation [same] (hard links: two canonical paths naming one inode); a write
   through one name is seen through every name of the same file.  Name space and link structure
   are static during a history (svgdx never creates links or directories). *)
From Coq Require Import String Ascii List Bool Arith.
From SvgdxModel Require Import Base.Str Gen.Tables.
Import ListNotations.
Open Scope string_scope.

Definition bytes := string.

(* result of the document transform *)
Inductive tres :=
| TOk (out : bytes)
| TErr (partial : bytes) (disp : bytes) (dbg : bytes).

Definition written (r : tres) : bytes := match r with TOk o => o | TErr p _ _ => p end.
Definition is_empty (b : bytes) : bool := match b with EmptyString => true | _ => false end.

(* format!("...{}...", arg) for a format string with one `{}` *)
Definition format1 (fmt arg : string) : string :=
  match find_sub "{}" fmt with Some (a, b) => a ++ arg ++ b | None => fmt end.

(* Debug rendering of an enum variant holding one String without characters that need escaping *)
Definition dbg_variant_str (variant msg : string) : string := variant ++ "(""" ++ msg ++ """)".
Definition dbg_variant (variant inner : string) : string := variant ++ "(" ++ inner ++ ")".

(* what the Rust runtime does with `Err(e)` returned from main: eprintln!("Error: {e:?}"), exit 1 *)
Definition main_err_stderr (dbg : bytes) : bytes := "Error: " ++ dbg ++ nlstr.
Definition main_err_exit : nat := 1.

Section Front.
  Context {cfg : Type}.
  Context (T : bytes -> cfg -> tres).
  (* impl From<RequestConfig> for TransformConfig: the only request field is add_metadata *)
  Context (http_cfg : bool -> cfg).
  Context (canon : string -> option string).
  Context (same : string -> string -> bool).
  (* Debug rendering of the io::Error for a missing file / directory (an OS + std constant) *)
  Context (enoent_dbg : bytes).

  Inductive request :=
  | RStr (inp : bytes) (c : cfg)                       (* svgdx::transform_str *)
  | RStream (inp : bytes) (c : cfg)                    (* svgdx::transform_stream into a Vec<u8> *)
  | RCli (file output : string) (stdin : bytes) (c : cfg)   (* svgdx [flags of c] FILE -o OUTPUT *)
  | RHttp (inp : bytes) (meta : bool).                 (* POST /api/transform?add_metadata=meta *)

  Inductive observation :=
  | OLibOk (out : bytes)
  | OLibErr (disp dbg : bytes)
  | OStream (ok : bool) (buf : bytes) (disp dbg : bytes)   (* writer contents; error renderings if not ok *)
  | OCli (exit : nat) (out err : bytes)
  | OHttp (status : nat) (ctype body : bytes).

  Definition fs := string -> option bytes.          (* canonical path -> contents *)

  Definition read (f : fs) (p : string) : option bytes :=
    match canon p with Some c => f c | None => None end.
  Definition exists_ (f : fs) (p : string) : bool :=
    match read f p with Some _ => true | None => false end.
  (* Path::canonicalize: fails unless the file exists *)
  Definition canonicalize (f : fs) (p : string) : option string :=
    match canon p with
    | Some c => match f c with Some _ => Some c | None => None end
    | None => None
    end.
  (* create-or-truncate + write through canonical path c: every name of the same file sees it *)
  Definition write_c (f : fs) (c : string) (b : bytes) : fs :=
    fun q => if (String.eqb q c || same c q)%bool then Some b else f q.

  (* ---------------------------------------------------------------- library *)
  Definition render_str (r : tres) : observation :=
    match r with TOk o => OLibOk o | TErr _ d g => OLibErr d g end.
  Definition render_stream (r : tres) : observation :=
    match r with TOk o => OStream true o "" "" | TErr p d g => OStream false p d g end.

  (* ---------------------------------------------------------------- server.rs transform *)
  Definition http_error (disp : bytes) : observation :=
    OHttp server_err_status server_err_ctype (format1 server_err_format disp).
  Definition render_http (r : tres) : observation :=
    match r with
    | TOk o => if is_empty o then http_error server_empty_msg     (* "Can't build a valid image/svg+xml response from empty string" *)
               else OHttp server_ok_status server_ok_ctype o
    | TErr _ d _ => http_error d
    end.

  (* ---------------------------------------------------------------- cli *)
  Definition cli_fail (out dbg : bytes) : observation := OCli main_err_exit out (main_err_stderr dbg).
  Definition cli_ok (out : bytes) : observation := OCli 0 out "".
  Definition io_dbg : bytes := dbg_variant err_variant_io enoent_dbg.
  Definition is_stdio (p : string) : bool := String.eqb p front_stdio_marker.

  (* Config::from_args: Some dbg = refused with that error *)
  Definition from_args_check (f : fs) (file output : string) : option bytes :=
    if (negb (is_stdio file) && negb (is_stdio output))%bool then
      if (negb cli_same_file_needs_existing_output || exists_ f output)%bool then
        match canonicalize f output with
        | None => Some (dbg_variant err_variant_from_err_of_canonicalize enoent_dbg)
        | Some co =>
          match canonicalize f file with
          | None => Some (dbg_variant err_variant_from_err_of_canonicalize enoent_dbg)
          | Some ci => if String.eqb co ci
                       then Some (dbg_variant_str err_variant_message cli_same_file_msg)
                       else None
          end
        end
      else None
    else None.

  (* the state inside transform_file: the files plus the NamedTempFile *)
  Definition xfs := (fs * option bytes)%type.
  Definition mk_temp (f : fs) : xfs := (f, Some "").                    (* NamedTempFile::new()? *)
  Definition temp_write (x : xfs) (b : bytes) : xfs := (fst x, Some b).  (* transform_stream(.., &mut out_temp, ..) *)
  Definition copy_temp (x : xfs) (output : string) : option xfs :=     (* fs::copy(out_temp.path(), output)? *)
    match canon output, snd x with
    | Some c, Some b => Some (write_c (fst x) c b, snd x)
    | _, _ => None
    end.
  Definition drop_temp (x : xfs) : fs := fst x.                         (* Drop for NamedTempFile removes it *)

  Definition transform_file (f : fs) (file output : string) (stdin : bytes) (c : cfg) : fs * observation :=
    match (if is_stdio file then Some stdin else read f file) with
    | None => (f, cli_fail "" io_dbg)                                   (* File::open(input)? *)
    | Some inp =>
      let r := T inp c in
      if is_stdio output then
        (* transform_stream(&mut in_reader, &mut stdout(), cfg)?: whatever was written stays written *)
        (f, match r with TOk o => cli_ok o | TErr p _ g => cli_fail p g end)
      else if front_output_via_temp then
        let x := temp_write (mk_temp f) (written r) in
        match r with
        | TErr _ _ g => (drop_temp x, cli_fail "" g)
        | TOk _ => match copy_temp x output with
                   | Some x' => (drop_temp x', cli_ok "")
                   | None => (drop_temp x, cli_fail "" io_dbg)
                   end
        end
      else
        (* the output opened (created / truncated) first and written directly *)
        match canon output with
        | None => (f, cli_fail "" io_dbg)
        | Some co => (write_c f co (written r),
                      match r with TOk _ => cli_ok "" | TErr _ _ g => cli_fail "" g end)
        end
    end.

  Definition cli_step (f : fs) (file output : string) (stdin : bytes) (c : cfg) : fs * observation :=
    match from_args_check f file output with
    | Some e => (f, cli_fail "" e)                 (* run(get_config()?)?: main returns the error *)
    | None => transform_file f file output stdin c
    end.

  (* ---------------------------------------------------------------- one request, a history *)
  Definition step (f : fs) (r : request) : fs * observation :=
    match r with
    | RStr inp c => (f, render_str (T inp c))
    | RStream inp c => (f, render_stream (T inp c))
    | RCli file output stdin c => cli_step f file output stdin c
    | RHttp inp meta => (f, render_http (T inp (http_cfg meta)))
    end.

  Fixpoint run (f : fs) (h : list request) : fs * list observation :=
    match h with
    | [] => (f, [])
    | r :: t => let '(f1, o) := step f r in
                let '(f2, os) := run f1 t in (f2, o :: os)
    end.

  (* ---------------------------------------------------------------- reading observations *)
  Definition failed (o : observation) : bool :=
    match o with
    | OLibOk _ => false
    | OLibErr _ _ => true
    | OStream ok _ _ _ => negb ok
    | OCli e _ _ => negb (Nat.eqb e 0)
    | OHttp s _ _ => negb (Nat.eqb s server_ok_status)
    end.

  (* the failure is reported in the way the property names for that front-end *)
  Definition reported (o : observation) : Prop :=
    match o with
    | OLibOk _ => False
    | OLibErr _ _ => True
    | OStream ok _ _ _ => ok = false
    | OCli e _ err => e <> 0 /\ err <> ""
    | OHttp s ct _ => s = 400 /\ ct = "text/plain"
    end.

  (* the bytes a request delivered: return value, writer contents, stdout, the output file
     (read back from the file system after the step), the response body *)
  Definition delivered (after : fs) (r : request) (o : observation) : option bytes :=
    match r, o with
    | RStr _ _, OLibOk out => Some out
    | RStream _ _, OStream true out _ _ => Some out
    | RCli _ output _ _, OCli 0 out _ => if is_stdio output then Some out else read after output
    | RHttp _ _, OHttp s _ body => if Nat.eqb s server_ok_status then Some body else None
    | _, _ => None
    end.

  (* the (input bytes, configuration) a request carries, given the files it reads *)
  Definition carries (f : fs) (r : request) : option (bytes * cfg) :=
    match r with
    | RStr inp c | RStream inp c => Some (inp, c)
    | RCli file _ stdin c => if is_stdio file then Some (stdin, c)
                             else match read f file with Some b => Some (b, c) | None => None end
    | RHttp inp meta => Some (inp, http_cfg meta)
    end.

  Definition result_bytes (r : tres) : option bytes := match r with TOk o => Some o | TErr _ _ _ => None end.

  (* K11: the server turns an empty successful output into an error *)
  Definition k11_class (r : request) : bool :=
    match r with
    | RHttp inp meta => match T inp (http_cfg meta) with TOk o => is_empty o | _ => false end
    | _ => false
    end.
  (* the command cannot deliver: refused by from_args, or the output directory does not exist *)
  Definition cli_blocked (f : fs) (r : request) : bool :=
    match r with
    | RCli file output _ _ =>
      match from_args_check f file output with
      | Some _ => true
      | None => if is_stdio output then false else match canon output with Some _ => false | None => true end
      end
    | _ => false
    end.

  (* which part of the file system a request's observation may depend on *)
  Definition agree_on (r : request) (f1 f2 : fs) : Prop :=
    match r with
    | RCli file output _ _ =>
      (is_stdio file = false -> read f1 file = read f2 file) /\
      (is_stdio file = false -> is_stdio output = false -> exists_ f1 output = exists_ f2 output)
    | _ => True
    end.

  Definition touches_fs (r : request) : bool :=
    match r with
    | RCli file output _ _ => negb (is_stdio file && is_stdio output)
    | _ => false
    end.

  (* the successful sub-history of a history (requests whose observation, in the run from f, was a success) *)
  Fixpoint keep_ok (f : fs) (h : list request) : list request :=
    match h with
    | [] => []
    | r :: t => let '(f1, o) := step f r in
                if failed o then keep_ok f1 t else r :: keep_ok f1 t
    end.
End Front.

Arguments RStr {cfg}. Arguments RStream {cfg}. Arguments RCli {cfg}. Arguments RHttp {cfg}.

(* ---------------------------------------------------------------------------------------------
   Executable instance for the correspondence check: configurations are opaque keys (strings),
   T is a measured table (one fresh-process library call per distinct (input, config)), the
   name space is given by association lists. *)
Definition tkey := (bytes * string)%type.
Fixpoint t_lookup (tbl : list (tkey * tres)) (inp : bytes) (c : string) : tres :=
  match tbl with
  | [] => TErr "" "unmeasured" "unmeasured"
  | ((i, k), r) :: rest => if (String.eqb k c && String.eqb i inp)%bool then r else t_lookup rest inp c
  end.
Definition canon_of (tbl : list (string * string)) (p : string) : option string := assoc p tbl.
Fixpoint same_of (tbl : list (string * string)) (a b : string) : bool :=
  match tbl with
  | [] => false
  | (x, y) :: r => ((String.eqb a x && String.eqb b y) || (String.eqb a y && String.eqb b x) || same_of r a b)%bool
  end.
Definition fs_of (l : list (string * bytes)) : string -> option bytes := fun c => assoc c l.

Definition run_front (tbl : list (tkey * tres)) (cfg_meta_false cfg_meta_true : string)
    (canon_tbl same_tbl : list (string * string)) (enoent : bytes)
    (init : list (string * bytes)) (h : list (@request string)) (probe : list string)
  : list observation * list (option bytes) :=
  let '(f, os) := run (t_lookup tbl) (fun b : bool => if b then cfg_meta_true else cfg_meta_false)
                      (canon_of canon_tbl) (same_of same_tbl) enoent (fs_of init) h in
  (os, map f probe).
