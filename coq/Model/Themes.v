(* themes.rs: ThemeBuilder::build as filters over the generated tables (Gen/Tables.v), in the
   order Theme::build sequences them; write_auto_styles' collection of element names / classes;
   the injection condition of postprocess; scanners for url(#id) references and id="..."
   definitions.  Definitions only. *)
From Coq Require Import String Ascii List Bool ZArith Floats.SpecFloat.
From SvgdxModel Require Import Base.Str Base.Res Num.F32 Gen.Tables.
Import ListNotations.
Open Scope string_scope.

(* ---------- configuration seen by the theme builder ---------- *)
Record settings := mkSettings {
  s_theme : string;            (* config.theme (name) *)
  s_background : string;       (* config.background *)
  s_font_size : f32;           (* config.font_size *)
  s_font_family : string;      (* config.font_family *)
  s_local_id : option string   (* context.local_style_id *)
}.

(* one emitted string: a CSS rule (is_def = false) or a definition (is_def = true).
   [owner] = the reserved class whose presence made the builder emit it (None for the
   unconditional base rules and for shared support items such as the arrow marker). *)
Record item := mkItem { is_def : bool; owner : option string; txt : string }.
Definition style_of (o : option string) (t : string) : item := mkItem false o t.
Definition def_of (o : option string) (t : string) : item := mkItem true o t.

(* ---------- format! ---------- *)
Fixpoint render (env : list (string * string)) (t : list seg) : string :=
  match t with
  | [] => ""
  | Lit s :: r => s ++ render env r
  | Hole h :: r => match assoc h env with Some v => v | None => "" end ++ render env r
  end.

(* ---------- HashSet<String> as a duplicate-free list in iteration order ---------- *)
Fixpoint dedup (l : list string) : list string :=
  match l with
  | [] => []
  | x :: r => if mem_str x r then dedup r else x :: dedup r
  end.
Definition has (l : list string) (c : string) : bool := mem_str c l.

(* Vec<String>::sort(): byte-wise lexicographic *)
Fixpoint insert_sorted (x : string) (l : list string) : list string :=
  match l with
  | [] => [x]
  | y :: r => if String.leb x y then x :: l else y :: insert_sorted x r
  end.
Fixpoint sort_strings (l : list string) : list string :=
  match l with [] => [] | x :: r => insert_sorted x (sort_strings r) end.

(* ---------- theme constants ---------- *)
Record tconsts := mkT { t_fill : string; t_stroke : string; t_bg : string; t_sw : f32; t_early : option string }.
Definition theme_consts (name : string) : option tconsts :=
  match assoc name theme_table with
  | Some (f, s, b, w, e) =>
      match parse_f32 w with Some sw => Some (mkT f s b sw e) | None => None end
  | None => None
  end.
Definition num (s : string) : f32 := match parse_f32 s with Some x => x | None => S754_nan end.

(* rows of a table whose class is present: `if tb.has_class(class) { ... }` per row *)
Definition guarded {A} (cls : list string) (key : A -> string) (body : A -> list item) (rows : list A) : list item :=
  flat_map (fun r => if has cls (key r) then body r else []) rows.
Definition one_rule (cr : string * string) : list item := [style_of (Some (fst cr)) (snd cr)].

Definition colour_block := (list seg * list (option string * list seg) * ((string * string) * (string * string)))%type.
Definition colour_class (blk : colour_block) (colour : string) : string := render [("colour", colour)] (fst (fst blk)).
Definition colour_body (blk : colour_block) (colour : string) : list item :=
  let '(ct, styles, (tf, tsk)) := blk in
  let c := render [("colour", colour)] ct in
  let dark := mem_str colour dark_colours in
  let env := [("colour", colour); ("text_fill", if dark then fst tf else snd tf);
              ("text_stroke", if dark then fst tsk else snd tsk)] in
  flat_map (fun gs : option string * list seg =>
              match fst gs with
              | Some g => if String.eqb colour g then [] else [style_of (Some c) (render env (snd gs))]
              | None => [style_of (Some c) (render env (snd gs))]
              end) styles.

(* str::parse::<u32>: optional '+', one or more ASCII digits, no overflow *)
Definition parse_u32 (s : string) : option Z :=
  let d := match s with String c r => if Ascii.eqb c "+" then r else s | EmptyString => s end in
  match d with
  | EmptyString => None
  | _ => if forall_char is_digit d
         then let '(v, _, _) := digits d 0 0 in if Z.ltb v (2 ^ 32)%Z then Some v else None
         else None
  end.
Definition get_spacing (prefix c : string) : option Z :=
  match strip_prefix prefix c with
  | Some suffix => match parse_u32 suffix with
                   | Some n => if Z.leb n pattern_max_spacing then Some n else None
                   | None => None end
  | None => None
  end.
(* str::trim_start_matches(pat) *)
Fixpoint trim_start_matches (fuel : nat) (pat s : string) : string :=
  match fuel with
  | O => s
  | S f => match pat with
           | EmptyString => s
           | _ => match strip_prefix pat s with Some r => trim_start_matches f pat r | None => s end
           end
  end.
Definition pattern_id (c : string) : string := trim_start_matches (String.length c) pattern_id_strip c.

Definition pattern_spec (base : string) : string := render [("0", base)] pattern_spec_template.

(* ---------- sections of Theme::build ---------- *)
Section Build.
  Context (st : settings) (tc : tconsts) (els cls : list string).

  Definition sec_early : list item :=
    match t_early tc with Some s => [style_of None s] | None => [] end
    ++ guarded cls fst one_rule early_rules.

  Definition common_env : list (string * string) :=
    [("all_elements", match s_local_id st with Some _ => fst common_all_elements | None => snd common_all_elements end);
     ("stroke_width", fdisplay (t_sw tc)); ("fill", t_fill tc); ("stroke", t_stroke tc);
     ("font_family", s_font_family st); ("font_size", fdisplay (s_font_size st))].
  Definition sec_common : list item := map (fun t => style_of None (render common_env t)) common_templates.

  Definition sec_colour : list item :=
    flat_map (fun blk => guarded cls (colour_class blk) (colour_body blk) colour_list) colour_blocks.

  Definition scaled_rule (tmpl : list seg) (base : f32) (cw : string * string) : list item :=
    [style_of (Some (fst cw)) (render [("class", fst cw); ("0", fstr (fmul base (num (snd cw))))] tmpl)].
  Definition sec_stroke_width : list item := guarded cls fst (scaled_rule stroke_width_template (t_sw tc)) stroke_widths.

  Definition gate (g : string) : bool := (String.eqb g "" || has els g)%bool.
  Definition text_gate : bool := (gate text_build_gate_element && gate text_gate_element)%bool.
  Definition text_size_rule (cw : string * string) : list item :=
    [style_of (Some (fst cw)) (render [("0", fst cw); ("1", fstr (fmul (s_font_size st) (num (snd cw))))] text_size_template)].
  Definition text_ol_rule (cw : string * string) : list item :=
    [style_of (Some (fst cw)) (render [("0", fst cw); ("1", fstr (num (snd cw)))] text_ol_template)].
  Definition sec_text : list item :=
    if text_gate then
      guarded cls fst one_rule text_rules ++ guarded cls fst text_size_rule text_sizes
      ++ guarded cls fst text_ol_rule text_ol_widths
    else [].

  Definition any_class (rows : list (string * string)) : bool := existsb (fun cr : string * string => has cls (fst cr)) rows.

  Definition sec_arrow : list item :=
    guarded cls fst one_rule arrow_rules
    ++ (if any_class arrow_rules then [style_of None arrow_extra_style; def_of None arrow_def] else []).

  Definition flow_rule (cs : string * string) : list item :=
    [style_of (Some (fst cs)) (render [("class", fst cs); ("speed", snd cs)] flow_template)].
  Definition sec_dash : list item :=
    guarded cls fst flow_rule flow_styles
    ++ (if any_class flow_styles then [style_of None flow_keyframes] else [])
    ++ guarded cls fst one_rule dash_styles.

  Definition pattern_items (c : string) (spacing : Z) (ptype : string) (rot : option Z) : list item :=
    let rotate := match rot with Some r => render [("r", int_str r)] pattern_rotate_template | None => "" end in
    let sp := of_Z spacing in
    let sw := fstr (fdiv (fsqrt sp) (of_Z 10)) in
    let pid := pattern_id c in
    let env := [("spacing", nat_str spacing); ("sw", sw); ("t_stroke", t_stroke tc);
                ("gs", fstr (fdiv sp (of_Z 2))); ("r", fstr (fdiv (fsqrt sp) (of_Z 5)))] in
    let lines := String.concat "" (flat_map (fun p : list string * list seg =>
                                               if mem_str ptype (fst p) then [render env (snd p)] else []) pattern_parts) in
    [style_of (Some c) (render [("class", c); ("ptn_id", pid)] pattern_style_template);
     def_of (Some c) (render [("ptn_id", pid); ("spacing", nat_str spacing); ("rotate", rotate); ("lines", lines)] pattern_def_template)].

  (* the classes of one pattern family with their spacing, in emission order *)
  Definition pattern_classes (base : string) : list (string * Z) :=
    let spec := pattern_spec base in
    let spaced := filter (starts_with spec) cls in
    let spaced := if pattern_sorted then sort_strings spaced else spaced in
    (if has cls base then [(base, pattern_base_spacing)] else [])
    ++ flat_map (fun c => match get_spacing spec c with Some n => [(c, n)] | None => [] end) spaced.
  Definition pattern_family (row : string * (string * option Z)) : list item :=
    flat_map (fun cn : string * Z => pattern_items (fst cn) (snd cn) (fst (snd row)) (snd (snd row)))
             (pattern_classes (fst row)).
  Definition sec_pattern : list item := flat_map pattern_family pattern_table.

  Definition shadow_body (r : string * (string * string)) : list item :=
    [style_of (Some (fst r)) (fst (snd r)); def_of (Some (fst r)) (snd (snd r))].
  Definition sec_shadow : list item := guarded cls fst shadow_body shadow_table.

  (* the calls of Theme::build, by the names the translator found there *)
  Definition section (name : string) : list item :=
    if String.eqb name "append_early_styles" then sec_early
    else if String.eqb name "append_common_styles" then sec_common
    else if String.eqb name "append_colour_styles" then sec_colour
    else if String.eqb name "append_stroke_width_styles" then sec_stroke_width
    else if String.eqb name "append_text_styles" then sec_text
    else if String.eqb name "append_arrow_styles" then sec_arrow
    else if String.eqb name "append_dash_styles" then sec_dash
    else if String.eqb name "append_pattern_styles" then sec_pattern
    else if String.eqb name "build_fn" then sec_shadow
    else [].   (* append_late_styles: empty for all six themes *)

  Definition outer_svg : string :=
    match s_local_id st with Some id => render [("0", id)] outer_svg_local_template | None => outer_svg_name end.
  Definition head_items : list item :=
    [style_of None (render [("0", outer_svg);
                            ("1", if String.eqb (s_background st) background_sentinel then t_bg tc else s_background st)]
                           background_template)]
    ++ match s_local_id st with Some id => [style_of None (render [("0", id)] nested_open_template)] | None => [] end.
  Definition tail_items : list item :=
    match s_local_id st with Some _ => [style_of None nested_close] | None => [] end.

  Definition build_items : list item := head_items ++ flat_map section build_sequence ++ tail_items.
End Build.

(* ThemeBuilder::build; [cls] and [els] are the two hash sets in their iteration order *)
Definition build (st : settings) (els cls : list string) : res (list item) :=
  match theme_consts (s_theme st) with
  | Some tc => Ok (build_items st tc els cls)
  | None => Err EInvalidData
  end.
Definition defs_of (l : list item) : list string := map txt (filter is_def l).
Definition styles_of (l : list item) : list string := map txt (filter (fun i => negb (is_def i)) l).

(* ---------- the reserved class vocabulary, read off the same tables ---------- *)
Definition sowner (i : item) : list string :=
  if is_def i then [] else match owner i with Some c => [c] | None => [] end.
(* the classes for which a style rule was emitted *)
Definition sowners (l : list item) : list string := flat_map sowner l.
Definition colour_vocab : list string := flat_map (fun blk => map (colour_class blk) colour_list) colour_blocks.
Definition text_vocab : list string := map fst text_rules ++ map fst text_sizes ++ map fst text_ol_widths.
Definition plain_vocab : list string :=
  map fst early_rules ++ colour_vocab ++ map fst stroke_widths ++ map fst arrow_rules ++ map fst flow_styles
  ++ map fst dash_styles ++ map fst shadow_table.
Definition is_some {A} (o : option A) : bool := match o with Some _ => true | None => false end.
Definition in_family (c : string) (row : string * (string * option Z)) : bool :=
  (String.eqb c (fst row) || is_some (get_spacing (pattern_spec (fst row)) c))%bool.
Definition pattern_classb (c : string) : bool := existsb (in_family c) pattern_table.
Definition reservedb (c : string) : bool := (mem_str c plain_vocab || mem_str c text_vocab || pattern_classb c)%bool.
Definition needs_text (c : string) : bool := mem_str c text_vocab.

(* ---------- write_auto_styles: collection; postprocess: injection condition ---------- *)
(* an output Start/Empty event: element name and its class list *)
Definition collect_elements (evs : list (string * list string)) : list string := dedup (map fst evs).
(* only the events after the root <svg> start tag are scanned (postprocess passes `remain`);
   write_root_svg does not copy the root's own class attribute to the output *)
Definition collect_classes (evs : list (string * list string)) : list string := dedup (flat_map snd evs).
Definition auto_styles (add_auto_styles has_root_svg : bool) (st : settings)
           (evs : list (string * list string)) : option (res (list item)) :=
  (* the flags postprocess tests, by the names the translator found in the condition *)
  let flag (n : string) : bool :=
    if String.eqb n "has_svg_element" then has_root_svg
    else if String.eqb n "add_auto_styles" then add_auto_styles else true in
  if forallb flag inject_condition
  then Some (build st (collect_elements evs) (collect_classes evs))
  else None.

(* ---------- scanners over the emitted text ---------- *)
(* every "url(#" ... ")" : the referenced id *)
Fixpoint url_refs (s : string) : list string :=
  match s with
  | EmptyString => []
  | String c r =>
      match strip_prefix "(#" s with
      | Some rest => [take_while (fun ch => negb (Ascii.eqb ch ")")) rest]
      | None => []
      end ++ url_refs r
  end.
(* every  id="..."  attribute: the defined id *)
Definition id_attr : string := String " " (String "i" (String "d" (String "=" (String """" "")))).
Fixpoint def_ids (s : string) : list string :=
  match s with
  | EmptyString => []
  | String c r =>
      match strip_prefix id_attr s with
      | Some rest => [take_while (fun ch => negb (Ascii.eqb ch """")) rest]
      | None => []
      end ++ def_ids r
  end.
Definition refs_of (l : list item) : list string := flat_map (fun i => url_refs (txt i)) l.
Definition ids_of (l : list item) : list string := flat_map (fun i => if is_def i then def_ids (txt i) else []) l.
(* a rule mentions class c as a selector ".c" *)
Definition mentions (c t : string) : bool := contains_sub (String "." c) t.

(* text in which neither scanner finds anything *)
Definition is_nil {A} (l : list A) : bool := match l with [] => true | _ => false end.
Definition clean (t : string) : bool := (is_nil (url_refs t) && is_nil (def_ids t))%bool.
Definition items_clean (l : list item) : bool := forallb (fun i => clean (txt i)) l.
Definition rows_clean {A} (body : A -> list item) (rows : list A) : bool := forallb (fun r => items_clean (body r)) rows.
(* the rules whose text is derived from the user's settings (background, font family, font size,
   local id) mention no url reference and define no id: a decidable condition on the settings alone *)
Definition settings_clean (st : settings) (tc : tconsts) : bool :=
  (items_clean (head_items st tc) && items_clean (sec_common st tc)
   && rows_clean (text_size_rule st) text_sizes && items_clean (tail_items st))%bool.
Definition settings_cleanb (st : settings) : bool :=
  match theme_consts (s_theme st) with Some tc => settings_clean st tc | None => true end.

(* ---------- entry point of the correspondence driver ---------- *)
Definition run_theme (classes elements : list string) (theme bg fs ff : string) (lid : option string)
  : res (list string * list string) :=
  match parse_f32 fs with
  | None => Err EParse
  | Some fsz =>
      do items <- build (mkSettings theme bg fsz ff lid) (dedup elements) (dedup classes);
      Ok (defs_of items, styles_of items)
  end.

Definition run_autostyles (add_auto has_root : bool) (evs : list (string * list string))
           (theme bg fs ff : string) (lid : option string) : option (res (list string * list string)) :=
  match parse_f32 fs with
  | None => Some (Err EParse)
  | Some fsz =>
      match auto_styles add_auto has_root (mkSettings theme bg fsz ff lid) evs with
      | None => None
      | Some r => Some (do items <- r; Ok (defs_of items, styles_of items))
      end
  end.
