(* Mirrors svgdx src/expression.rs: tokenize, the recursive-descent evaluator
   (expr_list / logical / comparison / term / factor / primary, lookup with the circular
   reference check and the nesting guard MAX_EXPR_DEPTH), eval_vars, eval_expr, eval_str,
   eval_attr, eval_condition, eval_list. Definitions only.

   The Rust evaluator walks a token vector with an index; here every function receives the
   remaining tokens and returns the rest. `prev()` is used by expr_list only, to see whether it
   was entered right after an OpenParen; that is the [after_open] flag of the call (true at the
   two call sites which follow an OpenParen, false at index 0 of a fresh EvalState).

   The mutually recursive functions are the cases of ONE function [run_body], selected by a
   [call] descriptor; recursive calls go through its parameter [rec], and [run] ties the knot
   by recursion on fuel. Statements about all of them are then single inductions on fuel over
   properties of [run_body]. Each Rust function is one case; `?` is the bind of Base.Res. *)
From Coq Require Import String Ascii List Bool Arith ZArith.
From SvgdxModel Require Import Base.Str Base.Res Num.NumOps Num.XOps Gen.Tables Model.Funcs.
Import ListNotations.
Open Scope string_scope.

Section Expr.
Context {N : NumOps} (X : XOps N).
(* the context of an evaluation: ContextView::get_var, the value of an element reference
   token (`#id~w`; the element map is outside this model), and a bound on the number of tokens
   of any variable's text (used for the fuel only) *)
Context (getvar : string -> option string) (elref_val : string -> res (num N)) (vbound : nat).
Local Notation num := (num N).
Local Notation value := (@value N).
Local Notation est := (est X).

Inductive token :=
| TNum (x : num) | TVar (s : string) | TElRef (s : string) | TStr (s : string) | TSym (s : string)
| TOpen | TClose | TComma | TAdd | TSub | TMul | TDiv | TMod.

(* ---------------- tokenizer ---------------- *)
Definition is_sym_char (c : ascii) : bool := (is_ascii_alnum c || Ascii.eqb c "_")%bool.

(* valid_variable_name (`var[1..]` is reached only after the first character was seen) *)
Definition valid_variable_name (var : string) : res string :=
  match var with
  | EmptyString => Err EParse
  | String c r =>
      if is_ascii_alpha c then (if forall_char is_sym_char r then Ok var else Err EParse)
      else Err EParse
  end.

Definition valid_symbol (s : string) : bool :=
  match s with
  | String c r => ((is_ascii_alpha c || Ascii.eqb c "_") && forall_char is_sym_char r)%bool
  | EmptyString => false
  end.

Definition tokenize_atom (input : string) : res token :=
  match strip_prefix "$" input with
  | Some inp =>
      let var_name := match strip_prefix "{" inp with
                      | Some inner => strip_suffix "}" inner
                      | None => Some inp end in
      match var_name with
      | Some var => do v <- valid_variable_name var; Ok (TVar v)
      | None => Err EParse end
  | None =>
      if (starts_with "#" input || starts_with "^" input)%bool then Ok (TElRef input)
      else match xparse X input with
           | Some x => Ok (TNum x)
           | None => if valid_symbol input then Ok (TSym input) else Err EParse
           end
  end.

(* what the non-quoted branch of the tokenizer loop makes of one character *)
Inductive tclass := KTok (t : token) | KSpace | KQuote | KOther (starts_elref : bool).
Definition classify (ch : ascii) (in_elref : bool) : tclass :=
  if Ascii.eqb ch "(" then KTok TOpen else if Ascii.eqb ch ")" then KTok TClose
  else if Ascii.eqb ch "+" then KTok TAdd
  else if (Ascii.eqb ch "-" && negb in_elref)%bool then KTok TSub
  else if Ascii.eqb ch "*" then KTok TMul else if Ascii.eqb ch "/" then KTok TDiv
  else if Ascii.eqb ch "%" then KTok TMod else if Ascii.eqb ch "," then KTok TComma
  else if (Ascii.eqb ch " " || Ascii.eqb ch (chr 9))%bool then KSpace
  else if (Ascii.eqb ch "'" || Ascii.eqb ch """")%bool then KQuote
  else if Ascii.eqb ch "#" then KOther true
  else KOther false.

Definition flush (buf : string) (toks : list token) : res (list token) :=
  match buf with
  | EmptyString => Ok toks
  | _ => do t <- tokenize_atom (srev buf); Ok (t :: toks)
  end.

(* toks and buf are kept reversed (rev_append: the linear-time reversal) *)
Fixpoint tok_loop (s : string) (toks : list token) (buf : string) (in_elref : bool)
         (in_quote : option ascii) (esc : bool) : res (list token) :=
  match s with
  | EmptyString =>
      match buf with
      | EmptyString => Ok (rev_append toks [])
      | _ => match in_quote with
             | Some _ => Err EParse
             | None => do toks' <- flush buf toks; Ok (rev_append toks' []) end
      end
  | String ch r =>
      match in_quote with
      | Some qt =>
          if (Ascii.eqb ch qt && negb esc)%bool then tok_loop r (TStr (srev buf) :: toks) "" in_elref None false
          else if (Ascii.eqb ch "\" && negb esc)%bool then tok_loop r toks buf in_elref in_quote true
          else if (Ascii.eqb ch "n" && esc)%bool then tok_loop r toks (String nl buf) in_elref in_quote false
          else tok_loop r toks (String ch buf) in_elref in_quote false
      | None =>
          match classify ch in_elref with
          | KQuote => tok_loop r toks buf in_elref (Some ch) esc
          | KOther e => tok_loop r toks (String ch buf) (in_elref || e)%bool None esc
          | KSpace => do toks' <- flush buf toks; tok_loop r toks' "" false None esc
          | KTok t => do toks' <- flush buf toks; tok_loop r (t :: toks') "" false None esc
          end
      end
  end.
Definition tokenize (input : string) : res (list token) := tok_loop input [] "" false None false.

(* ---------------- operators ---------------- *)
Inductive cmpop := OEq | ONe | OGt | OGe | OLt | OLe.
Inductive logop := OAnd | OOr | OXor.
Definition cmp_of_variant : list (string * cmpop) :=
  [("Eq", OEq); ("Ne", ONe); ("Gt", OGt); ("Ge", OGe); ("Lt", OLt); ("Le", OLe)].
Definition log_of_variant : list (string * logop) := [("And", OAnd); ("Or", OOr); ("Xor", OXor)].
(* ComparisonOp::from_str / LogicalOp::from_str over the generated tables *)
Definition comparison_op (s : string) : option cmpop :=
  match assoc s comparison_ops with Some v => assoc v cmp_of_variant | None => None end.
Definition logical_op (s : string) : option logop :=
  match assoc s logical_ops with Some v => assoc v log_of_variant | None => None end.

Definition apply_cmp (op : cmpop) (a b : num) : bool :=
  match op with
  | OEq => neqb N a b | ONe => negb (neqb N a b)
  | OGt => nltb N b a | OGe => nleb N b a
  | OLt => nltb N a b | OLe => nleb N a b
  end.
Definition apply_log (op : logop) (a b : num) : bool :=
  match op with
  | OAnd => (nonzero a && nonzero b)%bool
  | OOr => (nonzero a || nonzero b)%bool
  | OXor => negb (Bool.eqb (nonzero a) (nonzero b))
  end.

(* ---------------- evaluator ---------------- *)
Inductive call :=
| CExprList (after_open : bool)      (* expr_list *)
| CListLoop (out : list (@sval N))   (*   its loop *)
| CLogical                           (* expr = logical *)
| CLogicalLoop (e : value)           (*   its while loop *)
| CComparison
| CTerm | CTermLoop (e : num)
| CFactor | CFactorLoop (e : num)
| CPrimary                           (* primary + primary_inner *)
| CLookup (v : string).              (* EvalState::lookup; returns the caller's tokens untouched *)

Definition R := res (value * list token * est).

(* element_ref in the context of the hook (no elements): see run_* in Model/ExprRun.v *)

(* one unfolding of the evaluator; [rec] is the evaluator with one unit of fuel less *)
Definition run_body (rec : call -> list string -> nat -> list token -> est -> R)
           (c : call) (cv : list string) (d : nat) (ts : list token) (st : est) : R :=
    match c with
    | CExprList after_open =>
        match after_open, ts with
        | true, TClose :: _ => Ok (VList [], ts, st)          (* empty argument list *)
        | _, _ => rec (CListLoop []) cv d ts st
        end
    | CListLoop out =>
        do '(e, ts1, st1) <- rec CLogical cv d ts st;
        let out := (out ++ flatten e)%list in
        match ts1 with
        | TComma :: r => rec (CListLoop out) cv d r st1
        | _ => Ok (VList out, ts1, st1)
        end
    | CLogical =>
        do '(e, ts1, st1) <- rec CComparison cv d ts st;
        rec (CLogicalLoop e) cv d ts1 st1
    | CLogicalLoop e =>
        match ts with
        | TSym s :: r =>
            match logical_op s with
            | Some op =>
                do '(o, ts1, st1) <- rec CComparison cv d r st;
                do other <- one_number o;
                do e1 <- one_number e;
                rec (CLogicalLoop (VNum (of_bool (apply_log op e1 other)))) cv d ts1 st1
            | None => Ok (e, ts, st)
            end
        | _ => Ok (e, ts, st)
        end
    | CComparison =>
        do '(t, ts1, st1) <- rec CTerm cv d ts st;
        match one_number t with
        | Ok first =>
            match ts1 with
            | TSym s :: r =>
                match comparison_op s with
                | Some op =>
                    do '(t2, ts2, st2) <- rec CTerm cv d r st1;
                    do second <- one_number t2;
                    Ok (VNum (of_bool (apply_cmp op first second)), ts2, st2)
                | None => Ok (VNum first, ts1, st1)
                end
            | _ => Ok (VNum first, ts1, st1)
            end
        | _ => Ok (t, ts1, st1)
        end
    | CTerm =>
        do '(t, ts1, st1) <- rec CFactor cv d ts st;
        match one_number t with
        | Ok e => rec (CTermLoop e) cv d ts1 st1
        | _ => Ok (t, ts1, st1)
        end
    | CTermLoop e =>
        match ts with
        | TAdd :: r =>
            do '(v, ts1, st1) <- rec CFactor cv d r st;
            do x <- one_number v; rec (CTermLoop (nadd N e x)) cv d ts1 st1
        | TSub :: r =>
            do '(v, ts1, st1) <- rec CFactor cv d r st;
            do x <- one_number v; rec (CTermLoop (nsub N e x)) cv d ts1 st1
        | _ => Ok (VNum e, ts, st)
        end
    | CFactor =>
        do '(p, ts1, st1) <- rec CPrimary cv d ts st;
        match one_number p with
        | Ok e => rec (CFactorLoop e) cv d ts1 st1
        | _ => Ok (p, ts1, st1)
        end
    | CFactorLoop e =>
        match ts with
        | TMul :: r =>
            do '(v, ts1, st1) <- rec CPrimary cv d r st;
            do x <- one_number v; rec (CFactorLoop (nmul N e x)) cv d ts1 st1
        | TDiv :: r =>
            do '(v, ts1, st1) <- rec CPrimary cv d r st;
            do x <- one_number v; rec (CFactorLoop (ndiv N e x)) cv d ts1 st1
        | TMod :: r =>
            do '(v, ts1, st1) <- rec CPrimary cv d r st;
            do x <- one_number v; rec (CFactorLoop (xrem_euclid X e x)) cv d ts1 st1
        | _ => Ok (VNum e, ts, st)
        end
    | CPrimary =>
        let d := S d in                                       (* eval_state.depth += 1 *)
        if Nat.ltb max_expr_depth d then Err EParse           (* nesting exceeds MAX_EXPR_DEPTH *)
        else
        match ts with
        | TNum x :: r => Ok (VNum x, r, st)
        | TStr s :: r => Ok (VOne (SStr s), r, st)
        | TVar v :: r => rec (CLookup v) cv d r st
        | TElRef v :: r => do x <- elref_val v; Ok (VNum x, r, st)
        | TOpen :: r =>
            do '(e, ts1, st1) <- rec (CExprList true) cv d r st;
            match ts1 with TClose :: r1 => Ok (e, r1, st1) | _ => Err EParse end
        | TSub :: r =>                                        (* unary minus *)
            do '(v, ts1, st1) <- rec CPrimary cv d r st;
            do x <- one_number v; Ok (VNum (nneg N x), ts1, st1)
        | TSym name :: r =>
            do fn <- function_of name;
            match r with
            | TOpen :: r1 =>
                do '(args, ts1, st1) <- rec (CExprList true) cv d r1 st;
                do '(e, st2) <- eval_function X fn args st1;
                match ts1 with TClose :: r2 => Ok (e, r2, st2) | _ => Err EParse end
            | _ => Err EParse
            end
        | _ :: _ => Err EParse                                (* Invalid token in primary() *)
        | [] => Err EParse                                    (* Unexpected end of input *)
        end
    | CLookup v =>
        if mem_str v cv then Err ECircularRef
        else
        match getvar v with
        | None => Err EParse                                  (* Could not evaluate variable *)
        | Some inner =>
            do toks <- tokenize inner;
            match toks with
            | [] => Ok (VList [], ts, st)
            | _ =>
                do '(e, rest, st1) <- rec (CExprList false) (v :: cv) d toks st;
                match rest with [] => Ok (e, ts, st1) | _ => Err EParse end
            end
        end
    end.

Fixpoint run (f : nat) : call -> list string -> nat -> list token -> est -> R :=
  match f with
  | O => fun _ _ _ _ _ => OutOfFuel
  | S f => run_body (run f)
  end.

(* fuel that always suffices (Proofs/ExprP.v, fuel_sufficient): the recursion depth is at most
   [step] per token of the current list plus, for each of the at most max_expr_depth nested
   variable texts, [step] per token of that text *)
Definition step : nat := 12.
Definition fuel_for (ts : list token) : nat :=
  step * (length ts + 1) + (max_expr_depth + 1) * (step * (vbound + 2)).

(* evaluate / evaluate_inner *)
Definition evaluate (ts : list token) (st : est) : res (value * est) :=
  do '(e, rest, st1) <- run (fuel_for ts) (CExprList false) [] 0 ts st;
  match rest with [] => Ok (e, st1) | _ => Err EParse end.

(* eval_str *)
Definition eval_str (s : string) (st : est) : res (string * est) :=
  do toks <- tokenize s;
  do '(v, st1) <- evaluate toks st;
  Ok (value_display X v, st1).

(* ---------------- eval_vars ---------------- *)
Definition var_or (name dflt : string) : string :=
  match getvar name with Some v => v | None => dflt end.

Fixpoint eval_vars_loop (n : nat) (value result : string) : res string :=
  match n with
  | O => OutOfFuel
  | S n' =>
    match value with
    | EmptyString => Ok result
    | _ =>
      match break_at (Ascii.eqb "$") value with
      | (prefix, Some (_, remain)) =>                       (* remain = text after the '$' *)
          match strip_prefix "\" prefix with
          | Some esc_prefix => eval_vars_loop n' remain (result ++ esc_prefix ++ "$")
          | None =>
              let result := result ++ prefix in
              match strip_prefix "{" remain with
              | Some inner =>
                  match break_at (Ascii.eqb "}") inner with
                  | (name, Some (_, after)) =>
                      eval_vars_loop n' after (result ++ var_or name ("${" ++ name ++ "}"))
                  | (_, None) => Ok (result ++ "${" ++ inner)
                  end
              | None =>
                  match break_at (fun c => negb (is_alnum c || Ascii.eqb c "_")) remain with
                  | (var, Some (c, rest)) =>
                      eval_vars_loop n' (String c rest) (result ++ var_or var ("$" ++ var))
                  | (var, None) => Ok (result ++ var_or var ("$" ++ var))
                  end
              end
          end
      | (_, None) => Ok (result ++ value)
      end
    end
  end.
Definition eval_vars (value : string) : res string :=
  eval_vars_loop (S (String.length value)) value "".

(* ---------------- eval_expr ---------------- *)
Fixpoint eval_expr_loop (n : nat) (value result : string) (st : est) : res (string * est) :=
  match n with
  | O => OutOfFuel
  | S n' =>
    match find_sub "{{" value with
    | Some (before, after) =>
        match find_sub "}}" after with
        | Some (inner, rest) =>
            do '(s, st1) <- eval_str inner st;
            eval_expr_loop n' rest (result ++ before ++ s) st1
        | None => Ok (result ++ before ++ "{{" ++ after, st)   (* no closing braces: the text is kept as it was *)
        end
    | None => Ok (result ++ value, st)
    end
  end.
Definition eval_expr (value : string) (st : est) : res (string * est) :=
  eval_expr_loop (S (String.length value)) value "" st.

Definition eval_attr (value : string) (st : est) : res (string * est) :=
  do v <- eval_vars value; eval_expr v st.

Definition strip_expr_braces (value : string) : res string :=
  match strip_prefix "{{" value with
  | Some inner => of_opt EParse (strip_suffix "}}" inner)
  | None => Ok value
  end.

Definition eval_condition (value : string) (st : est) : res (bool * est) :=
  do v <- strip_expr_braces value;
  do '(s, st1) <- eval_str v st;
  match xparse X s with
  | Some x => Ok (nonzero x, st1)
  | None => Err EParse
  end.

Definition eval_list (value : string) (st : est) : res (list string * est) :=
  do v <- strip_expr_braces value;
  do toks <- tokenize v;
  do '(e, st1) <- evaluate toks st;
  Ok (to_string_vec X e, st1).

End Expr.

Arguments TNum {N}. Arguments TVar {N}. Arguments TElRef {N}. Arguments TStr {N}. Arguments TSym {N}.
Arguments TOpen {N}. Arguments TClose {N}. Arguments TComma {N}. Arguments TAdd {N}. Arguments TSub {N}.
Arguments TMul {N}. Arguments TDiv {N}. Arguments TMod {N}.
Arguments CExprList {N}. Arguments CListLoop {N}. Arguments CLogical {N}. Arguments CLogicalLoop {N}.
Arguments CComparison {N}. Arguments CTerm {N}. Arguments CTermLoop {N}. Arguments CFactor {N}.
Arguments CFactorLoop {N}. Arguments CPrimary {N}. Arguments CLookup {N}.
