(* Mirrors svgdx src/position.rs: Position (extent, three_point, to_bbox, From<&SvgElement>,
   set_position_attrs, position_via_transform). *)
From Coq Require Import String Ascii List Bool ZArith.
From SvgdxModel Require Import Base.Str Base.Res Num.NumOps Gen.Tables Model.Types Model.Geom.
Import ListNotations.
Open Scope string_scope.

Section WithNum.
Context (N : NumOps) (strp : string -> option (num N)) (fstr : num N -> string)
        (fdisplay : num N -> string).
Local Notation num := (num N).
Local Notation "a +. b" := (nadd N a b) (at level 50, left associativity).
Local Notation "a -. b" := (nsub N a b) (at level 50, left associativity).
Local Notation "a *. b" := (nmul N a b) (at level 40, left associativity).
Local Notation "a /. b" := (ndiv N a b) (at level 40, left associativity).
Local Notation two := (two N).
Local Notation zero := (zero N).
Local Notation bbox := (bbox N).

Definition extent (line : bool) (s e m l : option num) : option (num * num) :=
  match s, e, m, l with
  | Some s, Some e, _, _ => Some (s, e)
  | Some s, _, Some m, _ => Some (s, s +. (m -. s) *. two)
  | _, Some e, Some m, _ => Some (e -. (e -. m) *. two, e)
  | Some s, _, _, Some l => Some (s, s +. l)
  | _, Some e, _, Some l => Some (e -. l, e)
  | _, _, Some m, Some l => Some (m -. l /. two, m +. l /. two)
  | Some m, None, None, None => if line then Some (m, m) else None
  | None, Some m, None, None => if line then Some (m, m) else None
  | None, None, Some m, None => if line then Some (m, m) else None
  | _, _, _, _ => None
  end.

Definition three_point (ext : num) (s m e : option num) : option (num * num) :=
  match s, m, e with
  | Some s, _, _ => Some (s, s +. ext)
  | _, Some m, _ => Some (m -. ext /. two, m +. ext /. two)
  | _, _, Some e => Some (e -. ext, e)
  | _, _, _ => None
  end.

Record position := {
  pxmin : option num; pymin : option num; pxmax : option num; pymax : option num;
  pcx : option num; pcy : option num; pwidth : option num; pheight : option num;
  pdx : option num; pdy : option num; pshape : string }.

Definition x_def (p : position) := extent (String.eqb (pshape p) "line") (pxmin p) (pxmax p) (pcx p) (pwidth p).
Definition y_def (p : position) := extent (String.eqb (pshape p) "line") (pymin p) (pymax p) (pcy p) (pheight p).
Definition mkbb (x1 y1 x2 y2 : num) : bbox := {| bx1 := x1; by1 := y1; bx2 := x2; by2 := y2 |}.
Definition oor (a b : option num) : option num := match a with Some _ => a | None => b end.

Definition to_bbox (p : position) : option bbox :=
  match x_def p, y_def p with
  | Some (x1, x2), Some (y1, y2) => Some (mkbb x1 y1 x2 y2)
  | xe, ye =>
      if String.eqb (pshape p) "point" then
        match oor (pxmin p) (oor (pxmax p) (pcx p)), oor (pymin p) (oor (pymax p) (pcy p)) with
        | Some x, Some y => Some (mkbb x y x y)
        | _, _ => None end
      else if String.eqb (pshape p) "circle" then
        match xe, ye with
        | Some (x1, x2), _ =>
            match three_point (x2 -. x1) (pymin p) (pcy p) (pymax p) with
            | Some (y1, y2) => Some (mkbb x1 y1 x2 y2)
            | None => let r := (x2 -. x1) /. two in Some (mkbb x1 (nneg N r) x2 r)
            end
        | None, Some (y1, y2) =>
            match three_point (y2 -. y1) (pxmin p) (pcx p) (pxmax p) with
            | Some (x1, x2) => Some (mkbb x1 y1 x2 y2)
            | None => let r := (y2 -. y1) /. two in Some (mkbb (nneg N r) y1 r y2)
            end
        | None, None =>
            match oor (pwidth p) (pheight p) with
            | Some d => let r := d /. two in Some (mkbb (nneg N r) (nneg N r) r r)
            | None => None end
        end
      else
        match pwidth p, pheight p with
        | Some w, Some h =>
            match xe, ye with
            | Some (x1, x2), _ => Some (mkbb x1 zero x2 h)
            | None, Some (y1, y2) => Some (mkbb zero y1 w y2)
            | None, None => Some (mkbb zero zero w h)
            end
        | _, _ => None
        end
  end.

Definition is_some {A} (o : option A) : bool := match o with Some _ => true | None => false end.
Definition has_x_position (p : position) : bool :=
  (is_some (pxmin p) || is_some (pxmax p) || is_some (pcx p) || is_some (pdx p))%bool.
Definition has_y_position (p : position) : bool :=
  (is_some (pymin p) || is_some (pymax p) || is_some (pcy p) || is_some (pdy p))%bool.
Definition pos_x (p : position) : num :=
  match x_def p with Some (x1, _) => x1 | None => match pxmin p with Some x => x | None => zero end end.
Definition pos_y (p : position) : num :=
  match y_def p with Some (y1, _) => y1 | None => match pymin p with Some y => y | None => zero end end.
Definition odf (o : option num) : num := match o with Some v => v | None => zero end.

(* From<&SvgElement> for Position *)
Definition getnum (a : attrs) (k : string) : option num :=
  match get a k with Some v => strp v | None => None end.
Definition get_or (a : attrs) (k1 k2 : string) : option string :=
  match get a k1 with Some v => Some v | None => get a k2 end.
Definition position_of (name : string) (a : attrs) : position :=
  let x := match get_or a "x1" "x" with Some v => strp v | None => None end in
  let y := match get_or a "y1" "y" with Some v => strp v | None => None end in
  let wh_ok := negb (String.eqb name "reuse" || String.eqb name "use")%bool in
  let w0 := if wh_ok then getnum a "width" else None in
  let h0 := if wh_ok then getnum a "height" else None in
  let round := (String.eqb name "circle" || String.eqb name "ellipse")%bool in
  let rx := match get_or a "rx" "r" with Some v => strp v | None => None end in
  let ry := match get_or a "ry" "r" with Some v => strp v | None => None end in
  let w := if round then match rx with Some r => Some (r *. two) | None => w0 end else w0 in
  let h := if round then match ry with Some r => Some (r *. two) | None => h0 end else h0 in
  {| pxmin := x; pymin := y; pxmax := getnum a "x2"; pymax := getnum a "y2";
     pcx := getnum a "cx"; pcy := getnum a "cy"; pwidth := w; pheight := h;
     pdx := getnum a "dx"; pdy := getnum a "dy"; pshape := name |}.

Definition arm_remove (name : string) : list string :=
  match find (fun arm => mem_str name (fst (fst arm))) position_arms with
  | Some arm => snd arm | None => [] end.
Definition arm_of (name : string) : string :=
  match find (fun arm => mem_str name (fst (fst arm))) position_arms with
  | Some arm => match fst (fst arm) with x :: _ => if String.eqb x "" then "rect" else x | [] => "" end
  | None => "" end.

Definition line_coord (a : attrs) (k : string) (bbv : num) (d : option num) : attrs :=
  match get a k with
  | None => set a k (fstr (bbv +. odf d))
  | Some v => match d with
              | Some dv => match strp v with Some x => set a k (fstr (x +. dv)) | None => a end
              | None => a end
  end.

Definition position_via_transform (p : position) (a : attrs) : attrs :=
  let x := match pdx p with Some d => pos_x p +. d | None => pos_x p end in
  let y := match pdy p with Some d => pos_y p +. d | None => pos_y p end in
  if (negb (neqb N x zero) || negb (neqb N y zero))%bool then
    let t := "translate(" ++ fdisplay x ++ ", " ++ fdisplay y ++ ")" in
    let t := match get a "transform" with Some e => e ++ " " ++ t | None => t end in
    remove_attrs (set a "transform" t) via_transform_remove
  else a.

Definition set_position_attrs (p : position) (name : string) (a : attrs) : attrs :=
  match to_bbox p with
  | Some bb =>
      let arm := arm_of name in
      if String.eqb arm "rect" then
        let a := if has_x_position p then set a "x" (fstr (bx1 bb +. odf (pdx p))) else a in
        let a := if has_y_position p then set a "y" (fstr (by1 bb +. odf (pdy p))) else a in
        let a := if String.eqb name "use" then a
                 else set (set a "width" (fstr (bb_width N bb))) "height" (fstr (bb_height N bb)) in
        remove_attrs a (arm_remove name)
      else if String.eqb arm "g" then
        if (negb (neqb N (bx1 bb) zero) || negb (neqb N (by1 bb) zero))%bool then
          let t := "translate(" ++ fdisplay (bx1 bb) ++ ", " ++ fdisplay (by1 bb) ++ ")" in
          let t := match get a "transform" with Some e => e ++ " " ++ t | None => t end in
          set a "transform" t
        else a
      else if String.eqb arm "circle" then
        let '(cx, cy) := bb_center N bb in
        let a := if has_x_position p then set a "cx" (fstr (cx +. odf (pdx p))) else a in
        let a := if has_y_position p then set a "cy" (fstr (cy +. odf (pdy p))) else a in
        remove_attrs (set a "r" (fstr (bb_width N bb /. two))) (arm_remove name)
      else if String.eqb arm "ellipse" then
        let '(cx, cy) := bb_center N bb in
        let a := if has_x_position p then set a "cx" (fstr (cx +. odf (pdx p))) else a in
        let a := if has_y_position p then set a "cy" (fstr (cy +. odf (pdy p))) else a in
        let a := set a "rx" (fstr (bb_width N bb /. two)) in
        let a := set a "ry" (fstr (bb_height N bb /. two)) in
        remove_attrs a (arm_remove name)
      else if String.eqb arm "line" then
        let a := line_coord a "x1" (bx1 bb) (pdx p) in
        let a := line_coord a "y1" (by1 bb) (pdy p) in
        let a := line_coord a "x2" (bx2 bb) (pdx p) in
        let a := line_coord a "y2" (by2 bb) (pdy p) in
        remove_attrs a (arm_remove name)
      else a
  | None => if mem_str name via_transform_elements then position_via_transform p a else a
  end.
End WithNum.
