(* Mirrors svgdx src/text.rs: text_string, get_text_position, process_text_attr. *)
From Coq Require Import String Ascii List Bool ZArith.
From SvgdxModel Require Import Base.Str Base.Res Num.NumOps Gen.Tables Model.Types Model.Geom
  Model.Position Model.Scan Model.Element.
Import ListNotations.
Open Scope string_scope.

(* ---- text_string: "\n" (backslash, n) becomes a line break unless that backslash is itself escaped ---- *)
Definition bsl : ascii := ascii_of_nat 92.
(* Left-to-right scan.  [prev_bs]: the previous character of the current search window was a backslash; the
   Rust loop restarts its window after every match, hence the flag is reset there.  For an escaped match
   the code emits the window without its last backslash followed by backslash-n; the model has already
   emitted that backslash as an ordinary character and only adds the "n". *)
Fixpoint text_string_go (s : string) (prev_bs : bool) : string :=
  match s with
  | EmptyString => ""
  | String c r =>
      if Ascii.eqb c bsl then
        match r with
        | String d r2 =>
            if Ascii.eqb d "n" then
              (if prev_bs then String "n" (text_string_go r2 false) else String nl (text_string_go r2 false))
            else String c (text_string_go r true)
        | EmptyString => String c ""
        end
      else String c (text_string_go r false)
  end.
Definition text_string (s : string) : string := text_string_go s false.

(* str::lines: split at line feeds, drop a carriage return directly before the line feed, no final empty line *)
Definition strip_cr_rev (rcur : string) : string :=      (* rcur: the line reversed *)
  match rcur with String c r => if Nat.eqb (byte_of c) 13 then r else rcur | _ => rcur end.
Fixpoint lines_go (s : string) (rcur : string) : list string :=
  match s with
  | EmptyString => if nonempty rcur then [srev rcur] else []
  | String c r => if Ascii.eqb c nl then srev (strip_cr_rev rcur) :: lines_go r "" else lines_go r (String c rcur)
  end.
Definition lines (s : string) : list string := lines_go s "".

Definition zwsp : string := String (ascii_of_nat 226) (String (ascii_of_nat 128) (String (ascii_of_nat 139) "")).
Definition nbsp : string := String (ascii_of_nat 194) (String (ascii_of_nat 160) "").
Definition has_class (c : classes) (x : string) : bool := mem_str x c.

Section WithNum.
Context (N : NumOps) (strp : string -> option (num N)) (fstr : num N -> string).
Local Notation num := (num N).
Local Notation "a +. b" := (nadd N a b) (at level 50, left associativity).
Local Notation "a -. b" := (nsub N a b) (at level 50, left associativity).
Local Notation "a *. b" := (nmul N a b) (at level 40, left associativity).
Local Notation "a /. b" := (ndiv N a b) (at level 40, left associativity).
Local Notation el := (el N).
Local Notation zero := (zero N).

Definition align_row (side : string) : ((string * string * string * string) * (string * bool * bool)) :=
  match assoc side text_align_table with Some r => r | None => (("", "", "", ""), ("", false, false)) end.
Definition pick_class (r : string * string * string * string) (outside vertical : bool) : string :=
  let '(ii, oi, iv, ov) := r in
  match outside, vertical with false, false => ii | true, false => oi | false, true => iv | true, true => ov end.
(* one side test of get_text_position: pushes the class and moves the offset *)
Definition apply_side (side : string) (outside vertical : bool) (off : num)
           (st : list string * num * num) : list string * num * num :=
  let '(cls, dx, dy) := st in
  let '(names, (axis, neg_out, neg_in)) := align_row side in
  let neg := if outside then neg_out else neg_in in
  let d := if neg then nneg N off else off in
  ((cls ++ [pick_class names outside vertical])%list,
   if String.eqb axis "dx" then dx +. d else dx,
   if String.eqb axis "dy" then dy +. d else dy).

Record textpos := { tp_x : num; tp_y : num; tp_outside : bool; tp_loc : locspec N; tp_classes : list string }.

(* get_text_position; returns the element with the consumed attributes / classes removed *)
Definition get_text_position (e : el) : res (el * textpos) :=
  let dx := eget N e "text-dx" in let dy := eget N e "text-dy" in let dxy := eget N e "text-dxy" in
  let e := epop N (epop N (epop N e "text-dx") "text-dy") "text-dxy" in
  do '(tdx0, tdy0) <-
    (match dxy with
     | None => Ok (zero, zero)
     | Some v => match cycle2 (attr_split v) with
                 | (Some a, Some b0) => match strp a with
                                        | Some x => match strp b0 with Some y => Ok (x, y) | None => Err EParse end
                                        | None => Err EParse end
                 | _ => Err EParse end
     end);
  do tdx1 <- (match dx with Some v => of_opt EParse (strp v) | None => Ok tdx0 end);
  do tdy1 <- (match dy with Some v => of_opt EParse (strp v) | None => Ok tdy0 end);
  let loc_str := match eget N e "text-loc" with Some v => v | None => "c" end in
  let e := epop N e "text-loc" in
  do loc <- parse_locspec N strp loc_str;
  let off_str := match eget N e "text-offset" with Some v => v | None => "1" end in
  let e := epop N e "text-offset" in
  do off <- of_opt EParse (strp off_str);
  let vertical := has_class (ecls N e) "d-text-vertical" in
  let '(outside, e) :=
    if has_class (ecls N e) "d-text-outside" then (true, with_cls N e (cl_remove (ecls N e) "d-text-outside"))
    else if has_class (ecls N e) "d-text-inside" then (false, with_cls N e (cl_remove (ecls N e) "d-text-inside"))
    else (mem_str (ename N e) text_outside_elements, e) in
  let st := (["d-text"], tdx1, tdy1) in
  let st := if loc_is_top N loc then apply_side "top" outside vertical off st
            else if loc_is_bottom N loc then apply_side "bottom" outside vertical off st else st in
  let st := if loc_is_left N loc then apply_side "left" outside vertical off st
            else if loc_is_right N loc then apply_side "right" outside vertical off st else st in
  let '(cls, tdx, tdy) := st in
  do obb <- el_bbox N strp e;
  match obb with
  | None => Err EMissingBBox
  | Some bb => let '(px, py) := bb_locspec N bb loc in
               Ok (e, {| tp_x := px +. tdx; tp_y := py +. tdy; tp_outside := outside; tp_loc := loc; tp_classes := cls |})
  end.

Definition ignored_class (c : string) : bool :=
  (mem_str c text_ignore_classes || existsb (fun p => starts_with p c) text_ignore_prefixes)%bool.
Fixpoint replace_space (s : string) : string :=
  match s with EmptyString => "" | String c r => (if Ascii.eqb c " " then nbsp else String c "") ++ replace_space r end.

(* an output text element: name, attributes, classes, character content *)
Definition telem := (string * attrs * classes * string)%type.

Definition process_text_attr (e0 : el) : res (el * list telem) :=
  match eget N e0 "text" with
  | None => Panic "no text attr in process_text_attr"
  | Some tv =>
  let text_value := text_string tv in
  let e := epop N e0 "text" in
  do '(e, tp) <- get_text_position e;
  let x_str := fstr (tp_x tp) in let y_str := fstr (tp_y tp) in
  let ls := lines text_value in
  let count := List.length ls in
  let multiline := Nat.ltb 1 count in
  let vertical := has_class (ecls N e) "d-text-vertical" in
  let text_pre := has_class (ecls N e) "d-text-pre" in
  let te0 : attrs * classes := if String.eqb (ename N e) "text" then (eattrs N e, ecls N e) else ([], []) in
  let ta := set (set (fst te0) "x" x_str) "y" y_str in
  let lsp_str := match eget N e "text-lsp" with Some v => v | None => "1.05" end in
  let e := epop N e "text-lsp" in
  do lsp <- of_opt EParse (strp lsp_str);
  let style := eget N e "text-style" in
  let e := epop N e "text-style" in
  let ta := match style with Some s => set ta "style" s | None => ta end in
  (* class split: text related classes leave the shape, non-ignored classes are copied to the text *)
  let orig_classes := ecls N e in
  let e := with_cls N e (fold_left (fun acc c => if starts_with "d-text-" c then cl_remove acc c else acc) orig_classes orig_classes) in
  let tcls := cl_of_list (tp_classes tp ++ filter (fun c => negb (ignored_class c)) orig_classes) in
  let ta := if vertical then set ta "writing-mode" "tb" else ta in
  let '(e, ta) := fold_left (fun (st : el * attrs) k =>
                               match eget N (fst st) k with
                               | Some v => (epop N (fst st) k, set (snd st) k v)
                               | None => st end) text_presentation_attrs (e, ta) in
  let text_elem : telem := ("text", ta, tcls, text_value) in
  if negb multiline then Ok (e, [text_elem]) else
  let cnt := nofZ N (Z.of_nat count) in
  let one := nofZ N 1 in
  let wrap_down := zero in
  let wrap_up := nmul N (nneg N (cnt -. one)) lsp in
  let wrap_mid := nmul N (ndiv N (nneg N (cnt -. one)) (nofZ N 2)) lsp in
  let loc := tp_loc tp in
  let first :=
    match tp_outside tp, vertical with
    | false, false => if loc_is_top N loc then wrap_down else if loc_is_bottom N loc then wrap_up else wrap_mid
    | false, true => if loc_is_left N loc then wrap_down else if loc_is_right N loc then wrap_up else wrap_mid
    | true, false => if loc_is_top N loc then wrap_up else if loc_is_bottom N loc then wrap_down else wrap_mid
    | true, true => if loc_is_left N loc then wrap_up else if loc_is_right N loc then wrap_down else wrap_mid
    end in
  let tsa : attrs := match style with Some s => set [] "style" s | None => [] end in
  let tsa := if vertical then set tsa "y" y_str else set tsa "x" x_str in
  let ls := if vertical then rev ls else ls in
  let mk (idx : nat) (frag : string) : telem :=
    let off := match idx with O => first | _ => lsp end in
    let frag := if text_pre then replace_space frag else frag in
    ("tspan", set tsa (if vertical then "dx" else "dy") (fstr off ++ "em"), [],
     if nonempty frag then frag else zwsp) in
  let fix go (idx : nat) (l : list string) : list telem :=
    match l with [] => [] | f :: r => mk idx f :: go (S idx) r end in
  Ok (e, text_elem :: go O ls)
  end.
End WithNum.
