(* Entry points of the expression model on the binary32 instance, in the shapes of the
   verif hooks eval_attr / eval_condition / eval_list (src/verif.rs): a fresh context holding
   only the given variables (later entries override earlier ones) and no elements. *)
From Coq Require Import String Ascii List Bool ZArith.
From SvgdxModel Require Import Base.Str Base.Res Num.F32 Num.NumOps Model.Pcg Num.XOps Gen.Tables
  Model.Types Model.Geom Model.Funcs Model.Expr.
Import ListNotations.
Open Scope string_scope.

Definition hook_getvar (vars : list (string * string)) (k : string) : option string := assoc k (rev vars).
Definition hook_vbound (vars : list (string * string)) : nat :=
  fold_left (fun m kv => Nat.max m (String.length (snd kv))) vars 0%nat.
(* EvalState::element_ref with an empty element map and no previous element *)
Definition hook_elref (v : string) : res f32 :=
  match parse_el_scalar v with
  | Ok (_, Some _) => Err EReference
  | _ => Err EParse
  end.
Definition hook_state (seed : Z) : est F32X := Build_est F32X (pcg_seed seed) 0%nat.

(* (result text, next word of the random stream, number of random calls) *)
Definition run_evalattr (value : string) (vars : list (string * string)) (seed : Z)
  : res (string * Z * Z) :=
  do '(s, st) <- eval_attr F32X (hook_getvar vars) hook_elref (hook_vbound vars) value (hook_state seed);
  Ok (s, fst (pcg_next (rs st)), Z.of_nat (calls st)).

Definition run_evalcond (value : string) (vars : list (string * string)) : res bool :=
  do '(b, st) <- eval_condition F32X (hook_getvar vars) hook_elref (hook_vbound vars) value (hook_state 0);
  Ok b.

Definition run_evallist (value : string) (vars : list (string * string)) : res (list string) :=
  do '(l, st) <- eval_list F32X (hook_getvar vars) hook_elref (hook_vbound vars) value (hook_state 0);
  Ok l.

(* the raw stream, for checking the generator model on its own *)
Fixpoint pcg_words (n : nat) (g : pcg) : list Z :=
  match n with O => [] | S k => let '(w, g1) := pcg_next g in w :: pcg_words k g1 end.
Definition run_rngwords (seed : Z) (n : Z) : list Z := pcg_words (Z.to_nat n) (pcg_seed seed).
