(* Mirrors svgdx src/connector.rs (ConnectionType, edge_locations, closest_loc, shortest_link,
   Connector::from_element, Connector::render) and the connector part of SvgElement::transmute
   (src/element.rs is_connector / transmute). The table-shaped parts (edge locations per
   connection type, location -> direction, connection type names, the 4x4 direction match of the
   corner routing with its default offsets, the attribute names that are popped / removed) come
   from Gen/Tables.v. *)
From Coq Require Import String Ascii List Bool ZArith.
From SvgdxModel Require Import Base.Str Base.Res Num.NumOps Gen.Tables Model.Types Model.Geom
  Model.Position Model.Scan Model.Element.
Import ListNotations.
Open Scope string_scope.

Inductive direction := DUp | DRight | DDown | DLeft.
Inductive conntype := Horizontal | Vertical | Corner | Straight.

Definition direction_name (d : direction) : string :=
  match d with DUp => "Up" | DRight => "Right" | DDown => "Down" | DLeft => "Left" end.
Definition direction_of_string (s : string) : option direction :=
  if String.eqb s "Up" then Some DUp else if String.eqb s "Right" then Some DRight
  else if String.eqb s "Down" then Some DDown else if String.eqb s "Left" then Some DLeft else None.
Definition conntype_name (c : conntype) : string :=
  match c with Horizontal => "Horizontal" | Vertical => "Vertical" | Corner => "Corner" | Straight => "Straight" end.
Definition conntype_of_string (s : string) : option conntype :=
  if String.eqb s "Horizontal" then Some Horizontal else if String.eqb s "Vertical" then Some Vertical
  else if String.eqb s "Corner" then Some Corner else if String.eqb s "Straight" then Some Straight else None.
Definition locname_name (l : locname) : string :=
  match l with TopLeft => "TopLeft" | Top => "Top" | TopRight => "TopRight" | Right => "Right"
  | BottomRight => "BottomRight" | Bottom => "Bottom" | BottomLeft => "BottomLeft" | Left => "Left"
  | Center => "Center" end.
Definition edgename_name (e : edgename) : string :=
  match e with TopEdge => "TopEdge" | RightEdge => "RightEdge" | BottomEdge => "BottomEdge" | LeftEdge => "LeftEdge" end.

(* ConnectionType::from_str: the generated arms, anything else is Straight *)
Definition conntype_from_str (s : string) : conntype :=
  match assoc s conntype_names with
  | Some n => match conntype_of_string n with Some c => c | None => Straight end
  | None => Straight end.

(* edge_locations, from the generated table (names that are not locations are dropped; the
   table is checked to contain none in Proofs/ConnectorP.v) *)
Definition edge_locnames (ct : conntype) : list locname :=
  match assoc (conntype_name ct) edge_locations_tbl with
  | Some l => flat_map (fun n => match locname_of_string n with Some x => [x] | None => [] end) l
  | None => [] end.

(* ---- corner routing: the match over (start direction, end direction), as data ---- *)
Inductive cvar := VX1 | VY1 | VX2 | VY2 | VMid.
Definition cvar_of_string (s : string) : option cvar :=
  if String.eqb s "x1" then Some VX1 else if String.eqb s "y1" then Some VY1
  else if String.eqb s "x2" then Some VX2 else if String.eqb s "y2" then Some VY2
  else if String.eqb s "mid" then Some VMid else None.
Definition cvar_eqb (a b : cvar) : bool :=
  match a, b with VX1, VX1 | VY1, VY1 | VX2, VX2 | VY2, VY2 | VMid, VMid => true | _, _ => false end.
Inductive midkind := MNone | MCalc | MMinSub | MMinAdd | MMaxSub | MMaxAdd.
Definition midkind_of_string (s : string) : option midkind :=
  if String.eqb s "none" then Some MNone else if String.eqb s "calc" then Some MCalc
  else if String.eqb s "min-" then Some MMinSub else if String.eqb s "min+" then Some MMinAdd
  else if String.eqb s "max-" then Some MMaxSub else if String.eqb s "max+" then Some MMaxAdd else None.
Record plan := { ppoints : list (cvar * cvar); pmid : midkind; pdflt : string; pa : cvar; pb : cvar }.

Fixpoint conv_points (l : list (string * string)) : option (list (cvar * cvar)) :=
  match l with
  | [] => Some []
  | (a, b) :: r => match cvar_of_string a, cvar_of_string b, conv_points r with
                   | Some x, Some y, Some t => Some ((x, y) :: t) | _, _, _ => None end
  end.
Definition conv_row (row : list (string * string) * list (string * string) * (string * string * string * string))
  : option plan :=
  let '(_, pts, (mk, dflt, a, b)) := row in
  match conv_points pts, midkind_of_string mk with
  | Some p, Some MNone => Some {| ppoints := p; pmid := MNone; pdflt := dflt; pa := VX1; pb := VX1 |}
  | Some p, Some k => match cvar_of_string a, cvar_of_string b with
                      | Some x, Some y => Some {| ppoints := p; pmid := k; pdflt := dflt; pa := x; pb := y |}
                      | _, _ => None end
  | _, _ => None end.
Definition pair_in (sd ed : string) (l : list (string * string)) : bool :=
  existsb (fun p => (String.eqb (fst p) sd && String.eqb (snd p) ed)%bool) l.
(* first matching arm, as in a Rust match *)
Definition corner_plan (sd ed : direction) : option plan :=
  match find (fun row => pair_in (direction_name sd) (direction_name ed) (fst (fst row))) corner_arms_tbl with
  | Some row => conv_row row
  | None => None end.

Section WithNum.
Context (N : NumOps) (strp : string -> option (num N)) (fstr : num N -> string).
(* [big] is f32::MAX, the initial value of the minimum searches *)
Context (big : num N).
Local Notation num := (num N).
Local Notation "a +. b" := (nadd N a b) (at level 50, left associativity).
Local Notation "a -. b" := (nsub N a b) (at level 50, left associativity).
Local Notation "a *. b" := (nmul N a b) (at level 40, left associativity).
Local Notation "a /. b" := (ndiv N a b) (at level 40, left associativity).
Local Notation bbox := (bbox N).
Local Notation locspec := (locspec N).
Local Notation len := (Geom.length N).
Local Notation el := (el N).
Local Notation emap := (emap N).

Definition locspec_ctor (l : locspec) : string :=
  match l with LNamed n => locname_name n | LEdge e _ => edgename_name e end.
(* Connector::loc_to_dir over the generated table *)
Definition loc_to_dir (l : locspec) : option direction :=
  match assoc (locspec_ctor l) loc_to_dir_tbl with Some d => direction_of_string d | None => None end.
Definition edge_locations (ct : conntype) : list locspec := map (fun n => LNamed n) (edge_locnames ct).

Definition dist_sq (a b : num * num) : num :=
  let '(x1, y1) := a in let '(x2, y2) := b in
  (x1 -. x2) *. (x1 -. x2) +. (y1 -. y2) *. (y1 -. y2).

(* the minimum search of closest_loc / shortest_link: strict '<', so the first minimum wins *)
Definition argmin_step {A : Type} (f : A -> num) (acc : num * A) (x : A) : num * A :=
  let d := f x in if nltb N d (fst acc) then (d, x) else acc.
Definition argmin {A : Type} (f : A -> num) (l : list A) (init : num * A) : num * A :=
  fold_left (argmin_step f) l init.
Definition closest_loc_bb (this_bb : bbox) (point : num * num) (ct : conntype) : locspec :=
  snd (argmin (fun loc => dist_sq (bb_locspec N this_bb loc) point) (edge_locations ct)
              (big, LNamed Center)).
Definition shortest_link_bb (this_bb that_bb : bbox) (ct : conntype) : locspec * locspec :=
  snd (argmin (fun p => dist_sq (bb_locspec N this_bb (fst p)) (bb_locspec N that_bb (snd p)))
              (list_prod (edge_locations ct) (edge_locations ct))
              (big, (LNamed Center, LNamed Center))).

Definition need_bbox (c : emap) (e : el) : res bbox :=
  do b <- get_element_bbox N strp c e;
  match b with Some bb => Ok bb | None => Err EMissingBBox end.

Record endpoint := { eo : num * num; edir : option direction }.
(* an endpoint specification after parsing: literal point, or element reference (looked up in the
   element map, possibly missing) with an optional location *)
Inductive epspec := EPoint (p : num * num) | ERef (e : option el) (loc : option locspec).

(* attr_split(ref).map_while(strp ok): the first two tokens must be numbers *)
Definition parse_point (s : string) : res (num * num) :=
  match attr_split s with
  | a :: r =>
      match strp a with
      | Some x => match r with
                  | b :: _ => match strp b with Some y => Ok (x, y) | None => Err EInvalidData end
                  | [] => Err EInvalidData end
      | None => Err EInvalidData end
  | [] => Err EInvalidData end.
Definition parse_endpoint (c : emap) (s : string) : res epspec :=
  match parse_el_loc N strp s with
  | Ok (r, loc) => Ok (ERef (get_element N c r) loc)
  | Panic p => Panic p | OutOfFuel => OutOfFuel
  | Err _ => do p <- parse_point s; Ok (EPoint p)
  end.

Definition mkep (p : num * num) (d : option direction) : endpoint := {| eo := p; edir := d |}.
(* the four-way match of from_element. (The order in which the two bounding boxes are fetched differs
   between the arms of the code; it only selects which error is reported and transmute maps every
   error of from_element to InvalidData.) *)
Definition link (c : emap) (ct : conntype) (s e : epspec) : res (endpoint * endpoint) :=
  match s, e with
  | EPoint sp, EPoint ep => Ok (mkep sp None, mkep ep None)
  | EPoint sp, ERef eel eloc =>
      do eel <- of_opt EInternalLogic eel;
      do eb <- need_bbox c eel;
      let l := match eloc with Some l => l | None => closest_loc_bb eb sp ct end in
      Ok (mkep sp None, mkep (bb_locspec N eb l) (loc_to_dir l))
  | ERef sel sloc, EPoint ep =>
      do sel <- of_opt EInternalLogic sel;
      do sb <- need_bbox c sel;
      let l := match sloc with Some l => l | None => closest_loc_bb sb ep ct end in
      Ok (mkep (bb_locspec N sb l) (loc_to_dir l), mkep ep None)
  | ERef sel sloc, ERef eel eloc =>
      do sel <- of_opt EInternalLogic sel;
      do eel <- of_opt EInternalLogic eel;
      do sb <- need_bbox c sel;
      do eb <- need_bbox c eel;
      let '(sl, el_) :=
        match sloc, eloc with
        | None, None => shortest_link_bb sb eb ct
        | None, Some l2 => (closest_loc_bb sb (bb_locspec N eb l2) ct, l2)
        | Some l1, None => (l1, closest_loc_bb eb (bb_locspec N sb l1) ct)
        | Some l1, Some l2 => (l1, l2)
        end in
      Ok (mkep (bb_locspec N sb sl) (loc_to_dir sl), mkep (bb_locspec N eb el_) (loc_to_dir el_))
  end.

Record connector := {
  csrc : el;                         (* source_element: start / end / corner-offset popped *)
  cstart_el : option el; cend_el : option el;
  cstart : endpoint; cend : endpoint;
  ctype : conntype; coffset : option len }.

Definition spec_el (s : epspec) : option el := match s with ERef x _ => x | EPoint _ => None end.
Definition from_element (c : emap) (e : el) (ct : conntype) : res connector :=
  do sref <- of_opt EMissingAttribute (eget N e "start");
  do eref <- of_opt EMissingAttribute (eget N e "end");
  do off <- (match eget N e "corner-offset" with
             | Some o => match strp_length N strp o with Some l => Ok (Some l) | None => Err EParse end
             | None => Ok None end);
  let src := eremove N e connector_popped in
  do s <- parse_endpoint c sref;
  do en <- parse_endpoint c eref;
  do '(sp, ep) <- link c ct s en;
  Ok {| csrc := src; cstart_el := spec_el s; cend_el := spec_el en; cstart := sp; cend := ep;
        ctype := ct; coffset := off |}.

(* ---- render ---- *)
Definition default_len (t : string * (Z * Z)) : option len :=
  let '(k, (n, d)) := t in
  let v := nofZ N n /. nofZ N d in
  if String.eqb k "Ratio" then Some (Ratio v) else if String.eqb k "Absolute" then Some (Absolute v) else None.
Definition plan_default (name : string) : option len :=
  if String.eqb name "default_ratio_offset" then default_len default_ratio_offset_tbl
  else if String.eqb name "default_abs_offset" then default_len default_abs_offset_tbl else None.
Definition cval (x1 y1 x2 y2 mid : num) (v : cvar) : num :=
  match v with VX1 => x1 | VY1 => y1 | VX2 => x2 | VY2 => y2 | VMid => mid end.
Definition len_absolute (l : len) : res num :=
  match l with Absolute v => Ok v | Ratio _ => Err EInvalidData end.
Definition plan_mid (p : plan) (off : option len) (x1 y1 x2 y2 : num) : res num :=
  match pmid p with
  | MNone => Ok (zero N)
  | k =>
      match plan_default (pdflt p) with
      | None => Err EInternalLogic
      | Some d =>
          let l := match off with Some o => o | None => d end in
          let a := cval x1 y1 x2 y2 (zero N) (pa p) in
          let b := cval x1 y1 x2 y2 (zero N) (pb p) in
          match k with
          | MNone => Ok (zero N)
          | MCalc => Ok (len_calc_offset N l a b)
          | MMinSub => do v <- len_absolute l; Ok (nmin N a b -. v)
          | MMinAdd => do v <- len_absolute l; Ok (nmin N a b +. v)
          | MMaxSub => do v <- len_absolute l; Ok (nmax N a b -. v)
          | MMaxAdd => do v <- len_absolute l; Ok (nmax N a b +. v)
          end
      end
  end.
Definition eval_plan (p : plan) (off : option len) (x1 y1 x2 y2 : num) : res (list (num * num)) :=
  do mid <- plan_mid p off x1 y1 x2 y2;
  Ok (map (fun ab => (cval x1 y1 x2 y2 mid (fst ab), cval x1 y1 x2 y2 mid (snd ab))) (ppoints p)).

(* middle of the overlap of [lo1, hi1] and [lo2, hi2] *)
Definition overlap_mid (lo1 hi1 lo2 hi2 : num) : num := (nmax N lo1 lo2 +. nmin N hi1 hi2) /. two N.

(* the geometry of Connector::render: the list of points of the connection *)
Definition render_points (c : emap) (k : connector) : res (list (num * num)) :=
  let '(x1, y1) := eo (cstart k) in
  let '(x2, y2) := eo (cend k) in
  match ctype k with
  | Horizontal =>
      do mid <- (match cstart_el k, cend_el k with
                 | Some se, Some ee =>
                     do sb <- need_bbox c se; do eb <- need_bbox c ee;
                     Ok (overlap_mid (by1 sb) (by2 sb) (by1 eb) (by2 eb))
                 | _, _ => Ok y1 end);
      Ok [(x1, mid); (x2, mid)]
  | Vertical =>
      do mid <- (match cstart_el k, cend_el k with
                 | Some se, Some ee =>
                     do sb <- need_bbox c se; do eb <- need_bbox c ee;
                     Ok (overlap_mid (bx1 sb) (bx2 sb) (bx1 eb) (bx2 eb))
                 | _, _ => Ok x1 end);
      Ok [(mid, y1); (mid, y2)]
  | Straight => Ok [(x1, y1); (x2, y2)]
  | Corner =>
      match edir (cstart k), edir (cend k) with
      | Some sd, Some ed =>
          match corner_plan sd ed with
          | Some p => eval_plan p (coffset k) x1 y1 x2 y2
          | None => Err EInternalLogic      (* the Rust match is exhaustive *)
          end
      | _, _ => Ok [(x1, y1); (x2, y2)]
      end
  end.

(* SvgElement::with_attrs_from / without_attr *)
Definition with_attrs_from (self other : el) : el :=
  with_name N (with_attrs N other (update (eattrs N self) (eattrs N other))) (ename N self).
Definition without_attr (e : el) (key : string) : el :=
  with_attrs N e (of_vec (filter (fun kv => negb (String.eqb (fst kv) key)) (eattrs N e))).
Definition point_str (p : num * num) : string := fstr (fst p) ++ " " ++ fstr (snd p).
Definition points_str (pts : list (num * num)) : string := concat_sep ", " (map point_str pts).
(* two points make a line, more make a polyline *)
Definition conn_element (pts : list (num * num)) (src : el) : el :=
  match pts with
  | [a; b] => with_attrs_from (new_el N "line" [("x1", fstr (fst a)); ("y1", fstr (snd a));
                                                 ("x2", fstr (fst b)); ("y2", fstr (snd b))]) src
  | _ => with_attrs_from (new_el N "polyline" [("points", points_str pts)]) src
  end.
Definition render (c : emap) (k : connector) : res el :=
  do pts <- render_points c k; Ok (conn_element pts (csrc k)).

(* is_connector and the connector part of transmute *)
Definition is_connector (e : el) : bool :=
  (forallb (ehas N e) connector_required_attrs && mem_str (ename N e) connector_elements)%bool.
Definition conn_type_of (e : el) : conntype :=
  match eget N e "edge-type" with
  | Some t => conntype_from_str t
  | None => if String.eqb (ename N e) "polyline" then Corner else Straight end.
Definition transmute_conn (c : emap) (e : el) : res el :=
  if is_connector e then
    match from_element c e (conn_type_of e) with
    | Ok k => do r <- render c k; Ok (fold_left without_attr connector_removed_after r)
    | Panic p => Panic p
    | OutOfFuel => OutOfFuel
    | Err _ => Err EInvalidData       (* "Cannot create connector" *)
    end
  else Ok e.
End WithNum.

Arguments eo {N}. Arguments edir {N}.
Arguments csrc {N}. Arguments cstart_el {N}. Arguments cend_el {N}. Arguments cstart {N}. Arguments cend {N}.
Arguments ctype {N}. Arguments coffset {N}.
Arguments EPoint {N}. Arguments ERef {N}.
