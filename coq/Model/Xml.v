(* Mirrors the XML layer of svgdx: src/events.rs (input events, conversion to output events,
   OutputList::write_to with text coalescing and blank_line_remover, SvgElement::into_bytesstart)
   together with the parts of quick-xml 0.37 it relies on: escape (five characters), unescape
   (predefined entities and numeric character references), the event reader on well-formed input and
   the event writer.  Strings hold UTF-8 bytes. *)
From Coq Require Import String Ascii List Bool Arith ZArith NArith.
From SvgdxModel Require Import Base.Str Base.Res Gen.Tables Model.Types.
Import ListNotations.
Open Scope string_scope.

(* ---------- escape / unescape ---------- *)
Definition esc_char (c : ascii) : string :=
  if Ascii.eqb c "<" then "&lt;" else if Ascii.eqb c ">" then "&gt;"
  else if Ascii.eqb c "&" then "&amp;" else if Ascii.eqb c "'" then "&apos;"
  else if Ascii.eqb c """" then "&quot;" else String c "".
Fixpoint escape5 (s : string) : string :=
  match s with EmptyString => "" | String c r => esc_char c ++ escape5 r end.
(* partial_escape: < > & only (used for text created by svgdx: element_events) *)
Definition pesc_char (c : ascii) : string :=
  if Ascii.eqb c "<" then "&lt;" else if Ascii.eqb c ">" then "&gt;"
  else if Ascii.eqb c "&" then "&amp;" else String c "".
Fixpoint escape3 (s : string) : string :=
  match s with EmptyString => "" | String c r => pesc_char c ++ escape3 r end.

Definition hexval (c : ascii) : option N :=
  let n := N.of_nat (byte_of c) in
  if is_digit c then Some (n - 48)%N
  else if (Nat.leb 97 (byte_of c) && Nat.leb (byte_of c) 102)%bool then Some (n - 87)%N
  else if (Nat.leb 65 (byte_of c) && Nat.leb (byte_of c) 70)%bool then Some (n - 55)%N
  else None.
Definition decval (c : ascii) : option N := if is_digit c then Some (N.of_nat (byte_of c) - 48)%N else None.
(* u32::from_str_radix without sign: None on empty, bad digit or overflow *)
Fixpoint radix_go (dv : ascii -> option N) (radix : N) (s : string) (acc : N) : option N :=
  match s with
  | EmptyString => Some acc
  | String c r => match dv c with
                  | Some d => let a := (acc * radix + d)%N in
                              if (a <? 4294967296)%N then radix_go dv radix r a else None
                  | None => None end
  end.
Definition from_radix (hex : bool) (s : string) : option N :=
  match s with
  | EmptyString => None
  | _ => radix_go (if hex then hexval else decval) (if hex then 16 else 10)%N s 0%N
  end.
Definition bchr (n : N) : ascii := ascii_of_N n.
Definition utf8_encode (c : N) : string :=
  if (c <? 128)%N then String (bchr c) ""
  else if (c <? 2048)%N then String (bchr (192 + c / 64)) (String (bchr (128 + c mod 64)) "")
  else if (c <? 65536)%N then
    String (bchr (224 + c / 4096)) (String (bchr (128 + (c / 64) mod 64)) (String (bchr (128 + c mod 64)) ""))
  else String (bchr (240 + c / 262144)) (String (bchr (128 + (c / 4096) mod 64))
         (String (bchr (128 + (c / 64) mod 64)) (String (bchr (128 + c mod 64)) ""))).
(* char::from_u32: not 0 (quick-xml), not a surrogate, <= 0x10FFFF *)
Definition valid_scalar (c : N) : bool :=
  (negb (c =? 0) && (c <=? 1114111) && negb ((55296 <=? c) && (c <=? 57343)))%N%bool.
Definition resolve_entity (e : string) : option string :=
  match e with
  | String "#" num =>
      let code := match num with String "x" h => from_radix true h | _ => from_radix false num end in
      match code with Some c => if valid_scalar c then Some (utf8_encode c) else None | None => None end
  | _ => if String.eqb e "lt" then Some "<" else if String.eqb e "gt" then Some ">"
         else if String.eqb e "amp" then Some "&" else if String.eqb e "apos" then Some "'"
         else if String.eqb e "quot" then Some """" else None
  end.
Definition amp_or_semi (c : ascii) : bool := (Ascii.eqb c "&" || Ascii.eqb c ";")%bool.
(* quick_xml::escape::unescape; None = EscapeError *)
Fixpoint unescape (fuel : nat) (s : string) : option string :=
  match fuel with O => None | S f =>
  match s with
  | EmptyString => Some ""
  | String c r =>
      if Ascii.eqb c "&" then
        match break_at amp_or_semi r with
        | (ent, Some (d, rest)) =>
            if Ascii.eqb d ";" then
              match resolve_entity ent, unescape f rest with
              | Some v, Some t => Some (v ++ t)
              | _, _ => None end
            else None
        | (_, None) => None
        end
      else option_map (String c) (unescape f r)
  end end.
Definition unesc (s : string) : option string := unescape (S (String.length s)) s.

(* ---------- tokens: what the reader delivers / the writer is given ---------- *)
Inductive tok :=
| TText (raw : string)                                (* still escaped, as in the file *)
| TStart (name : string) (a : list (string * string)) (* attribute values unescaped *)
| TEmpty (name : string) (a : list (string * string))
| TRawStart (raw : string) | TRawEmpty (raw : string) (* a tag SvgElement::try_from rejects: kept raw *)
| TEnd (name : string)
| TComment (s : string) | TCData (s : string) | TPI (s : string) | TDoctype (s : string).

Definition render_attrs (a : list (string * string)) : string :=
  fold_right (fun kv acc => " " ++ fst kv ++ "=""" ++ escape5 (snd kv) ++ """" ++ acc) "" a.
Definition render (t : tok) : string :=
  match t with
  | TText s => s
  | TStart n a => "<" ++ n ++ render_attrs a ++ ">"
  | TEmpty n a => "<" ++ n ++ render_attrs a ++ "/>"
  | TRawStart r => "<" ++ r ++ ">"
  | TRawEmpty r => "<" ++ r ++ "/>"
  | TEnd n => "</" ++ n ++ ">"
  | TComment s => "<!--" ++ s ++ "-->"
  | TCData s => "<![CDATA[" ++ s ++ "]]>"
  | TPI s => "<?" ++ s ++ "?>"
  | TDoctype s => "<!DOCTYPE " ++ s ++ ">"
  end.
Fixpoint write_toks (ts : list tok) : string :=
  match ts with [] => "" | t :: r => render t ++ write_toks r end.

(* ---------- the reader (quick-xml Reader on well-formed input, svgdx settings) ---------- *)
(* the '>' that ends a DOCTYPE: '<' and '>' of an internal subset (<!ENTITY ..>) nest *)
Fixpoint scan_dt (s : string) (depth : nat) : option (string * string) :=
  match s with
  | EmptyString => None
  | String c r =>
      let keep o := match o with Some (a, b) => Some (String c a, b) | None => None end in
      if Ascii.eqb c ">" then match depth with O => Some ("", r) | S d => keep (scan_dt r d) end
      else if Ascii.eqb c "<" then keep (scan_dt r (S depth))
      else keep (scan_dt r depth)
  end.
Definition is_quote (c : ascii) : bool := (Ascii.eqb c """" || Ascii.eqb c "'")%bool.
(* find the '>' that ends a tag, skipping quoted attribute values: (content, rest) *)
Fixpoint scan_tag (s : string) (q : option ascii) : option (string * string) :=
  match s with
  | EmptyString => None
  | String c r =>
      match q with
      | Some qc => match scan_tag r (if Ascii.eqb c qc then None else q) with
                   | Some (a, b) => Some (String c a, b) | None => None end
      | None => if Ascii.eqb c ">" then Some ("", r)
                else match scan_tag r (if is_quote c then Some c else None) with
                     | Some (a, b) => Some (String c a, b) | None => None end
      end
  end.
Definition is_xml_ws (c : ascii) : bool :=
  let n := byte_of c in (Nat.eqb n 32 || Nat.eqb n 9 || Nat.eqb n 10 || Nat.eqb n 13)%bool.
Definition name_end (c : ascii) : bool := (is_xml_ws c || Ascii.eqb c "/" || Ascii.eqb c ">" || Ascii.eqb c "=")%bool.
Definition skip_xws (s : string) : string := drop_while is_xml_ws s.
(* attributes of a tag's content after the name; None = an error the attribute iterator reports *)
Fixpoint parse_attrs (fuel : nat) (s : string) : option (list (string * string)) :=
  match fuel with O => None | S f =>
  match skip_xws s with
  | EmptyString => Some []
  | s1 =>
      let k := take_while (fun c => negb (name_end c)) s1 in
      match k with EmptyString => None | _ =>
      match skip_xws (drop_while (fun c => negb (name_end c)) s1) with
      | String "=" r =>
          match skip_xws r with
          | String q r2 =>
              if is_quote q then
                match break_at (Ascii.eqb q) r2 with
                | (v, Some (_, rest)) =>
                    match unesc v, parse_attrs f rest with
                    | Some v', Some more => Some ((k, v') :: more)
                    | _, _ => None end
                | (_, None) => None end
              else None
          | EmptyString => None end
      | _ => None end
      end
  end end.
Fixpoint nodup_keys (a : list (string * string)) : bool :=
  match a with [] => true | (k, _) :: r => (negb (mem_str k (map fst r)) && nodup_keys r)%bool end.
(* SvgElement::try_from(&BytesStart): name + attributes, or failure (duplicate attribute, bad
   entity, malformed attribute) *)
Definition parse_tag_content (c : string) : option (string * list (string * string)) :=
  let n := take_while (fun ch => negb (is_xml_ws ch)) c in
  match parse_attrs (S (String.length c)) (drop_while (fun ch => negb (is_xml_ws ch)) c) with
  | Some a => if nodup_keys a then Some (n, a) else None
  | None => None end.

(* trailing XML white space removed (quick-xml trims the name of a closing tag) *)
Fixpoint rtrim_xws (s : string) : string :=
  match s with
  | EmptyString => ""
  | String c r => match rtrim_xws r with
                  | EmptyString => if is_xml_ws c then "" else String c ""
                  | r' => String c r' end
  end.
Fixpoint split_last (s : string) : option (string * ascii) :=
  match s with
  | EmptyString => None
  | String c EmptyString => Some ("", c)
  | String c r => match split_last r with Some (a, l) => Some (String c a, l) | None => None end
  end.

Definition read_markup (r : string) : option (tok * string) :=   (* r = input after '<' *)
  match strip_prefix "!--" r with
  | Some r1 => match find_sub "-->" r1 with Some (c, rest) => Some (TComment c, rest) | None => None end
  | None =>
  match strip_prefix "![CDATA[" r with
  | Some r1 => match find_sub "]]>" r1 with Some (c, rest) => Some (TCData c, rest) | None => None end
  | None =>
  match strip_prefix "?" r with
  | Some r1 => match find_sub "?>" r1 with Some (c, rest) => Some (TPI c, rest) | None => None end
  | None =>
  match strip_prefix "!DOCTYPE" r with
  | Some r1 => match scan_dt r1 0 with
               | Some (c, rest) => Some (TDoctype (skip_xws c), rest) | None => None end
  | None =>
  match strip_prefix "/" r with
  | Some r1 => match break_at (Ascii.eqb ">") r1 with
               | (c, Some (_, rest)) => Some (TEnd (rtrim_xws c), rest) | (_, None) => None end
  | None =>
      match scan_tag r None with
      | None => None
      | Some (c, rest) =>
          match split_last c with
          | Some (c1, "/"%char) => Some (match parse_tag_content c1 with
                                        | Some (n, a) => TEmpty n a | None => TRawEmpty c1 end, rest)
          | _ => Some (match parse_tag_content c with
                       | Some (n, a) => TStart n a | None => TRawStart c end, rest)
          end
      end
  end end end end end.

Fixpoint read_toks (fuel : nat) (s : string) : option (list tok) :=
  match fuel with O => None | S f =>
  match s with
  | EmptyString => Some []
  | String "<" r =>
      match read_markup r with
      | Some (t, rest) => option_map (cons t) (read_toks f rest)
      | None => None end
  | _ => match break_at (Ascii.eqb "<") s with
         | (t, Some (_, rest)) => option_map (cons (TText t)) (read_toks f (String "<" rest))
         | (t, None) => Some [TText t] end
  end end.
Definition read_xml (s : string) : option (list tok) := read_toks (S (String.length s)) s.

(* ---------- output events and the writer (events.rs) ---------- *)
Inductive oev :=
| OText (s : string) | OCData (s : string) | OComment (s : string)
| OStart (name : string) (a : attrs) (cls : classes) | OEmpty (name : string) (a : attrs) (cls : classes)
| OEnd (name : string) | ORaw (t : tok).

(* SvgElement::new: class goes to the ClassList (split on ' '), everything else into the AttrMap *)
Definition el_attrs (a : list (string * string)) : attrs :=
  fold_left (fun acc kv => if String.eqb (fst kv) "class" then acc else set acc (fst kv) (snd kv)) a [].
Definition el_classes (a : list (string * string)) : classes :=
  fold_left (fun acc kv => if String.eqb (fst kv) "class"
                           then fold_left cl_insert (split_char " " (snd kv)) acc else acc) a [].
(* impl From<InputEvent> for OutputEvent *)
Definition conv (t : tok) : oev :=
  match t with
  | TText s => OText s | TCData s => OCData s | TComment s => OComment s
  | TStart n a => OStart n (el_attrs a) (el_classes a)
  | TEmpty n a => OEmpty n (el_attrs a) (el_classes a)
  | TEnd n => OEnd n
  | _ => ORaw t
  end.
(* into_bytesstart: attributes in AttrMap order, then class if there are classes *)
Definition out_attrs (a : attrs) (cls : classes) : list (string * string) :=
  match cls with [] => a | _ => (a ++ [("class", concat_sep " " cls)])%list end.
Definition tok_of (e : oev) : tok :=
  match e with
  | OText s => TText s | OCData s => TCData s | OComment s => TComment s
  | OStart n a c => TStart n (out_attrs a c) | OEmpty n a c => TEmpty n (out_attrs a c)
  | OEnd n => TEnd n | ORaw t => t
  end.

(* str::trim_end on UTF-8 bytes: Unicode White_Space, i.e. ASCII 9-13 and 32, U+0085, U+00A0, U+1680,
   U+2000-200A, U+2028, U+2029, U+202F, U+205F, U+3000.  Works on the reversed string. *)
Definition b (n : nat) (c : ascii) : bool := Nat.eqb (byte_of c) n.
Fixpoint drop_uws (fuel : nat) (r : string) : string :=
  match fuel with O => r | S f =>
  match r with
  | String c0 (String c1 (String c2 r3)) =>
      if is_ws c0 then drop_uws f (String c1 (String c2 r3))
      else if (b 194 c1 && (b 133 c0 || b 160 c0))%bool then drop_uws f (String c2 r3)
      else if (b 225 c2 && b 154 c1 && b 128 c0)%bool then drop_uws f r3
      else if (b 226 c2 && b 128 c1 && ((Nat.leb 128 (byte_of c0) && Nat.leb (byte_of c0) 138) || b 168 c0 || b 169 c0 || b 175 c0))%bool then drop_uws f r3
      else if (b 226 c2 && b 129 c1 && b 159 c0)%bool then drop_uws f r3
      else if (b 227 c2 && b 128 c1 && b 128 c0)%bool then drop_uws f r3
      else r
  | String c0 (String c1 r2) =>
      if is_ws c0 then drop_uws f (String c1 r2)
      else if (b 194 c1 && (b 133 c0 || b 160 c0))%bool then drop_uws f r2
      else r
  | String c0 r1 => if is_ws c0 then drop_uws f r1 else r
  | EmptyString => r
  end end.
Definition utrim_end (s : string) : string := srev (drop_uws (String.length s) (srev s)).

(* blank_line_remover: trim_end every line that is followed by a newline *)
Fixpoint blr_go (s : string) (line : string) : string :=   (* line: current line, reversed *)
  match s with
  | EmptyString => srev line
  | String c r => if Ascii.eqb c nl then utrim_end (srev line) ++ String nl (blr_go r "")
                  else blr_go r (String c line)
  end.
Definition blank_line_remover (s : string) : string := blr_go s "".

(* write_to: coalesce runs of Text events, clean them, write everything else as is *)
Fixpoint coalesce (es : list oev) (buf : string) : list tok :=
  match es with
  | [] => if nonempty buf then [TText (blank_line_remover buf)] else []
  | OText s :: r => coalesce r (buf ++ s)
  | e :: r => (if nonempty buf then [TText (blank_line_remover buf)] else []) ++ tok_of e :: coalesce r ""
  end.
Definition write_to (es : list oev) : string := write_toks (coalesce es "").

(* is_real_svg: the first element SvgElement::try_from accepts is <svg xmlns="http://www.w3.org/2000/svg"> *)
Definition svg_ns : string := "http://www.w3.org/2000/svg".
Fixpoint is_real_svg (ts : list tok) : bool :=
  match ts with
  | [] => false
  | (TStart n a | TEmpty n a) :: _ =>
      (String.eqb n "svg" && match get (el_attrs a) "xmlns" with Some v => String.eqb v svg_ns | None => false end)%bool
  | _ :: r => is_real_svg r
  end.
(* what the reader rejects beyond tokenisation: "--" inside a comment (check_comments), end tags that do
   not match (check_end_names), unclosed elements *)
Definition comment_ok (c : string) : bool :=
  (negb (contains_sub "--" c) && negb (ends_with "-" c))%bool.
Fixpoint nesting_ok (ts : list tok) (stack : list string) : bool :=
  match ts with
  | [] => match stack with [] => true | _ => false end
  | TStart n _ :: r => nesting_ok r (n :: stack)
  | TRawStart raw :: r => nesting_ok r (take_while (fun c => negb (is_xml_ws c)) raw :: stack)
  | TEnd n :: r => match stack with m :: st => (String.eqb n m && nesting_ok r st)%bool | [] => false end
  | TComment c :: r => (comment_ok c && nesting_ok r stack)%bool
  | _ :: r => nesting_ok r stack
  end.

(* the pass-through path of a real SVG document: read, convert, write.
   None: not readable; Some None: readable but not a real SVG document (svgdx processing applies) *)
Definition passthrough_doc (s : string) : option (option string) :=
  match read_xml s with
  | Some ts => if nesting_ok ts [] then Some (if is_real_svg ts then Some (write_to (map conv ts)) else None) else None
  | None => None end.
