(* The random stream of svgdx, bit-exact: rand_pcg::Pcg32 (Lcg64Xsh32) seeded through
   rand_core 0.9 SeedableRng::seed_from_u64, rand 0.9 `random::<f32>()` and
   `random_range(lo..=hi)` on i32.  Self-contained: integer arithmetic on Z modulo 2^64 only
   (no dependency on the rest of the model), so that an expression model can import it.
   Definitions only. *)
From Coq Require Import ZArith List.
Import ListNotations.
Open Scope Z_scope.

Definition two64 : Z := 2 ^ 64.
Definition two32 : Z := 2 ^ 32.
Definition wrap64 (x : Z) : Z := x mod two64.
Definition wrap32 (x : Z) : Z := x mod two32.

(* rand_pcg: MULTIPLIER of Lcg64Xsh32 *)
Definition pcg_mult : Z := 6364136223846793005.
(* rand_core seed_from_u64: the PCG32 it runs to expand the u64 into seed bytes *)
Definition seed_inc : Z := 11634580027462260723.

(* output function XSH RR: xorshift high bits, then rotate right by the top 5 bits *)
Definition pcg_out (state : Z) : Z :=
  let xsh := wrap32 (Z.shiftr (Z.lxor (Z.shiftr state 18) state) 27) in
  let rot := Z.shiftr state 59 in
  wrap32 (Z.lor (Z.shiftr xsh rot) (Z.shiftl xsh ((32 - rot) mod 32))).

(* generator state: (state, increment) *)
Definition rng := (Z * Z)%type.

Definition lcg_step (g : rng) : rng := (wrap64 (fst g * pcg_mult + snd g), snd g).

(* RngCore::next_u32 *)
Definition next_u32 (g : rng) : Z * rng := (pcg_out (fst g), lcg_step g).

(* SeedableRng::seed_from_u64: four 32-bit words from a PCG32 with a fixed increment, little endian *)
Fixpoint seed_words (n : nat) (s : Z) : list Z :=
  match n with
  | O => []
  | S k => let s' := wrap64 (s * pcg_mult + seed_inc) in pcg_out s' :: seed_words k s'
  end.
Definition seed_from_u64 (seed : Z) : rng :=
  match seed_words 4 (wrap64 seed) with
  | [w0; w1; w2; w3] =>
      let state := w0 + w1 * two32 in
      let inc := Z.lor (w2 + w3 * two32) 1 in        (* Lcg64Xsh32::from_seed: increment forced odd *)
      (* from_state_incr: state = state + inc, then one step *)
      lcg_step (wrap64 (state + inc), inc)
  | _ => (0, 1)
  end.

(* StandardUniform for f32: the top 24 bits of one word; the value is m / 2^24 *)
Definition random_m24 (g : rng) : Z * rng :=
  let '(w, g1) := next_u32 g in (Z.shiftr w 8, g1).

(* i32 views *)
Definition to_i32 (w : Z) : Z := if w <? 2 ^ 31 then w else w - two32.

(* UniformInt<i32>::sample_single_inclusive (rand 0.9): widening multiply, one bias-reduction step.
   Requires lo <= hi (the caller rejects lo > hi). *)
Definition random_range_i32 (lo hi : Z) (g : rng) : Z * rng :=
  let range := wrap32 (hi - lo + 1) in
  if range =? 0 then let '(w, g1) := next_u32 g in (to_i32 w, g1)
  else
    let '(w, g1) := next_u32 g in
    let m := w * range in
    let result := Z.shiftr m 32 in
    let lo_order := wrap32 m in
    if wrap32 (- range) <? lo_order then
      let '(w2, g2) := next_u32 g1 in
      let new_hi := Z.shiftr (w2 * range) 32 in
      (lo + result + (if two32 <=? lo_order + new_hi then 1 else 0), g2)
    else (lo + result, g1).

(* a draw request, and running a list of requests from a generator state *)
Inductive draw := DRandom | DRandInt (lo hi : Z) | DWord.
Definition draw_one (d : draw) (g : rng) : Z * rng :=
  match d with
  | DRandom => random_m24 g
  | DRandInt lo hi => random_range_i32 lo hi g
  | DWord => next_u32 g
  end.
Fixpoint run_draws (ds : list draw) (g : rng) : list Z * rng :=
  match ds with
  | [] => ([], g)
  | d :: r => let '(v, g1) := draw_one d g in let '(vs, g2) := run_draws r g1 in (v :: vs, g2)
  end.
(* the n-th raw word of the stream of a seed *)
Fixpoint nth_state (n : nat) (g : rng) : rng := match n with O => g | S k => nth_state k (lcg_step g) end.
Definition nth_word (seed : Z) (n : nat) : Z := pcg_out (fst (nth_state n (seed_from_u64 seed))).
