(* The seeded generator behind random() / randint(): rand_pcg::Pcg32 (Lcg64Xsh32) seeded by
   rand_core's SeedableRng::seed_from_u64, rand 0.9's StandardUniform for f32 and the
   single-sample inclusive integer range (widening multiply with one bias-correcting extra
   word). Integer arithmetic on Z modulo 2^64. Definitions only. *)
From Coq Require Import ZArith.
Open Scope Z_scope.

Definition two64 : Z := 2 ^ 64.
Definition two32 : Z := 2 ^ 32.
Definition pcg_mul : Z := 6364136223846793005.

Definition pcg_out (state : Z) : Z :=
  let xsh := (Z.shiftr (Z.lxor (Z.shiftr state 18) state) 27) mod two32 in
  let rot := Z.shiftr state 59 in
  (Z.lor (Z.shiftr xsh rot) (Z.shiftl xsh ((32 - rot) mod 32))) mod two32.

(* generator state: (state, increment) *)
Definition pcg := (Z * Z)%type.

Definition pcg_next (g : pcg) : Z * pcg :=
  let '(s, inc) := g in (pcg_out s, ((s * pcg_mul + inc) mod two64, inc)).

(* rand_core 0.9 seed_from_u64: four words of a PCG32 with a fixed increment fill the
   16-byte seed; Lcg64Xsh32::from_seed / from_state_incr *)
Definition seed_inc : Z := 11634580027462260723.
Definition seed_step (s : Z) : Z := (s * pcg_mul + seed_inc) mod two64.
Definition pcg_seed (seed : Z) : pcg :=
  let s1 := seed_step (seed mod two64) in let s2 := seed_step s1 in
  let s3 := seed_step s2 in let s4 := seed_step s3 in
  let state := pcg_out s1 + pcg_out s2 * two32 in
  let inc := Z.lor (pcg_out s3 + pcg_out s4 * two32) 1 in
  let st := (state + inc) mod two64 in
  ((st * pcg_mul + inc) mod two64, inc).

(* random::<f32>(): the top 24 bits of one word (scaled by 2^-24 by the caller) *)
Definition pcg_u24 (g : pcg) : Z * pcg :=
  let '(w, g1) := pcg_next g in (Z.shiftr w 8, g1).

Definition to_i32 (w : Z) : Z := if w <? 2 ^ 31 then w else w - two32.

(* random_range(lo..=hi) on i32, lo <= hi *)
Definition pcg_range (lo hi : Z) (g : pcg) : Z * pcg :=
  let range := (hi - lo + 1) mod two32 in
  if range =? 0 then let '(w, g1) := pcg_next g in (to_i32 w, g1)
  else
    let '(w, g1) := pcg_next g in
    let m := w * range in
    let res := m / two32 in
    let lo_order := m mod two32 in
    if (- range) mod two32 <? lo_order then
      let '(w2, g2) := pcg_next g1 in
      let new_hi := (w2 * range) / two32 in
      (lo + (if two32 <=? lo_order + new_hi then res + 1 else res), g2)
    else (lo + res, g1).
