(* From the token stream of the reader to the document tree the pipeline works on (InputList::from_reader
   bookkeeping: event index, indentation; tagify's view of start..end ranges). *)
From Coq Require Import String Ascii List Bool ZArith.
From SvgdxModel Require Import Base.Str Base.Res Num.NumOps Gen.Tables Model.Types Model.Geom
  Model.Position Model.Scan Model.Element Model.Xml Model.Pipeline.
Import ListNotations.
Open Scope string_scope.

(* indentation recorded at a Text event: trailing blanks of its last line *)
Fixpoint last_line (s cur : string) : string :=    (* cur: current line reversed *)
  match s with
  | EmptyString => srev cur
  | String c r => if Ascii.eqb c nl then last_line r "" else last_line r (String c cur)
  end.
Definition text_indent (t : string) : nat :=
  let l := last_line t "" in String.length l - String.length (trim_end_char " " l).

Section Doc.
Context (N : NumOps).
Local Notation el := (el N).
Local Notation node := (node N).

Definition mk_el (name : string) (a : list (string * string)) (idx : Z) (indent : nat) (empty : bool) : el :=
  let e := new_el N name a in
  {| ename := name; eattrs := eattrs N e; ecls := ecls N e; ecbb := None; eidx := idx; etext := None;
     eindent := indent; eline := 0; eempty := empty; eorig := "" |}.

(* nodes up to the matching end tag (or the end of input at top level):
   (nodes, remaining tokens after the end tag, next index, indentation) *)
Fixpoint build (fuel : nat) (toks : list tok) (idx : Z) (indent : nat) (top : bool)
  : option (list node * list tok * Z * nat) :=
  match fuel with O => None | S f =>
  match toks with
  | [] => if top then Some ([], [], idx, indent) else None
  | t :: r =>
      let nx := (idx + 1)%Z in
      match t with
      | TEnd _ => if top then None else Some ([], r, nx, indent)
      | TText s =>
          let ind := text_indent s in
          match build f r nx ind top with
          | Some (ns, rest, i, d) => Some (NText N s :: ns, rest, i, d) | None => None end
      | TComment s => match build f r nx indent top with
                      | Some (ns, rest, i, d) => Some (NComment N s :: ns, rest, i, d) | None => None end
      | TCData s => match build f r nx indent top with
                    | Some (ns, rest, i, d) => Some (NCData N s :: ns, rest, i, d) | None => None end
      | TPI _ | TDoctype _ => match build f r nx indent top with
                              | Some (ns, rest, i, d) => Some (NOther N t :: ns, rest, i, d) | None => None end
      | TEmpty n a => match build f r nx indent top with
                      | Some (ns, rest, i, d) => Some (NLeaf N (mk_el n a idx indent true) :: ns, rest, i, d) | None => None end
      | TStart n a =>
          match build f r nx indent false with
          | Some (kids, rest, i, d) =>
              match build f rest i d top with
              | Some (ns, rest2, i2, d2) => Some (NEl N (mk_el n a idx indent false) kids :: ns, rest2, i2, d2)
              | None => None end
          | None => None end
      | TRawStart _ | TRawEmpty _ => None
      end
  end end.
Definition build_doc (toks : list tok) : option (list node) :=
  match build (S (List.length toks)) toks 0%Z 0%nat true with Some (ns, _, _, _) => Some ns | None => None end.

(* children of every compound element, keyed by the index of its start event (context.events) *)
Fixpoint kids_of (n : node) : list (Z * list node) :=
  match n with NEl _ e kids => (eidx N e, kids) :: flat_map kids_of kids | _ => [] end.
Definition kid_table (ns : list node) : list (Z * list node) := flat_map kids_of ns.
Definition kid_lookup (t : list (Z * list node)) (i : Z) : option (list node) :=
  match find (fun p => Z.eqb (fst p) i) t with Some p => Some (snd p) | None => None end.
End Doc.
