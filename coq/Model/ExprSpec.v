(* The specification side of C14: expression TREES, their conventional meaning [denote]
   (ten lines: operands left to right, operators applied to numbers, lists concatenated,
   functions applied to the argument list) and the printer [pr] which inserts parentheses only
   where the grammar needs them. Definitions only. *)
From Coq Require Import String Ascii List Bool Arith ZArith.
From SvgdxModel Require Import Base.Str Base.Res Num.NumOps Num.XOps Gen.Tables Model.Funcs Model.Expr.
Import ListNotations.
Open Scope string_scope.

Section Spec.
Context {N : NumOps} (X : XOps N).
Local Notation num := (num N).
Local Notation value := (@value N).
Local Notation est := (est X).
Local Notation token := (@token N).

Inductive binop := BMul | BDiv | BMod | BAdd | BSub.

Inductive ast :=
| ANum (x : num) | AStr (s : string) | AVar (v : string)
| ANeg (a : ast)
| ABin (op : binop) (a b : ast)
| ACmp (op : cmpop) (a b : ast)
| ALog (op : logop) (a b : ast)
| AList (l : asts)                       (* ( a, b, ... ) *)
| ACall (name : string) (args : asts)    (* name( a, b, ... ) *)
with asts := ANil | ACons (a : ast) (l : asts).

(* the value of a variable, and the nesting its text needs *)
Context (rho : string -> option value) (vdepth : string -> nat).

Definition apply_bin (op : binop) (a b : num) : num :=
  match op with
  | BMul => nmul N a b | BDiv => ndiv N a b | BMod => xrem_euclid X a b
  | BAdd => nadd N a b | BSub => nsub N a b
  end.

Fixpoint denote (a : ast) (st : est) : res (value * est) :=
  match a with
  | ANum x => Ok (VNum x, st)
  | AStr s => Ok (VOne (SStr s), st)
  | AVar v => match rho v with Some x => Ok (x, st) | None => Err EParse end
  | ANeg a => do '(v, st1) <- denote a st; do x <- one_number v; Ok (VNum (nneg N x), st1)
  | ABin op a b =>
      do '(v, st1) <- denote a st; do x <- one_number v;
      do '(w, st2) <- denote b st1; do y <- one_number w; Ok (VNum (apply_bin op x y), st2)
  | ACmp op a b =>
      do '(v, st1) <- denote a st; do x <- one_number v;
      do '(w, st2) <- denote b st1; do y <- one_number w; Ok (VNum (of_bool (apply_cmp op x y)), st2)
  | ALog op a b =>
      do '(v, st1) <- denote a st; do x <- one_number v;
      do '(w, st2) <- denote b st1; do y <- one_number w; Ok (VNum (of_bool (apply_log op x y)), st2)
  | AList l => do '(vs, st1) <- denote_list l st; Ok (VList vs, st1)
  | ACall name args =>
      do fn <- function_of name;
      do '(vs, st1) <- denote_list args st;
      eval_function X fn (VList vs) st1
  end
with denote_list (l : asts) (st : est) : res (list (@sval N) * est) :=
  match l with
  | ANil => Ok ([], st)
  | ACons a l => do '(v, st1) <- denote a st; do '(vs, st2) <- denote_list l st1; Ok ((flatten v ++ vs)%list, st2)
  end.

(* the operator words, read back from the generated tables *)
Definition name_of {A} (eqb : A -> A -> bool) (names : list (string * string)) (variants : list (string * A)) (op : A) : string :=
  match find (fun kv => match assoc (snd kv) variants with Some o => eqb o op | None => false end) names with
  | Some kv => fst kv | None => "" end.
Definition cmpop_eqb (a b : cmpop) : bool :=
  match a, b with OEq, OEq | ONe, ONe | OGt, OGt | OGe, OGe | OLt, OLt | OLe, OLe => true | _, _ => false end.
Definition logop_eqb (a b : logop) : bool :=
  match a, b with OAnd, OAnd | OOr, OOr | OXor, OXor => true | _, _ => false end.
Definition cmp_name (op : cmpop) : string := name_of cmpop_eqb comparison_ops cmp_of_variant op.
Definition log_name (op : logop) : string := name_of logop_eqb logical_ops log_of_variant op.

Definition bin_token (op : binop) : token :=
  match op with BMul => TMul | BDiv => TDiv | BMod => TMod | BAdd => TAdd | BSub => TSub end.
Definition bin_level (op : binop) : nat := match op with BMul | BDiv | BMod => 3 | BAdd | BSub => 2 end.

Definition paren (b : bool) (l : list token) : list token := if b then TOpen :: l ++ [TClose] else l.

(* binding levels: 0 logical, 1 comparison, 2 additive, 3 multiplicative, 4 primary *)
Fixpoint pr (lvl : nat) (a : ast) : list token :=
  match a with
  | ANum x => [TNum x]
  | AStr s => [TStr s]
  | AVar v => [TVar v]
  | ANeg a => TSub :: pr 4 a
  | ABin op a b =>
      let l := bin_level op in paren (Nat.ltb l lvl) (pr l a ++ bin_token op :: pr (S l) b)
  | ACmp op a b => paren (Nat.ltb 1 lvl) (pr 2 a ++ TSym (cmp_name op) :: pr 2 b)
  | ALog op a b => paren (Nat.ltb 0 lvl) (pr 0 a ++ TSym (log_name op) :: pr 1 b)
  | AList l => TOpen :: prs l ++ [TClose]
  | ACall name args => TSym name :: TOpen :: prs args ++ [TClose]
  end
with prs (l : asts) : list token :=
  match l with
  | ANil => []
  | ACons a ANil => pr 0 a
  | ACons a l' => pr 0 a ++ TComma :: prs l'
  end.

(* nesting (parentheses, unary minus, calls, variable texts) an evaluation of the printed tree
   can reach: every operator node is counted as if it were parenthesised *)
Fixpoint pdepth (a : ast) : nat :=
  match a with
  | ANum _ | AStr _ => 1
  | AVar v => 1 + vdepth v
  | ANeg a => 1 + pdepth a
  | ABin _ a b | ACmp _ a b | ALog _ a b => 1 + Nat.max (pdepth a) (pdepth b)
  | AList l | ACall _ l => 1 + pdepths l
  end
with pdepths (l : asts) : nat :=
  match l with ANil => 0 | ACons a l => Nat.max (pdepth a) (pdepths l) end.

(* number of random()/randint() calls in a tree *)
Definition is_random_name (name : string) : bool :=
  match function_of name with Ok FRandom | Ok FRandInt => true | _ => false end.
Fixpoint count_random (a : ast) : nat :=
  match a with
  | ANum _ | AStr _ | AVar _ => 0
  | ANeg a => count_random a
  | ABin _ a b | ACmp _ a b | ALog _ a b => count_random a + count_random b
  | AList l => count_randoms l
  | ACall name args => (if is_random_name name then 1 else 0) + count_randoms args
  end
with count_randoms (l : asts) : nat :=
  match l with ANil => 0 | ACons a l => count_random a + count_randoms l end.

End Spec.

Arguments ANum {N}. Arguments AStr {N}. Arguments AVar {N}. Arguments ANeg {N}. Arguments ABin {N}.
Arguments ACmp {N}. Arguments ALog {N}. Arguments AList {N}. Arguments ACall {N}.
Arguments ANil {N}. Arguments ACons {N}.
