(* Mirrors svgdx src/element.rs (geometry part) and the ElementMap part of src/context.rs:
   bbox, bbox_raw, size, get_target_element, get_element_bbox, inscribed_bbox, handle_containment,
   eval_rel_attributes, eval_rel_position, expand_compound_*, resolve_size_delta, translated,
   transmute (dx/dy part; connectors are in Connector.v), resolve_position. *)
From Coq Require Import String Ascii List Bool ZArith.
From SvgdxModel Require Import Base.Str Base.Res Num.NumOps Gen.Tables Model.Types Model.Geom
  Model.Position Model.Scan.
Import ListNotations.
Open Scope string_scope.

Section WithNum.
Context (N : NumOps) (strp : string -> option (num N)) (fstr : num N -> string)
        (fdisplay : num N -> string).
Local Notation num := (num N).
Local Notation "a +. b" := (nadd N a b) (at level 50, left associativity).
Local Notation "a -. b" := (nsub N a b) (at level 50, left associativity).
Local Notation "a *. b" := (nmul N a b) (at level 40, left associativity).
Local Notation "a /. b" := (ndiv N a b) (at level 40, left associativity).
Local Notation two := (two N).
Local Notation zero := (zero N).
Local Notation bbox := (bbox N).
Local Notation locspec := (locspec N).

Record el := {
  ename : string; eattrs : attrs; ecls : classes;
  ecbb : option bbox;        (* content_bbox *)
  eidx : Z;                  (* order index: position of the start event *)
  etext : option string;     (* text_content (generated text elements only) *)
  eindent : nat; eline : nat;
  eempty : bool;             (* is_empty_element *)
  eorig : string }.
Definition with_attrs (e : el) (a : attrs) : el :=
  {| ename := ename e; eattrs := a; ecls := ecls e; ecbb := ecbb e; eidx := eidx e; etext := etext e;
     eindent := eindent e; eline := eline e; eempty := eempty e; eorig := eorig e |}.
Definition with_cls (e : el) (c : classes) : el :=
  {| ename := ename e; eattrs := eattrs e; ecls := c; ecbb := ecbb e; eidx := eidx e; etext := etext e;
     eindent := eindent e; eline := eline e; eempty := eempty e; eorig := eorig e |}.
Definition with_cbb (e : el) (b : option bbox) : el :=
  {| ename := ename e; eattrs := eattrs e; ecls := ecls e; ecbb := b; eidx := eidx e; etext := etext e;
     eindent := eindent e; eline := eline e; eempty := eempty e; eorig := eorig e |}.
Definition with_name (e : el) (n : string) : el :=
  {| ename := n; eattrs := eattrs e; ecls := ecls e; ecbb := ecbb e; eidx := eidx e; etext := etext e;
     eindent := eindent e; eline := eline e; eempty := eempty e; eorig := eorig e |}.
Definition with_text (e : el) (t : option string) : el :=
  {| ename := ename e; eattrs := eattrs e; ecls := ecls e; ecbb := ecbb e; eidx := eidx e; etext := t;
     eindent := eindent e; eline := eline e; eempty := eempty e; eorig := eorig e |}.
Definition eget (e : el) (k : string) : option string := get (eattrs e) k.
Definition eset (e : el) (k v : string) : el := with_attrs e (set (eattrs e) k v).
Definition epop (e : el) (k : string) : el := with_attrs e (pop (eattrs e) k).
Definition ehas (e : el) (k : string) : bool := has (eattrs e) k.
Definition eremove (e : el) (ks : list string) : el := with_attrs e (remove_attrs (eattrs e) ks).
Definition eset_default (e : el) (k v : string) : el := if ehas e k then e else eset e k v.
Definition add_class (e : el) (c : string) : el := with_cls e (cl_insert (ecls e) c).
(* SvgElement::new(name, attrs) *)
Definition new_el (name : string) (a : attrs) : el :=
  let cls := fold_left (fun acc kv => if String.eqb (fst kv) "class"
                                      then fold_left cl_insert (split_char " " (snd kv)) acc else acc) a [] in
  let am := fold_left (fun acc kv => if String.eqb (fst kv) "class" then acc else set acc (fst kv) (snd kv)) a [] in
  {| ename := name; eattrs := am; ecls := cls; ecbb := None; eidx := (-1)%Z; etext := None;
     eindent := 0; eline := 0; eempty := true; eorig := "" |}.

(* element map part of the context *)
Record emap := { cmap : list (string * el); cprev : option el }.
Definition get_element (c : emap) (r : elref) : option el :=
  match r with RefId id => assoc id (cmap c) | RefPrev => cprev c end.

Definition passthrough (v : string) : bool :=
  match strp v with
  | Some _ => false
  | None => negb (contains_char "$" v || contains_char "#" v || contains_char "^" v)
  end.
Definition dflt0 (o : option string) : string := match o with Some s => s | None => "0" end.
Definition strp_r (v : string) : res num := of_opt EParse (strp v).
Definition mkbb := @Build_bbox N.

Definition bbox_raw (e : el) : res (option bbox) :=
  let a := eattrs e in
  let n := ename e in
  if (String.eqb n "point" || String.eqb n "text")%bool then
    let x := dflt0 (get a "x") in let y := dflt0 (get a "y") in
    if (passthrough x || passthrough y)%bool then Ok None else
    do x <- strp_r x; do y <- strp_r y; Ok (Some (mkbb x y x y))
  else if (String.eqb n "box" || String.eqb n "rect" || String.eqb n "image" || String.eqb n "svg"
           || String.eqb n "foreignObject")%bool then
    match get a "width", get a "height" with
    | Some w, Some h =>
        let x := dflt0 (get a "x") in let y := dflt0 (get a "y") in
        if (passthrough x || passthrough y || passthrough w || passthrough h)%bool then Ok None else
        do x <- strp_r x; do y <- strp_r y; do w <- strp_r w; do h <- strp_r h;
        Ok (Some (mkbb x y (x +. w) (y +. h)))
    | _, _ => Ok None end
  else if String.eqb n "line" then
    let x1 := dflt0 (get a "x1") in let y1 := dflt0 (get a "y1") in
    let x2 := dflt0 (get a "x2") in let y2 := dflt0 (get a "y2") in
    if (passthrough x1 || passthrough y1 || passthrough x2 || passthrough y2)%bool then Ok None else
    do x1 <- strp_r x1; do y1 <- strp_r y1; do x2 <- strp_r x2; do y2 <- strp_r y2;
    Ok (Some (mkbb (nmin N x1 x2) (nmin N y1 y2) (nmax N x1 x2) (nmax N y1 y2)))
  else if (String.eqb n "polyline" || String.eqb n "polygon")%bool then
    match get a "points" with Some p => points_bbox N strp p | None => Ok None end
  else if String.eqb n "path" then
    match get a "d" with Some d => path_bbox N strp d | None => Ok None end
  else if String.eqb n "circle" then
    match get a "r" with
    | Some r =>
        let cx := dflt0 (get a "cx") in let cy := dflt0 (get a "cy") in
        if (passthrough cx || passthrough cy || passthrough r)%bool then Ok None else
        do cx <- strp_r cx; do cy <- strp_r cy; do r <- strp_r r;
        Ok (Some (mkbb (cx -. r) (cy -. r) (cx +. r) (cy +. r)))
    | None => Ok None end
  else if String.eqb n "ellipse" then
    match get a "rx", get a "ry" with
    | Some rx, Some ry =>
        let cx := dflt0 (get a "cx") in let cy := dflt0 (get a "cy") in
        if (passthrough cx || passthrough cy || passthrough rx || passthrough ry)%bool then Ok None else
        do cx <- strp_r cx; do cy <- strp_r cy; do rx <- strp_r rx; do ry <- strp_r ry;
        Ok (Some (mkbb (cx -. rx) (cy -. ry) (cx +. rx) (cy +. ry)))
    | _, _ => Ok None end
  else Ok None.

Definition el_bbox (e : el) : res (option bbox) :=
  do b <- (match ecbb e with Some b => Ok (Some b) | None => bbox_raw e end);
  match eget e "transform", b with
  | Some t, Some bb => do ts <- parse_transform N strp t; Ok (Some (apply_transform N ts bb))
  | _, _ => Ok b end.

Definition get_href (e : el) : option string :=
  match eget e "href" with Some h => Some h | None => eget e "xlink:href" end.

(* get_target_element: follow use/reuse chains; [seen] holds order indices. The chain is
   bounded by the size of the map (every step adds a new index or fails). *)
Fixpoint target_loop (fuel : nat) (c : emap) (seen : list Z) (e : el) : res el :=
  if (String.eqb (ename e) "use" || String.eqb (ename e) "reuse")%bool then
    match fuel with
    | O => OutOfFuel
    | S f =>
        match get_href e with
        | None => Err EMissingAttribute
        | Some h =>
            match parse_elref h with
            | None => Err EParse
            | Some r =>
                match get_element c r with
                | None => Err EReference
                | Some t => if existsb (Z.eqb (eidx t)) seen then Err ECircularRef
                            else target_loop f c (eidx t :: seen) t
                end
            end
        end
    end
  else Ok e.
Definition get_target_element (c : emap) (e : el) : res el :=
  target_loop (S (S (List.length (cmap c)))) c [] e.

(* SvgElement::size *)
Definition optnum (a : attrs) (k : string) : res (option num) :=
  match get a k with Some v => do x <- strp_r v; Ok (Some x) | None => Ok None end.
Fixpoint size_loop (fuel : nat) (c : emap) (e : el) : res (option (num * num)) :=
  let a := eattrs e in
  do w0 <- optnum a "width"; do h0 <- optnum a "height";
  let n := ename e in
  do wh <-
    (if (String.eqb n "use" || String.eqb n "reuse")%bool then
       match fuel with
       | O => OutOfFuel
       | S f => do t <- get_target_element c e;
                do sz <- size_loop f c t;
                match sz with Some (w, h) => Ok (Some w, Some h) | None => Ok (w0, h0) end
       end
     else if (String.eqb n "g" || String.eqb n "symbol")%bool then
       match ecbb e with Some b => Ok (Some (bb_width N b), Some (bb_height N b)) | None => Ok (w0, h0) end
     else if (String.eqb n "point" || String.eqb n "text")%bool then Ok (Some zero, Some zero)
     else if String.eqb n "circle" then
       do r <- optnum a "r";
       match r with Some r => Ok (Some (r *. two), Some (r *. two)) | None => Ok (w0, h0) end
     else if String.eqb n "ellipse" then
       do rx <- optnum a "rx"; do ry <- optnum a "ry";
       Ok (match rx with Some r => Some (r *. two) | None => w0 end,
           match ry with Some r => Some (r *. two) | None => h0 end)
     else if String.eqb n "line" then
       do x1 <- optnum a "x1"; do x2 <- optnum a "x2";
       let w := match x1, x2 with Some a, Some b => Some (nabs N (b -. a)) | _, _ => w0 end in
       do y1 <- optnum a "y1"; do y2 <- optnum a "y2";
       let h := match y1, y2 with Some a, Some b => Some (nabs N (b -. a)) | _, _ => h0 end in
       Ok (w, h)
     else Ok (w0, h0));
  match wh with (Some w, Some h) => Ok (Some (w, h)) | _ => Ok None end.
(* the target of get_target_element is never use/reuse, so one level of fuel suffices *)
Definition el_size (c : emap) (e : el) : res (option (num * num)) := size_loop 2 c e.
Definition get_element_size (c : emap) (e : el) : res (option (num * num)) :=
  do t <- get_target_element c e; el_size c t.

(* get_element_bbox, including use/reuse translation and clip-path intersection. The clip-path
   recursion (a clip target may itself carry a clip-path) follows [seen], the order indices of the
   clip targets already visited (clipped_element_bbox's clip_seen): a chain leading back to itself is
   a circular reference. Every step adds a new index of the map, which bounds the chain and the fuel. *)
Fixpoint bbox_loop (fuel : nat) (c : emap) (seen : list Z) (e : el) : res (option bbox) :=
  do t <- get_target_element c e;
  do b <- el_bbox t;
  do b <-
    (if (String.eqb (ename e) "use" || String.eqb (ename e) "reuse")%bool then
       match eget e "x", eget e "y", b with
       | None, None, _ => Ok b
       | tx, ty, Some bb =>
           do dx <- (match tx with Some v => strp_r v | None => Ok zero end);
           do dy <- (match ty with Some v => strp_r v | None => Ok zero end);
           Ok (Some (bb_translated N bb dx dy))
       | _, _, None => Ok b
       end
     else Ok b);
  match eget e "clip-path", b with
  | Some cp, Some bb =>
      match extract_urlref cp with
      | None => Err EInvalidData
      | Some r =>
          match get_element c r with
          | None => Err EReference
          | Some ce =>
              if existsb (Z.eqb (eidx ce)) seen then Err ECircularRef else
              match fuel with
              | O => OutOfFuel
              | S f => do cb <- bbox_loop f c (eidx ce :: seen) ce;
                       if String.eqb (ename ce) "clipPath" then
                         match cb with Some cbb => Ok (bb_intersect N bb cbb) | None => Ok b end
                       else Ok b
              end
          end
      end
  | _, _ => Ok b
  end.
Definition get_element_bbox (c : emap) (e : el) : res (option bbox) :=
  bbox_loop (S (S (List.length (cmap c)))) c [] e.

(* split_relspec *)
Definition split_relspec (c : emap) (input : string) : res (option el * string) :=
  match extract_elref input with
  | Some (r, remain) => match get_element c r with
                        | Some e => Ok (Some e, remain)
                        | None => Err EReference end
  | None => Ok (None, input)
  end.

(* inscribed_bbox *)
Definition inscribed_bbox (e : el) (target_shape : string) : res (option bbox) :=
  let a := eattrs e in
  if (String.eqb target_shape "rect" && String.eqb (ename e) "circle")%bool then
    match get a "r" with
    | Some r => do cx <- strp_r (dflt0 (get a "cx")); do cy <- strp_r (dflt0 (get a "cy"));
                do r <- strp_r r; let r := r *. nfrac1sqrt2 N in
                Ok (Some (mkbb (cx -. r) (cy -. r) (cx +. r) (cy +. r)))
    | None => Ok None end
  else if (String.eqb target_shape "rect" && String.eqb (ename e) "ellipse")%bool then
    match get a "rx", get a "ry" with
    | Some rx, Some ry =>
        do cx <- strp_r (dflt0 (get a "cx")); do cy <- strp_r (dflt0 (get a "cy"));
        do rx <- strp_r rx; do ry <- strp_r ry;
        let rx := rx *. nfrac1sqrt2 N in let ry := ry *. nfrac1sqrt2 N in
        Ok (Some (mkbb (cx -. rx) (cy -. ry) (cx +. rx) (cy +. ry)))
    | _, _ => Ok None end
  else el_bbox e.

Definition half : num := ndiv N (nofZ N 1) two.   (* 0.5 *)
(* radii of a circle / ellipse circumscribing (inscribe = false) or inscribed in a w x h box *)
Definition contain_circle_r (inscribe : bool) (w h : num) : num :=
  if inscribe then half *. nmin N w h else half *. nmax N w h *. nsqrt2 N.
Definition contain_ellipse_r (inscribe : bool) (l : num) : num :=
  if inscribe then half *. l else half *. l *. nsqrt2 N.
Definition position_from_bbox (e : el) (bb : bbox) (inscribe : bool) : el :=
  let w := bb_width N bb in let h := bb_height N bb in
  let '(cx, cy) := bb_center N bb in
  let n := ename e in
  if (String.eqb n "rect" || String.eqb n "box")%bool then
    eset (eset (eset (eset e "x" (fstr (bx1 bb))) "y" (fstr (by1 bb))) "width" (fstr w)) "height" (fstr h)
  else if String.eqb n "circle" then
    let r := contain_circle_r inscribe w h in
    eset (eset (eset e "cx" (fstr cx)) "cy" (fstr cy)) "r" (fstr r)
  else if String.eqb n "ellipse" then
    let rx := contain_ellipse_r inscribe w in
    let ry := contain_ellipse_r inscribe h in
    eset (eset (eset (eset e "cx" (fstr cx)) "cy" (fstr cy)) "rx" (fstr rx)) "ry" (fstr ry)
  else e.

Definition handle_containment (c : emap) (e : el) : res el :=
  match eget e "surround", eget e "inside" with
  | Some _, Some _ => Err EInvalidData
  | None, None => Ok e
  | s, i =>
      let is_surround := match s with Some _ => true | None => false end in
      let ref_list := match s with Some v => v | None => odflt i end in
      do bbs <- mapM (fun r =>
                        match parse_elref r with
                        | None => Err EParse
                        | Some rf =>
                            match get_element c rf with
                            | None => Err EReference
                            | Some t =>
                                match (if is_surround then get_element_bbox c t
                                       else inscribed_bbox t (ename e)) with
                                | Ok (Some bb) => Ok bb
                                | Panic p => Panic p
                                | OutOfFuel => OutOfFuel
                                | _ => Err EMissingBBox
                                end
                            end
                        end) (attr_split ref_list);
      let bb := if is_surround then bb_union N bbs else bb_intersection N bbs in
      do bb <- (match eget e "margin" with
                | Some m => do t <- parse_trbl N strp m;
                            Ok (match bb with
                                | Some b => Some (if is_surround then bb_expand_trbl N b t else bb_shrink_trbl N b t)
                                | None => None end)
                | None => Ok bb end);
      let e := match bb with Some b => position_from_bbox e b (negb is_surround) | None => e end in
      let e := add_class e (if is_surround then "d-surround" else "d-inside") in
      Ok (eremove e containment_remove)
  end.

(* expand_compound_size / expand_compound_pos, driven by the generated tables *)
Definition expand_one (a : attrs) (row : string * (string * string)) : attrs :=
  let '(k, (k1, k2)) := row in
  match get a k with
  | Some v => let '(x, y) := split_compound_attr v in set_first (set_first (pop a k) k1 x) k2 y
  | None => a end.
Definition expand_compound_size (e : el) : el :=
  (* the code pops "rxy" on every element (the tuple pattern evaluates the pop first) but only
     expands it on an ellipse *)
  with_attrs e (fold_left (fun a row => if (String.eqb (fst row) "rxy" && negb (String.eqb (ename e) "ellipse"))%bool
                                        then pop a "rxy" else expand_one a row) compound_size (eattrs e)).
Definition expand_compound_pos (e : el) : el :=
  let a := eattrs e in
  let a := match get a "xy" with
           | Some v =>
               let '(x, y) := split_compound_attr v in
               let a := pop a "xy" in
               let '(xa, ya) := match get a "xy-loc" with
                                | Some l => match assoc l xy_loc_table with Some p => p | None => xy_loc_default end
                                | None => xy_loc_default end in
               let a := pop a "xy-loc" in
               set_first (set_first a xa x) ya y
           | None => a end in
  with_attrs e (fold_left expand_one compound_pos a).

Definition resolve_size_delta (e : el) : el :=
  let n := ename e in
  let gn k := match eget e k with Some v => strp v | None => None end in
  let '(w, h) :=
    if String.eqb n "circle" then
      let d := match eget e "r" with
               | Some r => Some (two *. match strp r with Some x => x | None => zero end)
               | None => None end in (d, d)
    else if String.eqb n "ellipse" then
      (match gn "rx" with Some x => Some (x *. two) | None => None end,
       match gn "ry" with Some x => Some (x *. two) | None => None end)
    else (gn "width", gn "height") in
  let e := match eget e "dw" with
           | Some dw => let e := epop e "dw" in
                        match strp_length N strp dw, w with
                        | Some l, Some x => eset e "width" (fstr (len_adjust N l x))
                        | _, _ => e end
           | None => e end in
  match eget e "dh" with
  | Some dh => let e := epop e "dh" in
               match strp_length N strp dh, h with
               | Some l, Some x => eset e "height" (fstr (len_adjust N l x))
               | _, _ => e end
  | None => e end.

Definition is_size_attr (e : el) (k : string) : bool :=
  if (String.eqb (ename e) "text" || String.eqb (ename e) "point")%bool then false
  else ((String.eqb k "width" || String.eqb k "height")
        || (String.eqb (ename e) "circle" && String.eqb k "r")
        || (String.eqb (ename e) "ellipse" && (String.eqb k "rx" || String.eqb k "ry")))%bool.
Definition is_pos_attr (k : string) : bool := mem_str k pos_attr_names.

(* remain.split_once(' ') *)
Definition split_once_space (s : string) : string * string :=
  match break_at (Ascii.eqb " ") s with (a, Some (_, b)) => (a, b) | (a, None) => (s, "") end.

Definition eval_size_attr (c : emap) (name value : string) : res string :=
  match parse_scalarspec name with
  | None => Ok value
  | Some attr_ss =>
      do '(oe, remain) <- split_relspec c value;
      match oe with
      | None => Ok value
      | Some t =>
          match get_element_bbox c t with
          | Ok (Some bb) =>
              let '(ss_str, dxy) := split_once_space remain in
              do v <- (match strip_prefix "~" ss_str with
                       | Some ss => match parse_scalarspec ss with
                                    | Some s => Ok (bb_scalarspec N bb s) | None => Err EInvalidData end
                       | None => Ok (bb_scalarspec N bb attr_ss) end);
              let v := match strp_length N strp dxy with Some l => len_adjust N l v | None => v end in
              Ok (fstr v)
          | Panic p => Panic p | OutOfFuel => OutOfFuel
          | _ => Ok value
          end
      end
  end.

Definition extract_dx_dy (s : string) : res (num * num) :=
  let '(a, b) := cycle2 (attr_split s) in
  do dx <- strp_r (match a with Some x => x | None => "0" end);
  do dy <- strp_r (match b with Some x => x | None => "0" end);
  Ok (dx, dy).

(* the arithmetic of a position attribute: coordinate of the location plus the offset *)
Definition pos_value (attr_ss : scalarspec) (bb : bbox) (loc : locspec) (dx dy : num) : num :=
  let '(x, y) := bb_locspec N bb loc in
  match attr_ss with
  | Minx | Maxx | Cx => x +. dx
  | Miny | Maxy | Cy => y +. dy
  | _ => bb_scalarspec N bb attr_ss end.
(* the arithmetic of directional placement: top-left corner of the placed element *)
Definition dir_place (rel : dirspec) (bb : bbox) (tw th gap : num) : num * num :=
  let '(x, y) := bb_locspec N bb (LNamed (dir_to_locname rel)) in
  let '(dx, dy) :=
    match rel with
    | Above => (nneg N tw /. two, nneg N (th +. gap))
    | Below => (nneg N tw /. two, gap)
    | InFront => (gap, nneg N th /. two)
    | Behind => (nneg N (tw +. gap), nneg N th /. two)
    end in
  (x +. dx, y +. dy).

Definition pos_attr_helper (e : el) (remain : string) (bb : bbox) (attr_ss : scalarspec) : res string :=
  let '(loc_str, dxy) := split_once_space remain in
  match strip_prefix "~" loc_str with
  | Some ss =>
      match parse_scalarspec ss with
      | None => Err EInvalidData
      | Some s =>
          let v := bb_scalarspec N bb s in
          Ok (fstr (match strp_length N strp dxy with Some l => len_adjust N l v | None => v end))
      end
  | None =>
      do loc0 <- (if String.eqb (ename e) "text"
                  then parse_locspec N strp (match eget e "text-loc" with Some l => l | None => "c" end)
                  else Ok (LNamed (scalar_to_locname attr_ss)));
      do loc <- (match strip_prefix "@" loc_str with
                 | Some ls => parse_locspec N strp ls
                 | None => if nonempty loc_str then Err EParse else Ok loc0 end);
      do '(dx, dy) <- extract_dx_dy dxy;
      Ok (fstr (pos_value attr_ss bb loc dx dy))
  end.

Definition eval_pos_attr (c : emap) (e : el) (name value : string) : res string :=
  match parse_scalarspec name with
  | None => Ok value
  | Some attr_ss =>
      do '(oe, remain) <- split_relspec c value;
      match oe with
      | None => Ok value
      | Some t =>
          match get_element_bbox c t with
          | Ok (Some bb) => pos_attr_helper e remain bb attr_ss
          | Panic p => Panic p | OutOfFuel => OutOfFuel
          | _ => Ok value
          end
      end
  end.

(* eval_rel_attributes: iterate over a snapshot of the attributes, updating the live map *)
Definition eval_rel_attributes (c : emap) (e : el) : res el :=
  let fix go (l : attrs) (e : el) : res el :=
    match l with
    | [] => Ok e
    | (k, v) :: r =>
        if is_size_attr e k then
          do computed <- eval_size_attr c k v;
          go r (match strp computed with Some _ => eset e k computed | None => e end)
        else if is_pos_attr k then
          do computed <- eval_pos_attr c e k v;
          go r (match strp computed with Some _ => eset e k computed | None => e end)
        else go r e
    end in
  go (eattrs e) e.

Definition place_at (c : emap) (e : el) (x y : num) : res el :=
  if String.eqb (ename e) "use" then
    do t <- get_target_element c e;
    do b <- el_bbox t;
    match b with
    | Some bb => Ok (eset (eset e "x" (fstr (x -. bx1 bb))) "y" (fstr (y -. by1 bb)))
    | None => Ok e end
  else Ok (eset (eset e "x" (fstr x)) "y" (fstr y)).

Definition eval_rel_position (c : emap) (e : el) : res el :=
  match eget e "xy" with
  | None => Ok e
  | Some input =>
      do '(oe, remain) <- split_relspec c input;
      match oe with
      | None => Ok e
      | Some ref_el =>
          do ob <- get_element_bbox c ref_el;
          match ob, strip_prefix "|" remain with
          | Some bb, Some skip =>
              let '(reldir, rest) :=
                match break_at is_ws skip with
                | (a, Some (ch, b)) => (a, trim_start (String ch b))
                | (a, None) => (skip, "") end in
              match parse_dirspec reldir with
              | None => Err EInvalidData
              | Some rel =>
                  do sz <- el_size c e;
                  let '(tw, th) := match sz with Some p => p | None => (zero, zero) end in
                  do gap <- (if nonempty rest
                             then strp_r (match attr_split rest with x :: _ => x | [] => "0" end)
                             else Ok zero);
                  let '(px, py) := dir_place rel bb tw th gap in
                  place_at c (epop e "xy") px py
              end
          | _, _ => Ok e
          end
      end
  end.

(* eval_text_anchor (text elements carrying a text attribute) *)
Definition first_ws_token (s : string) : string :=
  match split_whitespace s with x :: _ => x | [] => "" end.
Definition eval_text_anchor (c : emap) (e : el) : res el :=
  match eget e "xy" with
  | None => Ok e
  | Some input =>
      do '(_, rel_loc) <- split_relspec c input;
      let rel_loc := first_ws_token rel_loc in
      match strip_prefix "|" rel_loc with
      | Some rel =>
          match parse_dirspec rel with
          | None => Err EInvalidData
          | Some Above => Ok (eset_default e "text-loc" "t")
          | Some Below => Ok (eset_default e "text-loc" "b")
          | Some InFront => Ok (eset_default e "text-loc" "r")
          | Some Behind => Ok (eset_default e "text-loc" "l")
          end
      | None =>
          match strip_prefix "@" rel_loc with
          | Some loc =>
              match parse_locspec N strp loc with
              | Ok (LNamed TopLeft) => Ok (eset_default e "text-loc" "tl")
              | Ok (LNamed Top) => Ok (eset_default e "text-loc" "t")
              | Ok (LNamed TopRight) => Ok (eset_default e "text-loc" "tr")
              | Ok (LNamed Right) => Ok (eset_default e "text-loc" "r")
              | Ok (LNamed BottomRight) => Ok (eset_default e "text-loc" "br")
              | Ok (LNamed Bottom) => Ok (eset_default e "text-loc" "b")
              | Ok (LNamed BottomLeft) => Ok (eset_default e "text-loc" "bl")
              | Ok (LNamed Left) => Ok (eset_default e "text-loc" "l")
              | Ok (LNamed Center) => Ok (eset_default e "text-loc" "c")
              | Ok (LEdge TopEdge _) => Ok (eset_default e "text-loc" "t")
              | Ok (LEdge BottomEdge _) => Ok (eset_default e "text-loc" "b")
              | Ok (LEdge LeftEdge _) => Ok (eset_default e "text-loc" "l")
              | Ok (LEdge RightEdge _) => Ok (eset_default e "text-loc" "r")
              | Panic p => Panic p | OutOfFuel => OutOfFuel
              | Err _ => Err EInvalidData
              end
          | None => Ok e
          end
      end
  end.

(* translated: add dx/dy to every positional attribute (errors if one is not numeric) *)
Definition translated (e : el) (dx dy : num) : res el :=
  let fix go (l : attrs) (acc : el) : res el :=
    match l with
    | [] => Ok acc
    | (k, v) :: r =>
        if (String.eqb k "x" || String.eqb k "cx" || String.eqb k "x1" || String.eqb k "x2")%bool then
          do x <- strp_r v; go r (eset acc k (fstr (x +. dx)))
        else if (String.eqb k "y" || String.eqb k "cy" || String.eqb k "y1" || String.eqb k "y2")%bool then
          do y <- strp_r v; go r (eset acc k (fstr (y +. dy)))
        else go r acc
    end in
  go (eattrs e) e.

(* transmute: the dx/dy part. Bearing paths and connectors are applied by the caller
   through [pre] (identity when neither applies). *)
Definition transmute_dxy (e : el) : res el :=
  if mem_str (ename e) intrinsic_dxdy_elements then Ok e else
  let dx := eget e "dx" in let dy := eget e "dy" in
  let e := epop (epop e "dx") "dy" in
  do d_x <- (match dx with Some v => do x <- strp_r v; Ok (Some x) | None => Ok None end);
  do d_y <- (match dy with Some v => do y <- strp_r v; Ok (Some y) | None => Ok None end);
  match d_x, d_y with
  | None, None => Ok e
  | _, _ => translated e (odf N d_x) (odf N d_y)
  end.

(* expand_relspec for points / d: replace "#id@loc", "#id~scalar", bare "#point" *)
Definition word_break (c : ascii) : bool :=
  negb (is_alnum c || Ascii.eqb c "_" || Ascii.eqb c "-" || Ascii.eqb c "~" || Ascii.eqb c "|"
        || Ascii.eqb c "@" || Ascii.eqb c ":" || Ascii.eqb c "%")%bool.
Definition is_refstart (c : ascii) : bool := (Ascii.eqb c "#" || Ascii.eqb c "^")%bool.
Definition expand_single_relspec (c : emap) (value : string) : string :=
  match split_relspec c value with
  | Ok (Some t, rest) =>
      let pt loc := match get_element_bbox c t with
                    | Ok (Some bb) => let '(x, y) := bb_locspec N bb loc in Some (fstr x ++ " " ++ fstr y)
                    | _ => None end in
      if (negb (nonempty rest) && String.eqb (ename t) "point")%bool then
        match pt (LNamed Center) with Some s => s | None => value end
      else
        match (match strip_prefix "@" rest with
               | Some l => to_opt (parse_locspec N strp l) | None => None end) with
        | Some loc => match pt loc with Some s => s | None => value end
        | None =>
            match (match strip_prefix "~" rest with Some s => parse_scalarspec s | None => None end) with
            | Some sc => match get_element_bbox c t with
                         | Ok (Some bb) => fstr (bb_scalarspec N bb sc)
                         | _ => value end
            | None => value
            end
        end
  | _ => value
  end.
Fixpoint expand_relspec_loop (fuel : nat) (c : emap) (value : string) : string :=
  match fuel with
  | O => value
  | S f =>
      match break_at is_refstart value with
      | (pre, None) => pre
      | (pre, Some (ch, after)) =>
          let w := take_while (fun x => negb (word_break x)) after in
          let rest := drop_while (fun x => negb (word_break x)) after in
          pre ++ expand_single_relspec c (String ch w) ++
          (match rest with EmptyString => "" | _ => expand_relspec_loop f c rest end)
      end
  end.
Definition expand_relspec (c : emap) (value : string) : string :=
  expand_relspec_loop (S (String.length value)) c value.

(* resolve_position. [evala] is eval_attributes (expressions, variables), a parameter here. *)
Context (eval_attributes : emap -> el -> res el).
Definition resolve_position (c : emap) (e : el) : res el :=
  do e <- eval_attributes c e;
  do e <- handle_containment c e;
  let e := expand_compound_size e in
  do e <- eval_rel_attributes c e;
  let e := resolve_size_delta e in
  do e <- (if (String.eqb (ename e) "text" && ehas e "text")%bool then eval_text_anchor c e else Ok e);
  do e <- eval_rel_position c e;
  let e := expand_compound_pos e in
  do e <- eval_rel_attributes c e;
  let e := match ename e, eget e "points" with
           | n, Some p => if (String.eqb n "polyline" || String.eqb n "polygon")%bool
                          then eset e "points" (expand_relspec c p) else e
           | _, None => e end in
  let e := match eget e "d" with
           | Some d => if String.eqb (ename e) "path" then eset e "d" (expand_relspec c d) else e
           | None => e end in
  let p := position_of N strp (ename e) (eattrs e) in
  do p <-
    (if String.eqb (ename e) "use" then
       match get_href e with
       | Some h =>
           match parse_elref h with
           | None => Err EParse
           | Some r =>
               match get_element c r with
               | None => Err EReference
               | Some t =>
                   do sz <- get_element_size c t;
                   match sz with
                   | Some (w, h) =>
                       let p := {| pxmin := pxmin N p; pymin := pymin N p; pxmax := pxmax N p; pymax := pymax N p;
                                   pcx := pcx N p; pcy := pcy N p; pwidth := Some w; pheight := Some h;
                                   pdx := pdx N p; pdy := pdy N p; pshape := pshape N p |} in
                       if (String.eqb (ename t) "circle" || String.eqb (ename t) "ellipse")%bool then
                         let four := two *. two in
                         let tx o := match o with Some x => Some (x +. w /. four) | None => None end in
                         let ty o := match o with Some y => Some (y +. h /. four) | None => None end in
                         Ok {| pxmin := tx (pxmin N p); pymin := ty (pymin N p); pxmax := tx (pxmax N p);
                               pymax := ty (pymax N p); pcx := tx (pcx N p); pcy := ty (pcy N p);
                               pwidth := pwidth N p; pheight := pheight N p;
                               pdx := pdx N p; pdy := pdy N p; pshape := pshape N p |}
                       else Ok p
                   | None => Ok p end
               end
           end
       | None => Ok p end
     else Ok p);
  Ok (with_attrs e (set_position_attrs N strp fstr fdisplay p (ename e) (eattrs e))).
End WithNum.
