(* The number interface of the model, instantiated twice: exact rationals (theorems)
   and binary32 (what the correspondence check executes). *)
From Coq Require Import ZArith QArith Qabs String Floats.SpecFloat Qround.
From SvgdxModel Require Import Num.F32.

Record NumOps := {
  num : Type;
  nadd : num -> num -> num; nsub : num -> num -> num;
  nmul : num -> num -> num; ndiv : num -> num -> num;
  nneg : num -> num; nabs : num -> num;
  nmin : num -> num -> num; nmax : num -> num -> num;
  nltb : num -> num -> bool; nleb : num -> num -> bool; neqb : num -> num -> bool;
  nfloor : num -> num; nceil : num -> num;
  nofZ : Z -> num;
  nsqrt2 : num; nfrac1sqrt2 : num; n0p01 : num
}.

Definition F32Ops : NumOps := {|
  num := f32; nadd := fadd; nsub := fsub; nmul := fmul; ndiv := fdiv;
  nneg := fneg; nabs := fabs; nmin := fmin; nmax := fmax;
  nltb := fltb; nleb := fleb; neqb := feqb;
  nfloor := ffloor; nceil := fceil; nofZ := of_Z;
  nsqrt2 := f_sqrt2; nfrac1sqrt2 := f_frac_1_sqrt2; n0p01 := f_0p01 |}.

(* Exact instance. The two irrational constants are the exact rational values of the
   f32 constants the code uses. *)
Definition Qmin' (a b : Q) : Q := if Qle_bool a b then a else b.
Definition Qmax' (a b : Q) : Q := if Qle_bool a b then b else a.
Definition Qltb (a b : Q) : bool := negb (Qle_bool b a).
Definition QOps : NumOps := {|
  num := Q; nadd := Qplus; nsub := Qminus; nmul := Qmult; ndiv := Qdiv;
  nneg := Qopp; nabs := Qabs; nmin := Qmin'; nmax := Qmax';
  nltb := Qltb; nleb := Qle_bool; neqb := Qeq_bool;
  nfloor := fun q => inject_Z (Qfloor q); nceil := fun q => inject_Z (Qceiling q);
  nofZ := inject_Z;
  nsqrt2 := 11863283 # 8388608; nfrac1sqrt2 := 11863283 # 16777216; n0p01 := 1 # 100 |}.
