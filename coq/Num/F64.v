(* IEEE binary64 values as far as svgdx needs them: the loop variable of <loop> is accumulated in f64 and
   printed with Rust's Display (shortest digits that round-trip, positional); index values are integers. *)
From Coq Require Import ZArith String Ascii List Bool Floats.SpecFloat.
From SvgdxModel Require Import Base.Str Num.F32.
Import ListNotations.
Open Scope Z_scope.

Definition prec64 := 53. Definition emax64 := 1024.
Definition f64 := spec_float.
Definition f64_add : f64 -> f64 -> f64 := SFadd prec64 emax64.
Definition f64_of_Z (z : Z) : f64 := binary_normalize prec64 emax64 z 0 false.
Definition f64_zero : f64 := S754_zero false.
Definition f64_one : f64 := f64_of_Z 1.

Definition round_dec64 (neg : bool) (m e10 : Z) : f64 :=
  if m =? 0 then S754_zero neg else
  let e10 := Z.max (-800) (Z.min 800 e10) in
  let r :=
    if 0 <=? e10 then binary_normalize prec64 emax64 (m * 10 ^ e10) 0 false
    else
      let d := 10 ^ (- e10) in
      let sh := Z.max 0 (60 + bits_of d - bits_of m) in
      let q := (m * 2 ^ sh) / d in
      let sticky := if (m * 2 ^ sh) mod d =? 0 then 0 else 1 in
      binary_normalize prec64 emax64 (2 * q + sticky) (- sh - 1) false in
  if neg then SFopp r else r.

(* Rust's <f64 as FromStr> (same grammar as f32) *)
Definition parse_f64 (s : string) : option f64 :=
  let '(neg, s1) := match s with
                    | String "-"%char r => (true, r)
                    | String "+"%char r => (false, r)
                    | _ => (false, s) end in
  let l := lower_str s1 in
  if (String.eqb l "inf" || String.eqb l "infinity")%bool then Some (S754_infinity neg)
  else if String.eqb l "nan" then Some S754_nan
  else
    let '(ip, ic, r1) := digits s1 0 0 in
    let '(fp, fc, r2) := match r1 with String "."%char r => digits r ip 0 | _ => (ip, 0, r1) end in
    if (ic + fc =? 0) then None
    else
      match r2 with
      | EmptyString => Some (round_dec64 neg fp (- fc))
      | String c r3 =>
          if (Ascii.eqb c "e" || Ascii.eqb c "E")%bool then
            let '(eneg, r4) := match r3 with
                               | String "-"%char r => (true, r)
                               | String "+"%char r => (false, r)
                               | _ => (false, r3) end in
            let '(ev, ec, r5) := digits r4 0 0 in
            if (ec =? 0) then None else
            match r5 with
            | EmptyString => Some (round_dec64 neg fp ((if eneg then - ev else ev) - fc))
            | _ => None end
          else None
      end.

Definition shortest_digits64 (x : f64) (n d : Z) : Z * Z :=
  let k := dec_exp n d in
  let fix go (fuel : nat) (p : Z) : Z * Z :=
    let s := p - k in
    let sn := if 0 <=? s then n * pow10 s else n in
    let sd := if 0 <=? s then d else d * pow10 (- s) in
    let lo := sn / sd in let hi := lo + 1 in
    let ok z := SFeqb (round_dec64 false z (- s)) x in
    let rem2 := 2 * (sn mod sd) in
    match fuel with
    | O => (lo, s)
    | S f =>
        if (ok lo && ok hi)%bool then
          (if rem2 <? sd then (lo, s) else if sd <? rem2 then (hi, s)
           else if Z.even lo then (lo, s) else (hi, s))
        else if ok lo then (lo, s) else if ok hi then (hi, s) else go f (p + 1)
    end in
  go 20%nat 1.
Definition f64_to_string (x : f64) : string :=
  match x with
  | S754_nan => "NaN"%string
  | S754_infinity s => if s then "-inf"%string else "inf"%string
  | S754_zero s => if s then "-0"%string else "0"%string
  | S754_finite s m e =>
      let n := if 0 <=? e then Z.pos m * 2 ^ e else Z.pos m in
      let d := if 0 <=? e then 1 else 2 ^ (- e) in
      let '(dg, sc) := shortest_digits64 (SFabs x) n d in
      let body := positional dg sc in
      if s then String "-"%char body else body
  end.

(* u32 / usize from_str: optional '+', decimal digits only *)
Definition parse_u32 (s : string) : option Z :=
  let s1 := match s with String "+"%char r => r | _ => s end in
  match s1 with
  | EmptyString => None
  | _ => let '(v, cnt, rest) := digits s1 0 0 in
         match rest with EmptyString => if v <? 2 ^ 32 then Some v else None | _ => None end
  end.
