(* The operations the expression evaluator needs beyond NumOps (number text, euclidean
   remainder, casts, the libm oracle, the random stream), as a second record so that
   Num/NumOps.v stays untouched. Instances: binary32 (executed) and exact rationals. *)
From Coq Require Import ZArith QArith Qabs Qround String Ascii List Bool Floats.SpecFloat.
From SvgdxModel Require Import Base.Str Num.F32 Num.F32X Num.NumOps Model.Pcg.
Import ListNotations.

(* functions computed by the platform's libm: no bit-exact specification *)
Inductive libm1 := LLn | LExp | LSin | LCos | LTan | LAsin | LAcos | LAtan.
Inductive libm2 := LPow | LHypot | LAtan2.

Record XOps (N : NumOps) := {
  xparse : string -> option (num N);          (* <f32 as FromStr>::from_str *)
  xfstr : num N -> string;                    (* types::fstr *)
  xrem_euclid : num N -> num N -> num N;
  xdiv_euclid : num N -> num N -> num N;
  xfract : num N -> num N;
  xsignum : num N -> num N;
  xsqrt : num N -> num N;
  xclamp : num N -> num N -> num N -> num N;  (* body of f32::clamp below its assertion *)
  xis_nan : num N -> bool;
  xtotal_ltb : num N -> num N -> bool;        (* total_cmp = Less, for non-NaN operands *)
  xas_i32 : num N -> Z;
  xas_usize : num N -> Z;
  xneg_zero : num N;                          (* -0.0: where iter::Sum for f32 starts *)
  xrad_per_deg : num N;                       (* f32::to_radians factor *)
  xdeg_per_rad : num N;                       (* f32::to_degrees factor *)
  xlibm1 : libm1 -> num N -> num N;
  xlibm2 : libm2 -> num N -> num N -> num N;
  xlibm_exact : bool;                         (* false: results of xlibm* are placeholders *)
  xnan_signed : bool;                         (* true: NaN carries a sign this model lacks *)
  xrng : Type;
  xrandom : xrng -> num N * xrng;             (* random::<f32>() *)
  xrandint : Z -> Z -> xrng -> Z * xrng;      (* random_range(lo..=hi), lo <= hi *)
}.
Arguments xparse {N}. Arguments xfstr {N}. Arguments xrem_euclid {N}. Arguments xdiv_euclid {N}.
Arguments xfract {N}. Arguments xsignum {N}. Arguments xsqrt {N}. Arguments xclamp {N}.
Arguments xis_nan {N}. Arguments xtotal_ltb {N}. Arguments xas_i32 {N}. Arguments xas_usize {N}.
Arguments xneg_zero {N}. Arguments xrad_per_deg {N}. Arguments xdeg_per_rad {N}.
Arguments xlibm1 {N}. Arguments xlibm2 {N}. Arguments xlibm_exact {N}. Arguments xnan_signed {N}.
Arguments xrng {N}. Arguments xrandom {N}. Arguments xrandint {N}.

(* ---------------- binary32 ---------------- *)
Definition f_pi : f32 := S754_finite false 13176795 (-22).                (* consts::PI *)
Definition f_rad_per_deg : f32 := fdiv f_pi (of_Z 180).                    (* PI / 180.0 *)
Definition f_deg_per_rad : f32 :=                                          (* 57.2957795130823208767981548141051703_f32 *)
  round_dec false 572957795130823208767981548141051703 (-34).

Definition F32X : XOps F32Ops := Build_XOps F32Ops
  (* xparse *) (parse_f32)
  (* xfstr *) (fstr)
  (* xrem_euclid *) (frem_euclid)
  (* xdiv_euclid *) (fdiv_euclid)
  (* xfract *) (ffract)
  (* xsignum *) (fsignum)
  (* xsqrt *) (fsqrt)
  (* xclamp *) (fclamp)
  (* xis_nan *) (is_nan)
  (* xtotal_ltb *) (ftotal_ltb)
  (* xas_i32 *) (as_i32)
  (* xas_usize *) (as_usize)
  (* xneg_zero *) (S754_zero true)
  (* xrad_per_deg *) (f_rad_per_deg)
  (* xdeg_per_rad *) (f_deg_per_rad)
  (* xlibm1 *) (fun _ _ => S754_nan)
  (* xlibm2 *) (fun _ _ _ => S754_nan)
  (* xlibm_exact *) (false)
  (* xnan_signed *) (true)
  (* xrng *) (pcg)
  (* xrandom *) (fun g => let '(w, g1) := pcg_u24 g in (f_of_u24 w, g1))
  (* xrandint *) (pcg_range).

(* ---------------- exact rationals ---------------- *)
Local Open Scope Q_scope.
Definition Qtrunc (q : Q) : Z := if Qle_bool 0 q then Qfloor q else Qceiling q.
Definition Qfmod (a b : Q) : Q := if Qeq_bool b 0 then 0 else a - b * inject_Z (Qtrunc (a / b)).
Definition Qrem_euclid (a b : Q) : Q :=
  let r := Qfmod a b in if Qltb r 0 then r + Qabs b else r.
Definition Qdiv_euclid (a b : Q) : Q :=
  let q := inject_Z (Qtrunc (a / b)) in
  if Qltb (Qfmod a b) 0 then (if Qltb 0 b then q - 1 else q + 1) else q.
Definition Qsignum (a : Q) : Q := if Qltb a 0 then - (1) else 1.
Definition Qclamp (x lo hi : Q) : Q :=
  let x1 := if Qltb x lo then lo else x in if Qltb hi x1 then hi else x1.

(* decimal text -> Q:  [+-]? digits [. digits]  (no exponent, no inf/nan: not rationals) *)
Definition parse_q (s : string) : option Q :=
  let '(neg, s1) := match s with
                    | String "-"%char r => (true, r)
                    | String "+"%char r => (false, r)
                    | _ => (false, s) end in
  let '(ip, ic, r1) := digits s1 0%Z 0%Z in
  let '(fp, fc, r2) := match r1 with String "."%char r => digits r ip 0%Z | _ => (ip, 0%Z, r1) end in
  if (ic + fc =? 0)%Z then None else
  match r2 with
  | EmptyString =>
      let q := Qmake fp (Z.to_pos (10 ^ fc)%Z) in Some (if neg then - q else q)
  | _ => None end.
(* Q -> text: "0" below 0.0001, integers as such, else three decimals (round half even), trimmed *)
Definition q_fstr (q : Q) : string :=
  if Qltb (Qabs q) (1 # 10000) then "0"%string
  else if Qeq_bool q (inject_Z (Qfloor q)) then int_str (Qfloor q)
  else
    let k := round_half_even (Z.abs (Qnum q) * 1000)%Z (Z.pos (Qden q)) in
    let body := String.append (nat_str (k / 1000)%Z) (String.append "."%string (pad3 (k mod 1000)%Z)) in
    let t := trim_end_char "."%char (trim_end_char "0"%char body) in
    if Qltb q 0 then String "-"%char t else t.

Definition QX : XOps QOps := Build_XOps QOps
  (* xparse *) (parse_q)
  (* xfstr *) (q_fstr)
  (* xrem_euclid *) (Qrem_euclid)
  (* xdiv_euclid *) (Qdiv_euclid)
  (* xfract *) (fun q => q - inject_Z (Qtrunc q))
  (* xsignum *) (Qsignum)
  (* xsqrt: no rational square root, placeholder *) (fun q => q)
  (* xclamp *) (Qclamp)
  (* xis_nan *) (fun _ => false)
  (* xtotal_ltb *) (Qltb)
  (* xas_i32 *) (fun q => clamp_i32 (Qtrunc q))
  (* xas_usize *) (fun q => Z.max 0 (Z.min (2 ^ 64 - 1) (Qtrunc q))%Z)
  (* xneg_zero *) (0)
  (* xrad_per_deg *) (31415927 # 1800000000)
  (* xdeg_per_rad *) (1800000000 # 31415927)
  (* xlibm1 *) (fun _ q => q)
  (* xlibm2 *) (fun _ q _ => q)
  (* xlibm_exact *) (false)
  (* xnan_signed *) (false)
  (* xrng *) (pcg)
  (* xrandom *) (fun g => let '(w, g1) := pcg_u24 g in (Qmake w (2 ^ 24)%positive, g1))
  (* xrandint *) (pcg_range).
