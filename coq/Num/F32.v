(* IEEE binary32 on the standard library's proof-free SpecFloat (prec 24, emax 128),
   plus the decimal conversions svgdx uses: [strp] (Rust str::parse::<f32>) and
   [fstr] (svgdx's minimal number text). *)
From Coq Require Import ZArith String Ascii List Bool Floats.SpecFloat.
From SvgdxModel Require Import Base.Str.
Import ListNotations.
Open Scope Z_scope.

Definition prec := 24. Definition emax := 128.
Definition f32 := spec_float.
Definition fadd : f32 -> f32 -> f32 := SFadd prec emax.
Definition fsub : f32 -> f32 -> f32 := SFsub prec emax.
Definition fmul : f32 -> f32 -> f32 := SFmul prec emax.
Definition fdiv : f32 -> f32 -> f32 := SFdiv prec emax.
Definition fsqrt : f32 -> f32 := SFsqrt prec emax.
Definition fneg : f32 -> f32 := SFopp.
Definition fabs : f32 -> f32 := SFabs.
Definition fltb : f32 -> f32 -> bool := SFltb.
Definition fleb : f32 -> f32 -> bool := SFleb.
Definition feqb : f32 -> f32 -> bool := SFeqb.
Definition of_Z (z : Z) : f32 := binary_normalize prec emax z 0 false.
Definition f0 : f32 := S754_zero false.
Definition is_nan (x : f32) : bool := match x with S754_nan => true | _ => false end.
(* f32::min / max: IEEE minNum/maxNum - a NaN operand yields the other operand *)
Definition fmin (a b : f32) : f32 :=
  if is_nan a then b else if is_nan b then a else if fltb a b then a else b.
Definition fmax (a b : f32) : f32 :=
  if is_nan a then b else if is_nan b then a else if fltb b a then a else b.

(* floor / ceil / trunc *)
Definition ffloor (x : f32) : f32 :=
  match x with
  | S754_finite s m e =>
      if 0 <=? e then x else
      let q := Z.pos m / 2 ^ (- e) in
      let exact := (Z.pos m mod 2 ^ (- e)) =? 0 in
      if s then (let r := if exact then q else q + 1 in
                 if r =? 0 then S754_zero true else SFopp (of_Z r))
      else (if q =? 0 then S754_zero false else of_Z q)
  | _ => x end.
Definition fceil (x : f32) : f32 := SFopp (ffloor (SFopp x)).
Definition ftrunc (x : f32) : f32 :=
  match x with S754_finite s _ _ => if s then fceil x else ffloor x | _ => x end.

(* bits <-> float *)
Definition of_bits (b : Z) : f32 :=
  let s := Z.testbit b 31 in
  let ex := (b / 2 ^ 23) mod 256 in
  let mant := b mod 2 ^ 23 in
  if ex =? 255 then (if mant =? 0 then S754_infinity s else S754_nan)
  else if ex =? 0 then (match mant with Zpos p => S754_finite s p (-149) | _ => S754_zero s end)
  else match mant + 2 ^ 23 with Zpos p => S754_finite s p (ex - 150) | _ => S754_nan end.
Definition to_bits (x : f32) : Z :=
  match x with
  | S754_zero s => if s then 2 ^ 31 else 0
  | S754_infinity s => (if s then 2 ^ 31 else 0) + 255 * 2 ^ 23
  | S754_nan => 255 * 2 ^ 23 + 2 ^ 22
  | S754_finite s m e =>
      (if s then 2 ^ 31 else 0) +
      (if Z.pos m <? 2 ^ 23 then Z.pos m
       else (e + 150) * 2 ^ 23 + (Z.pos m - 2 ^ 23))
  end.
(* canonical form: mantissa normalised as the bit pattern dictates *)
Definition canon (x : f32) : f32 := of_bits (to_bits x).

(* ---------- decimal printing of integers ---------- *)
Definition digit_char (d : Z) : ascii := ascii_of_nat (Z.to_nat (48 + d)).
Fixpoint pos_digits (fuel : nat) (z : Z) (acc : string) : string :=
  match fuel with
  | O => acc
  | S f => if z <? 10 then String (digit_char z) acc
           else pos_digits f (z / 10) (String (digit_char (z mod 10)) acc)
  end.
Definition nat_str (z : Z) : string := pos_digits (S (Z.to_nat (Z.log2 (Z.max z 1)))) z ""%string.
Definition int_str (z : Z) : string := if z <? 0 then String "-"%char (nat_str (- z)) else nat_str z.

(* ---------- x as i32 (truncating, saturating, NaN -> 0) ---------- *)
Definition i32_min := - 2 ^ 31. Definition i32_max := 2 ^ 31 - 1.
Definition clamp_i32 (z : Z) := Z.max i32_min (Z.min i32_max z).
Definition trunc_Z (x : f32) : Z :=
  match x with
  | S754_finite s m e =>
      let mag := if 0 <=? e then Z.pos m * 2 ^ e else Z.pos m / 2 ^ (- e) in
      if s then - mag else mag
  | _ => 0 end.
Definition as_i32 (x : f32) : Z :=
  match x with
  | S754_zero _ => 0
  | S754_nan => 0
  | S754_infinity s => if s then i32_min else i32_max
  | S754_finite _ _ _ => clamp_i32 (trunc_Z x)
  end.
Definition as_usize (x : f32) : Z :=   (* saturating at 0 and 2^64-1 *)
  match x with
  | S754_zero _ => 0 | S754_nan => 0
  | S754_infinity s => if s then 0 else 2 ^ 64 - 1
  | S754_finite _ _ _ => Z.max 0 (Z.min (2 ^ 64 - 1) (trunc_Z x))
  end.

(* ---------- {:.3} formatting: exact, round half to even ---------- *)
Definition round_half_even (n d : Z) : Z :=
  let q := n / d in let r := n mod d in
  match Z.compare (2 * r) d with
  | Lt => q | Gt => q + 1 | Eq => if Z.even q then q else q + 1 end.
Definition pad3 (z : Z) : string :=
  String (digit_char (z / 100)) (String (digit_char ((z / 10) mod 10)) (String (digit_char (z mod 10)) ""%string)).
Definition fmt3 (x : f32) : string :=
  match x with
  | S754_nan => "NaN"%string
  | S754_infinity s => if s then "-inf"%string else "inf"%string
  | S754_zero s => if s then "-0.000"%string else "0.000"%string
  | S754_finite s m e =>
      let k := if 0 <=? e then Z.pos m * 2 ^ e * 1000
               else round_half_even (Z.pos m * 1000) (2 ^ (- e)) in
      let body := String.append (nat_str (k / 1000)) (String.append "."%string (pad3 (k mod 1000))) in
      if s then String "-"%char body else body
  end.

Definition thresh : f32 := S754_finite false 13743895 (-37).   (* 0.0001f32 *)
Definition fstr (x : f32) : string :=
  if SFltb (SFabs x) thresh then "0"%string
  else if SFeqb x (of_Z (as_i32 x)) then int_str (as_i32 x)
  else trim_end_char "."%char (trim_end_char "0"%char (fmt3 x)).

(* ---------- Rust Display for f32 ({}): shortest round-trip digits are NOT modelled;
   only the cases svgdx can reach with exactly representable small integers/dyadics
   are handled by [fdisplay_simple] (used for translate(x, y)). ---------- *)

(* ---------- decimal -> binary32, correctly rounded ---------- *)
Definition bits_of (z : Z) : Z := if z =? 0 then 0 else Z.log2 z + 1.
Definition round_dec (neg : bool) (m e10 : Z) : f32 :=
  if m =? 0 then S754_zero neg else
  let e10 := Z.max (-400) (Z.min 400 e10) in
  let r :=
    if 0 <=? e10 then binary_normalize prec emax (m * 10 ^ e10) 0 false
    else
      let d := 10 ^ (- e10) in
      let sh := Z.max 0 (30 + bits_of d - bits_of m) in
      let q := (m * 2 ^ sh) / d in
      let sticky := if (m * 2 ^ sh) mod d =? 0 then 0 else 1 in
      binary_normalize prec emax (2 * q + sticky) (- sh - 1) false in
  if neg then SFopp r else r.

Definition dval (c : ascii) : Z := Z.of_nat (nat_of_ascii c) - 48.
Fixpoint digits (s : string) (acc cnt : Z) : Z * Z * string :=
  match s with
  | String c r => if is_digit c then digits r (acc * 10 + dval c) (cnt + 1) else (acc, cnt, s)
  | EmptyString => (acc, cnt, s)
  end.

(* Rust's <f32 as FromStr>: [+-]? (inf | infinity | nan | digits [. digits*] [e[+-]digits] | . digits ...) *)
Definition parse_f32 (s : string) : option f32 :=
  let '(neg, s1) := match s with
                    | String "-"%char r => (true, r)
                    | String "+"%char r => (false, r)
                    | _ => (false, s) end in
  let l := lower_str s1 in
  if (String.eqb l "inf" || String.eqb l "infinity")%bool then Some (S754_infinity neg)
  else if String.eqb l "nan" then Some S754_nan
  else
    let '(ip, ic, r1) := digits s1 0 0 in
    let '(fp, fc, r2) := match r1 with String "."%char r => digits r ip 0 | _ => (ip, 0, r1) end in
    if (ic + fc =? 0) then None
    else
      match r2 with
      | EmptyString => Some (round_dec neg fp (- fc))
      | String c r3 =>
          if (Ascii.eqb c "e" || Ascii.eqb c "E")%bool then
            let '(eneg, r4) := match r3 with
                               | String "-"%char r => (true, r)
                               | String "+"%char r => (false, r)
                               | _ => (false, r3) end in
            let '(ev, ec, r5) := digits r4 0 0 in
            if (ec =? 0) then None else
            match r5 with
            | EmptyString => Some (round_dec neg fp ((if eneg then - ev else ev) - fc))
            | _ => None end
          else None
      end.
Definition strp (s : string) : option f32 := parse_f32 (trim s).

Definition fstr_bits (b : Z) : string := fstr (of_bits b).
Definition strp_bits (s : string) : Z := match strp s with Some x => to_bits x | None => -1 end.

(* constants used by the code *)
Definition f2 : f32 := of_Z 2.
Definition f1 : f32 := of_Z 1.
Definition f_half : f32 := S754_finite false 8388608 (-24).
Definition f_sqrt2 : f32 := S754_finite false 11863283 (-23).        (* std::f32::consts::SQRT_2 *)
Definition f_frac_1_sqrt2 : f32 := S754_finite false 11863283 (-24). (* FRAC_1_SQRT_2 *)
Definition f_0p01 : f32 := S754_finite false 10737418 (-30).          (* 0.01f32 *)

(* ---------- Rust Display for f32 ("{}"): shortest digits that round-trip, positional ---------- *)
Definition pow10 (k : Z) : Z := 10 ^ k.
(* v = n / d >= 10^k ? *)
Definition ge_pow10 (n d k : Z) : bool :=
  if 0 <=? k then d * pow10 k <=? n else d <=? n * pow10 (- k).
(* number of integer digits k with 10^(k-1) <= v < 10^k *)
Definition dec_exp (n d : Z) : Z :=
  let est := ((Z.log2 n - Z.log2 d) * 30103) / 100000 in
  let k0 := est - 2 in
  let fix up (fuel : nat) (k : Z) : Z :=
    match fuel with O => k | S f => if ge_pow10 n d k then up f (k + 1) else k end in
  up 8%nat k0.
Definition zeros (n : Z) : string := repeat_str "0"%string (Z.to_nat n).
(* print d * 10^(-s) positionally, trimming trailing zeros *)
Definition positional (d s : Z) : string :=
  if s <=? 0 then String.append (nat_str d) (zeros (- s))
  else
    let ds := nat_str d in
    let len := Z.of_nat (String.length ds) in
    let ds := if len <=? s then String.append (zeros (s + 1 - len)) ds else ds in
    let len := Z.of_nat (String.length ds) in
    let ip := substring 0 (Z.to_nat (len - s)) ds in
    let fp := substring (Z.to_nat (len - s)) (Z.to_nat s) ds in
    trim_end_char "."%char (trim_end_char "0"%char (String.append ip (String.append "."%string fp))).
Definition shortest_digits (x : f32) (n d : Z) : Z * Z :=   (* (digits, scale s) *)
  let k := dec_exp n d in
  let fix go (fuel : nat) (p : Z) : Z * Z :=
    let s := p - k in
    let sn := if 0 <=? s then n * pow10 s else n in
    let sd := if 0 <=? s then d else d * pow10 (- s) in
    let lo := sn / sd in let hi := lo + 1 in
    let ok z := SFeqb (round_dec false z (- s)) x in
    let rem2 := 2 * (sn mod sd) in
    match fuel with
    | O => (lo, s)
    | S f =>
        if (ok lo && ok hi)%bool then
          (if rem2 <? sd then (lo, s) else if sd <? rem2 then (hi, s)
           else if Z.even lo then (lo, s) else (hi, s))
        else if ok lo then (lo, s) else if ok hi then (hi, s) else go f (p + 1)
    end in
  go 17%nat 1.
Definition fdisplay (x : f32) : string :=
  match x with
  | S754_nan => "NaN"%string
  | S754_infinity s => if s then "-inf"%string else "inf"%string
  | S754_zero s => if s then "-0"%string else "0"%string
  | S754_finite s m e =>
      let n := if 0 <=? e then Z.pos m * 2 ^ e else Z.pos m in
      let d := if 0 <=? e then 1 else 2 ^ (- e) in
      let '(dg, sc) := shortest_digits (SFabs x) n d in
      let body := positional dg sc in
      if s then String "-"%char body else body
  end.
Definition fdisplay_bits (b : Z) : string := fdisplay (of_bits b).
