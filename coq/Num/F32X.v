(* Further binary32 operations used by the expression evaluator (src/expression.rs,
   src/functions.rs): the `%` remainder (fmod, exact), rem_euclid / div_euclid, fract, signum,
   clamp, total_cmp (on non-NaN values; SpecFloat has a single NaN, so the sign of a NaN is
   outside this model). Definitions only. *)
From Coq Require Import ZArith String Bool Floats.SpecFloat.
From SvgdxModel Require Import Num.F32.
Open Scope Z_scope.

(* Rust `a % b` on f32 = C fmodf: exact, sign of the dividend *)
Definition fmod (x y : f32) : f32 :=
  match x, y with
  | S754_nan, _ => S754_nan
  | _, S754_nan => S754_nan
  | S754_infinity _, _ => S754_nan
  | _, S754_zero _ => S754_nan
  | S754_zero _, _ => x
  | _, S754_infinity _ => x
  | S754_finite sx mx ex, S754_finite sy my ey =>
      let e := Z.min ex ey in
      let X := Z.pos mx * 2 ^ (ex - e) in
      let Y := Z.pos my * 2 ^ (ey - e) in
      let r := X mod Y in
      if r =? 0 then S754_zero sx
      else let v := binary_normalize prec emax r e false in if sx then SFopp v else v
  end.

(* f32::rem_euclid:  let r = self % rhs; if r < 0.0 { r + rhs.abs() } else { r } *)
Definition frem_euclid (x y : f32) : f32 :=
  let r := fmod x y in if fltb r f0 then fadd r (fabs y) else r.

(* f32::div_euclid:  let q = (self / rhs).trunc();
                     if self % rhs < 0.0 { return if rhs > 0.0 { q - 1.0 } else { q + 1.0 }; } q *)
Definition fdiv_euclid (x y : f32) : f32 :=
  let q := ftrunc (fdiv x y) in
  if fltb (fmod x y) f0 then (if fltb f0 y then fsub q f1 else fadd q f1) else q.

(* f32::fract: self - self.trunc() *)
Definition ffract (x : f32) : f32 := fsub x (ftrunc x).

(* f32::signum: NaN -> NaN, otherwise 1.0 with the sign of x (zeros included) *)
Definition fsignum (x : f32) : f32 :=
  match x with
  | S754_nan => S754_nan
  | S754_zero s | S754_infinity s | S754_finite s _ _ => if s then fneg f1 else f1
  end.

(* f32::clamp body (after its assert!(min <= max)):
   let mut x = self; if x < min { x = min; } if x > max { x = max; } x *)
Definition fclamp (x lo hi : f32) : f32 :=
  let x1 := if fltb x lo then lo else x in
  if fltb hi x1 then hi else x1.

Definition fsign (x : f32) : bool :=
  match x with S754_zero s | S754_infinity s | S754_finite s _ _ => s | S754_nan => false end.

(* f32::total_cmp restricted to non-NaN values: numeric order with -0 < +0 *)
Definition ftotal_ltb (a b : f32) : bool :=
  if fltb a b then true
  else if feqb a b then (fsign a && negb (fsign b))%bool
  else false.

(* u32 >> 8 scaled by 2^-24: rand's StandardUniform for f32 *)
Definition f_of_u24 (w : Z) : f32 := binary_normalize prec emax w (-24) false.
