(* Result type of the model: the Rust Result, plus explicit panic / fuel outcomes. *)
From Coq Require Import String List.
Import ListNotations.

Inductive errkind :=
| EIo | EParse | EInvalidData | EReference | EVarLimit | ELoopLimit | EDepthLimit
| ECircularRef | EDocument | EMissingAttribute | EMissingBBox | EMessage
| EInternalLogic | EMulti | EOther.

Inductive res (A : Type) :=
| Ok (a : A) | Err (k : errkind) | Panic (site : string) | OutOfFuel.
Arguments Ok {A}. Arguments Err {A}. Arguments Panic {A}. Arguments OutOfFuel {A}.

Definition bind {A B} (r : res A) (f : A -> res B) : res B :=
  match r with Ok a => f a | Err k => Err k | Panic s => Panic s | OutOfFuel => OutOfFuel end.
Notation "'do' x <- r ; k" := (bind r (fun x => k)) (at level 200, x name, r at level 100, k at level 200).
Notation "'do' ' p <- r ; k" := (bind r (fun x => match x with p => k end))
  (at level 200, p pattern, r at level 100, k at level 200).

Definition of_opt {A} (k : errkind) (o : option A) : res A :=
  match o with Some a => Ok a | None => Err k end.
Definition to_opt {A} (r : res A) : option A := match r with Ok a => Some a | _ => None end.
Definition is_ok {A} (r : res A) : bool := match r with Ok _ => true | _ => false end.

Fixpoint mapM {A B} (f : A -> res B) (l : list A) : res (list B) :=
  match l with
  | [] => Ok []
  | x :: r => do y <- f x; do ys <- mapM f r; Ok (y :: ys)
  end.

Definition errkind_name (k : errkind) : string :=
  match k with
  | EIo => "IoError" | EParse => "ParseError" | EInvalidData => "InvalidData"
  | EReference => "ReferenceError" | EVarLimit => "VarLimitError" | ELoopLimit => "LoopLimitError"
  | EDepthLimit => "DepthLimitExceeded" | ECircularRef => "CircularRefError"
  | EDocument => "DocumentError" | EMissingAttribute => "MissingAttribute"
  | EMissingBBox => "MissingBoundingBox" | EMessage => "MessageError"
  | EInternalLogic => "InternalLogicError" | EMulti => "MultiError" | EOther => "OtherError"
  end%string.
