(* Strings are Coq [string]s holding UTF-8 bytes. Small utilities mirroring the
   Rust std string functions svgdx uses (trim, split, find, prefix tests). *)
From Coq Require Import String Ascii List Bool Arith ZArith Lia.
Import ListNotations.
Open Scope string_scope.

Definition byte_of (c : ascii) : nat := nat_of_ascii c.
Definition chr (n : nat) : ascii := ascii_of_nat n.
Definition nl : ascii := chr 10.
Definition nlstr : string := String nl "".

Fixpoint rev_str (s acc : string) : string :=
  match s with EmptyString => acc | String c r => rev_str r (String c acc) end.
Definition srev (s : string) : string := rev_str s "".

(* Rust's char::is_whitespace on ASCII (and the White_Space bytes < 0x80):
   9..13 and 32.  Non-ASCII white space (U+0085, U+00A0, ...) is outside the model. *)
Definition is_ws (c : ascii) : bool :=
  let n := byte_of c in (Nat.eqb n 32 || (Nat.leb 9 n && Nat.leb n 13))%bool.
Definition is_digit (c : ascii) : bool :=
  let n := byte_of c in (Nat.leb 48 n && Nat.leb n 57)%bool.
Definition is_upper (c : ascii) : bool :=
  let n := byte_of c in (Nat.leb 65 n && Nat.leb n 90)%bool.
Definition is_lower (c : ascii) : bool :=
  let n := byte_of c in (Nat.leb 97 n && Nat.leb n 122)%bool.
Definition is_ascii_alpha (c : ascii) : bool := (is_upper c || is_lower c)%bool.
Definition is_ascii_alnum (c : ascii) : bool := (is_ascii_alpha c || is_digit c)%bool.
(* char::is_alphabetic / is_alphanumeric: exact on ASCII; every byte >= 0x80 is
   treated as a letter (stated modelling limit for non-ASCII identifiers). *)
Definition is_alpha (c : ascii) : bool := (is_ascii_alpha c || Nat.leb 128 (byte_of c))%bool.
Definition is_alnum (c : ascii) : bool := (is_alpha c || is_digit c)%bool.

Definition lower (c : ascii) : ascii :=
  if is_upper c then chr (byte_of c + 32) else c.
Fixpoint lower_str (s : string) : string :=
  match s with EmptyString => EmptyString | String c r => String (lower c) (lower_str r) end.

Fixpoint drop_while (p : ascii -> bool) (s : string) : string :=
  match s with String c r => if p c then drop_while p r else s | _ => s end.
Fixpoint take_while (p : ascii -> bool) (s : string) : string :=
  match s with String c r => if p c then String c (take_while p r) else "" | _ => "" end.
Definition trim_start (s : string) : string := drop_while is_ws s.
Definition trim_end (s : string) : string := srev (drop_while is_ws (srev s)).
Definition trim (s : string) : string := trim_end (trim_start s).
Definition trim_end_char (c : ascii) (s : string) : string :=
  srev (drop_while (Ascii.eqb c) (srev s)).
Definition trim_start_char (c : ascii) (s : string) : string := drop_while (Ascii.eqb c) s.

Fixpoint starts_with (p s : string) : bool :=
  match p, s with
  | EmptyString, _ => true
  | String a p', String b s' => (Ascii.eqb a b && starts_with p' s')%bool
  | _, _ => false
  end.
Fixpoint strip_prefix (p s : string) : option string :=
  match p, s with
  | EmptyString, _ => Some s
  | String a p', String b s' => if Ascii.eqb a b then strip_prefix p' s' else None
  | _, _ => None
  end.
Definition ends_with (p s : string) : bool := starts_with (srev p) (srev s).
Definition strip_suffix (p s : string) : option string :=
  match strip_prefix (srev p) (srev s) with Some r => Some (srev r) | None => None end.

Fixpoint contains_char (c : ascii) (s : string) : bool :=
  match s with EmptyString => false | String d r => (Ascii.eqb c d || contains_char c r)%bool end.
Fixpoint exists_char (p : ascii -> bool) (s : string) : bool :=
  match s with EmptyString => false | String d r => (p d || exists_char p r)%bool end.
Fixpoint forall_char (p : ascii -> bool) (s : string) : bool :=
  match s with EmptyString => true | String d r => (p d && forall_char p r)%bool end.

(* split at the first character satisfying p: (before, Some (c, after)) *)
Fixpoint break_at (p : ascii -> bool) (s : string) : string * option (ascii * string) :=
  match s with
  | EmptyString => ("", None)
  | String c r => if p c then ("", Some (c, r))
                  else let '(a, b) := break_at p r in (String c a, b)
  end.

(* find a substring: returns (before, after-the-match) *)
Fixpoint find_sub (pat s : string) : option (string * string) :=
  match strip_prefix pat s with
  | Some rest => Some ("", rest)
  | None => match s with
            | EmptyString => None
            | String c r => match find_sub pat r with
                            | Some (a, b) => Some (String c a, b)
                            | None => None end
            end
  end.
Definition contains_sub (pat s : string) : bool :=
  match find_sub pat s with Some _ => true | None => false end.

(* str::split(pred): always at least one piece *)
Fixpoint split_on (p : ascii -> bool) (s : string) : list string :=
  match s with
  | EmptyString => [""]
  | String c r => if p c then "" :: split_on p r
                  else match split_on p r with h :: t => String c h :: t | [] => [String c ""] end
  end.
Definition split_char (c : ascii) (s : string) : list string := split_on (Ascii.eqb c) s.
(* str::split_whitespace: non-empty maximal runs of non-white-space *)
Definition nonempty (s : string) : bool := match s with EmptyString => false | _ => true end.
Definition split_whitespace (s : string) : list string := filter nonempty (split_on is_ws s).

Fixpoint concat_sep (sep : string) (l : list string) : string :=
  match l with
  | [] => ""
  | [x] => x
  | x :: r => x ++ sep ++ concat_sep sep r
  end.

Fixpoint repeat_str (s : string) (n : nat) : string :=
  match n with O => "" | S k => s ++ repeat_str s k end.

Fixpoint replace_char (c : ascii) (by_ : string) (s : string) : string :=
  match s with
  | EmptyString => ""
  | String d r => (if Ascii.eqb c d then by_ else String d "") ++ replace_char c by_ r
  end.

Fixpoint assoc {A} (k : string) (l : list (string * A)) : option A :=
  match l with [] => None | (k', v) :: r => if String.eqb k k' then Some v else assoc k r end.
Fixpoint mem_str (k : string) (l : list string) : bool :=
  match l with [] => false | x :: r => (String.eqb k x || mem_str k r)%bool end.

Lemma mem_str_In k l : mem_str k l = true <-> In k l.
Proof.
  induction l as [|x r IH]; cbn; [split; [discriminate | tauto]|].
  rewrite orb_true_iff, IH, String.eqb_eq. split; intros [H|H]; auto.
Qed.
