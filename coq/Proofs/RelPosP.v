(* Relative positioning on exact rationals (C09): directional placement, location anchors via the
   generated xy-loc table, scalar references, relative sizes, edge offsets, chains. *)
From Coq Require Import QArith Qabs Lqa String List Bool ZArith.
From SvgdxModel Require Import Base.Str Base.Res Num.NumOps Gen.Tables Model.Types Model.Geom Model.Position
  Model.Scan Model.Element.
Import ListNotations.
Open Scope Q_scope.

Notation QB := (bbox QOps).
Definition qbb (x1 y1 x2 y2 : Q) : QB := Build_bbox QOps x1 y1 x2 y2.
Definition cxq (b : QB) : Q := (bx1 b + bx2 b) / 2.
Definition cyq (b : QB) : Q := (by1 b + by2 b) / 2.

(* ---- |h |H |v |V ---- *)
Lemma relh_spec (R : QB) w h g :
  let '(x, y) := dir_place QOps InFront R w h g in x == bx2 R + g /\ y + h / 2 == cyq R.
Proof. destruct R as [a b c d]. vm_compute dir_to_locname. cbn. unfold cyq. cbn. split; field. Qed.
Lemma relH_spec (R : QB) w h g :
  let '(x, y) := dir_place QOps Behind R w h g in x + w == bx1 R - g /\ y + h / 2 == cyq R.
Proof. destruct R as [a b c d]. vm_compute dir_to_locname. cbn. unfold cyq. cbn. split; field. Qed.
Lemma relv_spec (R : QB) w h g :
  let '(x, y) := dir_place QOps Below R w h g in y == by2 R + g /\ x + w / 2 == cxq R.
Proof. destruct R as [a b c d]. vm_compute dir_to_locname. cbn. unfold cxq. cbn. split; field. Qed.
Lemma relV_spec (R : QB) w h g :
  let '(x, y) := dir_place QOps Above R w h g in y + h == by1 R - g /\ x + w / 2 == cxq R.
Proof. destruct R as [a b c d]. vm_compute dir_to_locname. cbn. unfold cxq. cbn. split; field. Qed.

(* ---- @loc with xy-loc: the chosen anchor of the placed element lands on loc + (dx, dy) ---- *)
Definition empty_pos (w h : Q) : position QOps :=
  Build_position QOps None None None None None None (Some w) (Some h) None None "rect"%string.
Definition pos_put (k : string) (v : Q) (p : position QOps) : position QOps :=
  let upd (f : nat) := Build_position QOps
    (if Nat.eqb f 0 then Some v else pxmin QOps p) (if Nat.eqb f 1 then Some v else pymin QOps p)
    (if Nat.eqb f 2 then Some v else pxmax QOps p) (if Nat.eqb f 3 then Some v else pymax QOps p)
    (if Nat.eqb f 4 then Some v else pcx QOps p) (if Nat.eqb f 5 then Some v else pcy QOps p)
    (pwidth QOps p) (pheight QOps p) (pdx QOps p) (pdy QOps p) (pshape QOps p) in
  if (String.eqb k "x" || String.eqb k "x1")%bool then upd 0%nat
  else if (String.eqb k "y" || String.eqb k "y1")%bool then upd 1%nat
  else if String.eqb k "x2" then upd 2%nat else if String.eqb k "y2" then upd 3%nat
  else if String.eqb k "cx" then upd 4%nat else if String.eqb k "cy" then upd 5%nat else p.

Definition at_loc_row (row : string * (string * string)) : Prop :=
  forall (R : QB) (loc : locspec QOps) (dx dy w h : Q),
  match parse_locname (fst row), parse_scalarspec (fst (snd row)), parse_scalarspec (snd (snd row)) with
  | Some l, Some sx, Some sy =>
      let vx := pos_value QOps sx R loc dx dy in
      let vy := pos_value QOps sy R loc dx dy in
      match to_bbox QOps (pos_put (fst (snd row)) vx (pos_put (snd (snd row)) vy (empty_pos w h))) with
      | Some B => fst (bb_locspec QOps B (LNamed l)) == fst (bb_locspec QOps R loc) + dx /\
                  snd (bb_locspec QOps B (LNamed l)) == snd (bb_locspec QOps R loc) + dy
      | None => False end
  | _, _, _ => False end.
Lemma at_loc_all : Forall at_loc_row (("tl", xy_loc_default) :: xy_loc_table)%string.
Proof.
  unfold xy_loc_table, xy_loc_default.
  repeat (apply Forall_cons;
          [ intros R loc dx dy w h; vm_compute parse_locname; vm_compute parse_scalarspec;
            cbv beta iota; unfold pos_value; destruct (bb_locspec QOps R loc) as [lx ly]; cbn; split; field |]).
  apply Forall_nil.
Qed.

(* ---- scalar references ---- *)
Lemma scalar_ref_spec (R : QB) : bx1 R <= bx2 R -> by1 R <= by2 R ->
  bb_scalarspec QOps R Minx == bx1 R /\ bb_scalarspec QOps R Maxx == bx2 R /\
  bb_scalarspec QOps R Miny == by1 R /\ bb_scalarspec QOps R Maxy == by2 R /\
  bb_scalarspec QOps R Cx == cxq R /\ bb_scalarspec QOps R Cy == cyq R /\
  bb_scalarspec QOps R Width == bx2 R - bx1 R /\ bb_scalarspec QOps R Height == by2 R - by1 R /\
  bb_scalarspec QOps R Rx == (bx2 R - bx1 R) / 2 /\ bb_scalarspec QOps R Ry == (by2 R - by1 R) / 2.
Proof.
  destruct R as [a b c d]. cbn. intros Hx Hy.
  assert (Ax : Qabs (c - a) == c - a) by (apply Qabs_pos; lra).
  assert (Ay : Qabs (d - b) == d - b) by (apply Qabs_pos; lra).
  unfold cxq, cyq. cbn. repeat split; try reflexivity; try (rewrite Ax; reflexivity); try (rewrite Ay; reflexivity).
Qed.

Definition LAbs (a : Q) : length QOps := @Absolute QOps a.
Definition LRatio (r : Q) : length QOps := @Ratio QOps r.
(* ---- relative sizes: "#id 50%", dw/dh ---- *)
Lemma len_adjust_spec (v a r : Q) :
  len_adjust QOps (LAbs a) v == v + a /\ len_adjust QOps (LRatio r) v == v * r.
Proof. cbn. split; reflexivity. Qed.

(* ---- edge offsets: positive from the start, negative from the end, percent linear ---- *)
Lemma Qle_bool_true a b : a <= b -> Qle_bool a b = true. Proof. apply Qle_bool_iff. Qed.
Lemma Qle_bool_false a b : b < a -> Qle_bool a b = false.
Proof. intros H. destruct (Qle_bool a b) eqn:E; [apply Qle_bool_iff in E; lra | reflexivity]. Qed.
Lemma calc_offset_spec (s e a r : Q) : s <= e ->
  (0 <= a -> len_calc_offset QOps (LAbs a) s e == s + a) /\
  (a < 0 -> len_calc_offset QOps (LAbs a) s e == e + a) /\
  len_calc_offset QOps (LRatio r) s e == s + (e - s) * r.
Proof.
  intros Hse. cbn. unfold Qltb, zero. cbn. rewrite (Qle_bool_true s e Hse). cbn.
  split; [|split].
  - intros Ha. change (inject_Z 0) with 0. rewrite (Qle_bool_true 0 a Ha). cbn. change (inject_Z 1) with 1. ring.
  - intros Ha. change (inject_Z 0) with 0. rewrite (Qle_bool_false 0 a Ha). cbn. change (inject_Z 1) with 1. ring.
  - reflexivity.
Qed.

(* ---- chains of any length: each element placed |h gap relative to the previous one ---- *)
Definition place_h (R : QB) (whg : Q * Q * Q) : QB :=
  let '(w, h, g) := whg in
  let '(x, y) := dir_place QOps InFront R w h g in qbb x y (x + w) (y + h).
Fixpoint sum_w (l : list (Q * Q * Q)) : Q := match l with [] => 0 | (w, _, g) :: r => w + g + sum_w r end.
Lemma place_h_step R w h g : bx2 (place_h R (w, h, g)) == bx2 R + g + w /\ cyq (place_h R (w, h, g)) == cyq R.
Proof.
  unfold place_h. pose proof (relh_spec R w h g) as H. destruct (dir_place QOps InFront R w h g) as [x y].
  destruct H as [Hx Hy]. unfold cyq in *. cbn in *. split; [rewrite Hx; ring|].
  rewrite <- Hy. field.
Qed.
Lemma qhelp0 (a : Q) : a == a + 0. Proof. ring. Qed.
Lemma qhelp1 (X B R g w s : Q) : X == B + s -> B == R + g + w -> X == R + (w + g + s).
Proof. intros -> ->. ring. Qed.
Lemma chain_h_spec : forall (l : list (Q * Q * Q)) (R : QB),
  bx2 (fold_left place_h l R) == bx2 R + sum_w l /\ cyq (fold_left place_h l R) == cyq R.
Proof.
  induction l as [|[[w h] g] l IH]; intros R; cbn [fold_left sum_w].
  - split; [apply qhelp0 | reflexivity].
  - destruct (IH (place_h R (w, h, g))) as [Hx Hy]. destruct (place_h_step R w h g) as [Sx Sy].
    split; [eapply qhelp1; eassumption | rewrite Hy, Sy; reflexivity].
Qed.
