(* Acceptance of SVG list syntax (points, shorthand value lists): any number of tokens joined by any separator runs is
   split into exactly those tokens; every token is then read by the number parser.  Frame property of the position
   rewriting: attributes outside the geometry vocabulary are untouched. *)
From Coq Require Import String Ascii List Bool Arith Lia.
From SvgdxModel Require Import Base.Str Base.Res Num.NumOps Gen.Tables Model.Types Model.Geom Model.Position Model.Scan
  Model.Xml Proofs.TypesP Proofs.StrP Proofs.PositionP Proofs.XmlP.
Import ListNotations.
Open Scope string_scope.

(* "t1 sep1 t2 sep2 ... tn": tokens with a separator run in front of every token but the first *)
Fixpoint join_sep (t0 : string) (rest : list (string * string)) : string :=
  match rest with [] => t0 | (sep, t) :: r => t0 ++ sep ++ join_sep t r end.

Lemma sepstr_head sep r : sepstr sep -> exists c r', sep ++ r = String c r' /\ is_sep c = true.
Proof.
  intros [Hne Hs]. destruct sep as [|c s]; [discriminate|]. cbn in Hs. apply andb_true_iff in Hs as [Hc _].
  exists c, (s ++ r). split; [reflexivity | exact Hc].
Qed.

Theorem attr_split_list : forall rest t0, token t0 -> Forall (fun p => sepstr (fst p) /\ token (snd p)) rest ->
  attr_split (join_sep t0 rest) = t0 :: map snd rest.
Proof.
  induction rest as [|[sep t] rest IH]; intros t0 Ht0 Hr; cbn [join_sep map snd].
  - now apply attr_split_one.
  - inversion Hr as [|? ? [Hsep Ht] Hr']; subst. cbn [fst snd] in *.
    rewrite attr_split_token; [| exact Ht0 | right; now apply sepstr_head].
    rewrite attr_split_sepstr by (apply Hsep). rewrite (IH t Ht Hr'). reflexivity.
Qed.

(* the tokens of a points attribute are the attr_split tokens, for every string *)
Lemma trim_token_id : forall s, forall_char (fun c => negb (is_ws c)) s = true -> trim s = s.
Proof.
  intros s H. unfold trim, trim_start, trim_end.
  assert (H1 : drop_while is_ws s = s).
  { destruct s as [|c r]; [reflexivity|]. cbn in *. apply andb_true_iff in H as [Hc _]. apply negb_true_iff in Hc. now rewrite Hc. }
  rewrite H1.
  assert (H2 : forall r, forall_char (fun c => negb (is_ws c)) r = true -> drop_while is_ws (srev r) = srev r).
  { intros r Hr. assert (Hs : forall_char (fun c => negb (is_ws c)) (srev r) = true) by (rewrite forall_char_srev; exact Hr).
    destruct (srev r) as [|c q]; [reflexivity|]. cbn in *. apply andb_true_iff in Hs as [Hc _]. apply negb_true_iff in Hc. now rewrite Hc. }
  rewrite (H2 s H). apply srev_involutive.
Qed.

Lemma split_on_pieces p : forall s, Forall (fun w => forall_char (fun c => negb (p c)) w = true) (split_on p s).
Proof.
  induction s as [|c r IH]; cbn [split_on]; [repeat constructor|].
  destruct (p c) eqn:E; [constructor; [reflexivity | exact IH]|].
  destruct (split_on p r) as [|h t]; [repeat constructor; cbn; now rewrite E|].
  inversion IH as [|? ? Hh Ht]; subst. constructor; [cbn; now rewrite E, Hh | exact Ht].
Qed.
Lemma filter_flat_map {A B} (f : A -> list B) (q : B -> bool) (l : list A) :
  filter q (flat_map f l) = flat_map (fun x => filter q (f x)) l.
Proof. induction l as [|x l IH]; cbn; [reflexivity|]. now rewrite filter_app, IH. Qed.
Lemma no_ws_comma_pieces w : forall_char (fun c => negb (is_ws c)) w = true ->
  Forall (fun x => forall_char (fun c => negb (is_ws c)) x = true) (split_char "," w).
Proof.
  unfold split_char. induction w as [|c r IH]; cbn [split_on]; intros H; [repeat constructor|].
  cbn in H. apply andb_true_iff in H as [Hc Hr]. specialize (IH Hr).
  destruct (Ascii.eqb "," c); [constructor; [reflexivity | exact IH]|].
  destruct (split_on (Ascii.eqb ",") r) as [|h t]; [repeat constructor; cbn; now rewrite Hc|].
  inversion IH as [|? ? Hh Ht]; subst. constructor; [cbn; now rewrite Hc, Hh | exact Ht].
Qed.
Lemma map_trim_id l : Forall (fun x => forall_char (fun c => negb (is_ws c)) x = true) l -> map trim l = l.
Proof. induction 1 as [|x l Hx Hl IH]; cbn; [reflexivity|]. now rewrite (trim_token_id x Hx), IH. Qed.

Definition points_tokens (s : string) : list string :=
  filter nonempty (map trim (flat_map (split_char ",") (split_whitespace s))).
Theorem points_tokens_attr_split s : points_tokens s = attr_split s.
Proof.
  unfold points_tokens, attr_split.
  assert (H : Forall (fun x => forall_char (fun c => negb (is_ws c)) x = true) (flat_map (split_char ",") (split_whitespace s))).
  { unfold split_whitespace. pose proof (split_on_pieces is_ws s) as P.
    induction (split_on is_ws s) as [|w ws IH]; cbn; [constructor|].
    inversion P as [|? ? Hw Hws]; subst. destruct (nonempty w); cbn; [|exact (IH Hws)].
    apply Forall_app. split; [apply no_ws_comma_pieces; exact Hw | exact (IH Hws)]. }
  rewrite (map_trim_id _ H). apply filter_flat_map.
Qed.

Section Points.
Context (N : NumOps) (strp : string -> option (num N)).
(* a points list written with any separators is read as exactly its numbers *)
Theorem points_accepts : forall t0 rest vals, token t0 -> Forall (fun p => sepstr (fst p) /\ token (snd p)) rest ->
  Forall2 (fun t v => strp t = Some v) (t0 :: map snd rest) vals ->
  points_values N strp (join_sep t0 rest) = Ok vals.
Proof.
  intros t0 rest vals Ht0 Hr Hv. unfold points_values. fold (points_tokens (join_sep t0 rest)).
  rewrite points_tokens_attr_split, (attr_split_list rest t0 Ht0 Hr).
  induction Hv as [|t v ts vs Htv Hrest IH]; [reflexivity|].
  cbn [mapM]. unfold bind at 1. unfold of_opt at 1. rewrite Htv. cbn. rewrite IH. reflexivity.
Qed.
(* one unreadable token rejects the list (nothing is silently dropped) *)
Theorem points_rejects_bad_token : forall t0 rest, token t0 -> Forall (fun p => sepstr (fst p) /\ token (snd p)) rest ->
  (exists t, In t (t0 :: map snd rest) /\ strp t = None) -> points_values N strp (join_sep t0 rest) = Err EParse.
Proof.
  intros t0 rest Ht0 Hr (t & Hin & Hn). unfold points_values. fold (points_tokens (join_sep t0 rest)).
  rewrite points_tokens_attr_split, (attr_split_list rest t0 Ht0 Hr).
  induction (t0 :: map snd rest) as [|x l IH]; [destruct Hin|].
  cbn [mapM]. unfold bind at 1. unfold of_opt at 1. destruct Hin as [->|Hin].
  - now rewrite Hn.
  - destruct (strp x); [|reflexivity]. cbn. rewrite (IH Hin). reflexivity.
Qed.
End Points.

(* ---- frame: the position rewriting touches nothing outside the geometry vocabulary ---- *)
Definition removes_in_vocab (shape : string) : bool := forallb (fun k => mem_str k geom_vocab) (arm_remove shape).
Lemma tables_removes_in_vocab : forallb removes_in_vocab four_shapes = true.
Proof. vm_compute. reflexivity. Qed.

Section Frame.
Context (N : NumOps) (strp : string -> option (num N)) (fstr fdisplay : num N -> string).
Lemma get_line_coord_other a k0 v d k : NoDup (keys a) -> k <> k0 -> get (line_coord N strp fstr a k0 v d) k = get a k.
Proof.
  intros Hnd Hk. unfold line_coord. destruct (get a k0); [|now apply get_set_other].
  destruct d; [|reflexivity]. destruct (strp s); [now apply get_set_other | reflexivity].
Qed.
Ltac not_vocab Hk := let E := fresh in intros E; apply Hk; rewrite E; cbn; tauto.
Theorem frame_other_attrs shape p a k :
  In shape four_shapes -> NoDup (keys a) -> ~ In k geom_vocab ->
  get (set_position_attrs N strp fstr fdisplay p shape a) k = get a k.
Proof.
  intros Hin Hnd Hk. unfold set_position_attrs. destruct (to_bbox N p) as [bb|].
  2:{ cbn in Hin. destruct Hin as [<-|[<-|[<-|[<-|[]]]]]; reflexivity. }
  assert (Hrem : ~ In k (arm_remove shape)).
  { intros Hr. apply Hk. pose proof tables_removes_in_vocab as T. rewrite forallb_forall in T. specialize (T shape Hin).
    unfold removes_in_vocab in T. rewrite forallb_forall in T. apply mem_str_In. apply T. exact Hr. }
  cbn in Hin. destruct Hin as [<-|[<-|[<-|[<-|[]]]]].
  - change (arm_of "rect") with "rect". cbn [String.eqb Ascii.eqb Bool.eqb].
    rewrite get_remove_attrs_notin by exact Hrem.
    repeat match goal with
           | |- context [if ?c then _ else _] => destruct c
           | |- get (set ?b ?kk ?vv) k = _ => rewrite (get_set_other b kk vv k); [| repeat apply nodup_set; exact Hnd | not_vocab Hk]
           end; reflexivity.
  - change (arm_of "circle") with "circle". cbn [String.eqb Ascii.eqb Bool.eqb]. destruct (bb_center N bb) as [cx cy].
    rewrite get_remove_attrs_notin by exact Hrem.
    repeat match goal with
           | |- context [if ?c then _ else _] => destruct c
           | |- get (set ?b ?kk ?vv) k = _ => rewrite (get_set_other b kk vv k); [| repeat apply nodup_set; exact Hnd | not_vocab Hk]
           end; reflexivity.
  - change (arm_of "ellipse") with "ellipse". cbn [String.eqb Ascii.eqb Bool.eqb]. destruct (bb_center N bb) as [cx cy].
    rewrite get_remove_attrs_notin by exact Hrem.
    repeat match goal with
           | |- context [if ?c then _ else _] => destruct c
           | |- get (set ?b ?kk ?vv) k = _ => rewrite (get_set_other b kk vv k); [| repeat apply nodup_set; exact Hnd | not_vocab Hk]
           end; reflexivity.
  - change (arm_of "line") with "line". cbn [String.eqb Ascii.eqb Bool.eqb].
    rewrite get_remove_attrs_notin by exact Hrem.
    rewrite !get_line_coord_other; try reflexivity; try (repeat apply (nodup_line_coord N strp fstr); exact Hnd); not_vocab Hk.
Qed.
End Frame.
