(* Top-level statements about the expression evaluator: eval_print at the stated fuel, draw
   counting, rejection of malformed input, totality; the laws of the two number instances. *)
From Coq Require Import String Ascii List Bool Arith ZArith QArith Qabs Qround Lia Lqa Floats.SpecFloat.
From SvgdxModel Require Import Base.Str Base.Res Num.F32 Num.F32X Num.NumOps Num.XOps Model.Pcg Gen.Tables
  Model.Funcs Model.Expr Model.ExprSpec Proofs.ExprP Proofs.ExprPrintP.
Import ListNotations.

(* ---------------- the comparison law of the two instances ---------------- *)
Lemma SFcompare_gt_lt a b : SFcompare a b = Some Gt -> SFcompare b a = Some Lt.
Proof.
  destruct a as [sa|sa| |sa ma ea], b as [sb|sb| |sb mb eb]; cbn;
    try destruct sa; try destruct sb; try discriminate; try reflexivity; intros H.
  all: injection H as H; f_equal.
  all: rewrite (Z.compare_antisym ea eb); destruct (Z.compare ea eb) eqn:E; cbn [CompOpp] in *; try discriminate; try reflexivity.
  all: change (Pos.compare_cont Eq mb ma) with (Pos.compare_cont (CompOpp Eq) mb ma);
       rewrite <- (Pos.compare_cont_antisym ma mb Eq).
  all: destruct (Pos.compare_cont Eq ma mb); cbn in *; try discriminate; reflexivity.
Qed.
Lemma SFcompare_none a b : SFcompare a b = None -> is_nan a = true \/ is_nan b = true.
Proof.
  destruct a as [sa|sa| |sa ma ea], b as [sb|sb| |sb mb eb]; cbn; auto; try discriminate.
Qed.
Lemma f32_le_total (a b : f32) : fleb a b = false -> fltb b a = true \/ is_nan a = true \/ is_nan b = true.
Proof.
  unfold fleb, fltb, SFleb, SFltb. destruct (SFcompare a b) as [[]|] eqn:E; try discriminate; intros _.
  - left. rewrite (SFcompare_gt_lt _ _ E). reflexivity.
  - right. apply SFcompare_none. exact E.
Qed.
Lemma q_le_total (a b : Q) : Qle_bool a b = false -> Qltb b a = true \/ false = true \/ false = true.
Proof. intros H. left. unfold Qltb. rewrite H. reflexivity. Qed.

Section Draws.
Local Open Scope nat_scope.
Context {N : NumOps} (X : XOps N).
Local Notation value := (@value N).
Local Notation est := (est X).

Definition draws_of (fn : func) : nat := match fn with FRandom | FRandInt => 1 | _ => 0 end.

Ltac inv_ok H :=
  repeat match type of H with
  | bind ?x _ = Ok _ => destruct x eqn:?; cbn [bind] in H; try discriminate H
  | match ?x with _ => _ end = Ok _ => destruct x eqn:?; try discriminate H
  | (if ?b then _ else _) = Ok _ => destruct b eqn:?; try discriminate H
  | (let '(_, _) := ?x in _) = Ok _ => destruct x eqn:?
  end.

Lemma eval_function_calls fn args (st : est) v st' :
  eval_function X fn args st = Ok (v, st') -> calls st' = calls st + draws_of fn.
Proof.
  intros H. destruct fn; unfold eval_function, ret, ret_libm, unsupported, std_random_range, std_clamp in H;
    inv_ok H; inversion H; subst; cbn [calls draws_of]; lia.
Qed.

Context (rho : string -> option value).

Scheme ast_mind' := Induction for ast Sort Prop
  with asts_mind' := Induction for asts Sort Prop.
Combined Scheme ast_asts_ind' from ast_mind', asts_mind'.

Ltac bind_den H v s E :=
  match type of H with bind ?x _ = Ok _ =>
    destruct x as [[v s]| | |] eqn:E; cbn [bind] in H; [|discriminate H..] end.
Ltac bind_num H x E :=
  match type of H with bind ?y _ = Ok _ =>
    destruct y as [x| | |] eqn:E; cbn [bind] in H; [|discriminate H..] end.

Lemma denote_calls :
  (forall (a : @ast N) st v st', denote X rho a st = Ok (v, st') -> calls st' = calls st + count_random a) /\
  (forall (l : @asts N) st vs st', denote_list X rho l st = Ok (vs, st') -> calls st' = calls st + count_randoms l).
Proof.
  apply ast_asts_ind'.
  - intros x st v st' H. cbn in H. inversion H; subst. cbn. lia.
  - intros s st v st' H. cbn in H. inversion H; subst. cbn. lia.
  - intros v0 st v st' H. cbn [denote] in H. destruct (rho v0); inversion H; subst. cbn. lia.
  - intros a IH st v st' H. cbn [denote] in H. bind_den H va st1 Ea. bind_num H x Ex. inversion H; subst.
    cbn [count_random]. exact (IH _ _ _ Ea).
  - intros op a IHa b IHb st v st' H. cbn [denote] in H.
    bind_den H va st1 Ea. bind_num H x Ex. bind_den H vb st2 Eb. bind_num H y Ey. inversion H; subst.
    cbn [count_random]. rewrite (IHb _ _ _ Eb), (IHa _ _ _ Ea). lia.
  - intros op a IHa b IHb st v st' H. cbn [denote] in H.
    bind_den H va st1 Ea. bind_num H x Ex. bind_den H vb st2 Eb. bind_num H y Ey. inversion H; subst.
    cbn [count_random]. rewrite (IHb _ _ _ Eb), (IHa _ _ _ Ea). lia.
  - intros op a IHa b IHb st v st' H. cbn [denote] in H.
    bind_den H va st1 Ea. bind_num H x Ex. bind_den H vb st2 Eb. bind_num H y Ey. inversion H; subst.
    cbn [count_random]. rewrite (IHb _ _ _ Eb), (IHa _ _ _ Ea). lia.
  - intros l IH st v st' H. change (denote X rho (AList l) st) with (do '(vs, st1) <- denote_list X rho l st; Ok (VList vs, st1)) in H.
    bind_den H vs st1 El. inversion H; subst. change (count_random (AList l)) with (count_randoms l). exact (IH _ _ _ El).
  - intros name l IH st v st' H.
    change (denote X rho (ACall name l) st) with
      (do fn <- function_of name; do '(vs, st1) <- denote_list X rho l st; eval_function X fn (VList vs) st1) in H.
    bind_num H fn Ef. bind_den H vs st1 El.
    change (count_random (ACall name l)) with ((if is_random_name name then 1 else 0) + count_randoms l).
    rewrite (eval_function_calls _ _ _ _ _ H), (IH _ _ _ El). unfold is_random_name. rewrite Ef.
    destruct fn; cbn [draws_of]; lia.
  - intros st vs st' H. cbn in H. inversion H; subst. cbn. lia.
  - intros a IHa l IHl st vs st' H.
    change (denote_list X rho (ACons a l) st) with
      (do '(v, st1) <- denote X rho a st; do '(vs, st2) <- denote_list X rho l st1; Ok ((flatten v ++ vs)%list, st2)) in H.
    bind_den H va st1 Ea. bind_den H vl st2 El. inversion H; subst.
    change (count_randoms (ACons a l)) with (count_random a + count_randoms l).
    rewrite (IHl _ _ _ El), (IHa _ _ _ Ea). lia.
Qed.

(* comparison and logical nodes denote 0 or 1 *)
Lemma cmp_log_01 (a : @ast N) st v st' :
  match a with ACmp _ _ _ | ALog _ _ _ => True | _ => False end ->
  denote X rho a st = Ok (v, st') -> v = VNum (nofZ N 0) \/ v = VNum (nofZ N 1).
Proof.
  destruct a; try contradiction; intros _ H; cbn [denote] in H;
    bind_den H va st1 Ea; bind_num H x Ex; bind_den H vb st2 Eb; bind_num H y Ey; inversion H; subst;
    match goal with |- VNum (of_bool ?b) = _ \/ _ => destruct b end; cbn [of_bool]; auto.
Qed.

End Draws.

Section Top.
Local Open Scope nat_scope.
Context {N : NumOps} (X : XOps N).
Context (getvar : string -> option string) (elref_val : string -> res (num N)) (vbound : nat).
Local Notation value := (@value N).
Local Notation est := (est X).
Local Notation token := (@token N).
Local Notation run := (run X getvar elref_val).
Local Notation evaluate := (evaluate X getvar elref_val vbound).

(* what the context must satisfy *)
Record ctx_ok : Prop := {
  c_le_total : forall a b : num N, nleb N a b = false ->
                 nltb N b a = true \/ xis_nan X a = true \/ xis_nan X b = true;
  c_elref_np : forall v, np (elref_val v);
  c_elref_nf : forall v, elref_val v <> OutOfFuel;
  c_vbound : forall v s toks, getvar v = Some s -> tokenize X s = Ok toks -> length toks <= vbound
}.
Context (C : ctx_ok).

(* from "eventually" to the stated fuel *)
Lemma ev_at_fuel c cv d ts st x F :
  ev (fun f => run f c cv d ts st) (Ok x) -> bound vbound c d ts <= F -> run F c cv d ts st = Ok x.
Proof.
  intros [n H] Hb.
  pose proof (run_fuel X getvar elref_val vbound (c_le_total C) (c_elref_np C) (c_vbound C) (c_elref_nf C)
                F c cv d ts st Hb) as NF.
  pose proof (run_mono X getvar elref_val F (Nat.max n F) c cv d ts st _ (Nat.le_max_r n F) eq_refl NF) as E.
  rewrite (H (Nat.max n F) (Nat.le_max_l n F)) in E. symmetry. exact E.
Qed.

Context (rho : string -> option value) (vdepth : string -> nat).
Context (Hvars : vars_ok X getvar elref_val [] rho vdepth).

(* eval_print: a whole expression *)
Theorem eval_print_expr a st v st' :
  denote X rho a st = Ok (v, st') -> pdepth vdepth a <= max_expr_depth ->
  evaluate (pr 0 a) st = Ok (VList (flatten v), st').
Proof.
  intros Hd Hp.
  destruct (eval_print_ind X getvar elref_val [] rho vdepth Hvars) as [HS _].
  destruct (HS a 0 st v st' Hd Hp) as (_ & HI & _).
  destruct (HI [] (list_end_stops0 [] I)) as (v' & Hv & Hev). rewrite app_nil_r in Hev.
  pose proof (L_listloop_last X getvar elref_val [] 0 [] _ _ _ _ _ Hev I) as HL.
  pose proof (L_exprlist X getvar elref_val [] 0 false _ _ _ (or_introl eq_refl) HL) as HE.
  unfold Expr.evaluate. rewrite (ev_at_fuel _ _ _ _ _ _ _ HE (fuel_for_bound vbound _)).
  cbn [bind app]. rewrite Hv. reflexivity.
Qed.

(* eval_print: a comma separated list of expressions *)
Theorem eval_print_list l st vs st' :
  denote_list X rho l st = Ok (vs, st') -> pdepths vdepth l <= max_expr_depth -> l <> ANil ->
  evaluate (prs l) st = Ok (VList vs, st').
Proof.
  intros Hd Hp Hne.
  destruct (eval_print_ind X getvar elref_val [] rho vdepth Hvars) as [_ HS].
  pose proof (HS l 0 st vs st' Hd Hp Hne [] [] I) as HL. rewrite app_nil_r in HL.
  pose proof (L_exprlist X getvar elref_val [] 0 false _ _ _ (or_introl eq_refl) HL) as HE.
  unfold Expr.evaluate. rewrite (ev_at_fuel _ _ _ _ _ _ _ HE (fuel_for_bound vbound _)). reflexivity.
Qed.

(* totality of evaluate *)
Theorem evaluate_value_or_error ts st :
  (exists v st1, evaluate ts st = Ok (v, st1)) \/ (exists k, evaluate ts st = Err k).
Proof.
  destruct (evaluate_total X getvar elref_val vbound (c_le_total C) (c_elref_np C) (c_vbound C) (c_elref_nf C) ts st) as [NP NF].
  destruct (evaluate ts st) as [[v st1]|k|s|] eqn:E.
  - left. eauto.
  - right. eauto.
  - exfalso. exact (NP s eq_refl).
  - exfalso. exact (NF eq_refl).
Qed.

(* malformed input: anything evaluate accepts is well formed *)
Theorem not_wf_rejected ts st : ~ wf X getvar [] ts -> exists k, evaluate ts st = Err k.
Proof.
  intros Hn. destruct (evaluate_value_or_error ts st) as [(v & st1 & E)|Hk]; [|exact Hk].
  exfalso. apply Hn. exact (evaluate_ok_wf X getvar elref_val vbound (c_le_total C) (c_elref_np C) ts st v st1 E).
Qed.
Corollary unbalanced_rejected ts st : scan 0 ts <> Some 0 -> exists k, evaluate ts st = Err k.
Proof. intros H. apply not_wf_rejected. intros [_ Hb]. exact (H Hb). Qed.
Corollary unknown_function_rejected ts st s :
  In (TSym s) ts -> logical_op s = None -> comparison_op s = None -> (forall fn, function_of s <> Ok fn) ->
  exists k, evaluate ts st = Err k.
Proof.
  intros Hin Hl Hc Hf. apply not_wf_rejected. intros [Hall _].
  rewrite Forall_forall in Hall. specialize (Hall _ Hin). cbn in Hall.
  destruct Hall as [H|[H|[fn H]]]; [congruence | congruence | exact (Hf fn H)].
Qed.
Corollary undefined_variable_rejected ts st v :
  In (TVar v) ts -> getvar v = None -> exists k, evaluate ts st = Err k.
Proof.
  intros Hin Hg. apply not_wf_rejected. intros [Hall _].
  rewrite Forall_forall in Hall. specialize (Hall _ Hin). cbn in Hall. destruct Hall as [H _]. congruence.
Qed.

(* circular variables: a variable being expanded is refused, and so is one whose own text mentions it *)
Lemma circular_check f v cv d ts st : In v cv -> run (S f) (CLookup v) cv d ts st = Err ECircularRef.
Proof. intros Hin. cbn [Expr.run run_body]. apply mem_str_In in Hin. rewrite Hin. reflexivity. Qed.
Lemma self_reference_rejected f v s toks cv d ts st x :
  getvar v = Some s -> tokenize X s = Ok toks -> In (TVar v) toks -> run f (CLookup v) cv d ts st <> Ok x.
Proof.
  intros Hg Ht Hin E. destruct f as [|f]; [discriminate|]. cbn [Expr.run run_body] in E.
  destruct (mem_str v cv); [discriminate|]. rewrite Hg, Ht in E. cbn [bind] in E.
  destruct toks as [|t toks']; [contradiction|].
  pose proof (run_good X getvar elref_val (c_le_total C) (c_elref_np C) f (CExprList false) (v :: cv) d (t :: toks') st) as G.
  destruct (Expr.run _ _ _ _ _ _ _ _ _) as [[[e rest] st1]| | |]; cbn [bind] in E; try discriminate.
  destruct rest; [|discriminate]. cbn [good] in G. destruct G as (u & Eu & Hdeep & _).
  apply deep_wf in Hdeep. destruct Hdeep as [Hall _].
  rewrite app_nil_r in Eu. subst u. rewrite Forall_forall in Hall. specialize (Hall _ Hin).
  cbn in Hall. destruct Hall as (_ & Hc & _). apply Hc. left. reflexivity.
Qed.

(* circular variables, any cycle: v mentions w when the text of v has the token $w *)
Definition mentions (v w : string) : Prop :=
  exists s toks, getvar v = Some s /\ tokenize X s = Ok toks /\ In (TVar w) toks.
Inductive reaches : string -> string -> Prop :=
| reach_refl v : reaches v v
| reach_step v u w : mentions v u -> reaches u w -> reaches v w.
Definition on_cycle (v : string) : Prop := exists u, mentions v u /\ reaches u v.

Lemma deep_reach n : forall cv l v w, deep X getvar n cv l -> In (TVar v) l -> reaches v w -> ~ In w cv.
Proof.
  induction n as [|n IH]; intros cv l v w Hd Hin Hr; [contradiction|].
  cbn [deep] in Hd. destruct Hd as [Hall _]. rewrite Forall_forall in Hall. specialize (Hall _ Hin).
  cbn [tok_ok] in Hall. destruct Hall as (_ & Hnin & (s & toks & Hg & Ht & Hdeep)).
  destruct Hr as [v|v u w (s' & toks' & Hg' & Ht' & Hin') Hr]; [exact Hnin|].
  rewrite Hg in Hg'. inversion Hg'; subst s'. rewrite Ht in Ht'. inversion Ht'; subst toks'.
  destruct Hdeep as [E|Hdeep]; [subst toks; contradiction|].
  intros Hw. apply (IH (v :: cv) toks u w Hdeep Hin' Hr). right. exact Hw.
Qed.
Lemma deep_no_cycle n cv l v : deep X getvar n cv l -> In (TVar v) l -> on_cycle v -> False.
Proof.
  intros Hd Hin (u & Hm & Hr). destruct n as [|n]; [contradiction|].
  pose proof Hd as Hd'. cbn [deep] in Hd. destruct Hd as [Hall _]. rewrite Forall_forall in Hall. specialize (Hall _ Hin).
  cbn [tok_ok] in Hall. destruct Hall as (_ & _ & (s & toks & Hg & Ht & Hdeep)).
  destruct Hm as (s' & toks' & Hg' & Ht' & Hin').
  rewrite Hg in Hg'. inversion Hg'; subst s'. rewrite Ht in Ht'. inversion Ht'; subst toks'.
  destruct Hdeep as [E|Hdeep]; [subst toks; contradiction|].
  apply (deep_reach n (v :: cv) toks u v Hdeep Hin' Hr). left. reflexivity.
Qed.
Theorem circular_rejected ts st v : In (TVar v) ts -> on_cycle v -> exists k, evaluate ts st = Err k.
Proof.
  intros Hin Hc. destruct (evaluate_value_or_error ts st) as [(x & st1 & E)|Hk]; [|exact Hk].
  exfalso. pose proof (evaluate_ok_deep X getvar elref_val vbound (c_le_total C) (c_elref_np C) ts st x st1 E) as Hd.
  exact (deep_no_cycle _ _ _ _ Hd Hin Hc).
Qed.

(* the depth guard *)
Lemma depth_guard f cv d ts st : max_expr_depth <= d -> run (S f) CPrimary cv d ts st = Err EParse.
Proof.
  intros H. cbn [Expr.run run_body]. destruct (Nat.ltb_spec max_expr_depth (S d)); [reflexivity | lia].
Qed.

End Top.

(* ---------------- wrong number of arguments ---------------- *)
Section Arity.
Local Open Scope nat_scope.
Context {N : NumOps} (X : XOps N).
Local Notation value := (@value N).
Local Notation sval := (@sval N).

Lemma number_list_flat (v : value) : number_list v = mapM sval_num (flatten v).
Proof. destruct v as [[]|l]; reflexivity. Qed.
Lemma string_list_flat (v : value) : string_list v = mapM sval_str (flatten v).
Proof. destruct v as [[]|l]; reflexivity. Qed.
Lemma mapM_sval_str (l : list sval) :
  mapM sval_str l = Err EParse \/ exists l', mapM sval_str l = Ok l' /\ length l' = length l.
Proof.
  induction l as [|s l IH]; cbn [mapM]; [right; exists []; auto|].
  destruct s; cbn [sval_str bind]; auto;
    (destruct IH as [E|(l' & E & Hl)]; rewrite E; cbn [bind]; auto; right; eexists; split; [reflexivity | cbn [length]; auto]).
Qed.

Lemma one_number_len (v : value) : length (flatten v) <> 1 -> one_number v = Err EParse.
Proof.
  intros H. unfold one_number. rewrite number_list_flat.
  destruct (mapM_sval_num (flatten v)) as [E|(l' & E & Hl)]; rewrite E; cbn [bind]; [reflexivity|].
  destruct l' as [|a [|]]; cbn [length] in *; try reflexivity. congruence.
Qed.
Lemma number_pair_len (v : value) : length (flatten v) <> 2 -> number_pair v = Err EParse.
Proof.
  intros H. unfold number_pair. rewrite number_list_flat.
  destruct (mapM_sval_num (flatten v)) as [E|(l' & E & Hl)]; rewrite E; cbn [bind]; [reflexivity|].
  destruct l' as [|a [|b [|]]]; cbn [length] in *; try reflexivity. congruence.
Qed.
Lemma number_triple_len (v : value) : length (flatten v) <> 3 -> number_triple v = Err EParse.
Proof.
  intros H. unfold number_triple. rewrite number_list_flat.
  destruct (mapM_sval_num (flatten v)) as [E|(l' & E & Hl)]; rewrite E; cbn [bind]; [reflexivity|].
  destruct l' as [|a [|b [|c [|]]]]; cbn [length] in *; try reflexivity. congruence.
Qed.
Lemma pair_len (v : value) : length (flatten v) <> 2 -> pair v = Err EParse.
Proof. intros H. unfold pair. destruct (flatten v) as [|a [|b [|]]]; cbn [length] in *; try reflexivity. congruence. Qed.
Lemma one_string_len (v : value) : length (flatten v) <> 1 -> one_string v = Err EParse.
Proof.
  intros H. unfold one_string. rewrite string_list_flat.
  destruct (mapM_sval_str (flatten v)) as [E|(l' & E & Hl)]; rewrite E; cbn [bind]; [reflexivity|].
  destruct l' as [|a [|]]; cbn [length] in *; try reflexivity. congruence.
Qed.
Lemma string_pair_len (v : value) : length (flatten v) <> 2 -> string_pair v = Err EParse.
Proof.
  intros H. unfold string_pair. rewrite string_list_flat.
  destruct (mapM_sval_str (flatten v)) as [E|(l' & E & Hl)]; rewrite E; cbn [bind]; [reflexivity|].
  destruct l' as [|a [|b [|]]]; cbn [length] in *; try reflexivity. congruence.
Qed.

(* every function whose arm of eval_function applies a fixed-size accessor to its argument list (the
   generated table function_arity) rejects any other number of arguments *)
Lemma arity_rejected variant n fn (args : value) (st : est X) :
  In (variant, n) function_arity -> assoc variant func_of_variant = Some fn ->
  length (flatten args) <> n -> exists k, eval_function X fn args st = Err k.
Proof.
  intros Hin Hf Hlen. unfold function_arity in Hin. cbn [In] in Hin.
  repeat (destruct Hin as [Hin|Hin];
          [ injection Hin as <- <-; vm_compute in Hf; injection Hf as <-; unfold eval_function;
            first [ rewrite (one_number_len _ Hlen) | rewrite (number_pair_len _ Hlen) | rewrite (number_triple_len _ Hlen)
                  | rewrite (pair_len _ Hlen) | rewrite (one_string_len _ Hlen) | rewrite (string_pair_len _ Hlen)
                  | idtac ];
            cbn [bind]; try (eexists; reflexivity) | ]).
  all: try contradiction.
  (* FIf matches on the flattened list itself *)
  all: destruct (flatten args) as [|c [|a [|b [|]]]]; cbn [length] in Hlen; try (eexists; reflexivity); congruence.
Qed.

End Arity.

(* ---------------- the remainder on exact rationals ---------------- *)
Section RemQ.
Local Open Scope Q_scope.

Lemma Qle_bool_false a b : Qle_bool a b = false -> b < a.
Proof. intros H. apply Qnot_le_lt. intros L. apply Qle_bool_iff in L. congruence. Qed.

Lemma Qtrunc_frac q : let t := inject_Z (Qtrunc q) in
  (0 <= q /\ t <= q /\ q < t + 1) \/ (q < 0 /\ t - 1 < q /\ q <= t).
Proof.
  unfold Qtrunc. destruct (Qle_bool 0 q) eqn:E; cbn zeta.
  - left. apply Qle_bool_iff in E. split; [exact E|]. split; [apply Qfloor_le|].
    pose proof (Qlt_floor q) as H. rewrite inject_Z_plus in H. exact H.
  - right. apply Qle_bool_false in E. split; [exact E|]. split; [|apply Qle_ceiling].
    pose proof (Qceiling_lt q) as H. unfold Z.sub in H. rewrite inject_Z_plus in H. exact H.
Qed.

Lemma Qrem_euclid_range a b : ~ b == 0 -> 0 <= Qrem_euclid a b /\ Qrem_euclid a b < Qabs b.
Proof.
  intros Hb. unfold Qrem_euclid, Qfmod.
  destruct (Qeq_bool b 0) eqn:E0; [apply Qeq_bool_iff in E0; contradiction|].
  set (t := inject_Z (Qtrunc (a / b))).
  assert (Ha : a == b * (a / b)) by (field; exact Hb).
  pose proof (Qtrunc_frac (a / b)) as Hf. fold t in Hf. cbn zeta in Hf.
  set (q := a / b) in *.
  assert (Habs : (0 < b /\ Qabs b == b) \/ (b < 0 /\ Qabs b == - b)).
  { destruct (Qlt_le_dec 0 b) as [L|L]; [left; split; [exact L | apply Qabs_pos; lra]|].
    right. split; [destruct (Qle_lt_or_eq _ _ L) as [L'|L']; [exact L' | contradiction]| apply Qabs_neg; exact L]. }
  unfold Qltb. destruct (Qle_bool 0 (a - b * t)) eqn:E.
  - apply Qle_bool_iff in E. cbn [negb]. split; [exact E|].
    destruct Habs as [[Hp Ab]|[Hn Ab]]; rewrite Ab; rewrite Ha in E |- *; destruct Hf as [(H0 & H1 & H2)|(H0 & H1 & H2)]; nra.
  - apply Qle_bool_false in E. cbn [negb].
    destruct Habs as [[Hp Ab]|[Hn Ab]]; rewrite Ab; rewrite Ha in E |- *; destruct Hf as [(H0 & H1 & H2)|(H0 & H1 & H2)]; split; nra.
Qed.

End RemQ.

(* ---------------- the string level: eval_vars, eval_expr, eval_attr, eval_condition, eval_list ---------------- *)
Section Strings.
Local Open Scope nat_scope.

Lemma break_at_len p s a c r : break_at p s = (a, Some (c, r)) -> String.length s = String.length a + 1 + String.length r.
Proof.
  revert a. induction s as [|ch s IH]; intros a H; cbn [break_at] in H; [discriminate|].
  destruct (p ch).
  - inversion H; subst. cbn [String.length]. lia.
  - destruct (break_at p s) as [a' b'] eqn:E. inversion H; subst. cbn [String.length]. rewrite (IH a' eq_refl). lia.
Qed.
Lemma strip_prefix_len p : forall s r, strip_prefix p s = Some r -> String.length s = String.length p + String.length r.
Proof.
  induction p as [|a p IH]; intros s r H; cbn [strip_prefix] in H.
  - inversion H; subst. reflexivity.
  - destruct s as [|b s]; [discriminate|]. destruct (Ascii.eqb a b); [|discriminate].
    cbn [String.length]. rewrite (IH _ _ H). lia.
Qed.
Lemma find_sub_len pat : forall s a b, find_sub pat s = Some (a, b) ->
  String.length s = String.length a + String.length pat + String.length b.
Proof.
  induction s as [|c s IH]; intros a b H; cbn [find_sub] in H.
  - destruct (strip_prefix pat "") eqn:E; [|discriminate]. inversion H; subst.
    pose proof (strip_prefix_len _ _ _ E) as L. cbn [String.length] in *. lia.
  - destruct (strip_prefix pat (String c s)) eqn:E.
    + inversion H; subst. pose proof (strip_prefix_len _ _ _ E) as L. cbn [String.length] in *. lia.
    + destruct (find_sub pat s) as [[a' b']|] eqn:F; [|discriminate]. inversion H; subst.
      pose proof (IH _ _ eq_refl) as L. cbn [String.length] in *. lia.
Qed.

Context {N : NumOps} (X : XOps N).
Context (getvar : string -> option string) (elref_val : string -> res (num N)) (vbound : nat).
Context (C : ctx_ok X getvar elref_val vbound).

Definition clean {A} (r : res A) : Prop := (forall s, r <> Panic s) /\ r <> OutOfFuel.
Lemma clean_ok {A} (a : A) : clean (Ok a). Proof. split; [intros s|]; discriminate. Qed.
Lemma clean_err {A} k : clean (@Err A k). Proof. split; [intros s|]; discriminate. Qed.
Lemma clean_bind {A B} (x : res A) (f : A -> res B) : clean x -> (forall a, clean (f a)) -> clean (bind x f).
Proof.
  intros [Hp Hf] Hk. destruct x; cbn [bind]; [apply Hk | apply clean_err | exfalso; exact (Hp _ eq_refl) | exfalso; exact (Hf eq_refl)].
Qed.
Lemma clean_value_or_error {A} (r : res A) : clean r -> (exists a, r = Ok a) \/ (exists k, r = Err k).
Proof. intros [Hp Hf]. destruct r; eauto; [exfalso; exact (Hp _ eq_refl) | exfalso; exact (Hf eq_refl)]. Qed.

Lemma eval_vars_loop_clean n : forall value result, String.length value < n -> clean (eval_vars_loop getvar n value result).
Proof.
  induction n as [|n IH]; intros value result Hn; [lia|]. cbn [eval_vars_loop].
  destruct value as [|c0 v0] eqn:Ev; [apply clean_ok|]. rewrite <- Ev in *. clear Ev.
  destruct (break_at (Ascii.eqb "$") value) as [prefix [[c remain]|]] eqn:B; [|apply clean_ok].
  pose proof (break_at_len _ _ _ _ _ B) as L1.
  destruct (strip_prefix "\" prefix); [apply IH; lia|].
  destruct (strip_prefix "{" remain) as [inner|] eqn:S.
  - pose proof (strip_prefix_len _ _ _ S) as L2. cbn [String.length] in L2.
    destruct (break_at (Ascii.eqb "}") inner) as [name [[c2 after]|]] eqn:B2; [|apply clean_ok].
    pose proof (break_at_len _ _ _ _ _ B2) as L3. apply IH. lia.
  - destruct (break_at _ remain) as [var [[c2 rest]|]] eqn:B2; [|apply clean_ok].
    pose proof (break_at_len _ _ _ _ _ B2) as L3. apply IH. cbn [String.length]. lia.
Qed.
Lemma eval_vars_clean value : clean (eval_vars getvar value).
Proof. apply eval_vars_loop_clean. lia. Qed.

Lemma tokenize_clean s : clean (tokenize X s).
Proof. split; [apply np_tokenize | apply tokenize_no_oof]. Qed.
Lemma evaluate_clean ts st : clean (evaluate X getvar elref_val vbound ts st).
Proof. exact (evaluate_total X getvar elref_val vbound (c_le_total _ _ _ _ C) (c_elref_np _ _ _ _ C) (c_vbound _ _ _ _ C) (c_elref_nf _ _ _ _ C) ts st). Qed.
Lemma eval_str_clean s st : clean (eval_str X getvar elref_val vbound s st).
Proof.
  unfold eval_str. apply clean_bind; [apply tokenize_clean|]. intros toks.
  apply clean_bind; [apply evaluate_clean|]. intros [v st1]. apply clean_ok.
Qed.
Lemma eval_expr_loop_clean n : forall value result st, String.length value < n ->
  clean (eval_expr_loop X getvar elref_val vbound n value result st).
Proof.
  induction n as [|n IH]; intros value result st Hn; [lia|]. cbn [eval_expr_loop].
  destruct (find_sub "{{" value) as [[before after]|] eqn:F1; [|apply clean_ok].
  pose proof (find_sub_len _ _ _ _ F1) as L1. cbn [String.length] in L1.
  destruct (find_sub "}}" after) as [[inner rest]|] eqn:F2; [|apply clean_ok].
  pose proof (find_sub_len _ _ _ _ F2) as L2. cbn [String.length] in L2.
  apply clean_bind; [apply eval_str_clean|]. intros [s st1]. apply IH. lia.
Qed.

(* expr_no_panic / termination at the entry points: a value or an error *)
Lemma eval_attr_clean value st : clean (eval_attr X getvar elref_val vbound value st).
Proof.
  unfold eval_attr. apply clean_bind; [apply eval_vars_clean|]. intros v. apply eval_expr_loop_clean. lia.
Qed.
Lemma strip_expr_braces_clean v : clean (strip_expr_braces v).
Proof. unfold strip_expr_braces. destruct (strip_prefix _ _); [|apply clean_ok]. destruct (strip_suffix _ _); [apply clean_ok | apply clean_err]. Qed.
Lemma eval_condition_clean value st : clean (eval_condition X getvar elref_val vbound value st).
Proof.
  unfold eval_condition. apply clean_bind; [apply strip_expr_braces_clean|]. intros v.
  apply clean_bind; [apply eval_str_clean|]. intros [s st1]. destruct (xparse X s); [apply clean_ok | apply clean_err].
Qed.
Lemma eval_list_clean value st : clean (eval_list X getvar elref_val vbound value st).
Proof.
  unfold eval_list. apply clean_bind; [apply strip_expr_braces_clean|]. intros v.
  apply clean_bind; [apply tokenize_clean|]. intros toks.
  apply clean_bind; [apply evaluate_clean|]. intros [e st1]. apply clean_ok.
Qed.

End Strings.

(* ---------------- the tokenizer produces at most one token per character ---------------- *)
Section TokLen.
Local Open Scope nat_scope.
Context {N : NumOps} (X : XOps N).
Local Notation token := (@token N).

Definition bufw (buf : string) : nat := match buf with EmptyString => 0 | _ => 1 end.
Lemma flush_len buf (toks toks' : list token) : flush X buf toks = Ok toks' -> length toks' = length toks + bufw buf.
Proof.
  unfold flush. destruct buf; intros H.
  - inversion H; subst. cbn. lia.
  - destruct (tokenize_atom X _); cbn [bind] in H; try discriminate. inversion H; subst. cbn [length bufw]. lia.
Qed.
Lemma tok_loop_len s : forall toks buf e q esc r,
  tok_loop X s toks buf e q esc = Ok r -> length r <= length toks + bufw buf + String.length s.
Proof.
  induction s as [|ch s IH]; intros toks buf e q esc r H; cbn [tok_loop] in H.
  - destruct buf.
    + inversion H; subst. rewrite rev_append_rev, app_nil_r, rev_length. cbn. lia.
    + destruct q; [discriminate|]. destruct (flush X _ toks) as [toks'| | |] eqn:F; cbn [bind] in H; try discriminate.
      inversion H; subst. rewrite rev_append_rev, app_nil_r, rev_length. rewrite (flush_len _ _ _ F). cbn [String.length]. lia.
  - cbn [String.length]. destruct q.
    + repeat match type of H with (if ?b then _ else _) = _ => destruct b end;
        apply IH in H; cbn [length bufw] in *; destruct buf; cbn [bufw] in *; lia.
    + destruct (classify ch e).
      * destruct (flush X buf toks) as [toks'| | |] eqn:F; cbn [bind] in H; try discriminate.
        apply IH in H. cbn [length bufw] in H. rewrite (flush_len _ _ _ F) in H. lia.
      * destruct (flush X buf toks) as [toks'| | |] eqn:F; cbn [bind] in H; try discriminate.
        apply IH in H. cbn [length bufw] in H. rewrite (flush_len _ _ _ F) in H. lia.
      * apply IH in H. lia.
      * apply IH in H. cbn [bufw] in *. destruct buf; cbn [bufw] in *; lia.
Qed.
Lemma tokenize_len s toks : tokenize X s = Ok toks -> length toks <= String.length s.
Proof. intros H. apply tok_loop_len in H. cbn in H. exact H. Qed.
End TokLen.

(* ---------------- the context of the hooks satisfies ctx_ok (binary32 instance, what is executed) ---------------- *)
From SvgdxModel Require Model.Types Model.Geom Model.ExprRun.
Section HookCtx.
Import Model.ExprRun Model.Geom.
Local Open Scope nat_scope.

Lemma assoc_In {A} k (l : list (string * A)) v : assoc k l = Some v -> In (k, v) l.
Proof.
  induction l as [|[k' v'] l IH]; cbn [assoc]; [discriminate|].
  destruct (String.eqb k k') eqn:E; intros H.
  - apply String.eqb_eq in E. inversion H; subst. left. reflexivity.
  - right. apply IH. exact H.
Qed.
Lemma fold_max_ge (l : list (string * string)) : forall m kv, In kv l ->
  String.length (snd kv) <= fold_left (fun m kv => Nat.max m (String.length (snd kv))) l m.
Proof.
  induction l as [|x l IH]; intros m kv Hin; [contradiction|]. cbn [fold_left]. destruct Hin as [->|Hin].
  - clear IH. generalize (Nat.max m (String.length (snd kv))) (Nat.le_max_r m (String.length (snd kv))).
    induction l as [|y l IH2]; intros n Hn; cbn [fold_left]; [exact Hn|]. apply IH2. lia.
  - apply IH. exact Hin.
Qed.

Lemma hook_ctx_ok vars : ctx_ok F32X (hook_getvar vars) hook_elref (hook_vbound vars).
Proof.
  constructor.
  - exact f32_le_total.
  - intros v s. unfold hook_elref. destruct (parse_el_scalar v) as [[? [?|]]| | |]; discriminate.
  - intros v. unfold hook_elref. destruct (parse_el_scalar v) as [[? [?|]]| | |]; discriminate.
  - intros v s toks Hg Ht. change (List.length toks <= hook_vbound vars). apply tokenize_len in Ht. unfold hook_getvar in Hg. apply assoc_In in Hg.
    apply in_rev in Hg. pose proof (fold_max_ge vars 0 (v, s) Hg) as H. cbn [snd] in H. unfold hook_vbound. lia.
Qed.
End HookCtx.

(* ---------------- an evaluated attribute value is inert ---------------- *)
Section Inert.
Context {N : NumOps} (X : XOps N).
Context (getvar : string -> option string) (elref_val : string -> res (num N)) (vbound : nat).

Lemma break_at_none p s : exists_char p s = false -> break_at p s = (s, None).
Proof.
  induction s as [|c s IH]; cbn [exists_char break_at]; [reflexivity|].
  destruct (p c); cbn [orb]; [discriminate|]. intros H. rewrite (IH H). reflexivity.
Qed.

(* a value without '$' and without '{{' is left as it is and draws nothing: re-evaluating an already
   evaluated attribute (resolve_position runs twice, comments are evaluated again) is harmless *)
Lemma eval_attr_inert value (st : est X) :
  exists_char (Ascii.eqb "$") value = false -> find_sub "{{" value = None ->
  eval_attr X getvar elref_val vbound value st = Ok (value, st).
Proof.
  intros Hd Hb. unfold eval_attr, eval_vars. cbn [eval_vars_loop].
  destruct value as [|c v]; cbn [bind].
  - reflexivity.
  - rewrite (break_at_none _ _ Hd). cbn [bind append]. unfold eval_expr. cbn [eval_expr_loop]. rewrite Hb. reflexivity.
Qed.
End Inert.

(* ---------------- statements in the form used by Props/C14.v ---------------- *)
Section Final.
Local Open Scope nat_scope.
Context {N : NumOps} (X : XOps N).
Context (getvar : string -> option string) (elref_val : string -> res (num N)) (vbound : nat).
Context (C : ctx_ok X getvar elref_val vbound).

Lemma draws_exact_top rho vdepth : vars_ok X getvar elref_val [] rho vdepth ->
  forall a st v st', denote X rho a st = Ok (v, st') -> pdepth vdepth a <= max_expr_depth ->
  evaluate X getvar elref_val vbound (pr 0 a) st = Ok (VList (flatten v), st') /\
  calls st' = calls st + count_random a.
Proof.
  intros Hv a st v st' Hd Hp. split; [exact (eval_print_expr X getvar elref_val vbound C rho vdepth Hv a st v st' Hd Hp)|].
  exact (proj1 (denote_calls X rho) a st v st' Hd).
Qed.

Lemma no_panic_all :
  (forall f c cv d ts st s, run X getvar elref_val f c cv d ts st <> Panic s) /\
  (forall ts st s, evaluate X getvar elref_val vbound ts st <> Panic s) /\
  (forall value st s, eval_attr X getvar elref_val vbound value st <> Panic s) /\
  (forall value st s, eval_condition X getvar elref_val vbound value st <> Panic s) /\
  (forall value st s, eval_list X getvar elref_val vbound value st <> Panic s).
Proof.
  repeat split.
  - intros. apply (run_no_panic X getvar elref_val (c_le_total _ _ _ _ C) (c_elref_np _ _ _ _ C)).
  - intros ts st. exact (proj1 (evaluate_clean X getvar elref_val vbound C ts st)).
  - intros value st. exact (proj1 (eval_attr_clean X getvar elref_val vbound C value st)).
  - intros value st. exact (proj1 (eval_condition_clean X getvar elref_val vbound C value st)).
  - intros value st. exact (proj1 (eval_list_clean X getvar elref_val vbound C value st)).
Qed.

Lemma fuel_all :
  (forall f cv d ts st, max_expr_depth <= d -> run X getvar elref_val (S f) CPrimary cv d ts st = Err EParse) /\
  (forall f c cv d ts st, bound vbound c d ts <= f -> run X getvar elref_val f c cv d ts st <> OutOfFuel) /\
  (forall ts st, evaluate X getvar elref_val vbound ts st <> OutOfFuel) /\
  (forall value st, eval_attr X getvar elref_val vbound value st <> OutOfFuel) /\
  (forall value st, eval_condition X getvar elref_val vbound value st <> OutOfFuel) /\
  (forall value st, eval_list X getvar elref_val vbound value st <> OutOfFuel).
Proof.
  repeat split.
  - intros. apply depth_guard. assumption.
  - intros. apply (run_fuel X getvar elref_val vbound (c_le_total _ _ _ _ C) (c_elref_np _ _ _ _ C) (c_vbound _ _ _ _ C) (c_elref_nf _ _ _ _ C)). assumption.
  - intros ts st. exact (proj2 (evaluate_clean X getvar elref_val vbound C ts st)).
  - intros value st. exact (proj2 (eval_attr_clean X getvar elref_val vbound C value st)).
  - intros value st. exact (proj2 (eval_condition_clean X getvar elref_val vbound C value st)).
  - intros value st. exact (proj2 (eval_list_clean X getvar elref_val vbound C value st)).
Qed.

Lemma eval_attr_value_or_error value st :
  (exists r, eval_attr X getvar elref_val vbound value st = Ok r) \/ (exists k, eval_attr X getvar elref_val vbound value st = Err k).
Proof. apply clean_value_or_error. apply eval_attr_clean. exact C. Qed.

End Final.

(* a context given by a list of variables (later entries override earlier ones), any element oracle that
   neither panics nor uses fuel *)
Section ListCtx.
Local Open Scope nat_scope.
Import Model.ExprRun.
Context {N : NumOps} (X : XOps N) (elref_val : string -> res (num N)).
Context (Hle : forall a b : num N, nleb N a b = false -> nltb N b a = true \/ xis_nan X a = true \/ xis_nan X b = true).
Context (Hnp : forall v, np (elref_val v)) (Hnf : forall v, elref_val v <> OutOfFuel).
Lemma list_ctx_ok vars : ctx_ok X (hook_getvar vars) elref_val (hook_vbound vars).
Proof.
  constructor; [exact Hle | exact Hnp | exact Hnf |].
  intros v s toks Hg Ht. apply tokenize_len in Ht. unfold hook_getvar in Hg. apply assoc_In in Hg.
  apply in_rev in Hg. pose proof (fold_max_ge vars 0 (v, s) Hg) as H. cbn [snd] in H. unfold hook_vbound. lia.
Qed.
End ListCtx.
