(* Position::extent / to_bbox on exact rationals: every sufficient pair of constraints per axis
   describes the same box. native_only: set_position_attrs leaves only native geometry attributes. *)
From Coq Require Import QArith Qabs Lqa String List Bool ZArith.
From SvgdxModel Require Import Base.Str Base.Res Num.NumOps Gen.Tables Model.Types Model.Geom Model.Position
  Proofs.TypesP.
Import ListNotations.
Open Scope Q_scope.

Inductive quant := Qs | Qe | Qm | Ql.
Definition quant_eqb (x y : quant) := match x, y with Qs, Qs | Qe, Qe | Qm, Qm | Ql, Ql => true | _, _ => false end.
(* the value of quantity q of the interval [a, b], present only when q is one of the two given *)
Definition pick (q q1 q2 : quant) (a b : Q) : option Q :=
  if (quant_eqb q q1 || quant_eqb q q2)%bool then
    Some (match q with Qs => a | Qe => b | Qm => (a + b) / 2 | Ql => b - a end)
  else None.
Definition pair_eq (p q : option (Q * Q)) : Prop :=
  match p, q with Some (a, b), Some (c, d) => a == c /\ b == d | _, _ => False end.

Lemma extent_pair (line : bool) (q1 q2 : quant) (a b : Q) : quant_eqb q1 q2 = false ->
  pair_eq (extent QOps line (pick Qs q1 q2 a b) (pick Qe q1 q2 a b) (pick Qm q1 q2 a b) (pick Ql q1 q2 a b))
          (Some (a, b)).
Proof.
  intros H. destruct q1, q2; try discriminate H; cbn; split; try reflexivity; field.
Qed.

Definition bb_eq (p : option (bbox QOps)) (x1 y1 x2 y2 : Q) : Prop :=
  match p with
  | Some b => bx1 b == x1 /\ by1 b == y1 /\ bx2 b == x2 /\ by2 b == y2
  | None => False end.

(* a Position carrying exactly the pair (q1,q2) on x and (q3,q4) on y of the box *)
Definition pos_of_pairs (shape : string) (q1 q2 q3 q4 : quant) (x1 y1 x2 y2 : Q) (dx dy : option Q)
  : position QOps :=
  Build_position QOps (pick Qs q1 q2 x1 x2) (pick Qs q3 q4 y1 y2)
     (pick Qe q1 q2 x1 x2) (pick Qe q3 q4 y1 y2)
     (pick Qm q1 q2 x1 x2) (pick Qm q3 q4 y1 y2)
     (pick Ql q1 q2 x1 x2) (pick Ql q3 q4 y1 y2) dx dy shape.

Lemma to_bbox_pairs shape q1 q2 q3 q4 x1 y1 x2 y2 dx dy :
  quant_eqb q1 q2 = false -> quant_eqb q3 q4 = false ->
  bb_eq (to_bbox QOps (pos_of_pairs shape q1 q2 q3 q4 x1 y1 x2 y2 dx dy)) x1 y1 x2 y2.
Proof.
  intros H12 H34. unfold to_bbox, x_def, y_def. cbn [pxmin pymin pxmax pymax pcx pcy pwidth pheight pshape pos_of_pairs].
  pose proof (extent_pair (String.eqb shape "line") q1 q2 x1 x2 H12) as Hx.
  pose proof (extent_pair (String.eqb shape "line") q3 q4 y1 y2 H34) as Hy.
  destruct (extent QOps _ (pick Qs q1 q2 x1 x2) _ _ _) as [[a b]|]; [|contradiction].
  destruct (extent QOps _ (pick Qs q3 q4 y1 y2) _ _ _) as [[c d]|]; [|contradiction].
  cbn in *. tauto.
Qed.

(* circle: a sufficient pair on one axis plus a single start / centre / end on the other *)
Inductive single := Ss | Sm | Se.
Definition pos_circle_x (q1 q2 : quant) (sy : single) (x1 y1 x2 : Q) : position QOps :=
  let y2 := y1 + (x2 - x1) in
  Build_position QOps (pick Qs q1 q2 x1 x2) (match sy with Ss => Some y1 | _ => None end)
     (pick Qe q1 q2 x1 x2) (match sy with Se => Some y2 | _ => None end)
     (pick Qm q1 q2 x1 x2) (match sy with Sm => Some ((y1 + y2) / 2) | _ => None end)
     (pick Ql q1 q2 x1 x2) None None None "circle"%string.
Lemma to_bbox_circle q1 q2 sy x1 y1 x2 :
  quant_eqb q1 q2 = false ->
  bb_eq (to_bbox QOps (pos_circle_x q1 q2 sy x1 y1 x2)) x1 y1 x2 (y1 + (x2 - x1)).
Proof.
  intros H12.
  destruct q1, q2; try discriminate H12; destruct sy; cbn; repeat split; try reflexivity; field.
Qed.

(* ---------- native_only ---------- *)
Open Scope string_scope.
Definition geom_vocab : list string :=
  ["x"; "y"; "x1"; "y1"; "x2"; "y2"; "cx"; "cy"; "r"; "rx"; "ry"; "width"; "height"; "dx"; "dy"; "dw"; "dh"].
Definition native_attrs (shape : string) : list string :=
  if String.eqb shape "rect" then ["x"; "y"; "width"; "height"; "rx"; "ry"]
  else if String.eqb shape "circle" then ["cx"; "cy"; "r"]
  else if String.eqb shape "ellipse" then ["cx"; "cy"; "rx"; "ry"]
  else if String.eqb shape "line" then ["x1"; "y1"; "x2"; "y2"] else [].
Definition four_shapes : list string := ["rect"; "circle"; "ellipse"; "line"].

(* finite side condition on the GENERATED tables: every non-native geometry attribute of each of
   the four shapes is in the remove list of its arm *)
Definition removes_all_foreign (shape : string) : bool :=
  forallb (fun k => (mem_str k (native_attrs shape) || mem_str k (arm_remove shape))%bool) geom_vocab.
Lemma tables_remove_foreign : forallb removes_all_foreign four_shapes = true.
Proof. vm_compute. reflexivity. Qed.
(* and the arm only ever sets native attributes *)
Definition sets_only_native (shape : string) : bool :=
  match find (fun arm => mem_str shape (fst (fst arm))) position_arms with
  | Some arm => forallb (fun k => mem_str k (native_attrs shape)) (snd (fst arm))
  | None => false end.
Lemma tables_set_native : forallb sets_only_native four_shapes = true.
Proof. vm_compute. reflexivity. Qed.

Section NativeOnly.
Context (N : NumOps) (strp : string -> option (num N)) (fstr fdisplay : num N -> string).

Lemma nodup_line_coord a k v d : NoDup (keys a) -> NoDup (keys (line_coord N strp fstr a k v d)).
Proof.
  intros H. unfold line_coord. destruct (get a k); [|now apply nodup_set].
  destruct d; [|exact H]. destruct (strp s); [now apply nodup_set | exact H].
Qed.

Lemma set_position_attrs_shape_form shape p a bb :
  In shape four_shapes -> to_bbox N p = Some bb -> NoDup (keys a) ->
  exists a', NoDup (keys a') /\
             set_position_attrs N strp fstr fdisplay p shape a = remove_attrs a' (arm_remove shape).
Proof.
  intros Hin Hbb Hnd. unfold set_position_attrs. rewrite Hbb.
  cbn in Hin. destruct Hin as [<-|[<-|[<-|[<-|[]]]]].
  - (* rect *)
    change (arm_of "rect") with "rect". cbn [String.eqb Ascii.eqb Bool.eqb].
    eexists; split; [|reflexivity].
    repeat first [apply nodup_set | match goal with |- context [if ?c then _ else _] => destruct c end]; exact Hnd.
  - change (arm_of "circle") with "circle". cbn [String.eqb Ascii.eqb Bool.eqb].
    destruct (bb_center N bb) as [cx cy].
    eexists; split; [|reflexivity].
    repeat first [apply nodup_set | match goal with |- context [if ?c then _ else _] => destruct c end]; exact Hnd.
  - change (arm_of "ellipse") with "ellipse". cbn [String.eqb Ascii.eqb Bool.eqb].
    destruct (bb_center N bb) as [cx cy].
    eexists; split; [|reflexivity].
    repeat first [apply nodup_set | match goal with |- context [if ?c then _ else _] => destruct c end]; exact Hnd.
  - change (arm_of "line") with "line". cbn [String.eqb Ascii.eqb Bool.eqb].
    eexists; split; [|reflexivity].
    repeat apply nodup_line_coord. exact Hnd.
Qed.

Theorem native_only_gen shape p a bb k :
  In shape four_shapes -> to_bbox N p = Some bb -> NoDup (keys a) ->
  In k geom_vocab -> ~ In k (native_attrs shape) ->
  get (set_position_attrs N strp fstr fdisplay p shape a) k = None.
Proof.
  intros Hin Hbb Hnd Hk Hnat.
  destruct (set_position_attrs_shape_form shape p a bb Hin Hbb Hnd) as (a' & Hnd' & ->).
  apply get_remove_attrs_in; [exact Hnd'|].
  pose proof tables_remove_foreign as T. rewrite forallb_forall in T.
  specialize (T shape Hin). unfold removes_all_foreign in T. rewrite forallb_forall in T.
  specialize (T k Hk). apply orb_true_iff in T. destruct T as [T|T]; apply mem_str_In in T; [contradiction | exact T].
Qed.
End NativeOnly.

(* ---------- shorthand = longhand ---------- *)
From SvgdxModel Require Import Model.Scan Model.Element Proofs.StrP.
Lemma expand_one_two a k k1 k2 x sep y :
  get a k = Some (x ++ sep ++ y) -> plain x -> sepstr sep -> token y ->
  expand_one a (k, (k1, k2)) = set_first (set_first (pop a k) k1 x) k2 y.
Proof. intros Hg Hx Hs Hy. unfold expand_one. rewrite Hg, split_compound_two by assumption. reflexivity. Qed.
Lemma expand_one_one a k k1 k2 x :
  get a k = Some x -> plain x ->
  expand_one a (k, (k1, k2)) = set_first (set_first (pop a k) k1 x) k2 x.
Proof. intros Hg Hx. unfold expand_one. rewrite Hg, split_compound_one by assumption. reflexivity. Qed.
Lemma expand_one_absent a row : get a (fst row) = None -> expand_one a row = a.
Proof. destruct row as [k [k1 k2]]. cbn. intros ->. reflexivity. Qed.

(* the shorthand vocabulary of the property, with the longhand pair each one must expand to;
   checked against the GENERATED tables *)
Definition shorthand_spec : list (string * (string * string)) :=
  [("cxy", ("cx", "cy")); ("xy1", ("x1", "y1")); ("xy2", ("x2", "y2")); ("dxy", ("dx", "dy"));
   ("wh", ("width", "height")); ("rxy", ("rx", "ry")); ("dwh", ("dw", "dh"))].
Definition row_eqb (r1 r2 : string * (string * string)) : bool :=
  (String.eqb (fst r1) (fst r2) && String.eqb (fst (snd r1)) (fst (snd r2)) && String.eqb (snd (snd r1)) (snd (snd r2)))%bool.
Definition tables_have_shorthands : bool :=
  (forallb (fun r => existsb (row_eqb r) (compound_pos ++ compound_size)) shorthand_spec
   && String.eqb (fst xy_loc_default) "x" && String.eqb (snd xy_loc_default) "y")%bool.
Lemma tables_shorthands_ok : tables_have_shorthands = true.
Proof. vm_compute. reflexivity. Qed.
